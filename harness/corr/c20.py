"""C20 - Link URIs select the right driver and parse to the right radio settings.

Tie A: RadioDriver.parse_uri's expressions (prefix test, path split expression, dongle rule, defaults, data-rate table,
address padding/unpack formats, rate_limit key), the scan result format strings, scan_selected's regex, every driver's
WrongUriType guard (regex / startswith text), init_drivers' class list, get_link_driver's try/except shape, open_link's
try/except shape and uri_helper's defaults are re-extracted into Gen/C20.lean.
Tie B: real RadioDriver.parse_uri / scan_interface / scan_selected (fake radio, fake serial-number lookup),
cflib.crtp.get_link_driver over the real driver classes (USB / socket boundary faked), Crazyflie.open_link, Python's
re.search / int() / str.format on the fragments the model implements, vs the Lean model (Driver/C20.lean).
"""
import ast
import contextlib
import io

from harness.lib import extract as X
from harness.lib.common import ExtractError, exc_enum

PID = 'C20'
LEAN_TARGETS = ['CfVerif.Props.C20']
PROPS_MODULES = ['CfVerif.Props.C20']
DRIVER = 'Driver/C20.lean'
REQUIRED_THEOREMS = ['CfVerif.C20.' + t for t in (
    'parse_print', 'short_address_zero_padded', 'parse_print_query_options', 'parse_print_other_options', 'defaults_when_omitted', 'trailing_slash_ignored',
    'defaults_when_omitted_live_counterexample', 'long_address_rejected', 'bad_channel_rejected', 'unknown_dongle_rejected',
    'scan_results_parse_back', 'scan_selected_parse_back', 'one_driver_per_scheme', 'scheme_claimed_by_its_driver', 'init_drivers_lists',
    'get_link_driver_picks', 'radio_uri_connects_with_parsed_settings', 'unknown_or_malformed_gives_connection_failed',
    'malformed_radio_uri_gives_connection_failed', 'open_link_no_escape', 'helper_defaults', 'gen_parsed_path')]
TRUSTED = ['harness/corr/c20.py extractor + correspondence (fakes of Crazyradio, CfUsb, sockets, CPX transports, serial ports)',
           "CPython's urllib.parse / int() / str.format / re / binascii behave as the character-level models on ASCII input (checked by correspondence only)"]
ASSUMPTIONS = ['non-ASCII URIs, netlocs with both [ and ], and %xx escapes >= 0x80 in the query are outside the model (reported as out-of-model, never defaulted)',
               'USE_CFLINK=cpp (native cflinkcpp driver) is outside the model', 'what udp/tcp/prrt drivers do after accepting the scheme is an environment oracle',
               'crazyradio.get_serials() succeeds (USB enumeration works)', 'open_link: callbacks registered by the application do not raise']
RULE = ('cases = well-formed radio URIs built from (dongle index | serial in either case, channel, rate, 1..10 hex digits, trailing slash, query options with +/%xx) '
        'with every prefix of the path fields; a malformed stream (character mutations, 11+ digit / non-hex addresses, bad rates and channels, missing fields, brackets, '
        'other and unknown schemes); scan_interface / scan_selected scripts; regex guard texts x strings; int()/format glue; get_link_driver and open_link over '
        'random class lists and fake worlds; non-trivial = distinct (operation, input)')

RADIO = 'cflib/crtp/radiodriver.py'
DRIVER_FILES = [('RadioDriver', RADIO, 'RadioDriver.parse_uri'), ('UsbDriver', 'cflib/crtp/usbdriver.py', 'UsbDriver.connect'),
                ('SerialDriver', 'cflib/crtp/serialdriver.py', 'SerialDriver.connect'), ('UdpDriver', 'cflib/crtp/udpdriver.py', 'UdpDriver.connect'),
                ('PrrtDriver', 'cflib/crtp/prrtdriver.py', 'PrrtDriver.connect'), ('TcpDriver', 'cflib/crtp/tcpdriver.py', 'TcpDriver.connect')]


# ------------------------------------------------------------------------------------------------------
# Tie A
def _const_str(n, what):
    X.expect(isinstance(n, ast.Constant) and isinstance(n.value, str), '%s: expected a string literal, got %s' % (what, ast.unparse(n)))
    return n.value


def _assign_map(fn):
    """{target text: [value nodes in source order]} for single-target assignments under fn"""
    res = {}
    nodes = sorted((n for n in ast.walk(fn) if isinstance(n, ast.Assign) and len(n.targets) == 1), key=lambda n: (n.lineno, n.col_offset))
    for n in nodes:
        res.setdefault(ast.unparse(n.targets[0]), []).append(n.value)
    return res


def _guard_of_test(test, assigns, uri_name, what):
    """translate the test of `if <test>: raise WrongUriType` into (kind, text): the URI is claimed iff the guard matches"""
    X.expect(isinstance(test, ast.UnaryOp) and isinstance(test.op, ast.Not), '%s: WrongUriType guard is not `not ...`: %s' % (what, ast.unparse(test)))
    e = test.operand
    if isinstance(e, ast.Name) and e.id in assigns:
        X.expect(len(assigns[e.id]) == 1, '%s: %s assigned more than once' % (what, e.id))
        e = assigns[e.id][0]
    X.expect(isinstance(e, ast.Call), '%s: unsupported WrongUriType guard %s' % (what, ast.unparse(e)))
    f = ast.unparse(e.func)
    if f == 're.search':
        X.expect(len(e.args) == 2 and not e.keywords and ast.unparse(e.args[1]) == uri_name, '%s: unsupported re.search call %s' % (what, ast.unparse(e)))
        return ('search', _const_str(e.args[0], what))
    if f == uri_name + '.startswith':
        X.expect(len(e.args) == 1 and not e.keywords, '%s: unsupported startswith call' % what)
        return ('startswith', _const_str(e.args[0], what))
    raise ExtractError('%s: unsupported WrongUriType guard %s' % (what, ast.unparse(e)))


def _wrong_uri_guards(fn, what):
    """all `raise WrongUriType(...)` statements of fn must be the sole body of an `if` directly in the function body (no
    enclosing condition): returns the guards in source order and the index of the last guard statement"""
    uri_name = fn.args.args[0].arg if fn.args.args[0].arg != 'self' else fn.args.args[1].arg
    assigns = {k: v for k, v in _assign_map(fn).items()}
    guards = []
    raises = [n for n in ast.walk(fn) if isinstance(n, ast.Raise) and n.exc is not None and 'WrongUriType' in ast.unparse(n.exc)]
    top = []
    for st in fn.body:
        if isinstance(st, ast.If) and len(st.body) == 1 and isinstance(st.body[0], ast.Raise) and st.body[0] in raises and not st.orelse:
            top.append(st)
    X.expect(len(top) == len(raises) and raises, '%s: a raise WrongUriType is not a top-level `if not ...: raise`' % what)
    for st in top:
        guards.append(_guard_of_test(st.test, assigns, uri_name, what))
    return guards


def _lean_pairs(l):
    return '[' + ', '.join('(%s, %s)' % (X.lstr(a), X.lstr(b)) for a, b in l) + ']'


def extract(ctx):
    g = X.GenFile(PID, [RADIO, 'cflib/crtp/__init__.py', 'cflib/crtp/{usb,serial,udp,prrt,tcp}driver.py', 'cflib/crazyflie/__init__.py',
                        'cflib/utils/uri_helper.py', 'cflib/drivers/crazyradio.py'])
    rt = X.parse(RADIO)
    dr = X.class_consts('cflib/drivers/crazyradio.py', 'Crazyradio')

    def dr_value(node, what):
        s = ast.unparse(node)
        name = s.rsplit('.', 1)[-1]
        X.expect(s.endswith('Crazyradio.' + name) and name in dr, '%s: not a Crazyradio data-rate constant: %s' % (what, s))
        return dr[name]

    # ---- driver scheme guards -----------------------------------------------------------------------
    lines = []
    for cls, path, qual in DRIVER_FILES:
        fn = X.find(X.parse(path), qual)
        guards = _wrong_uri_guards(fn, qual)
        lines.append('(%s, %s)' % (X.lstr(cls), _lean_pairs(guards)))
        # the connect method of every driver but the radio must contain its guards itself; RadioDriver.connect calls parse_uri first
    g.raw('def driverGuards : List (String × List (String × String)) := [\n  ' + ',\n  '.join(lines) + ']')
    # SerialDriver: the second regex decides between "Invalid serial URI" and the device lookup
    sm = _assign_map(X.find(X.parse('cflib/crtp/serialdriver.py'), 'SerialDriver.connect'))
    X.expect('uri_data' in sm and len(sm['uri_data']) == 1 and isinstance(sm['uri_data'][0], ast.Call) and ast.unparse(sm['uri_data'][0].func) == 're.search',
             'SerialDriver.connect: uri_data = re.search(...) not found')
    g.string('serialUriRegex', _const_str(sm['uri_data'][0].args[0], 'serial uri regex'))
    g.string('serialDeviceExpr', ast.unparse(sm['device_name'][0]) if 'device_name' in sm else '?')
    um = _assign_map(X.find(X.parse('cflib/crtp/usbdriver.py'), 'UsbDriver.connect'))
    X.expect('self.cfusb' in um, 'UsbDriver.connect: self.cfusb = CfUsb(...) not found')
    g.string('usbOpenExpr', ast.unparse(um['self.cfusb'][0]))
    conn = X.find(rt, 'RadioDriver.connect')
    first = [st for st in conn.body if not (isinstance(st, ast.Expr) and isinstance(st.value, ast.Constant))][0]
    g.string('radioConnectFirst', ast.unparse(first))
    calls = [ast.unparse(n) for n in ast.walk(conn) if isinstance(n, ast.Call) and ast.unparse(n.func).startswith('self._radio.set_')]
    g.strings('radioConnectSets', sorted(calls))

    # ---- init_drivers / get_link_driver ---------------------------------------------------------------
    ct = X.parse('cflib/crtp/__init__.py')
    steps = []

    def class_steps(stmts, cond):
        for st in stmts:
            if isinstance(st, ast.If):
                class_steps(st.body, (cond + ' and ' if cond else '') + ast.unparse(st.test))
                class_steps(st.orelse, (cond + ' and ' if cond else '') + 'not (' + ast.unparse(st.test) + ')')
            elif isinstance(st, ast.Expr) and isinstance(st.value, ast.Call) and ast.unparse(st.value.func) in ('CLASSES.extend', 'CLASSES.append'):
                a = st.value.args[0]
                names = [ast.unparse(e) for e in a.elts] if isinstance(a, ast.List) else [ast.unparse(a)]
                steps.append((cond, names))
            else:
                X.expect('CLASSES' not in ast.unparse(st), 'init_drivers: unsupported statement touching CLASSES: ' + ast.unparse(st)[:80])
    class_steps(X.find(ct, 'init_drivers').body, '')
    X.expect(steps, 'init_drivers: no CLASSES.extend/append found')
    g.raw('def classSteps : List (String × List String) := [' + ', '.join('(%s, %s)' % (X.lstr(c), X.lstrs(n)) for c, n in steps) + ']')
    gl = X.find(ct, 'get_link_driver')
    loops = [n for n in gl.body if isinstance(n, ast.For)]
    X.expect(len(loops) == 1 and ast.unparse(loops[0].iter) == 'CLASSES', 'get_link_driver: expected one `for ... in CLASSES`')
    tries = [n for n in loops[0].body if isinstance(n, ast.Try)]
    X.expect(len(tries) == 1 and len(loops[0].body) == 1 and not tries[0].finalbody and not tries[0].orelse, 'get_link_driver: loop body is not a single try')
    cname = ast.unparse(loops[0].target)
    g.strings('getLinkTry', [ast.unparse(s).replace(cname, 'cls') for s in tries[0].body])
    g.strings('getLinkHandlers', ['%s: %s' % (ast.unparse(h.type) if h.type else '*', '; '.join(ast.unparse(s) for s in h.body)) for h in tries[0].handlers])
    g.strings('getLinkAfterLoop', [ast.unparse(s) for s in gl.body[gl.body.index(loops[0]) + 1:]])

    # ---- parse_uri -------------------------------------------------------------------------------------
    pu = X.find(rt, 'RadioDriver.parse_uri')
    am = _assign_map(pu)

    def single(name):
        X.expect(name in am and len(am[name]) == 1, 'parse_uri: expected exactly one assignment to ' + name)
        return am[name][0]
    g.string('parsedUriExpr', ast.unparse(single('parsed_uri')))
    g.string('parsedQueryExpr', ast.unparse(single('parsed_query')))
    g.string('parsedPathExpr', ast.unparse(single('parsed_path')))
    ifs = [st for st in pu.body if isinstance(st, ast.If)]
    tests = [ast.unparse(st.test) for st in ifs]
    g.strings('parseUriTests', tests)
    # dongle rule
    dif = [st for st in ifs if 'netloc' in ast.unparse(st.test)]
    X.expect(len(dif) == 1, 'parse_uri: expected one `if` on parsed_uri.netloc')
    dif = dif[0]
    cmp_ = [n for n in ast.walk(dif.test) if isinstance(n, ast.Compare)]
    X.expect(len(cmp_) == 1 and isinstance(cmp_[0].ops[0], ast.Lt) and ast.unparse(cmp_[0].left) == 'len(parsed_uri.netloc)', 'parse_uri: dongle length test changed')
    g.nat('netlocLenBound', ast.literal_eval(cmp_[0].comparators[0]))
    devs = [ast.unparse(v) for v in am.get('devid', [])]
    g.strings('devidExprs', devs)
    tr = [n for n in ast.walk(dif) if isinstance(n, ast.Try)]
    X.expect(len(tr) == 1, 'parse_uri: expected one try in the serial branch')
    g.strings('devidHandlers', ['%s: %s' % (ast.unparse(h.type) if h.type else '*', ast.unparse(h.body[0]).split('(')[0]) for h in tr[0].handlers])
    # channel
    X.expect(len(am.get('channel', [])) == 2, 'parse_uri: expected default + parsed assignment of channel')
    g.int('channelDefault', ast.literal_eval(am['channel'][0]))
    g.string('channelExpr', ast.unparse(am['channel'][1]))
    # data rate
    drs = am.get('datarate', [])
    X.expect(len(drs) >= 2, 'parse_uri: datarate assignments not found')
    g.nat('datarateDefault', dr_value(drs[0], 'parse_uri datarate default'))
    table = []
    rif = [st for st in ifs if ast.unparse(st.test) == 'len(parsed_path) > 1']
    X.expect(len(rif) == 1, 'parse_uri: expected `if len(parsed_path) > 1`')
    for st in rif[0].body:
        X.expect(isinstance(st, ast.If) and not st.orelse and len(st.body) == 1 and isinstance(st.test, ast.Compare) and isinstance(st.test.ops[0], ast.Eq)
                 and ast.unparse(st.test.left) == 'parsed_path[1]' and isinstance(st.body[0], ast.Assign) and ast.unparse(st.body[0].targets[0]) == 'datarate',
                 'parse_uri: data-rate table is not a sequence of `if parsed_path[1] == <str>: datarate = <const>`')
        table.append((_const_str(st.test.comparators[0], 'rate'), dr_value(st.body[0].value, 'parse_uri rate')))
    g.raw('def rateTable : List (String × Nat) := [' + ', '.join('(%s, %d)' % (X.lstr(s), v) for s, v in table) + ']')
    # address
    mod_assigns = {ast.unparse(n.targets[0]): n.value for n in rt.body if isinstance(n, ast.Assign) and len(n.targets) == 1}
    ads = am.get('address', [])
    X.expect(len(ads) == 2 and isinstance(ads[0], ast.Name) and ads[0].id in mod_assigns, 'parse_uri: address default is not a module constant')
    g.nats('addressDefault', ast.literal_eval(mod_assigns[ads[0].id]))
    g.string('addressExpr', ast.unparse(ads[1]))
    g.string('newAddrExpr', ast.unparse(single('new_addr')))
    ad = single('addr')
    X.expect(isinstance(ad, ast.Call) and isinstance(ad.func, ast.Attribute) and ad.func.attr == 'format' and len(ad.args) == 1, 'parse_uri: addr = <fmt>.format(x) expected')
    g.string('addrPadFmt', _const_str(ad.func.value, 'addr format'))
    g.string('addrPadArg', ast.unparse(ad.args[0]))
    sc = X.struct_calls(pu)
    X.expect(len(sc) == 1 and sc[0]['fn'] == 'unpack', 'parse_uri: expected one struct.unpack')
    g.string('addrUnpackFmt', sc[0]['fmt'] or '?')
    g.strings('addrUnpackArgs', sc[0]['args'])
    # rate limit
    rl = am.get('rate_limit', [])
    X.expect(len(rl) == 2 and ast.unparse(rl[0]) == 'None', 'parse_uri: rate_limit default/parsed assignments not found')
    qif = [st for st in ifs if 'parsed_query' in ast.unparse(st.test)]
    X.expect(len(qif) == 1 and isinstance(qif[0].test, ast.Compare) and isinstance(qif[0].test.ops[0], ast.In), 'parse_uri: `<key> in parsed_query` not found')
    key = _const_str(qif[0].test.left, 'rate_limit key')
    g.string('rateLimitKey', key)
    g.string('rateLimitExpr', ast.unparse(rl[1]))
    rets = [n for n in ast.walk(pu) if isinstance(n, ast.Return)]
    X.expect(len(rets) == 1, 'parse_uri: expected one return')
    g.string('parseUriReturn', ast.unparse(rets[0].value))

    # ---- scan_interface -----------------------------------------------------------------------------------
    si = X.find(rt, 'RadioDriver.scan_interface')
    g.nat('defaultAddrInt', ast.literal_eval(mod_assigns['DEFAULT_ADDR']))
    plain_if = [st for st in si.body if isinstance(st, ast.If) and 'DEFAULT_ADDR' in ast.unparse(st.test)]
    X.expect(len(plain_if) == 1, 'scan_interface: expected one `if address is None or address == DEFAULT_ADDR`')
    g.string('scanPlainTest', ast.unparse(plain_if[0].test))
    # data rate in force before the if
    pre = [n for st in si.body[:si.body.index(plain_if[0])] for n in ast.walk(st) if isinstance(n, ast.Call) and ast.unparse(n.func) == 'self._radio.set_data_rate']
    X.expect(pre, 'scan_interface: no set_data_rate before the scans')
    start_rate = dr_value(pre[-1].args[0], 'scan_interface')

    def scan_branch(stmts, what):
        rate, out = start_rate, []
        for st in stmts:
            calls = [n for n in ast.walk(st) if isinstance(n, ast.Call)]
            sets = [n for n in calls if ast.unparse(n.func) == 'self._radio.set_data_rate']
            if sets:
                rate = dr_value(sets[0].args[0], what)
                continue
            X.expect(isinstance(st, ast.AugAssign) and ast.unparse(st.target) == 'found' and isinstance(st.value, ast.ListComp), what + ': unexpected statement ' + ast.unparse(st)[:60])
            lc = st.value
            X.expect(len(lc.generators) == 1 and not lc.generators[0].ifs and ast.unparse(lc.generators[0].iter) == 'self._scan_radio_channels(self._radio)',
                     what + ': comprehension does not iterate the scanned channels')
            cvar = ast.unparse(lc.generators[0].target)
            X.expect(isinstance(lc.elt, ast.List) and len(lc.elt.elts) == 2, what + ': element is not [uri, comment]')
            f = lc.elt.elts[0]
            X.expect(isinstance(f, ast.Call) and isinstance(f.func, ast.Attribute) and f.func.attr == 'format', what + ': uri is not <fmt>.format(...)')
            out.append((rate, _const_str(f.func.value, what), [('chan' if ast.unparse(a) == cvar else ast.unparse(a)) for a in f.args]))
        return out
    for nm, stmts in (('scanPlain', plain_if[0].body), ('scanAddressed', plain_if[0].orelse)):
        br = scan_branch(stmts, 'scan_interface ' + nm)
        g.raw('def %s : List (Nat × String × List String) := [%s]' % (nm, ', '.join('(%d, %s, %s)' % (r, X.lstr(f), X.lstrs(a)) for r, f, a in br)))
    sam = _assign_map(si)
    X.expect('addr' in sam and len(sam['addr']) == 1, 'scan_interface: addr = <fmt>.format(address) not found')
    ad = sam['addr'][0]
    X.expect(isinstance(ad, ast.Call) and isinstance(ad.func, ast.Attribute) and ad.func.attr == 'format' and len(ad.args) == 1, 'scan_interface: addr = <fmt>.format(x) expected')
    g.string('scanAddrPadFmt', _const_str(ad.func.value, 'scan addr format'))
    g.string('scanAddrPadArg', ast.unparse(ad.args[0]))
    X.expect('new_addr' in sam and len(sam['new_addr']) == 1, 'scan_interface: new_addr = ... not found')
    g.string('scanNewAddrExpr', ast.unparse(sam['new_addr'][0]))
    g.strings('scanSetAddressCalls', [ast.unparse(n) for n in ast.walk(si) if isinstance(n, ast.Call) and ast.unparse(n.func) == 'self._radio.set_address'])
    sc = X.struct_calls(si)
    X.expect(len(sc) == 1 and sc[0]['fn'] == 'unpack', 'scan_interface: expected one struct.unpack')
    g.string('scanAddrUnpackFmt', sc[0]['fmt'] or '?')
    g.strings('scanAddrUnpackArgs', sc[0]['args'])

    # ---- scan_selected ------------------------------------------------------------------------------------
    ss = X.find(rt, 'RadioDriver.scan_selected')
    ssm = _assign_map(ss)
    X.expect('uri_data' in ssm and len(ssm['uri_data']) == 1, 'scan_selected: uri_data = re.search(...) not found')
    ud = ssm['uri_data'][0]
    X.expect(isinstance(ud, ast.Call) and ast.unparse(ud.func) == 're.search' and len(ud.args) == 2, 'scan_selected: uri_data is not re.search(pattern, link)')
    g.string('scanSelRegex', _const_str(ud.args[0], 'scan_selected regex'))
    g.string('scanSelChannelExpr', ast.unparse(ssm["one_to_scan['channel']"][0]))
    loops = [st for st in ss.body if isinstance(st, ast.For)]
    X.expect(len(loops) == 2, 'scan_selected: expected two loops')
    t1, t2 = [], []
    for st in loops[0].body:
        if isinstance(st, ast.If):
            X.expect(isinstance(st.test, ast.Compare) and isinstance(st.test.ops[0], ast.Eq) and not st.orelse, 'scan_selected: unexpected if')
            t1.append((ast.unparse(st.test.left), _const_str(st.test.comparators[0], 'scan_selected'), dr_value(st.body[0].value, 'scan_selected')))
    g.raw('def scanSelRateTable : List (String × String × Nat) := [' + ', '.join('(%s, %s, %d)' % (X.lstr(a), X.lstr(b), c) for a, b, c in t1) + ']')
    g.nat('scanSelRateDefault', dr_value(ssm['datarate'][0], 'scan_selected'))
    for st in loops[1].body:
        if isinstance(st, ast.If):
            X.expect(isinstance(st.test, ast.Compare) and isinstance(st.test.ops[0], ast.Eq) and not st.orelse, 'scan_selected: unexpected if')
            t2.append((dr_value(st.test.comparators[0], 'scan_selected'), _const_str(st.body[0].value, 'dr_string')))
    g.raw('def scanSelNameTable : List (Nat × String) := [' + ', '.join('(%d, %s)' % (a, X.lstr(b)) for a, b in t2) + ']')
    g.string('scanSelNameDefault', _const_str(ssm['dr_string'][0], 'dr_string default'))
    fm = [n for n in ast.walk(loops[1]) if isinstance(n, ast.Call) and isinstance(n.func, ast.Attribute) and n.func.attr == 'format']
    X.expect(len(fm) == 1, 'scan_selected: expected one format call in the result loop')
    g.string('scanSelFmt', _const_str(fm[0].func.value, 'scan_selected format'))
    g.strings('scanSelFmtArgs', [ast.unparse(a) for a in fm[0].args])

    # ---- Crazyflie.open_link -----------------------------------------------------------------------------
    ol = X.find(X.parse('cflib/crazyflie/__init__.py'), 'Crazyflie.open_link')
    body = [st for st in ol.body if not (isinstance(st, ast.Expr) and isinstance(st.value, ast.Constant))]
    tries = [st for st in body if isinstance(st, ast.Try)]
    X.expect(len(tries) == 1 and body[-1] is tries[0] and not tries[0].finalbody and not tries[0].orelse, 'open_link: expected a single trailing try/except')
    t = tries[0]
    g.strings('openLinkBefore', [ast.unparse(s) for s in body[:-1]])
    g.strings('openLinkHandlerTypes', [ast.unparse(h.type) if h.type else '*' for h in t.handlers])
    X.expect(isinstance(t.body[0], ast.Assign), 'open_link: try does not start with self.link = ...')
    g.string('openLinkAssign', ast.unparse(t.body[0]).replace('\n', ' '))
    X.expect(len(t.body) == 2 and isinstance(t.body[1], ast.If), 'open_link: try body is not `self.link = ...; if not self.link: ... else: ...`')
    g.string('openLinkNoDriverTest', ast.unparse(t.body[1].test))

    def calls_in(stmts):
        res = []
        for st in stmts:
            for n in ast.walk(st):
                if isinstance(n, ast.Call) and ast.unparse(n.func).startswith('self.') and not ast.unparse(n.func).startswith('self.link_statistics'):
                    res.append((n.lineno, n.col_offset, ast.unparse(n)))
        return [s for _, _, s in sorted(res)]
    g.strings('openLinkNoDriverCalls', calls_in(t.body[1].body))
    g.strings('openLinkHandlerCalls', calls_in(t.handlers[0].body))
    msg = [n for n in ast.walk(t.body[1]) if isinstance(n, ast.Assign) and ast.unparse(n.targets[0]) == 'message']
    X.expect(len(msg) == 1, 'open_link: message = ... not found')
    g.string('openLinkNoDriverMsg', ast.unparse(msg[0].value))

    # ---- uri_helper ---------------------------------------------------------------------------------------
    uh = X.parse('cflib/utils/uri_helper.py')
    f1, f2 = X.find(uh, 'uri_from_env'), X.find(uh, 'address_from_env')
    g.string('helperEnvName', _const_str(f1.args.defaults[0], 'uri_from_env env'))
    g.string('helperDefaultUri', _const_str(f1.args.defaults[1], 'uri_from_env default'))
    g.string('helperAddrEnvName', _const_str(f2.args.defaults[0], 'address_from_env env'))
    g.nat('helperDefaultAddr', ast.literal_eval(f2.args.defaults[1]))
    hm = _assign_map(f2)
    g.string('helperAddressExpr', ast.unparse(hm['address'][0]))
    rets = [ast.unparse(n.value) for n in sorted((n for n in ast.walk(f2) if isinstance(n, ast.Return)), key=lambda n: n.lineno)]
    g.strings('helperAddressReturns', rets)
    return {'C20.lean': g.render()}


# ------------------------------------------------------------------------------------------------------
# real-code drivers (Tie B)
def enc(s):
    return '.'.join(str(ord(c)) for c in s) if s else '-'


def dec(w):
    return '' if w == '-' else ''.join(chr(int(x)) for x in w.split('.'))


def encs(l):
    return ';'.join(enc(s) for s in l) if l else '@'


def err_name(e):
    from cflib.crtp.exceptions import WrongUriType
    if isinstance(e, WrongUriType):
        return 'wrong_uri'
    return exc_enum(e)


def _quiet():
    import logging
    logging.disable(logging.CRITICAL)


class patched:
    """set attributes for the duration of a `with`, always restore"""

    def __init__(self, *triples):
        self.triples = triples
        self.saved = []

    def __enter__(self):
        for obj, name, val in self.triples:
            self.saved.append((obj, name, getattr(obj, name)))
            setattr(obj, name, val)
        return self

    def __exit__(self, *a):
        for obj, name, val in reversed(self.saved):
            setattr(obj, name, val)


def show_radio(t):
    devid, channel, datarate, address, rate_limit = t
    return '%d %d %d %s %s' % (devid, channel, datarate, ','.join(str(int(b)) for b in address), 'none' if rate_limit is None else str(rate_limit))


def real_parse(serials, uri):
    _quiet()
    import cflib.drivers.crazyradio as cr
    from cflib.crtp.radiodriver import RadioDriver
    with patched((cr, 'get_serials', lambda: tuple(serials))):
        try:
            return 'ok ' + show_radio(RadioDriver.parse_uri(uri))
        except Exception as e:
            return 'err ' + err_name(e)


class FakeScanRadio:
    """stands for the _SharedRadioInstance during scan_interface / scan_selected"""
    version = 0.53

    def __init__(self, found=(), acks=()):
        self.found = [tuple(f) for f in found]
        self.acks = list(acks)
        self.rate = None
        self.address = None
        self.passes = []     # data rate in force at each scan_channels call

    def set_address(self, a):
        self.address = tuple(a)

    def set_arc(self, n):
        pass

    def set_data_rate(self, dr):
        self.rate = dr

    def set_channel(self, c):
        pass

    def scan_channels(self, start, stop, packet):
        self.passes.append(self.rate)
        return self.found.pop(0) if self.found else ()

    def scan_selected(self, selected, packet):
        return tuple(s for s, a in zip(selected, self.acks) if a)

    def close(self):
        pass


def real_scan(address, found):
    """-> (reply line for `scan`, address programmed into the radio or None)"""
    _quiet()
    import cflib.drivers.crazyradio as cr
    from cflib.crtp.radiodriver import RadioDriver
    d = RadioDriver()
    fake = FakeScanRadio(found=found)
    d._radio = fake
    lens = [len(f) for f in found]
    with patched((cr, 'get_serials', lambda: ('FAKE',))), contextlib.redirect_stdout(io.StringIO()):
        try:
            res = d.scan_interface(address)
        except Exception as e:
            return 'err ' + err_name(e), fake.address
    uris = [r[0] for r in res]
    out, i = [], 0
    for k, rate in enumerate(fake.passes):
        n = lens[k] if k < len(lens) else 0
        out.append('%d:%s' % (rate, encs(uris[i:i + n])))
        i += n
    if i != len(uris) or any(r[1] != '' for r in res):
        return 'ok MISMATCH ' + repr(res)[:200], fake.address
    return 'ok ' + (' '.join(out) if out else '-'), fake.address


def real_scansel(links, acks):
    _quiet()
    from cflib.crtp.radiodriver import RadioDriver
    d = RadioDriver()
    d._radio = FakeScanRadio(acks=acks)
    try:
        return 'ok ' + encs(list(d.scan_selected(links)))
    except Exception as e:
        return 'err ' + err_name(e)


# ---- fakes at the USB / socket boundary -----------------------------------------------------------------
class _Ack:
    ack = True
    powerDet = False
    retry = 0
    data = ()


class Boundary:
    """One fake outside world: which dongles / USB Crazyflies / serial ports exist, whether sockets connect,
    whether traffic after the connect raises (setup) and whether closing raises."""

    def __init__(self, serials=(), radios=(), usbs=(), devices=(), other_ok=True, setup_raises=False, close_raises=False):
        import threading
        self.serials, self.radios, self.usbs, self.devices = tuple(serials), set(radios), set(usbs), tuple(devices)
        self.other_ok, self.setup_raises, self.close_raises = other_ok, setup_raises, close_raises
        self.first_send = threading.Event()
        self.radio_settings = None
        b = self

        class FakeCrazyradio:
            def __init__(self, device=None, devid=0, serial=None):
                if devid not in b.radios:
                    raise Exception('Cannot find a Crazyradio Dongle')
                self.version = 0.53
                self.ch = self.addr = self.dr = None

            def set_channel(self, c):
                self.ch = c

            def set_address(self, a):
                if len(a) != 5:
                    raise Exception('Crazyradio: the radio address shall be 5 bytes long')
                self.addr = tuple(a)

            def set_data_rate(self, d):
                self.dr = d

            def set_arc(self, n):
                pass

            def send_packet(self, data):
                if b.radio_settings is None:
                    b.radio_settings = (self.ch, self.dr, self.addr)
                    b.first_send.set()
                else:
                    threading.Event().wait(0.002)     # throttle the polling thread (no synchronisation depends on it)
                return _Ack()

            def close(self):
                raise SystemExit      # ends the (otherwise immortal) shared-radio thread of this case

        class FakeCfUsb:
            def __init__(self, device=None, devid=0):
                self.dev = object() if devid in b.usbs else None
                self.version = 0.0

            def set_crtp_to_usb(self, on):
                pass

            def receive_packet(self):
                threading.Event().wait(0.002)
                return ()

            def send_packet(self, data):
                if b.setup_raises:
                    raise Exception('usb write failed')

            def close(self):
                pass

        class FakeSock:
            def __init__(self, *a):
                pass

            def connect(self, addr):
                if not b.other_ok:
                    raise OSError('connect failed')

            def recvfrom(self, n):
                threading.Event().wait()          # nothing ever arrives (the reader is a daemon thread)

            def sendto(self, data, addr):
                if data == '\xFF\x01\x02\x02'.encode():
                    if b.close_raises:
                        raise OSError('close failed')
                elif data != '\xFF\x01\x01\x01'.encode() and b.setup_raises:
                    raise OSError('send failed')

        class FakeTransport:
            def __init__(self, *a):
                if not b.other_ok:
                    raise OSError('connect failed')

        class FakeCPX:
            def __init__(self, transport):
                pass

            def receivePacket(self, fn, timeout=None):
                import queue
                threading.Event().wait(0.002)
                raise queue.Empty()

            def sendPacket(self, p):
                pass

            def close(self):
                pass
        import cflib.drivers.crazyradio as _cr
        for nm in dir(_cr.Crazyradio):
            if nm.isupper():            # the configuration constants (DR_*, P_*) are the real ones
                setattr(FakeCrazyradio, nm, getattr(_cr.Crazyradio, nm))
        self.FakeCrazyradio, self.FakeCfUsb, self.FakeSock, self.FakeTransport, self.FakeCPX = FakeCrazyradio, FakeCfUsb, FakeSock, FakeTransport, FakeCPX

    def patches(self):
        import types
        import cflib.drivers.crazyradio as cr
        import cflib.crtp.radiodriver as rd
        import cflib.crtp.usbdriver as ud
        import cflib.crtp.udpdriver as udp
        import cflib.crtp.tcpdriver as tcp
        import cflib.crtp.serialdriver as ser
        import socket as realsock
        b = self
        fsock = types.SimpleNamespace(socket=self.FakeSock, AF_INET=realsock.AF_INET, SOCK_DGRAM=realsock.SOCK_DGRAM)
        rd.RadioManager._radios = []
        return patched((cr, 'get_serials', lambda: b.serials), (rd, 'Crazyradio', self.FakeCrazyradio), (ud, 'CfUsb', self.FakeCfUsb),
                       (udp, 'socket', fsock), (tcp, 'SocketTransport', self.FakeTransport), (tcp, 'CPX', self.FakeCPX),
                       (ser, 'UARTTransport', self.FakeTransport), (ser, 'CPX', self.FakeCPX),
                       (ser.SerialDriver, 'get_devices', lambda self_: {n: '/dev/' + n for n in b.devices}))


# what happens after these drivers accepted the scheme (host/port parsing, sockets, the prrt module) is not modelled:
# their result is compared up to 'this driver took the URI'
UNMODELLED_TRANSPORT = ('UdpDriver', 'TcpDriver', 'PrrtDriver')


def class_of(name):
    import cflib.crtp as crtp
    return getattr(crtp, name)


def real_claims(uri):
    """which driver classes do not answer WrongUriType (nothing exists in this world, so nothing connects)"""
    _quiet()
    b = Boundary(other_ok=False)
    res = []
    from cflib.crtp.exceptions import WrongUriType
    with b.patches(), contextlib.redirect_stdout(io.StringIO()):
        for cls, _, _ in DRIVER_FILES:
            try:
                class_of(cls)().connect(uri, None, None)
                res.append(cls + '!')          # cannot happen: the world is empty
            except WrongUriType:
                pass
            except Exception:
                res.append(cls)
    return 'ok ' + (','.join(res) if res else '-')


def _close_quietly(link):
    with contextlib.redirect_stdout(io.StringIO()):
        try:
            link.close()
        except Exception:
            pass


def real_driver(cls_names, b, uri, canon=True):
    """cflib.crtp.get_link_driver over CLASSES = cls_names in the world b"""
    _quiet()
    import cflib.crtp as crtp
    classes = [class_of(n) for n in cls_names]
    trace = []

    def tracing(c, orig):
        def connect(self_, *a):
            trace.append(c.__name__)
            return orig(self_, *a)
        return connect
    with b.patches(), patched((crtp, 'CLASSES', classes), *[(c, 'connect', tracing(c, c.connect)) for c in dict.fromkeys(classes)]), contextlib.redirect_stdout(io.StringIO()):
        try:
            link = crtp.get_link_driver(uri, None, None)
        except Exception as e:
            if canon and trace[-1] in UNMODELLED_TRANSPORT:
                return 'took ' + trace[-1]
            return 'raised ' + err_name(e)
        if link is None:
            return 'none'
        name = type(link).__name__
        if canon and name in UNMODELLED_TRANSPORT:
            _close_quietly(link)
            return 'took ' + name
        out = 'ok ' + name
        if name == 'RadioDriver':
            if not b.first_send.wait(20):
                out += ' NO-PACKET-SENT'
            else:
                ch, dr, addr = b.radio_settings
                devid = [i for i, r in enumerate(__import__('cflib.crtp.radiodriver', fromlist=['x']).RadioManager._radios) if r is not None]
                out += ' %d %d %d %s %s' % (devid[0] if len(devid) == 1 else -1, ch, dr, ','.join(map(str, addr)), 'none' if link.rate_limit is None else str(link.rate_limit))
        _close_quietly(link)
        return out


class _PrevLink:
    """a link left open by an earlier open_link"""
    needs_resending = False

    def __init__(self, b, ev):
        self.b, self.ev = b, ev

    def close(self):
        self.ev.append('closed')
        if self.b.close_raises:
            raise OSError('close failed')

    def send_packet(self, pk):
        return True

    def receive_packet(self, wait=0):
        return None


def real_open(cls_names, b, prev, uri):
    """Crazyflie.open_link in the world b: the callbacks fired (and link.close() calls made) before open_link returns,
    any escaping exception, cf.link afterwards"""
    _quiet()
    import cflib.crtp as crtp
    from cflib.crazyflie import Crazyflie
    ev = []
    classes = [class_of(n) for n in cls_names]

    def closing(orig):
        def close(self_):
            ev.append('closed')
            if b.close_raises and type(self_).__name__ != 'UdpDriver':     # the fake UDP socket raises by itself
                raise OSError('close failed')
            return orig(self_)
        return close
    close_patches = [(c, 'close', closing(c.close)) for c in dict.fromkeys(classes)]
    with b.patches(), patched((crtp, 'CLASSES', classes), *close_patches), contextlib.redirect_stdout(io.StringIO()):
        cf = Crazyflie(rw_cache=None)
        pl = None
        if prev:
            pl = _PrevLink(b, ev)
            cf.link = pl
        cf.connection_requested.add_callback(lambda u: ev.append('requested:' + enc(u)))
        cf.connection_failed.add_callback(lambda u, m: ev.append(('failed-nodriver:' if m.startswith('No driver found or malformed URI') else
                                                                  'failed-exception:' if m.startswith("Couldn't load link driver") else 'failed-other:') + enc(u)))
        for nm in ('connection_lost', 'disconnected', 'connected', 'link_established', 'fully_connected', 'disconnected_link_error'):
            getattr(cf, nm).add_callback(lambda *a, nm=nm: ev.append('unexpected-' + nm))
        orig = cf._start_connection_setup
        cf._start_connection_setup = lambda: (ev.append('setup'), orig())[1]
        escaped = 'none'
        try:
            cf.open_link(uri)
        except Exception as e:
            escaped = err_name(e)
        events = list(ev)
        link = cf.link
        after = 'none' if link is None else ('previous' if link is pl else type(link).__name__)
        # cleanup (not observed)
        for t in list(cf._answer_patterns.values()):
            try:
                t.cancel()
            except Exception:
                pass
        cf._answer_patterns = {}
        cf.link = None
        if link is not None and link is not pl:
            b.close_raises = False
            _close_quietly(link)
        return 'ok %s escaped=%s link=%s' % (','.join(events), escaped, after)


def real_helper(envval):
    import os
    import contextlib as cl
    import cflib.utils.uri_helper as uh
    old = os.environ.get('CFLIB_URI')
    try:
        if envval is None:
            os.environ.pop('CFLIB_URI', None)
        else:
            os.environ['CFLIB_URI'] = envval
        with cl.redirect_stderr(io.StringIO()):
            u = uh.uri_from_env()
            a = uh.address_from_env()
        return 'ok %s %s' % (enc(u), 'none' if a is None else str(a))
    except Exception as e:
        return 'err ' + err_name(e)
    finally:
        if old is None:
            os.environ.pop('CFLIB_URI', None)
        else:
            os.environ['CFLIB_URI'] = old


# ------------------------------------------------------------------------------------------------------
# generators
RATES = ['250K', '1M', '2M']
HEX = '0123456789abcdefABCDEF'
SERIAL_POOL = ['E7E7E7E7E7', 'ABCDEF0123', '0123456789', '1234567890AB', 'DEADBEEF01', '9999999999', 'A', '']
NOISE = list('/?#&=%+_- \t\n\r\x0b[]:@.xX0129aAfFgGzKM;') + ['٣', 'é', '\x00', '\x1c', '℀']
ALL_CLASSES = [c for c, _, _ in DRIVER_FILES]
BASE_LISTS = [['RadioDriver', 'UsbDriver', 'UdpDriver', 'PrrtDriver', 'TcpDriver'],
              ['RadioDriver', 'UsbDriver', 'SerialDriver', 'UdpDriver', 'PrrtDriver', 'TcpDriver']]


def g_dongle(rng, serials):
    r = rng.random()
    if r < 0.55:
        return str(rng.choice([0, 0, 1, 2, 3, 9, 10, 99, rng.randrange(10 ** 9), 999999999]))
    if r < 0.65:
        return '0' * rng.randrange(1, 6) + str(rng.randrange(1000))          # leading zeros, still < 10 characters
    if r < 0.9 and serials:
        s = rng.choice(serials)
        return ''.join(rng.choice([c.lower(), c.upper()]) for c in s)
    return rng.choice(['0123456789', '1234567890', 'FFFFFFFFFF', 'e7e7e7e7e8', '00000000000'])


def g_addr(rng):
    n = rng.choice([1, 2, 3, 5, 9, 10, 10, 10, rng.randrange(1, 11)])
    return ''.join(rng.choice(HEX) for _ in range(n))


def g_query(rng):
    """-> query text (without '?') with a rate_limit most of the time"""
    parts = []
    for _ in range(rng.choice([0, 0, 1, 2])):
        parts.append(rng.choice(['a=b', 'x=1', 'foo=bar+baz', 'safelink=0', 'k', 'k=', '=v', 'rate_limi=3', 'RATE_LIMIT=9', 'a%20b=c']))
    if rng.random() < 0.8:
        v = str(rng.choice([0, 1, 50, 100, 1000, rng.randrange(10 ** 6)]))
        k = 'rate_limit'
        if rng.random() < 0.15:
            k = rng.choice(['rate%5Flimit', 'rate%5flimit', '%72ate_limit'])
        if rng.random() < 0.1:
            v = ''.join('%%%02X' % ord(c) for c in v)
        if rng.random() < 0.08:
            v = rng.choice(['+', '%20', '']) + v + rng.choice(['+', '%0A', ''])
        parts.insert(rng.randrange(len(parts) + 1), k + '=' + v)
        if rng.random() < 0.15:
            parts.append('rate_limit=' + str(rng.randrange(100)))
    return '&'.join(parts)


def g_wellformed(rng, serials):
    """-> (uri, fields) with fields = number of path fields present (0..3)"""
    nf = rng.choice([0, 1, 2, 3, 3, 3, 3])
    uri = 'radio://' + g_dongle(rng, serials)
    segs = []
    if nf > 0:
        segs.append(str(rng.choice([0, 1, 2, 80, 100, 125, rng.randrange(126)])))
    if nf > 1:
        segs.append(rng.choice(RATES))
    if nf > 2:
        segs.append(g_addr(rng))
    if segs:
        uri += '/' + '/'.join(segs)
    if rng.random() < 0.2:
        uri += '/'
    if rng.random() < 0.4:
        uri += '?' + g_query(rng)
    if rng.random() < 0.05:
        uri += '#' + rng.choice(['', 'frag', 'a/b?c=d'])
    return uri, nf


def g_mutate(rng, uri):
    s = list(uri)
    for _ in range(rng.choice([1, 1, 1, 2, 3])):
        op = rng.random()
        pos = rng.randrange(len(s) + 1)
        if op < 0.4 and s:
            del s[min(pos, len(s) - 1)]
        elif op < 0.8:
            s.insert(pos, rng.choice(NOISE))
        elif s:
            s[min(pos, len(s) - 1)] = rng.choice(NOISE)
    return ''.join(s)


def g_malformed(rng, serials):
    r = rng.random()
    base, _ = g_wellformed(rng, serials)
    if r < 0.4:
        return g_mutate(rng, base)
    if r < 0.55:     # addresses that are too long / not hex
        a = ''.join(rng.choice(HEX) for _ in range(rng.choice([11, 12, 13, 14, 20]))) if rng.random() < 0.7 else rng.choice(['zz', 'E7E7E7E7G7', '0x12', 'e7 e7', '-1', '+1', ''])
        return 'radio://%s/%d/%s/%s' % (g_dongle(rng, serials), rng.randrange(126), rng.choice(RATES), a)
    if r < 0.65:     # bad rates
        return 'radio://0/%d/%s/%s' % (rng.randrange(126), rng.choice(['2m', '3M', '250k', '250', 'M', '1M ', ' 2M', '']), g_addr(rng))
    if r < 0.75:     # bad / exotic channels
        c = rng.choice(['', ' 80', '80 ', '+80', '-1', '8_0', '8__0', '_80', '80_', '0x50', '1e2', '80.0', 'ch', '\x0b80\x0c', '1' * 4300, '1' * 4301, '0' * 4301, '١'])
        return 'radio://0/%s/2M' % c
    if r < 0.85:     # missing fields / empty segments
        return rng.choice(['radio://', 'radio:///', 'radio:///80/2M', 'radio://0//2M', 'radio://0/80//E7', 'radio://0///', 'radio://?rate_limit=1', 'radio://#x',
                           'radio://0/80/2M/', 'radio://0/80/2M//', 'radio://0//', 'radio://0/80/2M/E7E7E7E7E7/extra', 'radio://0?rate_limit=x', 'radio://0/1?rate_limit=',
                           'radio://0/1?rate_limit=1_0', 'radio://0/1?rate_limit=%C2%B2', 'radio://0/1?%ff=1', 'radio://[0/1', 'radio://0]/1', 'radio://[::1]/1', 'radio://[v1.x]/1', 'radio://[zz]/1',
                           'radio://0:80/1', 'radio://user@0/1', 'radio://0/1;p=1/2M', 'radio://0/1%20/2M'])
    return g_other_scheme(rng)


def g_other_scheme(rng):
    n = str(rng.choice([0, 1, 2, 10, 123456]))
    host = rng.choice(['127.0.0.1', '192.168.4.1', 'localhost', 'aideck.local'])
    port = str(rng.choice([5000, 7777, 1, 65535]))
    return rng.choice([
        'usb://' + n, 'usb://' + n + '\n', 'usb://' + n + '\n\n', 'usb://', 'usb://a', 'usb://' + n + '/', 'usb://' + n + ' ', 'usb://-1', 'usb://٣', 'USB://0', 'xusb://0', ' usb://0',
        'udp://' + host + ':' + port, 'udp://', 'udp:/' + host, 'tcp://' + host + ':' + port, 'tcp://' + host + ':' + port + ' extra', 'tcp://', 'tcp:' + host,
        'serial://ttyUSB0', 'serial://cu.usbmodem-14', 'serial://COM3', 'serial://tty USB', 'serial://', 'serial://dev/ttyS0\n', 'serial://ttyACM0?x',
        'prrt://10.0.0.1:5000', 'prrt://10.0.0.1:5000/200', 'prrt://host:1', 'prrt://',
        'radio://0/80/2M', 'Radio://0/80', 'RADIO://0/80/2M', 'radio:/0/80', 'radio//0', ' radio://0/80', 'xradio://0/80', 'radio:', '', 'foo://bar', 'http://example.com/', 'debug://0/0',
        'bogus', 'usbx://0', 'udpx://h:1', 'tcp//h', 'serial:/x', 'radio://0/80\nusb://0', 'usb://0\nradio://0/80', 'tcp://h:1\nudp://h:1'])


def g_scheme_uri(rng):
    """a URI of one of the six known schemes with an arbitrary tail; sometimes the scheme itself is damaged"""
    scheme = rng.choice(['radio', 'usb', 'usb', 'serial', 'udp', 'prrt', 'tcp'])
    tail = ''.join(rng.choice('0123456789' if scheme == 'usb' and rng.random() < 0.7 else '0123456789abcXYZ/.:-_ \n?#') for _ in range(rng.choice([0, 1, 1, 2, 3, 6])))
    if scheme == 'usb' and rng.random() < 0.3:
        tail += rng.choice(['\n', '\n\n', ' ', '/', '\r\n'])
    u = scheme + '://' + tail
    r = rng.random()
    if r < 0.1:
        u = u.replace('://', rng.choice([':/', '//', ':///', '::/', '://'[:2] + ' /']), 1)
    elif r < 0.2:
        u = rng.choice([' ', 'x', '\n', scheme[0]]) + u
    elif r < 0.25:
        u = u.capitalize()
    return u


def g_regex(rng):
    """a pattern in (and sometimes just outside) the supported shape, and strings to try"""
    lits = 'abcxyzUSB019:/-_ ,'
    cls_chars = 'abcdxyzABZ0189/.:_'

    def g_class():
        parts = []
        if rng.random() < 0.2:
            parts.append('-')
        for _ in range(rng.randrange(1, 4)):
            if rng.random() < 0.5:
                lo, hi = sorted(rng.sample('abcdefxyz', 2)) if rng.random() < 0.5 else sorted(rng.sample('0123456789', 2))
                parts.append(lo + '-' + hi)
            else:
                parts.append(rng.choice(cls_chars))
        if rng.random() < 0.1:
            parts.append('-')
        return '[' + ''.join(parts) + ']'
    pat, sample = '^', ''
    for _ in range(rng.randrange(0, 7)):
        r = rng.random()
        if r < 0.55:
            c = rng.choice(lits)
            pat += c
            sample += c
        else:
            import re as _re
            k = g_class()
            members = [ch for ch in (lits + cls_chars + 'efgh234567') if _re.fullmatch(k, ch)]
            m = rng.choice(members) if members else 'a'
            form = rng.random()
            if form < 0.3:
                pat += k
                sample += m
            elif form < 0.65:
                pat += k + '+'
                sample += ''.join(rng.choice(members) for _ in range(rng.randrange(1, 4)))
            else:
                pat += '(' + k + '+)'
                sample += ''.join(rng.choice(members) for _ in range(rng.randrange(1, 4)))
    if rng.random() < 0.5:
        pat += '$'
        if rng.random() < 0.08:
            pat += rng.choice(['\n', 'a'])
    if rng.random() < 0.06:
        pat = rng.choice([pat[1:], pat + '*', pat + '(a|b)', pat.replace('+', '*'), pat + '\\d', pat + '.'])
    strs = [sample, sample + '\n', sample + '\n\n', sample + 'x', sample[:-1], 'x' + sample, sample + rng.choice(lits), g_mutate(rng, sample) if sample else 'q']
    return pat, strs


def g_world(rng, serials):
    return dict(serials=serials, radios=sorted(rng.sample(range(4), rng.choice([0, 1, 2, 4]))), usbs=sorted(rng.sample(range(3), rng.choice([0, 1, 3]))),
                devices=rng.choice([[], ['ttyUSB0'], ['ttyUSB0', 'COM3', 'cu.usbmodem-14', 'dev/ttyS0']]), other_ok=rng.random() < 0.8)


def world_words(w):
    return '%s %s %s %s %d' % (encs(w['serials']), ','.join(map(str, w['radios'])) or '-', ','.join(map(str, w['usbs'])) or '-', encs(w['devices']), 1 if w['other_ok'] else 0)


def norm_link(s):
    """udp / tcp / prrt / serial beyond the device lookup are compared only up to 'this driver took the URI'"""
    return s


def g_connect_uri(rng, w):
    """URIs for the driver / open_link correspondences: small dongle indices so that the radio manager's list stays small"""
    r = rng.random()
    if r < 0.45:
        dong = str(rng.randrange(5)) if rng.random() < 0.7 or not w['serials'] else rng.choice(w['serials']).lower()
        segs = [str(rng.randrange(126)), rng.choice(RATES), g_addr(rng)][:rng.choice([0, 1, 2, 3, 3])]
        u = 'radio://' + dong + ('/' + '/'.join(segs) if segs else '') + rng.choice(['', '', '/', '?rate_limit=%d' % rng.randrange(1, 500)])
        if rng.random() < 0.25:
            u = g_mutate(rng, u)
            if not u.startswith('radio://') or not u[8:9].isdigit() or u[8:18].isdigit():
                pass
        return u
    if r < 0.6:
        return 'usb://' + rng.choice(['0', '1', '2', '3', '00', '1\n', 'x', ''])
    if r < 0.7:
        return 'serial://' + rng.choice(list(w['devices']) + ['nope', 'tty USB', 'ttyUSB0'])
    if r < 0.85:
        return rng.choice(['udp', 'tcp', 'prrt']) + '://' + rng.choice(['127.0.0.1', '192.168.4.1', 'host']) + ':' + str(rng.choice([1, 5000, 65535]))
    return g_other_scheme(rng)


def safe_for_connect(uri):
    """the real RadioManager allocates a list as long as the dongle index: keep indices small in connect-level cases"""
    if not uri.startswith('radio://'):
        return True
    net = uri[8:].replace('\t', '').replace('\r', '').replace('\n', '')
    for d in '/?#':
        net = net.split(d)[0]
    return not (net.isdigit() and len(net) < 10 and int(net) > 50)


def gen_cases(ctx):
    import re
    rng = ctx.rng
    T = ctx.tier == 'thorough'
    cases = []      # (kind, lean line, real thunk, description, non-trivial key)

    def add(kind, line, thunk, desc, key):
        cases.append((kind, line, thunk, desc, key))

    def parse_case(serials, uri, tag):
        add('parse', 'parse %s %s' % (encs(serials), enc(uri)), lambda: real_parse(serials, uri), {'op': 'parse', 'serials': serials, 'uri': uri, 'stream': tag}, ('parse', tuple(serials), uri))
    # ---- corpus (minimised past disagreements / witnesses) runs first --------------------------------------------
    import glob
    import json
    import os
    for f in sorted(glob.glob(os.path.join(os.path.dirname(os.path.dirname(os.path.abspath(__file__))), 'corpus', 'c20', '*.json'))):
        ent = json.load(open(f))
        if ent.get('op') == 'parse':
            for u in ent['uris']:
                parse_case(list(ent.get('serials', [])), u, 'corpus')
        elif ent.get('op') == 'claims':
            for u in ent['uris']:
                add('claims', 'claims ' + enc(u), lambda u=u: real_claims(u), {'op': 'claims', 'uri': u}, ('claims', u))
    # ---- fixed cases ---------------------------------------------------------------------------------------------
    for u in ['radio://0', 'radio://0/', 'radio://0/80', 'radio://0/80/', 'radio://0/80/2M', 'radio://0/80/2M/', 'radio://0/80/250K/E7E7E7E7E7', 'radio://0/80/1M/1',
              'radio://0?rate_limit=100', 'radio://0/?rate_limit=100', 'radio://e7e7e7e7e7/10/1M/abcdef', 'radio://0123456789/1', 'radio://999999999/125/2M/FFFFFFFFFF?rate_limit=0']:
        parse_case(['E7E7E7E7E7', '0123456789'], u, 'fixed')
    # ---- parse_uri: well-formed and malformed streams -----------------------------------------------------------
    for i in range(12000 if T else 3000):
        serials = rng.sample(SERIAL_POOL, rng.choice([0, 1, 2, 4]))
        u, _ = g_wellformed(rng, serials)
        parse_case(serials, u, 'wellformed')
    for i in range(12000 if T else 3000):
        serials = rng.sample(SERIAL_POOL, rng.choice([0, 1, 2, 4]))
        parse_case(serials, g_malformed(rng, serials), 'malformed')
    # exhaustive small space: every (fields present, trailing slash, query) shape x every address length
    for nf in range(4):
        for slash in ('', '/'):
            for q in ('', '?rate_limit=7', '?x=1'):
                for alen in (range(1, 14) if nf == 3 else [0]):
                    segs = ['80', '1M', ''.join(rng.choice(HEX) for _ in range(alen))][:nf]
                    parse_case([], 'radio://1' + ''.join('/' + s for s in segs) + slash + q, 'shapes')
    # ---- scan_interface / scan_selected --------------------------------------------------------------------------
    for i in range(1200 if T else 300):
        r = rng.random()
        address = None if r < 0.2 else 0xE7E7E7E7E7 if r < 0.3 else rng.choice([0, 1, 0xE7E7E7E701, 2 ** 40 - 1, rng.randrange(2 ** 40), rng.randrange(2 ** 16)]) if r < 0.9 \
            else rng.choice([2 ** 40, 2 ** 44, 2 ** 48 - 1, -1, -5])
        found = [sorted(rng.sample(range(126), rng.choice([0, 0, 1, 2, 5]))) for _ in range(3)]
        line = 'scan %s %s' % ('none' if address is None else str(address), ';'.join(','.join(map(str, f)) or '-' for f in found))
        add('scan', line, lambda a=address, f=found: real_scan(a, f)[0], {'op': 'scan_interface', 'address': address, 'found': found}, ('scan', address, repr(found)))
        if address is not None:
            def thunk(a=address):
                res, got = real_scan(a, [[], [], []])
                return res if res.startswith('err') else 'ok ' + ','.join(map(str, got))
            add('scanaddr', 'scanaddr %d' % address, thunk, {'op': 'scan_interface address', 'address': address}, ('scanaddr', address))
    for i in range(1000 if T else 250):
        links = []
        for _ in range(rng.randrange(0, 5)):
            r = rng.random()
            if r < 0.6:
                links.append('radio://%d/%d/%s' % (rng.randrange(3), rng.randrange(126), rng.choice(RATES)))
            elif r < 0.8:
                links.append(rng.choice(['radio://0/80', 'radio://0', 'radio://0/80/2M/E7E7E7E7E7', 'radio://0/80/3M', 'radio://0/80/250', 'radio://0/80/1M2', 'radio://00/080/2M', 'radio://0/', 'usb://0', 'radio://x/1/2M',
                                         'radio://0/1' + '0' * 4300]))
            else:
                links.append(g_mutate(rng, 'radio://0/%d/%s' % (rng.randrange(126), rng.choice(RATES))))
        acks = [rng.random() < 0.6 for _ in links]
        add('scansel', 'scansel %s %s' % (encs(links), ''.join('1' if a else '0' for a in acks) or '-'), lambda l=links, a=acks: real_scansel(l, a),
            {'op': 'scan_selected', 'links': links, 'acks': acks}, ('scansel', tuple(links), tuple(acks)))
    # ---- scheme guards -------------------------------------------------------------------------------------------
    seen = set()
    for i in range(6000 if T else 1500):
        r = rng.random()
        u = g_scheme_uri(rng) if r < 0.5 else g_other_scheme(rng) if r < 0.8 else g_mutate(rng, g_other_scheme(rng))
        if u in seen:
            continue
        seen.add(u)
        add('claims', 'claims ' + enc(u), lambda u=u: real_claims(u), {'op': 'claims', 'uri': u}, ('claims', u))
    import warnings
    for i in range(4000 if T else 800):
        pat, strs = g_regex(rng)
        for s in strs:
            def thunk(p=pat, s=s):
                with warnings.catch_warnings():
                    warnings.simplefilter('ignore')
                    return 'ok %d' % (1 if re.search(p, s) else 0)
            add('rematch', 'rematch %s %s' % (enc(pat), enc(s)), thunk, {'op': 're.search', 'pattern': pat, 'string': s}, ('rematch', pat, s))
    # ---- glue: int(), int(,16), str.format ------------------------------------------------------------------------
    ints = ['5', ' 5 ', '+5', '-5', '+ 5', '1_0', '1__0', '_1', '1_', '007', '', ' ', '\x0b5\x0c', '\x1c5', '5\x00', '0x10', '1' * 4300, '1' * 4301, '0' * 4301, '1_' * 4300 + '1', '-' + '1' * 4300,
            '+' + '1' * 4301, '--1', '+-1', '1 2', '\t12\n', '12a', 'a', '-', '+', '_', '1_2_3', '0_0', '-0', '00', ' +7_7 ']
    for s in ints + [g_mutate(rng, str(rng.randrange(10 ** rng.randrange(1, 8)))) for _ in range(300 if T else 80)]:
        if all(ord(c) < 128 for c in s):
            add('int', 'int ' + enc(s), lambda s=s: _real_int(s, None), {'op': 'int', 's': s[:40]}, ('int', s))
    hexs_ = ['ff', '0xff', '0XFf', '0x_ff', '_ff', 'f_f', ' ff ', '+0xff', '-ff', '0x', 'x1', '0b1', '0o7', '0', '00x1', '0x0x1', '0x-1', '-0x1', '0x__1', 'g', 'E7E7E7E7E7', 'e7?rate_limit=1', '', '0_x1', '0x1_', '0X', '0x_', '_0x1']
    for s in hexs_ + [g_mutate(rng, rng.choice(['0x', '']) + '%x' % rng.randrange(16 ** rng.randrange(1, 11))) for _ in range(300 if T else 80)]:
        if all(ord(c) < 128 for c in s):
            add('inthex', 'inthex ' + enc(s), lambda s=s: _real_int(s, 16), {'op': 'int16', 's': s[:40]}, ('inthex', s))
    fmts = ['{}', '{:X}', '{:x}', '{:d}', '{:s}', '{:0>10}', '{:0>10X}', '{:*<7}', '{:>5X}', '{:3}', '{:<3}', '{:>>4}', '{:<<4}', 'radio://0/{}/250K', 'radio://0/{}/2M/{:X}', 'a{}b{}c', '{:05}', '{:^5}', '{0}', '{', '}', '{{}}', '{:10s}', '{:2x}',
            '{:q}', '{:}', '{:0>1}']
    for f in fmts:
        for _ in range(6 if T else 3):
            args = []
            for _k in range(2):
                args.append(rng.choice([0, 1, 255, -1, -255, 0xE7E7E7E7E7, rng.randrange(2 ** 40), 10 ** 12]) if rng.random() < 0.6 else rng.choice(['', 'E7', 'abc', '0123456789ab', 'x y']))
            words = ' '.join(('i%d' % a) if isinstance(a, int) else 's' + enc(a) for a in args)
            add('format', 'format %s %s' % (enc(f), words), lambda f=f, a=tuple(args): _real_format(f, a), {'op': 'format', 'fmt': f, 'args': list(args)}, ('format', f, tuple(args)))
    # ---- init_drivers -----------------------------------------------------------------------------------------------------
    for serial in (0, 1):
        add('initdrivers', 'initdrivers %d' % serial, lambda s=serial: _real_init(bool(s)), {'op': 'init_drivers', 'serial': serial}, ('init', serial))
    # ---- get_link_driver --------------------------------------------------------------------------------------------------
    for i in range(2500 if T else 600):
        serials = rng.sample(SERIAL_POOL[:6], rng.choice([0, 1, 2]))
        w = g_world(rng, serials)
        u = g_connect_uri(rng, w)
        if not safe_for_connect(u):
            continue
        r = rng.random()
        cls = list(rng.choice(BASE_LISTS)) if r < 0.6 else rng.sample(ALL_CLASSES, rng.randrange(2, 7)) if r < 0.9 else [rng.choice(ALL_CLASSES) for _ in range(rng.randrange(1, 8))]
        line = 'driver %s %s %s' % (','.join(cls) or '@', world_words(w), enc(u))
        add('driver', line, lambda c=cls, w=w, u=u: real_driver(c, Boundary(**w), u), {'op': 'get_link_driver', 'classes': cls, 'world': w, 'uri': u}, ('driver', tuple(cls), repr(w), u))
    # ---- open_link ----------------------------------------------------------------------------------------------------------
    for i in range(900 if T else 300):
        serials = rng.sample(SERIAL_POOL[:6], rng.choice([0, 1]))
        w = g_world(rng, serials)
        r = rng.random()
        u = g_connect_uri(rng, w) if r < 0.5 else g_malformed(rng, serials) if r < 0.8 else g_other_scheme(rng)
        if not safe_for_connect(u):
            continue
        if u.startswith(('tcp://', 'udp://')) and not re.fullmatch(r'(tcp|udp)://[A-Za-z0-9.]+:[0-9]{1,5}', u):
            continue      # host/port parsing of these drivers is not modelled: only plain host:port URIs at this level
        cls = list(rng.choice(BASE_LISTS)) if rng.random() < 0.7 else rng.sample(ALL_CLASSES, rng.randrange(0, 7))
        prev = rng.random() < 0.25
        setup_raises = rng.random() < 0.5 and (u.startswith('usb://') or u.startswith('udp://'))
        close_raises = rng.random() < 0.3
        line = 'open %s %s %d %d %d %s' % (','.join(cls) or '@', world_words(w), prev, setup_raises, close_raises, enc(u))
        add('open', line, lambda c=cls, w=w, p=prev, sr=setup_raises, cr=close_raises, u=u: real_open(c, Boundary(setup_raises=sr, close_raises=cr, **w), p, u),
            {'op': 'open_link', 'classes': cls, 'world': w, 'prev': prev, 'setup_raises': setup_raises, 'close_raises': close_raises, 'uri': u}, ('open', tuple(cls), repr(w), prev, setup_raises, close_raises, u))
    # ---- uri_helper ---------------------------------------------------------------------------------------------------------
    add('helper', 'helper none', lambda: real_helper(None), {'op': 'uri_helper', 'env': None}, ('helper', None))
    for i in range(200 if T else 60):
        u, _ = g_wellformed(rng, [])
        if rng.random() < 0.3:
            u = g_mutate(rng, u)
        if '\x00' in u or not all(ord(c) < 128 for c in u) or not u:
            continue
        add('helper', 'helper ' + enc(u), lambda u=u: real_helper(u), {'op': 'uri_helper', 'env': u}, ('helper', u))
    return cases


def _real_int(s, base):
    try:
        return 'ok %d' % (int(s) if base is None else int(s, base))
    except Exception as e:
        return 'err ' + exc_enum(e)


def _real_format(f, args):
    try:
        return 'ok ' + enc(f.format(*args))
    except ValueError:
        return 'err value_error'
    except Exception as e:
        return 'err ' + exc_enum(e)


def _real_init(serial):
    import os
    import cflib.crtp as crtp
    _quiet()
    old = os.environ.pop('USE_CFLINK', None)
    try:
        with patched((crtp, 'CLASSES', [])):
            crtp.init_drivers(enable_serial_driver=serial)
            return 'ok ' + ','.join(c.__name__ for c in crtp.CLASSES)
    finally:
        if old is not None:
            os.environ['USE_CFLINK'] = old


# kinds whose real result is only compared up to "this driver took the URI" for the drivers whose transport is not modelled
def canon_driver(model, real):
    for s in ('UdpDriver', 'TcpDriver', 'PrrtDriver'):
        pass
    return model, real


def correspond(ctx):
    import sys
    sys.setrecursionlimit(10000)
    cases = gen_cases(ctx)
    replies = ctx.lean(DRIVER, [c[1] for c in cases])
    for (kind, line, thunk, desc, key), model in zip(cases, replies):
        if model == 'out-of-model' or model == 'unsupported':
            # the model makes no prediction (non-ASCII input, IP-literal netloc, %xx >= 0x80; regex / format outside the supported shape)
            ctx.count('skipped:' + kind + ':' + model)
            if model == 'unsupported' and kind in ('rematch', 'format'):
                continue
            if model == 'out-of-model':
                continue
        real = thunk()
        ctx.count('op:' + kind)
        head = real.split(' ')
        tag = head[0] + (':' + head[1] if head[0] in ('err', 'raised', 'took') and len(head) > 1 else '')
        if kind == 'parse':
            tag = desc['stream'] + ':' + tag
        elif kind in ('claims', 'rematch', 'initdrivers') or (kind == 'driver' and head[0] == 'ok'):
            tag += ':' + head[1]
        elif kind == 'open':
            tag = '+'.join(e.split(':')[0] for e in head[1].split(',')) + ' ' + ' '.join(head[2:])
        ctx.count('result:%s:%s' % (kind, tag))
        ctx.case(desc, key)
        if real != model:
            ctx.disagree(kind, json_safe(desc), model[:300], real[:300])


def json_safe(d):
    return {k: (v if len(repr(v)) < 300 else repr(v)[:300]) for k, v in d.items()} if isinstance(d, dict) else str(d)[:300]


# ------------------------------------------------------------------------------------------------------
# failing-input search: the property itself, evaluated on the real code (no Lean needed)
DR = {'250K': 0, '1M': 1, '2M': 2}


def spec_addr(hexdigits):
    """the 5 address bytes a radio URI names: the hex number, zero-padded on the left, most significant byte first"""
    return tuple(int(hexdigits, 16).to_bytes(5, 'big'))


def search(ctx):
    rng = ctx.rng
    T = ctx.tier == 'thorough'
    _quiet()
    from cflib.crtp.radiodriver import RadioDriver
    import cflib.crtp as crtp

    def parsed(serials, uri):
        r = real_parse(serials, uri)
        return r

    def expect_parse(key, what, serials, uri, want):
        got = parsed(serials, uri)
        w = 'ok ' + show_radio(want)
        if got != w:
            ctx.witness(key, what, {'uri': uri, 'serials': list(serials)}, got=got, want=w)
            return False
        return True
    # (0) D16: omitted channel
    for u in ('radio://0', 'radio://0/', 'radio://3?rate_limit=10'):
        lim = 10 if 'rate_limit' in u else None
        expect_parse('D16-omitted-channel', 'radio URI without a channel does not default to channel 2 / 2M / E7E7E7E7E7', [], u,
                     (int(u[8]), 2, 2, (0xe7,) * 5, lim))
    # (1) every well-formed URI parses to what it names
    serial_sets = [[], ['E7E7E7E7E7'], ['ABCDEF0123', 'E7E7E7E7E7', '0123456789']]
    n = 0
    for ch in list(range(126)) if T else [0, 1, 2, 9, 10, 80, 99, 100, 125] + [rng.randrange(126) for _ in range(12)]:
        for rate in RATES:
            for alen in range(1, 11):
                serials = rng.choice(serial_sets)
                if serials and rng.random() < 0.4:
                    sn = rng.choice(serials)
                    dong, devid = ''.join(rng.choice([c.lower(), c.upper()]) for c in sn), serials.index(sn)
                else:
                    devid = rng.choice([0, 1, 7, 10, 123, 999999999, rng.randrange(10 ** 9)])
                    dong = str(devid)
                a = ''.join(rng.choice(HEX) for _ in range(alen))
                lim = rng.choice([None, None, 0, 1, 100, rng.randrange(10 ** 5)])
                uri = 'radio://%s/%d/%s/%s' % (dong, ch, rate, a)
                if lim is not None:
                    uri += rng.choice(['?rate_limit=%d', '?x=1&rate_limit=%d', '?rate_limit=%d&y=2', '?rate_limit=%d&rate_limit=77']) % lim
                n += 1
                if not expect_parse('parse-wellformed', 'well-formed radio URI does not parse to the dongle, channel, rate, address (MSB first) and rate limit it names', serials, uri,
                                    (devid, ch, DR[rate], spec_addr(a), lim)):
                    break
    # (2) omitted trailing fields default
    for dong in ('0', '5', '12'):
        for ch in (0, 2, 80, 125):
            for slash in ('', '/'):
                for q, lim in (('', None), ('?rate_limit=9', 9)):
                    expect_parse('defaults', 'omitted trailing fields do not default to 2M / E7E7E7E7E7', [], 'radio://%s/%d%s%s' % (dong, ch, slash, q), (int(dong), ch, 2, (0xe7,) * 5, lim))
                    for rate in RATES:
                        expect_parse('defaults', 'omitted address does not default to E7E7E7E7E7', [], 'radio://%s/%d/%s%s%s' % (dong, ch, rate, slash, q), (int(dong), ch, DR[rate], (0xe7,) * 5, lim))
    # (3) scan results parse back to the scanned channel, rate and address
    for trial in range(60 if T else 15):
        address = rng.choice([None, 0xE7E7E7E7E7, 0, 1, 0xE7E7E7E701, 2 ** 40 - 1, rng.randrange(2 ** 40), rng.randrange(2 ** 20)])
        found = [sorted(rng.sample(range(126), rng.choice([1, 2, 6]))) for _ in range(3)]
        res, progged = real_scan(address, found)
        if not res.startswith('ok ') or 'MISMATCH' in res:
            ctx.witness('scan-format', 'scan_interface failed for a valid address', {'address': address, 'found': found}, got=res)
            continue
        want_addr = (0xe7,) * 5 if address is None else spec_addr('%X' % address)
        if address is not None and progged != want_addr:
            ctx.witness('scan-address', 'scan_interface programs a different address than asked', {'address': address}, got=str(progged), want=str(want_addr))
        passes = res[3:].split(' ')
        seen_rates = []
        for k, p in enumerate(passes):
            rate, uris = p.split(':', 1)
            seen_rates.append(int(rate))
            uris = [] if uris == '@' else [dec(x) for x in uris.split(';')]
            if len(uris) != len(found[k]):
                ctx.witness('scan-count', 'scan_interface reports a different number of URIs than channels found', {'address': address, 'found': found}, got=res[:200])
                continue
            for c, u in zip(found[k], uris):
                expect_parse('scan-parse-back', 'URI reported by scanning does not parse back to the scanned channel, rate and address', [], u, (0, c, int(rate), want_addr, None))
        if sorted(seen_rates) != [0, 1, 2]:
            ctx.witness('scan-rates', 'scan_interface does not scan each data rate once', {'address': address}, got=str(seen_rates))
    for trial in range(40 if T else 12):
        ents = [(rng.randrange(126), rng.choice(RATES)) for _ in range(rng.randrange(1, 6))]
        acks = [rng.random() < 0.7 for _ in ents]
        res = real_scansel(['radio://0/%d/%s' % e for e in ents], acks)
        want = [e for e, a in zip(ents, acks) if a]
        uris = [] if res in ('ok @',) else [dec(x) for x in res[3:].split(';')] if res.startswith('ok ') else None
        if uris is None or len(uris) != len(want):
            ctx.witness('scansel', 'scan_selected does not report the acknowledged links', {'links': ents, 'acks': acks}, got=res[:200])
            continue
        for (c, r), u in zip(want, uris):
            expect_parse('scansel-parse-back', 'URI reported by scan_selected does not parse back to the scanned channel and rate', [], u, (0, c, DR[r], (0xe7,) * 5, None))
    # (4) each scheme is claimed by exactly one driver; unknown schemes by none; get_link_driver picks that driver from any list
    samples = {'RadioDriver': ['radio://0/80/2M', 'radio://0/80/2M/E7E7E7E7E7', 'radio://0'], 'UsbDriver': ['usb://0', 'usb://1'], 'SerialDriver': ['serial://ttyUSB0'],
               'UdpDriver': ['udp://127.0.0.1:7777'], 'PrrtDriver': ['prrt://10.0.0.1:5000'], 'TcpDriver': ['tcp://192.168.4.1:5000']}
    for cls, uris in samples.items():
        for u in uris:
            got = real_claims(u)
            if got != 'ok ' + cls:
                ctx.witness('scheme-claim', 'URI scheme is not claimed by exactly its driver', {'uri': u}, got=got, want='ok ' + cls)
    unknown = ['foo://bar', 'http://x/', '', 'radio:/0/80', 'Radio://0/80', 'usb:/0', 'debug://0/0', 'bogus', ' radio://0/80', 'usb://x']
    for trial in range(300 if T else 80):
        u = rng.choice(unknown) if rng.random() < 0.3 else g_mutate(rng, g_other_scheme(rng))
        got = real_claims(u)
        names = [] if got == 'ok -' else got[3:].split(',')
        if len(names) > 1:
            ctx.witness('scheme-overlap', 'a URI is claimed by more than one driver', {'uri': u}, got=got)
        if u in unknown and names:
            ctx.witness('scheme-unknown', 'an unknown scheme is claimed by a driver', {'uri': u}, got=got)
    world = dict(serials=['E7E7E7E7E7'], radios=[0, 1], usbs=[0, 1], devices=['ttyUSB0'], other_ok=True)
    for trial in range(60 if T else 20):
        cls = list(rng.choice(BASE_LISTS))
        if rng.random() < 0.5:
            rng.shuffle(cls)
        want_cls = rng.choice([c for c in cls])
        u = rng.choice(samples[want_cls][:2])
        got = real_driver(cls, Boundary(**world), u)      # 'ok <cls> ...' or, for udp/tcp/prrt, 'took <cls>'
        if got.split(' ')[1:2] != [want_cls]:
            ctx.witness('driver-pick', 'get_link_driver does not return the driver of the URI scheme', {'classes': cls, 'uri': u}, got=got, want=want_cls)
        elif want_cls == 'RadioDriver':
            want = 'ok RadioDriver ' + show_radio((0, 80, 2, (0xe7,) * 5, None))
            if got != want:
                ctx.witness('radio-settings', 'settings applied to the radio differ from what the URI names', {'classes': cls, 'uri': u}, got=got, want=want)
    # (5) unknown scheme / malformed URI: no driver, one connection_failed, nothing escapes
    bad = ['foo://bar', '', 'radio:/0/80', 'usb://x', 'radio://0/notanumber', 'radio://0/80/2M/E7E7E7E7E7E7E', 'radio://0/80/2M/E7E7E7E7E7E7', 'radio://0/80/2M/XY', 'radio:///80/2M', 'radio://nosuchserial/80',
           'radio://0/80?rate_limit=fast', 'radio://[0/80', 'serial://', 'prrt://nonsense', 'radio://0/8 0/2M']
    for trial in range(len(bad) + (60 if T else 15)):
        u = bad[trial] if trial < len(bad) else g_malformed(rng, [])
        if not safe_for_connect(u):
            continue
        cls = list(rng.choice(BASE_LISTS))
        lk = real_driver(cls, Boundary(**world), u, canon=False)
        res = real_open(cls, Boundary(**world), False, u)
        body = res[3:].split(' ')[0].split(',')
        nfail = sum(1 for e in body if e.startswith('failed'))
        if 'escaped=none' not in res:
            ctx.witness('open-escape', 'an exception escapes open_link', {'classes': cls, 'uri': u}, got=res[-120:])
        if (lk == 'none' or lk.startswith('raised')) and (nfail != 1 or 'link=none' not in res):
            ctx.witness('open-no-failed', 'no driver for the URI but open_link does not report exactly one connection_failed', {'classes': cls, 'uri': u}, got=res[-200:], driver=lk)
        if nfail > 1 or any(e.startswith('unexpected') or e.startswith('failed-other') for e in body):
            ctx.witness('open-events', 'open_link fires unexpected notifications', {'classes': cls, 'uri': u}, got=res[-200:])
        if trial < len(bad) and not (lk == 'none' or lk.startswith('raised')):
            ctx.witness('malformed-accepted', 'a malformed URI / unknown scheme yields a driver', {'classes': cls, 'uri': u}, got=lk)
    # (6) uri_helper defaults agree with parse_uri
    h = real_helper(None)
    if h.startswith('ok '):
        u, a = h[3:].split(' ')
        p = parsed([], dec(u))
        if not p.startswith('ok ') or p.split(' ')[4] != ','.join(str(b) for b in int(a).to_bytes(5, 'big')):
            ctx.witness('helper-default', 'uri_helper defaults disagree with parse_uri', {'uri': dec(u), 'address': a}, got=p)
    else:
        ctx.witness('helper-default', 'uri_helper fails without CFLIB_URI', {}, got=h)

"""Shared machinery for the per-property checks (see DESIGN.md section 2.3).

A property module (harness/corr/cXX.py) provides
    PID, LEAN_TARGETS, PROPS_MODULES, DRIVER (optional), TRUSTED (list of strings)
    extract(ctx)      -> {relative Gen file name: content}   (Tie A; may raise ExtractError)
    correspond(ctx)   -> None; reports through ctx.disagree(...) / ctx.count(...)   (Tie B)
    search(ctx)       -> None; reports real-code property failures through ctx.witness(...)
and this module turns that into the exit status, the VIOLATION / KNOWN-FINDING lines, the replay
files and evidence/<id>.json.
"""
import ast
import fcntl
import hashlib
import importlib
import json
import os
import random
import re
import struct
import subprocess
import sys
import time
import traceback

VERIF = os.path.dirname(os.path.dirname(os.path.dirname(os.path.abspath(__file__))))
REPO = os.environ.get('CFLIB_REPO', '/repo')
LEAN = os.path.join(VERIF, 'lean')
GEN = os.path.join(LEAN, 'CfVerif', 'Gen')
EVID = os.path.join(VERIF, 'evidence')
REPLAYS = os.path.join(EVID, 'replays')
ALLOWED_AXIOMS = {'propext', 'Classical.choice', 'Quot.sound'}
FORBIDDEN = re.compile(r'\bsorry\b|\badmit\b|^\s*axiom\s|native_decide|bv_decide|implemented_by|\bunsafe\s|maxHeartbeats\s+0\b')

# the real code is always imported from the working tree, never from an installed copy
if REPO not in sys.path:
    sys.path.insert(0, REPO)


class ExtractError(Exception):
    """Tie A could not translate the current source (handled like a broken proof)."""


class Ctx:
    def __init__(self, pid, tier, seed):
        self.pid = pid
        self.tier = tier
        self.seed = seed
        self.rng = random.Random(seed * 1000003 + int(hashlib.sha1(pid.encode()).hexdigest()[:6], 16))
        self.t0 = time.time()
        self.broken = []          # [{kind, name, detail}] obligations / correspondences that no longer check
        self.disagreements = []   # correspondence disagreements (model vs. code)
        self.witnesses = []       # real-code property failures {key, what, input, ...}
        self.counts = {}          # distribution counters
        self.samples = []
        self.evaluations = 0
        self.nontrivial = set()
        self.notes = []
        self.lean_ok = False
        self.deadline = None

    # ---- reporting API for property modules -------------------------------------------
    def count(self, key, n=1):
        self.counts[key] = self.counts.get(key, 0) + n

    def case(self, desc, nontrivial_key=None):
        """register one explored case; `nontrivial_key` (hashable) marks it distinct+non-trivial"""
        self.evaluations += 1
        if nontrivial_key is not None:
            self.nontrivial.add(nontrivial_key if isinstance(nontrivial_key, (str, int, tuple)) else repr(nontrivial_key))
        if len(self.samples) < 6 or (self.evaluations % 997 == 0 and len(self.samples) < 12):
            self.samples.append(desc)

    def disagree(self, name, case, model, real):
        if len(self.disagreements) < 50:
            self.disagreements.append({'correspondence': name, 'case': case, 'model': model, 'real': real})
        self.count('disagreements')

    def witness(self, key, what, inp, **extra):
        """A concrete input on which the REAL code violates the property (as judged by the spec twin)."""
        if len(self.witnesses) < 50:
            w = {'key': key, 'what': what, 'input': inp}
            w.update(extra)
            self.witnesses.append(w)
        self.count('witnesses')

    def break_(self, kind, name, detail=''):
        self.broken.append({'kind': kind, 'name': name, 'detail': detail[:4000]})

    def note(self, s):
        self.notes.append(s)

    def time_left(self):
        return 1e9 if self.deadline is None else self.deadline - time.time()

    # ---- Lean driver ---------------------------------------------------------------------
    def lean(self, driver, lines, timeout=600):
        """run a line-protocol driver (lean --run) on `lines`; returns the reply lines"""
        return run_driver(driver, lines, timeout)


def sh(cmd, cwd=None, timeout=None, inp=None, env=None):
    p = subprocess.run(cmd, cwd=cwd, input=inp, stdout=subprocess.PIPE, stderr=subprocess.STDOUT,
                       timeout=timeout, text=True, env=env)
    return p.returncode, p.stdout


class LakeLock:
    def __enter__(self):
        os.makedirs(os.path.join(LEAN, '.lake'), exist_ok=True)
        self.f = open(os.path.join(LEAN, '.lake', 'verif.lock'), 'w')
        fcntl.flock(self.f, fcntl.LOCK_EX)
        return self

    def __exit__(self, *a):
        fcntl.flock(self.f, fcntl.LOCK_UN)
        self.f.close()


def lake_build(targets, timeout=3000):
    with LakeLock():
        rc, out = sh(['lake', 'build'] + list(targets), cwd=LEAN, timeout=timeout)
    return rc == 0, out


def lean_env():
    env = dict(os.environ)
    env['LEAN_PATH'] = os.path.join(LEAN, '.lake', 'build', 'lib', 'lean')
    return env


def run_driver(driver, lines, timeout=600):
    data = '\n'.join(lines) + '\n'
    rc, out = sh(['lean', '--run', os.path.join(LEAN, driver)], cwd=LEAN, timeout=timeout, inp=data, env=lean_env())
    if rc != 0:
        raise RuntimeError('lean driver %s failed (rc=%s): %s' % (driver, rc, out[-2000:]))
    res = out.split('\n')
    if res and res[-1] == '':
        res.pop()
    if len(res) != len(lines):
        raise RuntimeError('lean driver %s: %d replies for %d requests; tail: %s' % (driver, len(res), len(lines), out[-1000:]))
    return res


def audit(module):
    """returns {theorem: [axioms]} for every source theorem of `module`"""
    src = 'import CfVerif.Base.AuditTool\nimport %s\n#audit_module %s\n' % (module, module)
    rc, out = sh(['lean', '--stdin'], cwd=LEAN, inp=src, env=lean_env(), timeout=900)
    res = {}
    for m in re.finditer(r'AXIOMS (\S+) : (.*)', out):
        res[m.group(1)] = [a.strip() for a in m.group(2).split(',') if a.strip()]
    m = re.search(r'THEOREMS (\d+)', out)
    if rc != 0 or not m or int(m.group(1)) != len(res):
        raise RuntimeError('audit of %s failed: %s' % (module, out[-1500:]))
    return res


def strip_lean_comments(src):
    out = []
    i = 0
    depth = 0
    n = len(src)
    while i < n:
        if src.startswith('/-', i):
            depth += 1
            i += 2
        elif depth and src.startswith('-/', i):
            depth -= 1
            i += 2
        elif depth:
            if src[i] == '\n':
                out.append('\n')
            i += 1
        elif src.startswith('--', i):
            while i < n and src[i] != '\n':
                i += 1
        else:
            out.append(src[i])
            i += 1
    return ''.join(out)


def module_file(module):
    return os.path.join(LEAN, *module.split('.')) + '.lean'


def imports_closure(modules):
    """CfVerif.* modules transitively imported by `modules` (source scan)"""
    seen, todo = set(), list(modules)
    while todo:
        m = todo.pop()
        if m in seen or not m.startswith('CfVerif'):
            continue
        seen.add(m)
        try:
            src = open(module_file(m)).read()
        except OSError:
            continue
        for mm in re.finditer(r'^import\s+(\S+)', src, re.M):
            todo.append(mm.group(1))
    return sorted(seen)


def forbidden_hits(modules):
    hits = []
    for m in imports_closure(modules):
        try:
            src = strip_lean_comments(open(module_file(m)).read())
        except OSError:
            continue
        for ln, line in enumerate(src.split('\n'), 1):
            if FORBIDDEN.search(line):
                hits.append('%s:%d: %s' % (m, ln, line.strip()[:120]))
    return hits


def write_gen(files):
    """write regenerated Gen files; returns names that changed on disk"""
    changed = []
    os.makedirs(GEN, exist_ok=True)
    for name, content in files.items():
        path = os.path.join(GEN, name)
        old = None
        if os.path.exists(path):
            old = open(path).read()
        if old != content:
            with open(path, 'w') as f:
                f.write(content)
            changed.append(name)
    return changed


# ---- known findings -----------------------------------------------------------------------
def load_known(pid):
    path = os.path.join(VERIF, 'known_findings.json')
    if not os.path.exists(path):
        return []
    data = json.load(open(path))
    return [e for e in data.get('findings', []) if e.get('property') == pid]


# ---- float helpers --------------------------------------------------------------------------
def f32bits(x):
    return struct.unpack('<I', struct.pack('<f', x))[0]


def f64bits(x):
    return struct.unpack('<Q', struct.pack('<d', x))[0]


def bits_f32(b):
    return struct.unpack('<f', struct.pack('<I', b))[0]


def bits_f64(b):
    return struct.unpack('<d', struct.pack('<Q', b))[0]


def hexs(b):
    b = bytes(b)
    return b.hex() if b else '-'


def exc_enum(e):
    import struct as _s
    if isinstance(e, _s.error):
        return 'struct_error'
    for cls, name in ((ZeroDivisionError, 'zero_div'), (OverflowError, 'overflow'), (KeyError, 'key_error'),
                      (IndexError, 'index_error'), (ValueError, 'value_error'), (TypeError, 'type_error'),
                      (AttributeError, 'attribute_error'), (AssertionError, 'assertion')):
        if isinstance(e, cls):
            return name
    return 'other'


# ---- the runner --------------------------------------------------------------------------------
def finish(ctx, mod, level='proof', obligations=None, known_lines=(), exit_override=None):
    pass


def run_property(modname, argv):
    import argparse
    ap = argparse.ArgumentParser()
    ap.add_argument('--tier', default=os.environ.get('VERIF_TIER', 'quick'))
    ap.add_argument('--replay', default=None)
    ap.add_argument('--no-build', action='store_true', help='skip lake build (development only)')
    args = ap.parse_args(argv)
    tier = args.tier if args.tier in ('quick', 'thorough') else 'quick'
    seed = int(os.environ.get('VERIF_SEED', '0') or 0)
    mod = importlib.import_module('harness.corr.' + modname)
    pid = mod.PID
    ctx = Ctx(pid, tier, seed)
    # watchdog: a run that exceeds its budget is an infrastructure failure (exit 2), never a verdict
    import signal
    budget = int(os.environ.get('VERIF_TIMEOUT', '1500' if tier == 'quick' else '7200'))

    def _timeout(signum, frame):
        sys.stdout.write('%s: time budget of %d s exceeded (exit 2, no verdict)\n' % (pid, budget))
        sys.stdout.flush()
        os._exit(2)
    signal.signal(signal.SIGALRM, _timeout)
    signal.alarm(budget)
    os.makedirs(REPLAYS, exist_ok=True)
    evid_path = os.path.join(EVID, pid + '.json')

    if args.replay:
        # re-execute a recorded case on the current tree: exit 1 (and the VIOLATION line) iff it still fails
        rp = json.load(open(args.replay))
        if hasattr(mod, 'replay'):
            still = bool(mod.replay(ctx, rp))
        else:
            # generic: re-run the failing-input search with the recorded seed/tier and look for the same finding key
            ctx = Ctx(pid, rp.get('tier', tier), int(rp.get('seed', seed)))
            want = (rp.get('witness') or {}).get('key')
            if hasattr(mod, 'search'):
                mod.search(ctx)
            still = any(w['key'] == want for w in ctx.witnesses) if want else bool(ctx.witnesses)
            if rp.get('kind') == 'no-failing-input-found':
                print('replay: this file names broken obligations, not an input; run ./check %s to re-check them' % pid)
                print(json.dumps(rp.get('broken', []), indent=1)[:3000])
        print('replay: the recorded case %s on the current tree' % ('STILL FAILS' if still else 'no longer fails'))
        if still:
            print('VIOLATION property=%s replay=%s' % (pid, args.replay))
        return 1 if still else 0

    theorems = {}
    # 1. Tie A: regenerate Gen from the working tree
    try:
        files = mod.extract(ctx) if hasattr(mod, 'extract') else {}
        changed = write_gen(files)
        if changed:
            ctx.note('Gen regenerated (differs from disk): ' + ', '.join(changed))
    except ExtractError as e:
        ctx.break_('translation', 'extract', str(e))
    except Exception as e:  # the extractor itself crashed on the current source
        ctx.break_('translation', 'extract', 'extractor crashed: ' + ''.join(traceback.format_exception_only(type(e), e)))

    # 2. build the proofs against the regenerated Gen; audit
    if not args.no_build:
        ok, out = lake_build(list(mod.LEAN_TARGETS))
    else:
        ok, out = True, ''
    if not ok:
        errs = [l for l in out.split('\n') if 'error' in l.lower()][:12]
        ctx.break_('proof', 'lake build ' + ' '.join(mod.LEAN_TARGETS), '\n'.join(errs) + '\n...\n' + out[-1500:])
    else:
        ctx.lean_ok = True
        try:
            for pm in mod.PROPS_MODULES:
                theorems.update(audit(pm))
            bad = {t: a for t, a in theorems.items() if not set(a) <= ALLOWED_AXIOMS}
            if bad:
                ctx.break_('audit', 'axioms', json.dumps(bad))
            hits = forbidden_hits(list(mod.PROPS_MODULES) + list(getattr(mod, 'EXTRA_MODULES', [])))
            if hits:
                ctx.break_('audit', 'forbidden constructs', '\n'.join(hits))
            required = getattr(mod, 'REQUIRED_THEOREMS', [])
            missing = [t for t in required if t not in theorems]
            if missing:
                ctx.break_('audit', 'property theorems missing', ', '.join(missing))
        except Exception as e:
            ctx.break_('audit', 'audit', str(e))
        if tier == 'thorough' and not args.no_build:
            with LakeLock():
                rc, o = sh(['lake', 'env', 'leanchecker'] + list(mod.PROPS_MODULES), cwd=LEAN, timeout=3000)
            if rc != 0:
                ctx.break_('audit', 'leanchecker', o[-2000:])
            else:
                ctx.note('leanchecker re-checked ' + ' '.join(mod.PROPS_MODULES))

    # 3. Tie B: correspondence (needs the Lean driver, hence a successful build)
    if ctx.lean_ok and hasattr(mod, 'correspond'):
        try:
            mod.correspond(ctx)
        except subprocess.TimeoutExpired as e:
            # the model driver did not answer within its time limit: an infrastructure time-out, not a verdict
            sys.stdout.write('%s: Lean driver time-out after %s s (exit 2, no verdict)\n' % (pid, e.timeout))
            sys.stdout.flush()
            os._exit(2)
        except Exception as e:
            ctx.break_('correspondence', 'harness', ''.join(traceback.format_exception(type(e), e, e.__traceback__))[-3000:])
        if ctx.disagreements:
            names = sorted({d['correspondence'] for d in ctx.disagreements})
            ctx.break_('correspondence', ', '.join(names), json.dumps(ctx.disagreements[:5], default=str))

    # 4. direct evaluation of the property on the real code (failing-input search; also replays
    #    the known findings).  Never the basis of a "holds" verdict.
    if hasattr(mod, 'search'):
        try:
            mod.search(ctx)
        except Exception as e:
            ctx.break_('search', 'harness', ''.join(traceback.format_exception(type(e), e, e.__traceback__))[-3000:])

    # 5. verdict
    known = load_known(pid)
    known_keys = {e['key']: e for e in known if e.get('status') == 'known'}
    new_w = [w for w in ctx.witnesses if w['key'] not in known_keys]
    seen_known = sorted({w['key'] for w in ctx.witnesses if w['key'] in known_keys})
    lines = []
    for k in seen_known:
        lines.append('KNOWN-FINDING: property=%s %s %s' % (pid, known_keys[k].get('id', ''), known_keys[k]['what_fails']))
    stale = [k for k in known_keys if k not in seen_known]
    for k in stale:
        ctx.note('known finding %s did not reproduce in this run (stale entry or not exercised)' % k)
    status = 0
    replay_path = None
    if new_w:
        status = 1
        replay_path = os.path.join(REPLAYS, '%s-%d-%s.json' % (pid, seed, tier))
        json.dump({'property': pid, 'kind': 'failing-input', 'seed': seed, 'tier': tier,
                   'witness': new_w[0], 'more_witnesses': new_w[1:10], 'broken': ctx.broken,
                   'how_to_replay': './check %s --replay %s' % (pid, os.path.relpath(replay_path, VERIF))},
                  open(replay_path, 'w'), indent=1, default=str)
        lines.append('VIOLATION property=%s replay=%s' % (pid, replay_path))
    elif ctx.broken:
        status = 1
        replay_path = os.path.join(REPLAYS, '%s-%d-%s.json' % (pid, seed, tier))
        json.dump({'property': pid, 'kind': 'no-failing-input-found', 'seed': seed, 'tier': tier,
                   'broken': ctx.broken,
                   'explanation': 'the listed theorem / obligation / correspondence no longer checks against the '
                                  'current source and the failing-input search found no input on which the real '
                                  'code violates the property; the property is no longer shown to hold'},
                  open(replay_path, 'w'), indent=1, default=str)
        lines.append('VIOLATION property=%s replay=%s no-failing-input-found' % (pid, replay_path))

    # 6. evidence
    wall = time.time() - ctx.t0
    nthm = len(theorems)
    cov = {
        'obligations': max(nthm, 1) if ctx.lean_ok else max(len(getattr(mod, 'REQUIRED_THEOREMS', [])), 1),
        'discharged': nthm if ctx.lean_ok and not any(b['kind'] in ('proof', 'audit') for b in ctx.broken) else 0,
        'checker_cmd': 'cd lean && lake build %s  (+ #audit_module axioms audit; thorough: lake env leanchecker)' % ' '.join(mod.LEAN_TARGETS),
        'trusted_base': ['Lean 4.33 kernel', 'axioms: propext, Classical.choice, Quot.sound only (audited per theorem)']
                        + list(getattr(mod, 'TRUSTED', [])),
        'theorems': sorted(theorems),
        'evaluations': ctx.evaluations,
        'distinct_nontrivial': len(ctx.nontrivial),
        'rule': getattr(mod, 'RULE', ''),
        'samples': ctx.samples[:12] or ['(no correspondence case ran)'],
        'distribution': ctx.counts,
        'correspondence_disagreements': len(ctx.disagreements),
        'broken': ctx.broken,
        'known_findings_reproduced': seen_known,
        'notes': ctx.notes,
        'exhaustive': bool(getattr(mod, 'EXHAUSTIVE', False)),
    }
    level = 'proof'
    if cov['discharged'] < 1:
        # nothing was discharged in this run (broken build/translation): not proof-level evidence
        level = 'other'
        cov['explanation'] = ('the proof obligations did not check against the current source in this run (see "broken"); '
                              'only the failing-input search on the real code ran')
    ev = {'property_id': pid, 'tier': tier, 'seed': seed, 'level': level, 'coverage': cov,
          'assumptions': list(getattr(mod, 'ASSUMPTIONS', [])), 'wall_s': round(wall, 2),
          'violations': 1 if status else 0}
    with open(evid_path, 'w') as f:
        json.dump(ev, f, indent=1, default=str)
    for l in lines:
        print(l)
    print('%s tier=%s seed=%d theorems=%d cases=%d nontrivial=%d disagreements=%d witnesses=%d broken=%d wall=%.1fs -> %s'
          % (pid, tier, seed, nthm, ctx.evaluations, len(ctx.nontrivial), len(ctx.disagreements), len(ctx.witnesses),
             len(ctx.broken), wall, 'VIOLATION' if status else 'ok'))
    for b in ctx.broken[:6]:
        print('  broken[%s] %s: %s' % (b['kind'], b['name'], b['detail'][:600].replace('\n', '\n      ')))
    return status

"""Simulated devices (oracle environments) for the connection-level properties.  See docs/SIM.md."""

"""Simulated Crazyflie (firmware-side protocol servers) + a fake CRTP link driver + session helpers.

This is an *environment model* (DESIGN.md section 3.2 / Appendix D): it is written from protocol
knowledge, not from cflib's tables (nothing here imports cflib constants), so that it can serve as
an oracle for what the library downloads / sends.  cflib itself is imported lazily, and only by the
link/session part, after harness.lib.common has put the working tree first on sys.path.

Three layers (see docs/SIM.md for the full API and recipes):

  CrazyflieDevice      pure, deterministic, single-threaded request -> replies state machine
                       (platform/version, log+param TOC V1/V2, param read/write/misc, log blocks and
                       data, memories, echo).  `dev.handle(port, chan, data) -> [(port, chan, data)]`.
  SimLink              a cflib CRTPDriver for `sim://...` URIs (registered in cflib.crtp.CLASSES by
                       `install()`), with `needs_resending` configurable and a scriptable ReplyPolicy
                       (duplicate xN, delay by k packets, drop, replay of stale replies, link error after
                       the k-th exchanged packet from the driver's or the sender's thread).
  SyncSession          runs the REAL `Crazyflie` object single-threaded and reproducibly: the real
                       `_IncomingPacketHandler.run`, `_ParamUpdater.run` and `_ExtendedTypeFetcher.run`
                       bodies are executed in the caller's thread, one packet / one request at a time;
                       retry `Timer`s become virtual timers fired by the session.  No sleeps.
  ThreadedSession      same device and link, real cflib threads, event-based waiting (no sleeps).
"""
import binascii
import collections
import queue as _queue
import struct
import threading
import time as _real_time

ENOENT, E2BIG, ENOEXEC, ENOMEM, EACCES, EEXIST = 2, 7, 8, 12, 13, 17

PORT_CONSOLE, PORT_PARAM, PORT_COMMANDER, PORT_MEM, PORT_LOG = 0, 2, 3, 4, 5
PORT_LOC, PORT_GENERIC, PORT_HL, PORT_PLATFORM, PORT_LINK = 6, 7, 8, 13, 15

# --- firmware type tables (written from the firmware's log.h / param.h, NOT taken from cflib) ---------
LOG_TYPE_ID = {'uint8_t': 1, 'uint16_t': 2, 'uint32_t': 3, 'int8_t': 4, 'int16_t': 5, 'int32_t': 6,
               'float': 7, 'FP16': 8}
LOG_TYPE_FMT = {1: '<B', 2: '<H', 3: '<I', 4: '<b', 5: '<h', 6: '<i', 7: '<f', 8: '<e'}
LOG_TYPE_NAME = {v: k for k, v in LOG_TYPE_ID.items()}
PARAM_TYPE_ID = {'uint8_t': 0x08, 'uint16_t': 0x09, 'uint32_t': 0x0A, 'uint64_t': 0x0B,
                 'int8_t': 0x00, 'int16_t': 0x01, 'int32_t': 0x02, 'int64_t': 0x03,
                 'FP16': 0x05, 'float': 0x06, 'double': 0x07}
PARAM_TYPE_FMT = {0x08: '<B', 0x09: '<H', 0x0A: '<I', 0x0B: '<Q', 0x00: '<b', 0x01: '<h', 0x02: '<i',
                  0x03: '<q', 0x05: '<e', 0x06: '<f', 0x07: '<d'}
PARAM_TYPE_NAME = {v: k for k, v in PARAM_TYPE_ID.items()}
PARAM_EXTENDED, PARAM_RONLY = 0x10, 0x40
MAX_PAYLOAD = 30


def _cast(fmt, value):
    """C-style conversion of `value` to the type of struct format `fmt` (wraps integers)."""
    code = fmt[-1]
    if code in 'fde':
        return struct.pack(fmt, float(value))
    size = struct.calcsize(fmt)
    v = int(value) % (1 << (8 * size))
    return v.to_bytes(size, 'little')


class LogVar:
    """One entry of the device's log TOC.  `raw_type` overrides the whole type byte (adversarial tables)."""

    def __init__(self, group, name, ctype='float', value=0, raw_type=None):
        self.group, self.name, self.ctype, self.value, self.raw_type = group, name, ctype, value, raw_type

    @property
    def type_byte(self):
        return self.raw_type if self.raw_type is not None else LOG_TYPE_ID[self.ctype]

    @property
    def type_id(self):
        return self.type_byte & 0x0F

    def __repr__(self):
        return 'LogVar(%r, %r, %r)' % (self.group, self.name, self.ctype)


class ParamVar:
    """One entry of the device's parameter TOC.

    persistent -> extended flag set in the TOC type byte and extended type 1 (EXTENDED_PERSISTENT);
    extended=True with persistent=False -> extended flag set, extended type 0.
    default / stored: the firmware default and the value stored in EEPROM (None = not stored)."""

    def __init__(self, group, name, ctype='uint8_t', value=0, readonly=False, persistent=False,
                 extended=None, default=None, stored=None, raw_type=None):
        self.group, self.name, self.ctype, self.value = group, name, ctype, value
        self.readonly, self.persistent = readonly, persistent
        self.extended = persistent if extended is None else extended
        self.default = value if default is None else default
        self.stored = stored
        self.raw_type = raw_type

    @property
    def type_byte(self):
        if self.raw_type is not None:
            return self.raw_type
        return PARAM_TYPE_ID[self.ctype] | (PARAM_EXTENDED if self.extended else 0) | (PARAM_RONLY if self.readonly else 0)

    @property
    def type_id(self):
        return self.type_byte & 0x0F

    @property
    def fmt(self):
        return PARAM_TYPE_FMT[self.type_id]

    @property
    def ext_type(self):
        return 1 if self.persistent else 0

    def __repr__(self):
        return 'ParamVar(%r, %r, %r)' % (self.group, self.name, self.ctype)


class Mem:
    """One memory of the device (type codes as in the firmware's mem.h: 0 = I2C EEPROM, 1 = 1-wire, ...)."""

    def __init__(self, mtype=0, size=None, data=b'', addr=b'\0' * 8, writable=True):
        self.type = mtype
        self.data = bytearray(data)
        self.size = len(self.data) if size is None else size
        if len(self.data) < self.size and self.size <= 1 << 20:
            self.data += bytes(self.size - len(self.data))
        self.addr = bytes(addr)[:8].ljust(8, b'\0')
        self.writable = writable


def item_bytes(v):
    """type byte + group\\0 + name\\0 (ISO-8859-1), the body of a TOC item reply"""
    return bytes([v.type_byte]) + v.group.encode('ISO-8859-1') + b'\0' + v.name.encode('ISO-8859-1') + b'\0'


def name_budget(v2):
    """max len(group)+len(name) that fits a TOC item reply: cmd + id(1|2) + type + group\\0 + name\\0 <= 30"""
    return MAX_PAYLOAD - 1 - (2 if v2 else 1) - 1 - 2


def toc_crc(items):
    return binascii.crc32(b''.join(item_bytes(v) for v in items)) & 0xFFFFFFFF


class CrazyflieDevice:
    """Deterministic firmware-side model.  `handle(port, chan, data)` returns the replies to one packet.

    protocol_version >= 4: current generation (16-bit ids; V1 TOC commands are still answered, as the firmware does);
    protocol_version  < 4: legacy generation (8-bit ids, V2 commands are not answered);
    link_source: answer to the link-source request (15:1); anything not starting with b'Bitcraze Crazyflie'
    makes the library skip the version query and assume protocol -1.
    """

    def __init__(self, protocol_version=10, log_toc=(), param_toc=(), mems=(), link_source=b'Bitcraze Crazyflie',
                 log_crc=None, param_crc=None, firmware_version=b'sim-1.0', max_log_blocks=16, max_log_vars=128):
        self.protocol_version = protocol_version
        self.log_toc = list(log_toc)
        self.param_toc = list(param_toc)
        self.mems = list(mems)
        self.link_source = bytes(link_source)
        self.firmware_version = bytes(firmware_version)
        self.log_crc = toc_crc(self.log_toc) if log_crc is None else log_crc
        self.param_crc = toc_crc(self.param_toc) if param_crc is None else param_crc
        self.max_log_blocks, self.max_log_vars = max_log_blocks, max_log_vars
        self.blocks = collections.OrderedDict()   # id -> {'vars': [(type_byte, ref)], 'period': int, 'started': bool}
        self.ticks = 0                              # virtual ms, used for log timestamps
        self.requests = []                          # every packet received: (port, chan, bytes)
        self.unhandled = []                         # requests the model has no answer for
        self.forced = []                            # [(port, chan, prefix, status, remaining)]
        self.setpoints = []                         # commander / generic / HL / localization packets
        self.armed = False
        v2 = self.v2
        if not v2 and (len(self.log_toc) > 255 or len(self.param_toc) > 255):
            raise ValueError('legacy protocol cannot address more than 255 TOC entries')
        if len(self.log_toc) > 65535 or len(self.param_toc) > 65535:
            raise ValueError('more than 65535 TOC entries')
        for v in self.log_toc + self.param_toc:
            if len(v.group.encode('ISO-8859-1')) + len(v.name.encode('ISO-8859-1')) > name_budget(v2):
                raise ValueError('%r does not fit a TOC item packet' % (v,))

    # ------------------------------------------------------------------------------------------------
    @property
    def v2(self):
        return self.protocol_version is not None and self.protocol_version >= 4

    def force_status(self, port, chan, prefix, status, times=1):
        """the next `times` requests on port:chan whose data starts with `prefix` are answered with error
        `status` (and not executed), for every request kind that carries a status byte."""
        self.forced.append([port, chan, bytes(prefix), status, times])

    def _forced(self, port, chan, data):
        for f in self.forced:
            if f[0] == port and f[1] == chan and data[:len(f[2])] == f[2] and f[4] != 0:
                if f[4] > 0:
                    f[4] -= 1
                return f[3]
        return None

    def request_log(self, ports=(PORT_PARAM, PORT_LOG), skip_echo=True):
        """the requests seen so far, as hex strings 'port:chan:data' (optionally only some ports)"""
        return ['%d:%d:%s' % (p, c, d.hex()) for (p, c, d) in self.requests if ports is None or p in ports]

    def handle(self, port, chan, data):
        data = bytes(data)
        self.requests.append((port, chan, data))
        h = {PORT_LINK: self._link, PORT_PLATFORM: self._platform, PORT_LOG: self._log, PORT_PARAM: self._param,
             PORT_MEM: self._mem}.get(port)
        if h is None:
            if port in (PORT_COMMANDER, PORT_GENERIC, PORT_HL, PORT_LOC):
                self.setpoints.append((port, chan, data))
            return []
        out = h(chan, data)
        if out is None:
            self.unhandled.append((port, chan, data))
            return []
        return [(port, chan, bytes(d)) for d in out]

    # ---- link service / platform ---------------------------------------------------------------------
    def _link(self, chan, data):
        if chan == 0:                      # echo
            return [data]
        if chan == 1:                      # source
            return [self.link_source.ljust(18, b' ') if self.link_source.startswith(b'Bitcraze Crazyflie') else self.link_source]
        return []                          # sink

    def _platform(self, chan, data):
        if chan == 1 and data[:1] == b'\x00':
            if self.protocol_version is None:
                return []
            return [bytes([0, self.protocol_version & 0xFF])]
        if chan == 1 and data[:1] == b'\x01':
            return [b'\x01' + self.firmware_version[:29]]
        if chan == 0 and data[:1] == b'\x01' and len(data) >= 2:      # arming request
            self.armed = bool(data[1])
            return [bytes([1, 1, 1 if self.armed else 0])]
        if chan == 0:
            return []
        if chan == 2:                      # app channel: not modelled, swallow
            return []
        return None

    # ---- TOC (shared by log and param) -------------------------------------------------------------------
    def _toc(self, items, crc, data, extra_info=b''):
        cmd = data[0] if data else None
        if cmd == 3 and self.v2:
            return [struct.pack('<BHI', 3, len(items), crc) + extra_info]
        if cmd == 1:
            return [struct.pack('<BBI', 1, min(len(items), 255), crc) + extra_info]
        if cmd == 2 and self.v2 and len(data) >= 3:
            i = data[1] | data[2] << 8
            if i < len(items):
                return [bytes([2, data[1], data[2]]) + item_bytes(items[i])]
            return [bytes([2, data[1], data[2]])]
        if cmd == 0 and len(data) >= 2:
            i = data[1]
            if i < len(items):
                return [bytes([0, i]) + item_bytes(items[i])]
            return [bytes([0, i])]
        return None

    # ---- log ----------------------------------------------------------------------------------------------
    def _log(self, chan, data):
        if chan == 0:
            # info reply also carries max blocks / max ops like the firmware does
            return self._toc(self.log_toc, self.log_crc, data, bytes([self.max_log_blocks & 0xFF, self.max_log_vars & 0xFF]))
        if chan != 1 or not data:
            return [] if chan == 2 else None
        cmd = data[0]
        forced = self._forced(PORT_LOG, 1, data)
        if cmd == 5:                                   # reset
            if forced is None:
                self.blocks.clear()
            return [bytes([5, 0, forced or 0])]
        if len(data) < 2:
            return None
        blk = data[1]
        if forced is not None:
            return [bytes([cmd, blk, forced])]
        if cmd in (0, 6, 1, 7):                        # create / append (V1: type id8; V2: type id16)
            v2cmd = cmd in (6, 7)
            body = data[2:]
            step = 3 if v2cmd else 2
            ents = []
            for k in range(len(body) // step):         # a trailing partial entry is ignored, as in the firmware
                t = body[k * step]
                ref = body[k * step + 1] | (body[k * step + 2] << 8 if v2cmd else 0)
                ents.append((t, ref))
            creating = cmd in (0, 6)
            if creating and blk in self.blocks:
                return [bytes([cmd, blk, EEXIST])]
            if not creating and blk not in self.blocks:
                return [bytes([cmd, blk, ENOENT])]
            if creating and len(self.blocks) >= self.max_log_blocks:
                return [bytes([cmd, blk, ENOMEM])]
            for (t, ref) in ents:
                if (t & 0x0F) not in LOG_TYPE_FMT or ref >= len(self.log_toc):
                    return [bytes([cmd, blk, ENOENT])]
            cur = [] if creating else self.blocks[blk]['vars']
            if sum(struct.calcsize(LOG_TYPE_FMT[t & 0x0F]) for (t, _) in cur + ents) > 26:
                return [bytes([cmd, blk, E2BIG])]
            if sum(len(b['vars']) for b in self.blocks.values()) + len(ents) > self.max_log_vars:
                return [bytes([cmd, blk, ENOMEM])]
            if creating:
                self.blocks[blk] = {'vars': list(ents), 'period': 0, 'started': False}
            else:
                self.blocks[blk]['vars'] += ents
            return [bytes([cmd, blk, 0])]
        if cmd == 3:                                   # start: blk period(10 ms units)
            if blk not in self.blocks:
                return [bytes([3, blk, ENOENT])]
            self.blocks[blk]['period'] = data[2] if len(data) > 2 else 0
            self.blocks[blk]['started'] = True
            return [bytes([3, blk, 0])]
        if cmd == 4:
            if blk not in self.blocks:
                return [bytes([4, blk, ENOENT])]
            self.blocks[blk]['started'] = False
            return [bytes([4, blk, 0])]
        if cmd == 2:
            if blk not in self.blocks:
                return [bytes([2, blk, ENOENT])]
            del self.blocks[blk]
            return [bytes([2, blk, 0])]
        return [bytes([cmd, blk, ENOEXEC])]

    def log_data(self, blk, timestamp=None):
        """one log data packet (5:2) for block `blk` from the variables' current values: blk ts24 values..."""
        b = self.blocks[blk]
        ts = self.ticks if timestamp is None else timestamp
        out = bytes([blk]) + (ts & 0xFFFFFF).to_bytes(3, 'little')
        for (t, ref) in b['vars']:
            out += _cast(LOG_TYPE_FMT[t & 0x0F], self.log_toc[ref].value)
        return (PORT_LOG, 2, out)

    def log_tick(self, ms=10):
        """advance the virtual clock; returns the data packets of every started block whose period elapsed"""
        out = []
        for _ in range(ms):
            self.ticks += 1
            for blk, b in self.blocks.items():
                if b['started'] and b['period'] > 0 and self.ticks % (b['period'] * 10) == 0:
                    out.append(self.log_data(blk))
        return out

    # ---- param --------------------------------------------------------------------------------------------
    def _pid(self, data, off=0):
        """(id, id bytes) at data[off:] in the device's protocol generation"""
        if self.v2:
            if len(data) < off + 2:
                return None, b''
            return data[off] | data[off + 1] << 8, data[off:off + 2]
        if len(data) < off + 1:
            return None, b''
        return data[off], data[off:off + 1]

    def param_value_bytes(self, i, value=None):
        p = self.param_toc[i]
        return _cast(p.fmt, p.value if value is None else value)

    def _param(self, chan, data):
        if chan == 0:
            return self._toc(self.param_toc, self.param_crc, data)
        forced = self._forced(PORT_PARAM, chan, data)
        if chan == 1:                                  # read
            i, ib = self._pid(data)
            if i is None:
                return None
            if forced is not None:
                return [ib + bytes([forced])] if self.v2 else [ib]
            if i >= len(self.param_toc):
                return [ib + bytes([ENOENT])] if self.v2 else [ib]
            return [ib + (b'\0' if self.v2 else b'') + self.param_value_bytes(i)]
        if chan == 2:                                  # write: id value -> id value (the value now in effect)
            i, ib = self._pid(data)
            if i is None:
                return None
            if i >= len(self.param_toc):
                return [ib + bytes([ENOENT])]
            p = self.param_toc[i]
            raw = data[len(ib):]
            if forced is None and not p.readonly and len(raw) == struct.calcsize(p.fmt):
                p.value = struct.unpack(p.fmt, raw)[0]
            return [ib + self.param_value_bytes(i)]
        if chan == 3:                                  # misc (16-bit ids in every generation that has it)
            if not data:
                return None
            cmd = data[0]
            if cmd == 0:                               # set by name: 00 group\0name\0 type value -> 00 group\0name\0 status
                parts = data[1:].split(b'\0', 2)
                if len(parts) < 3:
                    return [data + bytes([ENOENT])]
                g, n, rest = parts[0].decode('ISO-8859-1'), parts[1].decode('ISO-8859-1'), parts[2]
                namepart = data[:1 + len(parts[0]) + 1 + len(parts[1]) + 1]
                for p in self.param_toc:
                    if p.group == g and p.name == n:
                        if p.readonly:
                            return [namepart + bytes([EACCES])]
                        if not rest or (rest[0] & 0x0F) != p.type_id or len(rest) - 1 != struct.calcsize(p.fmt):
                            return [namepart + bytes([EINVAL_])]
                        p.value = struct.unpack(p.fmt, rest[1:])[0]
                        return [namepart + b'\0']
                return [namepart + bytes([ENOENT])]
            if len(data) < 3:
                return None
            i = data[1] | data[2] << 8
            head = data[:3]
            p = self.param_toc[i] if i < len(self.param_toc) else None
            if cmd == 2:                               # extended type
                if forced is not None or p is None:
                    return [head + bytes([forced if forced is not None else ENOENT])]
                return [head + bytes([p.ext_type])]
            if cmd == 3:                               # persistent store
                if forced is not None or p is None or not p.persistent:
                    return [head + bytes([forced if forced is not None else ENOENT])]
                p.stored = p.value
                return [head + b'\0']
            if cmd == 5:                               # persistent clear
                if forced is not None or p is None or not p.persistent:
                    return [head + bytes([forced if forced is not None else ENOENT])]
                p.stored = None
                return [head + b'\0']
            if cmd == 4:                               # persistent state: state default [stored]
                if forced is not None or p is None or not p.persistent:
                    return [head + bytes([forced if forced is not None else ENOENT])]
                if p.stored is None:
                    return [head + b'\0' + _cast(p.fmt, p.default)]
                return [head + b'\1' + _cast(p.fmt, p.default) + _cast(p.fmt, p.stored)]
            if cmd == 6:                               # default value
                if forced is not None or p is None:
                    return [head + bytes([forced if forced is not None else ENOENT])]
                return [head + _cast(p.fmt, p.default)]
            return None
        return None

    def param_updated(self, i):
        """the unsolicited 'value updated' notification (2:3) for parameter i: 01 id16 value"""
        return (PORT_PARAM, 3, bytes([1, i & 0xFF, i >> 8]) + self.param_value_bytes(i))

    def set_param(self, i, value):
        """firmware-side change of a parameter (returns the notification packet to inject, if wanted)"""
        self.param_toc[i].value = value
        return self.param_updated(i)

    # ---- memory -------------------------------------------------------------------------------------------
    def _mem(self, chan, data):
        if chan == 0:
            if data[:1] == b'\x01':
                return [bytes([1, len(self.mems) & 0xFF])]
            if data[:1] == b'\x02' and len(data) >= 2:
                i = data[1]
                if i >= len(self.mems):
                    return [bytes([2, i])]
                m = self.mems[i]
                return [bytes([2, i, m.type]) + struct.pack('<I', m.size & 0xFFFFFFFF) + m.addr]
            if data[:1] == b'\x00':
                return [bytes([0, 1])]
            return None
        if chan == 1:                                  # read: id addr32 len -> id addr32 status data
            if len(data) < 6:
                return None
            mid, addr, n = data[0], struct.unpack('<I', data[1:5])[0], data[5]
            head = data[:5]
            forced = self._forced(PORT_MEM, 1, data)
            if forced is not None:
                return [head + bytes([forced])]
            if mid >= len(self.mems):
                return [head + bytes([ENOENT])]
            m = self.mems[mid]
            if n > 24 or addr + n > m.size:
                return [head + bytes([E2BIG if n > 24 else ENOENT])]
            return [head + b'\0' + bytes(m.data[addr:addr + n])]
        if chan == 2:                                  # write: id addr32 data -> id addr32 status
            if len(data) < 5:
                return None
            mid, addr, body = data[0], struct.unpack('<I', data[1:5])[0], data[5:]
            head = data[:5]
            forced = self._forced(PORT_MEM, 2, data)
            if forced is not None:
                return [head + bytes([forced])]
            if mid >= len(self.mems):
                return [head + bytes([ENOENT])]
            m = self.mems[mid]
            if not m.writable:
                return [head + bytes([EACCES])]
            if addr + len(body) > m.size:
                return [head + bytes([ENOENT])]
            m.data[addr:addr + len(body)] = body
            return [head + b'\0']
        return None


EINVAL_ = 22


# ==========================================================================================================
# reply policies (the adversarial / lossy network between device and library)
# ==========================================================================================================
class Rule:
    """One scripted reaction to a *reply* packet.

    match: port / chan / data prefix of the reply (None = any), `nth` = apply from the nth matching reply on
    (0-based), `times` = to how many matching replies (None = all of them).
    action: 'dup' (deliver n times in a row), 'delay' (hold until n further requests reached the device, or
    until the session flushes), 'late' (deliver now AND once more after n further requests: a stale duplicate),
    'drop', 'pass'."""

    def __init__(self, action, n=1, port=None, chan=None, prefix=None, nth=0, times=None):
        assert action in ('dup', 'delay', 'late', 'drop', 'pass')
        self.action, self.n, self.port, self.chan = action, n, port, chan
        self.prefix = None if prefix is None else bytes(prefix)
        self.nth, self.times, self.seen = nth, times, 0

    def applies(self, pkt):
        port, chan, data = pkt
        if self.port is not None and port != self.port:
            return False
        if self.chan is not None and chan != self.chan:
            return False
        if self.prefix is not None and data[:len(self.prefix)] != self.prefix:
            return False
        k = self.seen
        self.seen += 1
        if k < self.nth:
            return False
        if self.times is not None and k >= self.nth + self.times:
            return False
        return True


class ReplyPolicy:
    """Decides, for every reply the device generates, how often and when it reaches the library.

    rules: first applicable Rule wins (default: deliver once, immediately).
    hook:  optional callable(link, request, replies) -> extra [(delay, packet)] entries to deliver as well
           (e.g. replays of `link.history`, the replies generated earlier in this session)."""

    def __init__(self, rules=(), hook=None):
        self.rules = list(rules)
        self.hook = hook

    def route(self, link, request, replies):
        """-> [(delay_in_requests, packet)]"""
        out = []
        for pkt in replies:
            act = None
            for r in self.rules:
                if r.applies(pkt):
                    act = r
                    break
            if act is None or act.action == 'pass':
                out.append((0, pkt))
            elif act.action == 'dup':
                out += [(0, pkt)] * act.n
            elif act.action == 'delay':
                out.append((act.n, pkt))
            elif act.action == 'late':
                out += [(0, pkt), (act.n, pkt)]
            elif act.action == 'drop':
                pass
        if self.hook is not None:
            out += list(self.hook(link, request, replies) or [])
        return out


class RandomPolicy(ReplyPolicy):
    """Seeded adversary: each reply is duplicated / delayed / dropped with the given probabilities, and after
    each exchange up to `max_stale` replies generated earlier in the session are delivered again."""

    def __init__(self, rng, p_dup=0.2, p_delay=0.15, p_drop=0.0, p_stale=0.2, max_dup=3, max_delay=4, max_stale=2,
                 ports=None):
        ReplyPolicy.__init__(self)
        self.rng, self.p_dup, self.p_delay, self.p_drop, self.p_stale = rng, p_dup, p_delay, p_drop, p_stale
        self.max_dup, self.max_delay, self.max_stale = max_dup, max_delay, max_stale
        self.ports = ports            # only replies on these ports are disturbed / replayed (None = all)

    def route(self, link, request, replies):
        rng = self.rng
        out = []
        for pkt in replies:
            if self.ports is not None and pkt[0] not in self.ports:
                out.append((0, pkt))
                continue
            x = rng.random()
            if x < self.p_drop:
                continue
            x = rng.random()
            if x < self.p_dup:
                n = rng.randint(2, self.max_dup)
                out += [(0 if rng.random() < 0.6 else rng.randint(1, self.max_delay), pkt) for _ in range(n)]
            elif x < self.p_dup + self.p_delay:
                out.append((rng.randint(1, self.max_delay), pkt))
            else:
                out.append((0, pkt))
        hist = link.history if self.ports is None else [p for p in link.history if p[0] in self.ports]
        if hist and rng.random() < self.p_stale:
            for _ in range(rng.randint(1, self.max_stale)):
                out.append((rng.randint(0, self.max_delay), hist[rng.randrange(len(hist))]))
        return out


# ==========================================================================================================
# the link driver
# ==========================================================================================================
class PumpStop(BaseException):
    """raised by SimLink.receive_packet in sync mode when nothing (more) is to be delivered now; it escapes
    the real `_IncomingPacketHandler.run` loop (which only catches Exception around callbacks)."""


class LinkConfig:
    def __init__(self, device, needs_resending=False, policy=None, sync=True, fail_after=None, fail_from='driver',
                 fail_msg='simulated link error'):
        self.device = device
        self.needs_resending = needs_resending
        self.policy = policy or ReplyPolicy()
        self.sync = sync
        self.fail_after, self.fail_from, self.fail_msg = fail_after, fail_from, fail_msg
        self.links = []          # SimLink instances created for this config (one per open_link)

    @property
    def link(self):
        return self.links[-1] if self.links else None


REGISTRY = {}
_counter = [0]


def register(cfg, uri=None):
    if uri is None:
        _counter[0] += 1
        uri = 'sim://dev%d' % _counter[0]
    REGISTRY[uri] = cfg
    return uri


def _driver_class():
    """SimLink is created lazily so that importing this module does not import cflib"""
    global _SimLink
    if _SimLink is not None:
        return _SimLink
    from cflib.crtp.crtpdriver import CRTPDriver
    from cflib.crtp.crtpstack import CRTPPacket
    from cflib.crtp.exceptions import WrongUriType

    class SimLink(CRTPDriver):
        """cflib link driver for sim:// URIs"""

        def __init__(self):
            CRTPDriver.__init__(self)
            self.cfg = None
            self.uri = ''
            self.closed = False
            self.error_cb = None
            self.q = _queue.Queue()       # threaded mode
            self.ready = collections.deque()   # sync mode: deliverable now
            self.held = []                # [(release_at_request_count, seq, packet)]
            self.history = []             # every reply the device generated in this session, in order
            self.sent = []                # every packet the library transmitted (port, chan, data)
            self.delivered = []           # every packet handed to the library
            self.n_requests = 0
            self.exchanged = 0            # packets in both directions
            self.failed = False
            self.pending_error = False
            self.budget = None            # sync mode: max packets to deliver before PumpStop
            self._seq = 0
            self._lock = threading.RLock()

        # -- CRTPDriver interface --
        def connect(self, uri, radio_link_statistics_callback, link_error_callback):
            if not uri.startswith('sim://'):
                raise WrongUriType('not a sim uri')
            if uri not in REGISTRY:
                raise Exception('no simulated device registered for ' + uri)
            self.cfg = REGISTRY[uri]
            self.uri = uri
            self.needs_resending = self.cfg.needs_resending
            self.error_cb = link_error_callback
            self.cfg.links.append(self)

        def get_name(self):
            return 'sim'

        def get_status(self):
            return 'ok'

        def scan_interface(self, address=None):
            return [[u, ''] for u in sorted(REGISTRY)]

        def close(self):
            self.closed = True

        def send_packet(self, pk):
            with self._lock:
                if self.closed or self.failed:
                    return
                header = pk.header
                port, chan, data = (header >> 4) & 0x0F, header & 0x03, bytes(pk.data)
                if self._check_fail('sender'):
                    return
                self.sent.append((port, chan, data))
                self.exchanged += 1
                self.n_requests += 1
                replies = self.cfg.device.handle(port, chan, data)
                routed = self.cfg.policy.route(self, (port, chan, data), replies)
                self.history += replies
                for delay, pkt in routed:
                    self._seq += 1
                    if delay <= 0:
                        self._deliverable(pkt)
                    else:
                        self.held.append((self.n_requests + delay, self._seq, pkt))
                self._release_due()
                self._check_fail('count')

        def receive_packet(self, wait=0):
            if not self.cfg.sync:
                try:
                    if wait == 0:
                        pkt = self.q.get_nowait()
                    elif wait < 0:
                        pkt = self.q.get()
                    else:
                        pkt = self.q.get(timeout=wait)
                except _queue.Empty:
                    return None
                if pkt is None or self.closed:
                    return None
            else:
                if self.closed or self.pending_error or not self.ready or self.budget == 0:
                    raise PumpStop()
                if self.budget is not None:
                    self.budget -= 1
                pkt = self.ready.popleft()
            with self._lock:
                self.exchanged += 1
                self.delivered.append(pkt)
                self._check_fail('count')
            return CRTPPacket(((pkt[0] & 0x0F) << 4) | (pkt[1] & 0x03), bytearray(pkt[2]))

        # -- harness side --
        def _deliverable(self, pkt):
            if self.cfg.sync:
                self.ready.append(pkt)
            else:
                self.q.put(pkt)

        def _release_due(self):
            due = sorted(h for h in self.held if h[0] <= self.n_requests)
            if due:
                self.held = [h for h in self.held if h[0] > self.n_requests]
                for _, _, pkt in due:
                    self._deliverable(pkt)

        def flush_one(self):
            """force the earliest held (delayed) packet out; returns False if none is held"""
            with self._lock:
                if not self.held:
                    return False
                self.held.sort()
                self._deliverable(self.held.pop(0)[2])
                return True

        def inject(self, port, chan, data):
            """deliver an arbitrary device->host packet (unsolicited notification, log data, forged reply)"""
            with self._lock:
                self._deliverable((port, chan, bytes(data)))

        def replay(self, index):
            """deliver the index-th reply generated in this session once more (stale / duplicated reply)"""
            with self._lock:
                self._deliverable(self.history[index])

        def _check_fail(self, where):
            cfg = self.cfg
            if cfg.fail_after is None or self.failed or self.exchanged < cfg.fail_after:
                return False
            if cfg.fail_from == 'sender':
                if where != 'sender':
                    return False
                self.failed = True
                self.error_cb(cfg.fail_msg)          # reported from the thread that is sending
                return True
            if where == 'sender':
                return False
            self.failed = True
            if cfg.sync:
                self.pending_error = True             # the session reports it from outside any cflib call
            else:
                threading.Thread(target=self.error_cb, args=(cfg.fail_msg,), name='sim-driver-error', daemon=True).start()
                self.q.put(None)
            return True

        def report_error(self, msg=None):
            """report a link error now, from the calling thread (= 'the driver's thread')"""
            self.failed = True
            self.pending_error = False
            self.error_cb(msg or self.cfg.fail_msg)

    _SimLink = SimLink
    return SimLink


_SimLink = None
_installed = [False]
_CURRENT = [None]     # the SyncSession currently executing library code (sync mode is single-threaded)


class SimTimer:
    """virtual stand-in for threading.Timer inside a SyncSession (retry timers of Crazyflie.send_packet)"""

    def __init__(self, sess, interval, function, args=(), kwargs=None):
        self.sess, self.interval, self.function, self.args, self.kwargs = sess, interval, function, args, kwargs or {}
        self.deadline = None
        self.cancelled = False
        self.fired = False
        self.daemon = True

    def start(self):
        self.sess._timer_seq += 1
        self.seq = self.sess._timer_seq
        self.deadline = self.sess.now + self.interval
        self.sess.timers.append(self)

    def cancel(self):
        self.cancelled = True
        if self in self.sess.timers:
            self.sess.timers.remove(self)

    def is_alive(self):
        return self.deadline is not None and not self.cancelled and not self.fired

    def join(self, timeout=None):
        return None


def install():
    """Register SimLink as the first cflib link driver and make the three thread/timer entry points of cflib
    session-aware.  Idempotent; objects not created by a SyncSession behave exactly as before."""
    SimLink = _driver_class()
    import cflib.crtp
    if SimLink not in cflib.crtp.CLASSES:
        cflib.crtp.CLASSES.insert(0, SimLink)
    if _installed[0]:
        return SimLink
    _installed[0] = True
    import cflib.crazyflie as cfmod
    import cflib.crazyflie.param as parammod

    def patched_start(self, _orig=threading.Thread.start):
        cf = getattr(self, 'cf', None) or getattr(self, '_cf', None)
        sess = getattr(cf, '_sim_sync_session', None)
        if sess is not None:
            sess._register_worker(self)
            return None
        return _orig(self)
    parammod._ParamUpdater.start = patched_start
    parammod._ExtendedTypeFetcher.start = patched_start
    real_timer = cfmod.Timer

    def timer_factory(interval, function, args=None, kwargs=None):
        sess = _CURRENT[0]
        if sess is not None:
            return SimTimer(sess, interval, function, args or (), kwargs)
        return real_timer(interval, function, args, kwargs)
    cfmod.Timer = timer_factory

    class _TimeShim:
        """cflib.crazyflie's `time`: the incoming handler's `time.sleep(1)` (link is None) ends a sync pump"""

        def __getattr__(self, name):
            return getattr(_real_time, name)

        def sleep(self, secs):
            if _CURRENT[0] is not None:
                raise PumpStop()
            _real_time.sleep(secs)
    cfmod.time = _TimeShim()
    return SimLink


# ==========================================================================================================
# sessions
# ==========================================================================================================
LIFECYCLE = ('connection_requested', 'link_established', 'connected', 'fully_connected', 'disconnected',
             'connection_lost', 'connection_failed', 'disconnected_link_error')


class _SessionBase:
    sync = True

    def __init__(self, device, needs_resending=False, policy=None, ro_cache=None, rw_cache=None, latency=False,
                 fail_after=None, fail_from='driver', uri=None):
        install()
        import logging
        logging.getLogger('cflib').setLevel(logging.CRITICAL)
        self.device = device
        self.cfg = LinkConfig(device, needs_resending=needs_resending, policy=policy, sync=self.sync,
                              fail_after=fail_after, fail_from=fail_from)
        self.uri = register(self.cfg, uri)
        self.events = []
        self._ev = {name: threading.Event() for name in LIFECYCLE}
        self.workers = []
        self.timers = []
        self._timer_seq = 0
        self.now = 0.0
        from cflib.crazyflie import Crazyflie
        cf = Crazyflie.__new__(Crazyflie)
        if self.sync:
            cf._sim_sync_session = self
        with self._active():
            cf.__init__(ro_cache=ro_cache, rw_cache=rw_cache)
        self.cf = cf
        if not latency:
            cf.link_statistics.start = lambda: None     # no wall-clock ping thread (see docs/SIM.md)
        for name in LIFECYCLE:
            getattr(cf, name).add_callback(lambda *a, _n=name: self._on(_n, a))

    def _on(self, name, args):
        self.events.append(name)
        self._ev[name].set()

    def _active(self):
        return _Active(self if self.sync else None)

    @property
    def link(self):
        return self.cfg.link

    def tables(self):
        """canonical view of the library's log and param TOCs (see canon_toc)"""
        return {'log': canon_toc(self.cf.log.toc), 'param': canon_toc(self.cf.param.toc)}


class _Active:
    def __init__(self, sess):
        self.sess = sess

    def __enter__(self):
        self.prev = _CURRENT[0]
        if self.sess is not None:
            _CURRENT[0] = self.sess

    def __exit__(self, *a):
        _CURRENT[0] = self.prev


def _worker_lock(w):
    return getattr(w, 'wait_lock', None) or getattr(w, '_lock')


def worker_ready(w):
    """can the run() loop of a _ParamUpdater / _ExtendedTypeFetcher make a step (request queued, lock free)?"""
    return not w.request_queue.empty() and not _worker_lock(w).locked()


def step_worker(w):
    """exactly one iteration of the real run() loop of a _ParamUpdater / _ExtendedTypeFetcher, in the
    calling thread (precondition: worker_ready(w))"""
    q = w.request_queue
    orig = q.get

    def get_once(*a, **kw):
        item = orig(block=False)
        w._should_close = True
        return item
    q.get = get_once
    try:
        w._should_close = False
        w.run()
    finally:
        del q.get
        w._should_close = False


class SyncSession(_SessionBase):
    """The real Crazyflie object driven single-threaded against the simulated device.

    s = SyncSession(dev, needs_resending=True, policy=ReplyPolicy([Rule('dup', 2)]))
    s.open(); s.run(until='connected')       # or s.connect('fully_connected')
    s.tables(); s.device.request_log(); s.events
    """
    sync = True

    def __init__(self, *a, **kw):
        _SessionBase.__init__(self, *a, **kw)
        cf = self.cf
        cf.incoming.start = lambda: None                  # never a real thread: its run() is pumped by step()
        cf.incoming.is_alive = lambda: True
        self.steps = 0
        self.trace = []                                   # what each step did

    # -- entry points: every call into the library goes through call() so that Timers are virtual --
    def call(self, fn, *a, **kw):
        with self._active():
            return fn(*a, **kw)

    def open(self):
        self.call(self.cf.open_link, self.uri)

    def close(self):
        self.call(self.cf.close_link)

    def _register_worker(self, w):
        self.workers.append(w)

    def _worker_ready(self, w):
        return worker_ready(w)

    def _step_worker(self, w):
        step_worker(w)

    def step(self, idle=('workers', 'timers', 'flush')):
        """one atomic action, in a fixed priority order; returns its kind or None when quiescent:
        'packet' (dispatch one received packet through the real incoming handler), 'error' (pending link
        error reported from the driver side), 'worker', 'timer' (earliest virtual retry timer fires),
        'flush' (earliest delayed packet released)."""
        link = self.link
        with self._active():
            if link is not None and self.cf.link is link and not link.closed:
                if link.pending_error:
                    link.report_error()
                    return self._did('error')
                if link.ready:
                    link.budget = 1
                    try:
                        self.cf.incoming.run()
                    except PumpStop:
                        pass
                    finally:
                        link.budget = None
                    return self._did('packet')
            if 'workers' in idle:
                for w in self.workers:
                    if self._worker_ready(w):
                        self._step_worker(w)
                        return self._did('worker')
            if 'timers' in idle and self.timers:
                self.fire_timer()
                return self._did('timer')
            if 'flush' in idle and link is not None and not link.closed and link.flush_one():
                return self._did('flush')
        return None

    def _did(self, kind):
        self.steps += 1
        if len(self.trace) < 100000:
            self.trace.append(kind)
        return kind

    def fire_timer(self, index=None):
        """fire a pending virtual timer (default: the earliest deadline); virtual time jumps to its deadline"""
        if not self.timers:
            return False
        t = min(self.timers, key=lambda t: (t.deadline, t.seq)) if index is None else self.timers[index]
        self.timers.remove(t)
        self.now = max(self.now, t.deadline)
        t.fired = True
        with self._active():
            t.function(*t.args, **t.kwargs)
        return True

    def run(self, until=None, max_steps=1000000, idle=('workers', 'timers', 'flush')):
        """step until `until` holds (a lifecycle event name or a predicate), quiescence, or max_steps.
        Returns 'until' | 'quiescent' | 'max_steps'."""
        pred = (lambda: until in self.events) if isinstance(until, str) else until
        for _ in range(max_steps):
            if pred is not None and pred():
                return 'until'
            if self.step(idle) is None:
                return 'until' if pred is not None and pred() else 'quiescent'
        return 'max_steps'

    def connect(self, until='connected', **kw):
        self.open()
        return self.run(until=until, **kw) == 'until'

    def inject(self, port, chan, data):
        self.link.inject(port, chan, data)


class ThreadedSession(_SessionBase):
    """Same device and link with cflib's real threads; waiting is event based (never sleep based).

    s = ThreadedSession(dev); ok = s.connect('fully_connected', timeout=30); ...; s.close()
    """
    sync = False

    def open(self):
        self.cf.open_link(self.uri)

    def wait(self, name, timeout=30):
        return self._ev[name].wait(timeout)

    def connect(self, until='connected', timeout=30):
        self.open()
        return self.wait(until, timeout)

    def close(self):
        self.cf.close_link()
        if self.link is not None:
            self.link.q.put(None)

    def inject(self, port, chan, data):
        self.link.inject(port, chan, data)


# ==========================================================================================================
# canonical views / oracle
# ==========================================================================================================
def canon_toc(toc):
    """library TOC -> sorted list of (group, name, ident, ctype, pytype, access, extended, persistent);
    the last two are None for log elements"""
    out = []
    if toc is None:
        return None
    for g in toc.toc:
        for n in toc.toc[g]:
            e = toc.toc[g][n]
            out.append((g, n, e.ident, e.ctype, e.pytype, e.access,
                        getattr(e, 'extended', None), getattr(e, 'persistent', None), e.group, e.name))
    return sorted(out)


def expected_log_toc(dev):
    """what the library's log TOC must be for this device (the oracle side of C03)"""
    out = []
    for i, v in enumerate(dev.log_toc):
        t = v.type_byte
        out.append((v.group, v.name, i, LOG_TYPE_NAME[t], LOG_TYPE_FMT[t].replace('I', 'L'), t & 0x10, None, None,
                    v.group, v.name))
    return sorted(out)


def expected_param_toc(dev, with_persistence=True):
    out = []
    for i, v in enumerate(dev.param_toc):
        t = v.type_byte
        fmt = PARAM_TYPE_FMT[t & 0x0F].replace('I', 'L')
        if (t & 0x0F) == 0x05:
            fmt = ''                                   # the library has no unpack format for FP16 parameters
        out.append((v.group, v.name, i, PARAM_TYPE_NAME[t & 0x0F], fmt, 1 if t & PARAM_RONLY else 0,
                    bool(t & PARAM_EXTENDED), bool(t & PARAM_EXTENDED) and v.persistent and with_persistence,
                    v.group, v.name))
    return sorted(out)


def self_test():
    """device self-test (run by the harnesses first): a few fixed exchanges with known answers"""
    d = CrazyflieDevice(protocol_version=5,
                        log_toc=[LogVar('pm', 'vbat', 'float', 3.7), LogVar('stabilizer', 'roll', 'int16_t', -5)],
                        param_toc=[ParamVar('ring', 'effect', 'uint8_t', 6, persistent=True, default=0),
                                   ParamVar('cpu', 'flash', 'uint16_t', 1024, readonly=True)],
                        mems=[Mem(0, data=bytes(range(32)))])
    assert d.handle(15, 1, b'\0') == [(15, 1, b'Bitcraze Crazyflie')]
    assert d.handle(13, 1, b'\0') == [(13, 1, b'\0\5')]
    assert d.handle(5, 1, b'\5') == [(5, 1, b'\5\0\0')]
    info = d.handle(5, 0, b'\3')[0][2]
    assert info[:3] == b'\3\2\0' and struct.unpack('<I', info[3:7])[0] == d.log_crc
    assert d.handle(5, 0, b'\2\1\0') == [(5, 0, b'\2\1\0\5stabilizer\0roll\0')]
    assert d.handle(2, 0, b'\2\0\0') == [(2, 0, b'\2\0\0\x18ring\0effect\0')]
    assert d.handle(2, 0, b'\2\1\0') == [(2, 0, b'\2\1\0\x49cpu\0flash\0')]
    assert d.handle(2, 3, b'\2\0\0') == [(2, 3, b'\2\0\0\1')]
    assert d.handle(2, 1, b'\1\0') == [(2, 1, b'\1\0\0\0\4')]
    assert d.handle(2, 2, b'\0\0\7') == [(2, 2, b'\0\0\7')] and d.param_toc[0].value == 7
    assert d.handle(2, 2, b'\1\0\7\7') == [(2, 2, b'\1\0\0\4')]          # read-only: unchanged
    assert d.handle(2, 3, b'\4\0\0') == [(2, 3, b'\4\0\0\0\0')]
    assert d.handle(2, 3, b'\3\0\0') == [(2, 3, b'\3\0\0\0')]
    assert d.handle(2, 3, b'\4\0\0') == [(2, 3, b'\4\0\0\1\0\7')]
    assert d.handle(2, 3, b'\6\0\0') == [(2, 3, b'\6\0\0\0')]
    assert d.handle(5, 1, b'\6\1\7\0\0\x55\1\0') == [(5, 1, b'\6\1\0')]
    assert d.handle(5, 1, b'\3\1\2') == [(5, 1, b'\3\1\0')]
    assert d.log_data(1, 0x010203) == (5, 2, b'\1\3\2\1' + struct.pack('<fh', 3.7, -5))
    assert d.handle(4, 0, b'\1') == [(4, 0, b'\1\1')]
    assert d.handle(4, 1, b'\0\4\0\0\0\3') == [(4, 1, b'\0\4\0\0\0\0\4\5\6')]
    assert d.handle(4, 2, b'\0\4\0\0\0\xff') == [(4, 2, b'\0\4\0\0\0\0')] and d.mems[0].data[4] == 0xff
    assert d.handle(15, 0, b'abc') == [(15, 0, b'abc')]
    return True

"""vsched - deterministic virtual-time scheduler for the real Python threads of cflib.  See docs/VSCHED.md.

    from harness import vsched
    with vsched.Session() as s:                       # cflib.* is purged; importers inside cflib/lpslib now get
        from cflib.crazyflie.swarm import Swarm       # the shim threading/queue/time modules
        res = s.run(main_fn, policy=vsched.Random(seed))          # one schedule
        for res in s.explore(main_fn, max_preemptions=2): ...      # bounded DFS over schedules
    res.outcome, res.value, res.exc, res.deaths, res.trace, res.choices     # vsched.Replay(res.choices) replays it

Search / validation machinery only: no "holds" verdict may rest on it.
"""
import builtins
import sys

from . import core
from . import shims
from .core import (Abort, Explorer, Nondeterminism, NonPreemptive, Policy, Random, Replay, ReplayDivergence, Result,  # noqa: F401
                   TIME_JUMP, VschedError)

# the shim modules, for harness-side fakes (links, devices, members) that must sleep / lock in virtual time
threading = shims.threading
queue = shims.queue
time = shims.time

DEFAULT_PREFIXES = ('cflib', 'lpslib')
_session = None


def emit(*event):
    """append an application-level event to the trace of the run in progress (no yield point).
    Shows up as (tid, 'emit', '', event) in Result.trace and as (tid, *event) in Result.events()."""
    r = core.active()
    if r is None:
        return
    r.res.trace.append((r.me().tid, 'emit', '', tuple(event)))


def yield_now(label=''):
    """explicit yield point for harness fakes (no-op outside a controlled thread)"""
    r = core.active()
    if r is not None:
        r.yield_point('yield', label)


def now():
    """virtual seconds since the start of the run in progress"""
    return shims._now()


def current_tid():
    r = core.active()
    return None if r is None else r.me().tid


class Session:
    """Scope in which `import threading|queue|time` executed by a module whose __name__ starts with one of
    `prefixes` yields the shim modules.  Modules with those prefixes are removed from sys.modules on entry (so that
    they are re-imported against the shims) and on exit (the previously loaded real-threaded modules are restored)."""

    def __init__(self, prefixes=DEFAULT_PREFIXES, **defaults):
        self.prefixes = tuple(prefixes)
        self.defaults = defaults          # default keyword arguments of run(): step_limit, trace_points, ...
        self._saved = None

    def _match(self, modname):
        for p in self.prefixes:
            if modname == p or modname.startswith(p + '.'):
                return True
        return False

    def _purge(self):
        gone = {}
        for k in list(sys.modules):
            if self._match(k):
                gone[k] = sys.modules.pop(k)
        return gone

    def __enter__(self):
        global _session
        if _session is not None:
            raise VschedError('vsched sessions do not nest')
        self._saved = self._purge()
        self._orig_import = builtins.__import__
        orig = self._orig_import
        match = self._match
        mods = shims.MODULES

        def vsched_import(name, globals=None, locals=None, fromlist=(), level=0):
            if level == 0 and name in mods and globals is not None:
                importer = globals.get('__name__')
                if isinstance(importer, str) and match(importer):
                    return mods[name]
            return orig(name, globals, locals, fromlist, level)
        self._hook = vsched_import
        builtins.__import__ = vsched_import
        _session = self
        return self

    def __exit__(self, *a):
        global _session
        if builtins.__import__ is self._hook:
            builtins.__import__ = self._orig_import
        self._purge()
        sys.modules.update(self._saved)
        self._saved = None
        _session = None
        return False

    # ---- running --------------------------------------------------------------------------------------
    def _kw(self, kw):
        d = dict(self.defaults)
        d.update(kw)
        return d

    def run(self, main_fn, policy=None, **kw):
        """execute main_fn() as the controlled main thread under `policy`; returns a Result.
        kw: step_limit=20000, trace_points=[(function name, source substring)], allow_time_jump=False,
            yield_on_time=True, yield_on_release=True, service=(thread-name prefixes), real_timeout=120"""
        return core.execute(main_fn, policy, **self._kw(kw))

    def explore(self, main_fn, setup=None, max_preemptions=None, max_runs=None, **kw):
        """bounded DFS over the schedules of main_fn; returns an iterable Explorer (see core.Explorer)"""
        return Explorer(main_fn, setup=setup, max_preemptions=max_preemptions, max_runs=max_runs, **self._kw(kw))

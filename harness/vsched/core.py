"""vsched core: baton scheduler, virtual clock, policies, DFS explorer.  See docs/VSCHED.md.

Every controlled thread is a REAL thread parked on its own REAL semaphore; exactly one of them (the baton
holder) executes at any time.  A controlled operation announces itself with `Run.yield_point(kind, label,
pred, timeout)` BEFORE it takes effect: the scheduler then picks, among the threads whose announced
operation is enabled (pred() true, or virtual deadline reached), the one that runs next.  The code between
two yield points of a thread therefore executes atomically with respect to the other controlled threads.
"""
import linecache
import random
import sys
import threading as _rt      # the real module; this file is never imported through the shim hook
import time as _rtime

EPOCH = 1600000000.0         # virtual time.time() at the start of every run
TIME_JUMP = -1               # pseudo thread id: "let virtual time pass to the next deadline"


class Abort(BaseException):
    """raised inside controlled threads to unwind them when a run is over (not an Exception on purpose)"""


class VschedError(RuntimeError):
    pass


class ReplayDivergence(VschedError):
    """the explicit choice list names a thread that is not enabled at that choice point"""


class Nondeterminism(VschedError):
    """the DFS prefix did not reproduce the same enabled sets (the code under test is not deterministic)"""


# ------------------------------------------------------------------------------------------------------
class Policy:
    """choose(options, current, run) -> one element of `options` (thread ids, possibly TIME_JUMP).
    Called only when there are at least two options.  `current` is the id of the running thread if it is
    itself enabled (choosing another id is then a preemption), else None."""

    def begin(self, run):
        pass

    def choose(self, options, current, run):
        raise NotImplementedError


class NonPreemptive(Policy):
    """keep running the current thread while it is enabled, else the lowest thread id"""

    def choose(self, options, current, run):
        if current is not None:
            return current
        return min(o for o in options if o != TIME_JUMP) if any(o != TIME_JUMP for o in options) else options[0]


class Replay(Policy):
    """explicit choice list (as found in Result.choices); afterwards `then` (default NonPreemptive)"""

    def __init__(self, choices, then=None, strict=True):
        self.choices = list(choices)
        self.then = then or NonPreemptive()
        self.strict = strict

    def begin(self, run):
        self.i = 0
        self.then.begin(run)

    def choose(self, options, current, run):
        if self.i < len(self.choices):
            c = self.choices[self.i]
            self.i += 1
            if c in options:
                return c
            if self.strict:
                raise ReplayDivergence('choice #%d = %r but enabled = %r' % (self.i - 1, c, options))
        return self.then.choose(options, current, run)


class Random(Policy):
    """seeded PRNG.  `stay` = probability of not preempting an enabled current thread (0 => uniform)."""

    def __init__(self, seed, stay=0.0):
        self.seed = seed
        self.stay = stay

    def begin(self, run):
        self.rng = random.Random(self.seed)

    def choose(self, options, current, run):
        if current is not None and self.stay and self.rng.random() < self.stay:
            return current
        return self.rng.choice(options)


class _Dfs(Policy):
    """one run of the depth-first exploration: follow `stack` (list of [options, index]) then extend it
    taking the first option everywhere.  Options are ordered current-first, so the first run is the
    non-preemptive one and the preemption bound prunes by truncating the option list."""

    def __init__(self, stack, max_preemptions):
        self.stack = stack
        self.maxp = max_preemptions

    def begin(self, run):
        self.depth = 0

    def choose(self, options, current, run):
        opts = list(options)
        if current is not None:
            opts.remove(current)
            opts.insert(0, current)
            if self.maxp is not None and run.res.preemptions >= self.maxp:
                opts = [current]
        d = self.depth
        self.depth += 1
        if d < len(self.stack):
            if self.stack[d][0] != opts:
                raise Nondeterminism('choice point %d: enabled %r, previously %r' % (d, opts, self.stack[d][0]))
            return opts[self.stack[d][1]]
        self.stack.append([opts, 0])
        return opts[0]


# ------------------------------------------------------------------------------------------------------
class Result:
    """outcome of one run.
    outcome   'ok' | 'deadlock' | 'thread-death' | 'step-limit'
    value/exc what main_fn returned / raised          deaths  [(thread name, exception)] escaping Thread.run
    trace     [(tid, kind, label, info)] in execution order (kinds: begin, end, death, clock, emit, and one per
              controlled operation)                   choices thread ids picked at the choice points (replay)
    blocked   for deadlock: [(thread name, kind, label)] of the unfinished threads
    now       final virtual time (seconds since run start)"""

    def __init__(self):
        self.outcome = None
        self.value = None
        self.exc = None
        self.deaths = []
        self.trace = []
        self.choices = []
        self.blocked = []
        self.steps = 0
        self.preemptions = 0
        self.now = 0.0
        self.leaked = 0
        self.thread_names = {}

    def events(self, kind='emit'):
        return [(t[0],) + tuple(t[3]) if kind == 'emit' else t for t in self.trace if t[1] == kind]

    def __repr__(self):
        return '<vsched.Result %s steps=%d choices=%d exc=%r deaths=%d>' % (
            self.outcome, self.steps, len(self.choices), self.exc, len(self.deaths))


class _Rec:
    def __init__(self, tid, name, daemon, shim):
        self.tid = tid
        self.name = name
        self.daemon = daemon
        self.shim = shim
        self.sem = _rt.Semaphore(0)
        self.real = None
        self.done = False
        self.pred = None
        self.deadline = None
        self.op = ('begin', name)
        self.reason = 'ok'
        self.exc = None

    def enabled(self, now):
        if self.pred is None or self.pred():
            return 'ok'
        if self.deadline is not None and self.deadline <= now:
            return 'timeout'
        return None


def _never():
    return False


class Run:
    """scheduler state of one run (one execution of main_fn under one schedule)"""

    def __init__(self, policy, step_limit=20000, allow_time_jump=False, trace_points=(), yield_on_time=True,
                 yield_on_release=True, service=()):
        self.policy = policy
        self.step_limit = step_limit
        self.allow_time_jump = allow_time_jump
        self.trace_points = [(f, s) for f, s in trace_points]
        self.trace_funcs = {f for f, _ in self.trace_points}
        self.yield_on_time = yield_on_time
        self.yield_on_release = yield_on_release
        self.service = tuple(service)      # thread-name prefixes that may stay blocked forever without being a deadlock
        self.threads = []
        self.by_ident = {}
        self.now = 0.0
        self.current = None
        self.aborting = False
        self.finished = _rt.Event()
        self._lock = _rt.Lock()
        self.res = Result()
        self.error = None
        self.ids = {}
        self._trace_cache = {}
        self.names = 0

    # ---- identities ------------------------------------------------------------------------------------
    def next_id(self, kind):
        n = self.ids.get(kind, 0) + 1
        self.ids[kind] = n
        return '%s%d' % (kind, n)

    def me(self):
        return self.by_ident.get(_rt.get_ident())

    # ---- thread life cycle -----------------------------------------------------------------------------
    def spawn(self, shim, fn, name, daemon):
        rec = _Rec(len(self.threads), name, daemon, shim)
        self.threads.append(rec)
        self.res.thread_names[rec.tid] = name
        rec.real = _rt.Thread(target=self._bootstrap, args=(rec, fn), name='vsched-' + name, daemon=True)
        rec.real.start()
        return rec

    def _bootstrap(self, rec, fn):
        ident = _rt.get_ident()
        self.by_ident[ident] = rec
        try:
            self._bootstrap0(rec, fn)
        finally:
            if self.by_ident.get(ident) is rec:     # the OS may hand this ident to an unrelated thread later
                del self.by_ident[ident]

    def _bootstrap0(self, rec, fn):
        rec.sem.acquire()                      # parked until first scheduled
        aborted = self.aborting
        if not aborted:
            self.res.trace.append((rec.tid, 'begin', rec.name, None))
            if self.trace_points:
                sys.settrace(self._tracer)
            try:
                v = fn()
                if rec.tid == 0:
                    self.res.value = v
            except Abort:
                aborted = True
            except SystemExit:
                pass
            except BaseException as e:          # noqa: B902 - exactly what Thread.run lets escape
                rec.exc = e
            finally:
                sys.settrace(None)
        if rec.shim is not None:
            rec.shim._finished = True
        if aborted or self.aborting:
            rec.done = True
            return
        if rec.exc is not None:
            if rec.tid == 0:
                self.res.exc = rec.exc
                self.res.trace.append((0, 'end', rec.name, 'raised ' + type(rec.exc).__name__))
            else:
                self.res.deaths.append((rec.name, rec.exc))
                self.res.trace.append((rec.tid, 'death', rec.name, type(rec.exc).__name__))
        else:
            self.res.trace.append((rec.tid, 'end', rec.name, None))
        rec.done = True
        nxt = self._pick(None)
        if nxt is None:
            self._abort(rec)
        else:
            self.current = nxt
            nxt.sem.release()

    # ---- the yield point --------------------------------------------------------------------------------
    def yield_point(self, kind, label, pred=None, timeout=None):
        """announce the operation (kind, label); returns True when it may take effect now, False on timeout.
        Must be called by a controlled thread."""
        rec = self.me()
        if rec is None:
            raise VschedError('yield_point from an uncontrolled thread')
        if self.aborting:
            raise Abort()
        rec.op = (kind, label)
        rec.pred = pred
        rec.deadline = None if timeout is None else self.now + max(0.0, timeout)
        nxt = self._pick(rec)
        if nxt is None:
            self._abort(rec)
            raise Abort()
        if nxt is not rec:
            self.current = nxt
            nxt.sem.release()
            rec.sem.acquire()
            if self.aborting:
                raise Abort()
        ok = rec.reason == 'ok'
        rec.pred = None
        rec.deadline = None
        self.res.trace.append((rec.tid, kind, label, None if ok else 'timeout'))
        return ok

    def _over(self, outcome):
        if self.res.outcome is None:
            self.res.outcome = outcome

    def _pick(self, cur):
        try:
            return self._pick0(cur)
        except Exception as e:      # a policy / predicate failure is an infrastructure error, never behaviour of the code under test
            self.error = e if isinstance(e, VschedError) else VschedError('scheduler failure: %r' % (e,))
            self.error.__cause__ = e if not isinstance(e, VschedError) else e.__cause__
            self._over('error')
            return None

    def _pick0(self, cur):
        self.res.steps += 1
        if self.res.steps > self.step_limit:
            self._over('step-limit')
            return None
        while True:
            live = [t for t in self.threads if not t.done]
            if all(t.daemon for t in live):
                self._over('thread-death' if self.res.deaths else 'ok')
                return None
            en = []
            for t in live:
                r = t.enabled(self.now)
                if r:
                    en.append((t, r))
            future = [t.deadline for t in live if t.deadline is not None and t.deadline > self.now and t.enabled(self.now) is None]
            if not en:
                if future:
                    self.now = min(future)
                    self.res.trace.append((-1, 'clock', '', self.now))
                    continue
                stuck = [t for t in live if not t.daemon and not t.name.startswith(self.service)] if self.service else \
                        [t for t in live if not t.daemon]
                if stuck:
                    self.res.blocked = [(t.name,) + tuple(t.op) for t in live]
                    self._over('deadlock')
                else:
                    self._over('thread-death' if self.res.deaths else 'ok')
                return None
            opts = [t.tid for t, _ in en]
            if self.allow_time_jump and future:
                opts.append(TIME_JUMP)
            if len(opts) == 1:
                pick = opts[0]
            else:
                curtid = cur.tid if cur is not None and any(t is cur for t, _ in en) else None
                pick = self.policy.choose(opts, curtid, self)
                if pick not in opts:
                    raise ReplayDivergence('policy chose %r, enabled %r' % (pick, opts))
                self.res.choices.append(pick)
                if curtid is not None and pick != curtid:
                    self.res.preemptions += 1
            if pick == TIME_JUMP:
                self.now = min(future)
                self.res.trace.append((-1, 'clock', 'jump', self.now))
                continue
            for t, r in en:
                if t.tid == pick:
                    t.reason = r
                    return t

    def _abort(self, me):
        with self._lock:
            if self.aborting:
                return
            self.aborting = True
        self.res.now = self.now
        for t in self.threads:
            if t is not me and not t.done:
                t.sem.release()
        self.finished.set()

    # ---- sys.settrace preemption points ------------------------------------------------------------------
    def _tracer(self, frame, event, arg):
        if event == 'call' and frame.f_code.co_name in self.trace_funcs:
            return self._line_tracer
        return None

    def _line_tracer(self, frame, event, arg):
        if event == 'line':
            code = frame.f_code
            key = (code.co_filename, frame.f_lineno, code.co_name)
            hit = self._trace_cache.get(key)
            if hit is None:
                text = linecache.getline(code.co_filename, frame.f_lineno)
                hit = [s for f, s in self.trace_points if f == code.co_name and s in text]
                self._trace_cache[key] = hit
            for s in hit:
                self.yield_point('trace', '%s:%s' % (code.co_name, s))
        return self._line_tracer


# ------------------------------------------------------------------------------------------------------
_active = None        # the Run in progress (at most one per process)


def active():
    """the Run in progress if the calling thread is one of its controlled threads, else None"""
    r = _active
    if r is not None and r.by_ident.get(_rt.get_ident()) is not None:
        return r
    return None


def execute(main_fn, policy, real_timeout=120.0, **kw):
    """run main_fn as controlled thread 0 under `policy`; returns Result (called from an uncontrolled thread)"""
    global _active
    if _active is not None:
        raise VschedError('a vsched run is already in progress')
    if active() is not None:
        raise VschedError('nested run')
    policy = policy or NonPreemptive()
    run = Run(policy, **kw)
    policy.begin(run)
    _active = run
    try:
        from . import shims
        main_shim = shims._MainThread()
        rec = run.spawn(main_shim, main_fn, 'MainThread', False)
        main_shim._rec = rec
        run.current = rec
        rec.sem.release()
        if not run.finished.wait(real_timeout):
            run._over('error')
            run.error = VschedError('watchdog: run did not finish within %.0f s of real time (a controlled thread blocks '
                                    'on an uncontrolled primitive, or spins without yielding)' % real_timeout)
            run._abort(None)
        t_end = _rtime.time() + 5.0
        for t in run.threads:
            t.real.join(max(0.05, t_end - _rtime.time()))
            if t.real.is_alive():
                run.res.leaked += 1
            if t.shim is not None:
                t.shim._finished = True
    finally:
        _active = None
    if run.error is not None:
        raise run.error
    run.res.now = run.now
    return run.res


class Explorer:
    """bounded depth-first enumeration of the schedules of main_fn (fresh state must be built inside main_fn or
    by `setup`, which is called before every run and whose result is passed to main_fn).

        ex = Explorer(main_fn, max_preemptions=2, max_runs=5000)
        for res in ex: ...
        ex.complete   True iff the whole (bounded) schedule tree was enumerated      ex.runs   number of runs
    """

    def __init__(self, main_fn, setup=None, max_preemptions=None, max_runs=None, **kw):
        self.main_fn = main_fn
        self.setup = setup
        self.maxp = max_preemptions
        self.max_runs = max_runs
        self.kw = kw
        self.runs = 0
        self.complete = False

    def __iter__(self):
        stack = []
        while True:
            if self.max_runs is not None and self.runs >= self.max_runs:
                return
            pol = _Dfs(stack, self.maxp)
            if self.setup is not None:
                st = self.setup()
                res = execute(lambda: self.main_fn(st), pol, **self.kw)
            else:
                res = execute(self.main_fn, pol, **self.kw)
            self.runs += 1
            yield res
            del stack[pol.depth:]          # (a run cut short by an outcome may leave the stack longer than it went)
            while stack and stack[-1][1] + 1 >= len(stack[-1][0]):
                stack.pop()
            if not stack:
                self.complete = True
                return
            stack[-1][1] += 1

"""Self-test of vsched:  cd /verif && /venv/bin/python -m harness.vsched.selftest   (prints `vsched selftest ok`)"""
import contextlib
import io
import logging
import queue as real_queue
import sys
import threading as real_threading
import time as real_time

from harness import vsched
from harness.lib import common  # noqa: F401  (puts REPO first on sys.path)

vt, vq, vtime = vsched.threading, vsched.queue, vsched.time
CHECKS = []


def check(fn):
    CHECKS.append(fn)
    return fn


def expect(cond, msg):
    if not cond:
        raise AssertionError(msg)


# ---- scheduling ---------------------------------------------------------------------------------------
def racy_counter(locked):
    def main():
        st = {'n': 0}
        lock = vt.Lock()

        def inc():
            if locked:
                lock.acquire()
            v = st['n']
            vsched.yield_now('between read and write')
            st['n'] = v + 1
            if locked:
                lock.release()
        ts = [vt.Thread(target=inc) for _ in range(2)]
        for t in ts:
            t.start()
        for t in ts:
            t.join()
        return st['n']
    return main


@check
def dfs_finds_lost_update():
    with vsched.Session() as s:
        ex = s.explore(racy_counter(False))
        vals = [r.value for r in ex]
        expect(ex.complete and set(vals) == {1, 2}, 'expected both outcomes, got %r' % sorted(set(vals)))
        expect(all(r.outcome == 'ok' for r in [s.run(racy_counter(False))]), 'outcome')
        ex2 = s.explore(racy_counter(True))
        vals2 = {r.value for r in ex2}
        expect(ex2.complete and vals2 == {2}, 'locked counter must always give 2, got %r' % vals2)
        expect(ex2.runs > 3, 'locked exploration too small: %d' % ex2.runs)
        # preemption bound 0 = only the non-preemptive schedules: no lost update possible
        ex3 = s.explore(racy_counter(False), max_preemptions=0)
        expect({r.value for r in ex3} == {2} and ex3.complete, 'bound 0 must not preempt')
        ex4 = s.explore(racy_counter(False), max_preemptions=1)
        expect({r.value for r in ex4} == {1, 2}, 'one preemption suffices for the lost update')
        expect(ex3.runs < ex4.runs < ex.runs, 'bounds must prune: %d %d %d' % (ex3.runs, ex4.runs, ex.runs))


@check
def replay_and_seed_determinism():
    with vsched.Session() as s:
        seen = set()
        for seed in range(30):
            r1 = s.run(racy_counter(False), policy=vsched.Random(seed))
            r2 = s.run(racy_counter(False), policy=vsched.Random(seed))
            expect(r1.trace == r2.trace and r1.choices == r2.choices, 'same seed must give the same run')
            r3 = s.run(racy_counter(False), policy=vsched.Replay(r1.choices))
            expect(r3.trace == r1.trace and r3.value == r1.value, 'replay must reproduce the run')
            seen.add(r1.value)
        expect(seen == {1, 2}, 'random policy should reach both outcomes in 30 seeds: %r' % seen)
        try:
            s.run(racy_counter(False), policy=vsched.Replay([7, 7, 7]))
            expect(False, 'divergent replay must raise')
        except vsched.ReplayDivergence:
            pass
        # the scheduler is usable again after an error
        expect(s.run(racy_counter(True)).value == 2, 'run after divergence')


@check
def deadlock_detected_and_replayed():
    def main():
        a, b = vt.Lock(), vt.Lock()

        def t1():
            with a:
                with b:
                    pass

        def t2():
            with b:
                with a:
                    pass
        ts = [vt.Thread(target=t1, name='t1'), vt.Thread(target=t2, name='t2')]
        for t in ts:
            t.start()
        for t in ts:
            t.join()
    with vsched.Session() as s:
        outs = {}
        for r in s.explore(main):
            outs.setdefault(r.outcome, r)
        expect(set(outs) == {'ok', 'deadlock'}, 'outcomes %r' % set(outs))
        d = outs['deadlock']
        names = {b[0] for b in d.blocked}
        expect(names == {'MainThread', 't1', 't2'}, 'blocked %r' % d.blocked)
        r = s.run(main, policy=vsched.Replay(d.choices))
        expect(r.outcome == 'deadlock' and r.trace == d.trace, 'deadlock replay')
        expect(d.leaked == 0, 'threads leaked after deadlock')


@check
def thread_death_and_main_exception():
    def main():
        def boom():
            raise KeyError('x')
        t = vt.Thread(target=boom, name='boom')
        t.start()
        t.join()
        raise ValueError('main')
    with vsched.Session() as s:
        r = s.run(main)
        expect(r.outcome == 'thread-death', r.outcome)
        expect([(n, type(e)) for n, e in r.deaths] == [('boom', KeyError)], 'deaths %r' % r.deaths)
        expect(isinstance(r.exc, ValueError), 'main exception %r' % r.exc)


@check
def virtual_clock():
    def main():
        t0, m0 = vtime.time(), vtime.monotonic()
        vtime.sleep(3600.0)
        ev = vt.Event()
        got = ev.wait(10.0)
        fired = []
        tm = vt.Timer(5.0, lambda: fired.append(vtime.time() - t0))
        tm.start()
        tm2 = vt.Timer(7.0, lambda: fired.append('cancelled one fired'))
        tm2.start()
        tm2.cancel()
        tm.join()
        tm2.join()
        q = vq.Queue()
        try:
            q.get(timeout=2.5)
            e = 'no'
        except real_queue.Empty:
            e = 'empty'
        lk = vt.Lock()
        lk.acquire()
        a = lk.acquire(timeout=1.5)
        b = lk.acquire(blocking=False)
        return (got, fired, e, a, b, vtime.time() - t0, vtime.monotonic() - m0)
    with vsched.Session() as s:
        w0 = real_time.time()
        r = s.run(main)
        wall = real_time.time() - w0
        expect(r.outcome == 'ok' and r.exc is None, '%r %r' % (r.outcome, r.exc))
        got, fired, e, a, b, dt, dm = r.value
        expect(got is False and fired == [3615.0] and e == 'empty' and a is False and b is False, repr(r.value))
        expect(dt == 3619.0 and dm == 3619.0 and r.now == 3619.0, 'virtual time %r %r %r' % (dt, dm, r.now))
        expect(wall < 5.0, 'an hour of virtual time took %.1f s' % wall)


@check
def queues_conditions_semaphores():
    def main():
        q = vq.Queue(maxsize=2)
        out = []
        cond = vt.Condition()
        ready = []
        sem = vt.Semaphore(0)
        rl = vt.RLock()

        def producer():
            for i in range(6):
                q.put(i)
            with cond:
                ready.append(1)
                cond.notify_all()
            sem.release()

        def consumer():
            for _ in range(6):
                out.append(q.get(timeout=100))
            with rl:
                with rl:
                    pass
        ts = [vt.Thread(target=producer), vt.Thread(target=consumer)]
        for t in ts:
            t.start()
        with cond:
            ok = cond.wait_for(lambda: ready, timeout=50)
        sem.acquire()
        for t in ts:
            t.join()
        pq = vq.PriorityQueue()
        for x in (3, 1, 2):
            pq.put(x)
        return out, bool(ok), [pq.get() for _ in range(3)], q.empty()
    with vsched.Session() as s:
        for seed in range(40):
            r = s.run(main, policy=vsched.Random(seed))
            expect(r.outcome == 'ok' and r.exc is None, 'seed %d: %r %r %r' % (seed, r.outcome, r.exc, r.blocked))
            expect(r.value == ([0, 1, 2, 3, 4, 5], True, [1, 2, 3], True), 'seed %d: %r' % (seed, r.value))
        n = 0
        for r in s.explore(main, max_preemptions=1, max_runs=400):
            expect(r.outcome == 'ok' and r.value[0] == [0, 1, 2, 3, 4, 5], 'dfs: %r %r' % (r.outcome, r.value))
            n += 1
        expect(n > 20, 'dfs runs %d' % n)


@check
def step_limit_and_daemons():
    def spin():
        def loop():
            while True:
                vtime.sleep(0)
        t = vt.Thread(target=loop)
        t.start()
        t.join()

    def with_daemon():
        def loop():
            while True:
                vtime.sleep(1)
        t = vt.Thread(target=loop, daemon=True)
        t.start()
        vtime.sleep(10)
        return 'done'
    with vsched.Session() as s:
        r = s.run(spin, step_limit=500)
        expect(r.outcome == 'step-limit' and r.leaked == 0, '%r leaked=%d' % (r.outcome, r.leaked))
        r = s.run(with_daemon)
        expect(r.outcome == 'ok' and r.value == 'done' and r.leaked == 0, '%r %r' % (r.outcome, r.value))


@check
def time_jump_option():
    # a timeout racing with a set(): only reachable when virtual time may pass while another thread is runnable
    def main():
        ev = vt.Event()
        res = []
        t = vt.Thread(target=lambda: res.append(ev.wait(1.0)))
        t.start()
        vsched.yield_now()
        ev.set()
        t.join()
        return res[0]
    with vsched.Session() as s:
        expect({r.value for r in s.explore(main)} == {True}, 'without time jumps the wait always succeeds')
        expect({r.value for r in s.explore(main, allow_time_jump=True)} == {True, False}, 'time jump must expose the timeout')


# ---- trace points (sys.settrace) --------------------------------------------------------------------------
class Account:
    def __init__(self):
        self.balance = 0

    def deposit(self, n):
        cur = self.balance
        self.balance = cur + n      # racy write


@check
def settrace_preemption_points():
    def main():
        acc = Account()
        ts = [vt.Thread(target=acc.deposit, args=(1,)) for _ in range(2)]
        for t in ts:
            t.start()
        for t in ts:
            t.join()
        return acc.balance
    with vsched.Session() as s:
        expect({r.value for r in s.explore(main)} == {2}, 'no yield inside deposit => atomic')
        ex = s.explore(main, trace_points=[('deposit', 'self.balance = cur + n')])
        expect({r.value for r in ex} == {1, 2}, 'trace point must expose the lost update')
        r = next(r for r in s.explore(main, trace_points=[('deposit', 'self.balance = cur + n')]) if r.value == 1)
        expect(any(t[1] == 'trace' for t in r.trace), 'trace event recorded')
        expect(sys.gettrace() is None, 'tracer must not leak into the harness thread')


# ---- scoping of the replacement ---------------------------------------------------------------------------
@check
def import_scoping():
    logging.disable(logging.CRITICAL)
    import cflib.crazyflie.swarm as before
    expect(before.Thread is real_threading.Thread, 'outside a session cflib uses the real Thread')
    with vsched.Session():
        import cflib.crazyflie.swarm as sw
        import cflib.crazyflie.syncCrazyflie as sc
        import cflib.crazyflie as cfm
        expect(sw is not before, 'module must be re-imported in the session')
        expect(sw.Thread is vt.Thread and sc.Event is vt.Event, 'cflib must bind the shim classes')
        expect(cfm.time is vtime and cfm.Timer is vt.Timer and cfm.Lock is vt.Lock, 'crazyflie/__init__ shims')
        import cflib.crtp.radiodriver as rd
        expect(rd.queue is vq and rd.threading is vt and rd.Semaphore is vt.Semaphore, 'radiodriver shims')
        import threading
        import queue
        import time
        expect(threading is real_threading and queue is real_queue and time is real_time, 'harness keeps the real modules')
        import logging as lg
        expect(lg.threading is real_threading, 'stdlib keeps the real modules')
        expect(real_threading.Thread.__module__ == 'threading' and real_threading.Event is not vt.Event, 'real module untouched')
    import cflib.crazyflie.swarm as after
    expect(after is before and after.Thread is real_threading.Thread, 'real-threaded modules restored on exit')
    import builtins
    expect(builtins.__import__.__name__ == '__import__', 'import hook removed')
    # real threads still work after a session (global patching would deadlock Thread.start)
    t = real_threading.Thread(target=lambda: None)
    t.start()
    t.join(5)
    expect(not t.is_alive(), 'real thread after session')


# ---- real cflib objects -----------------------------------------------------------------------------------
class FakeMember:
    def __init__(self, uri):
        self.uri = uri

    def open_link(self):
        vsched.emit('open', self.uri)

    def close_link(self):
        vsched.emit('close', self.uri)


class FakeFactory:
    def construct(self, uri):
        return FakeMember(uri)


@check
def real_swarm_under_dfs():
    logging.disable(logging.CRITICAL)
    with vsched.Session() as s:
        from cflib.crazyflie.swarm import Swarm
        uris = ['u0', 'u1', 'u2']

        def main():
            sw = Swarm(uris, factory=FakeFactory())

            def act(m, tag):
                vsched.emit('act', m.uri, tag)
                vsched.yield_now()
                if m.uri == 'u1':
                    raise RuntimeError('boom')
                vsched.emit('done', m.uri)
            sw.parallel_safe(act, {u: [u.upper()] for u in uris})
        ex = s.explore(main, max_preemptions=2)
        orders = set()
        for r in ex:
            expect(r.outcome == 'ok', r.outcome)
            expect(isinstance(r.exc, Exception) and isinstance(r.exc.__cause__, RuntimeError), 'raises from the member error: %r' % r.exc)
            acts = [e[2:] for e in r.events() if e[1] == 'act']
            expect(sorted(acts) == [(u, u.upper()) for u in uris], 'each once with own args: %r' % acts)
            orders.add(tuple(e[1:3] for e in r.events()))
        expect(ex.complete and len(orders) > 10, 'interleavings explored: %d' % len(orders))


class FakeLink:
    """a link driver that delivers scripted packets; blocks in virtual time like the real drivers' queue.get(timeout)"""

    def __init__(self, packets):
        self.q = vq.Queue()
        for p in packets:
            self.q.put(p)
        self.sent = []
        self.needs_resending = False

    def receive_packet(self, wait=0):
        try:
            return self.q.get(True, wait) if wait else self.q.get(False)
        except real_queue.Empty:
            return None

    def send_packet(self, pk):
        self.sent.append(pk)

    def close(self):
        vsched.emit('link-closed')


@check
def real_crazyflie_dispatcher():
    logging.disable(logging.CRITICAL)
    with vsched.Session() as s:
        from cflib.crazyflie import Crazyflie
        from cflib.crtp.crtpstack import CRTPPacket

        def main():
            pk = CRTPPacket()
            pk.set_header(5, 1)
            pk.data = bytes([1, 2, 3])
            link = FakeLink([])
            cf = Crazyflie(link=link, rw_cache=None)       # starts the dispatcher thread (tid 1) at once
            got = []
            cf.add_port_callback(5, lambda p: got.append((vsched.current_tid(), bytes(p.data))))
            link.q.put(pk)
            vtime.sleep(2.5)
            cf.close_link()
            vtime.sleep(3.0)
            return got
        with contextlib.redirect_stdout(io.StringIO()):
            for seed in range(10):
                r = s.run(main, policy=vsched.Random(seed))
                expect(r.outcome == 'ok' and r.exc is None, 'seed %d: %r %r %r' % (seed, r.outcome, r.exc, r.deaths))
                expect(r.value == [(1, b'\x01\x02\x03')], 'dispatcher thread (tid 1) must deliver the packet: %r' % r.value)
                expect(r.now == 5.5, 'virtual time %r' % r.now)


def main():
    w0 = real_time.time()
    for fn in CHECKS:
        t0 = real_time.time()
        fn()
        print('  %-36s ok  %.2fs' % (fn.__name__, real_time.time() - t0))
    n = real_threading.active_count()
    print('vsched selftest ok (%d checks, %.1fs, %d real thread(s) alive)' % (len(CHECKS), real_time.time() - w0, n))
    return 0


if __name__ == '__main__':
    sys.exit(main())

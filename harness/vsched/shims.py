"""Shim `threading`, `queue` and `time` modules whose blocking primitives are scheduled by vsched.core.

The three module objects (`threading`, `queue`, `time` below) are process-wide singletons; a Session hands them
to importers inside cflib/lpslib.  Every operation looks up the run in progress at call time:
  * called by a controlled thread of the active run -> a yield point, then the effect;
  * called outside a run (object construction in set-up code, post-mortem inspection) -> the effect takes place
    directly when it cannot block, and a VschedError is raised when it would block.
"""
import collections
import heapq
import queue as _rq
import threading as _rt
import time as _rtime
import types

from . import core
from .core import VschedError

_glob_ids = {}


def _new_label(kind):
    r = core._active
    if r is not None:
        return r.next_id(kind)
    n = _glob_ids.get(kind, 0) + 1
    _glob_ids[kind] = n
    return 'g%s%d' % (kind, n)


def _op(kind, label, pred=None, timeout=None, would_block='blocks'):
    """yield point when controlled; direct mode otherwise.  Returns True (go ahead) / False (timed out)."""
    r = core.active()
    if r is not None:
        return r.yield_point(kind, label, pred, timeout)
    if pred is None or pred():
        return True
    if timeout is not None:
        return False        # direct mode: a timed wait that cannot succeed times out at once
    raise VschedError('%s %s %s outside a controlled thread' % (kind, label, would_block))


def _me_key():
    r = core.active()
    if r is not None:
        return ('v', id(r), r.me().tid)
    return ('r', _rt.get_ident())


# ======================================================================================================
# threading
# ======================================================================================================
class Lock:
    def __init__(self):
        self._owner = None
        self._label = _new_label('Lock')

    def _free(self):
        return self._owner is None

    def acquire(self, blocking=True, timeout=-1):
        if not blocking:
            _op('acquire?', self._label)
            if self._owner is not None:
                return False
            self._owner = _me_key()
            return True
        ok = _op('acquire', self._label, self._free, None if timeout is None or timeout < 0 else timeout)
        if ok:
            self._owner = _me_key()
        return ok

    def release(self):
        r = core.active()
        if r is not None and r.yield_on_release:
            r.yield_point('release', self._label)
        if self._owner is None:
            raise RuntimeError('release unlocked lock')
        self._owner = None

    def locked(self):
        return self._owner is not None

    __enter__ = acquire

    def __exit__(self, *a):
        self.release()

    # used by Condition
    def _release_save(self):
        if self._owner is None:
            raise RuntimeError('cannot wait on un-acquired lock')
        self._owner = None
        return None

    def _acquire_restore(self, saved):
        _op('acquire', self._label, self._free)
        self._owner = _me_key()

    def _is_owned(self):
        return self._owner is not None

    def __repr__(self):
        return '<vsched %s %s>' % (self._label, 'locked' if self._owner else 'unlocked')


class RLock:
    def __init__(self):
        self._owner = None
        self._count = 0
        self._label = _new_label('RLock')

    def acquire(self, blocking=True, timeout=-1):
        me = _me_key()

        def free():
            return self._owner is None or self._owner == me
        if not blocking:
            _op('acquire?', self._label)
            if not free():
                return False
        elif not _op('acquire', self._label, free, None if timeout is None or timeout < 0 else timeout):
            return False
        self._owner = me
        self._count += 1
        return True

    def release(self):
        r = core.active()
        if r is not None and r.yield_on_release:
            r.yield_point('release', self._label)
        if self._owner != _me_key():
            raise RuntimeError('cannot release un-acquired lock')
        self._count -= 1
        if self._count == 0:
            self._owner = None

    __enter__ = acquire

    def __exit__(self, *a):
        self.release()

    def _release_save(self):
        if self._owner != _me_key():
            raise RuntimeError('cannot wait on un-acquired lock')
        saved = (self._owner, self._count)
        self._owner, self._count = None, 0
        return saved

    def _acquire_restore(self, saved):
        _op('acquire', self._label, lambda: self._owner is None)
        self._owner, self._count = saved

    def _is_owned(self):
        return self._owner == _me_key()


class Event:
    def __init__(self):
        self._flag = False
        self._label = _new_label('Event')

    def is_set(self):
        return self._flag

    isSet = is_set

    def set(self):
        _op('set', self._label)
        self._flag = True

    def clear(self):
        _op('clear', self._label)
        self._flag = False

    def wait(self, timeout=None):
        _op('wait', self._label, self.is_set, timeout)
        return self._flag


class Condition:
    def __init__(self, lock=None):
        self._lock = lock if lock is not None else RLock()
        self.acquire = self._lock.acquire
        self.release = self._lock.release
        self._waiters = []
        self._label = _new_label('Cond')

    def __enter__(self):
        return self._lock.__enter__()

    def __exit__(self, *a):
        return self._lock.__exit__(*a)

    def wait(self, timeout=None):
        if not self._lock._is_owned():
            raise RuntimeError('cannot wait on un-acquired lock')
        tok = [False]
        self._waiters.append(tok)
        saved = self._lock._release_save()
        try:
            ok = _op('cond.wait', self._label, lambda: tok[0], timeout)
        finally:
            if not tok[0] and tok in self._waiters:
                self._waiters.remove(tok)
            self._lock._acquire_restore(saved)
        return ok

    def wait_for(self, predicate, timeout=None):
        end = None if timeout is None else _now() + timeout
        result = predicate()
        while not result:
            left = None
            if end is not None:
                left = end - _now()
                if left <= 0:
                    break
            self.wait(left)
            result = predicate()
        return result

    def notify(self, n=1):
        if not self._lock._is_owned():
            raise RuntimeError('cannot notify on un-acquired lock')
        _op('notify', self._label)
        for tok in self._waiters[:n]:
            tok[0] = True
        del self._waiters[:n]

    def notify_all(self):
        self.notify(len(self._waiters))

    notifyAll = notify_all


class Semaphore:
    def __init__(self, value=1):
        if value < 0:
            raise ValueError('semaphore initial value must be >= 0')
        self._value = value
        self._label = _new_label('Sem')

    def acquire(self, blocking=True, timeout=None):
        if not blocking:
            _op('sem.acquire?', self._label)
            if self._value <= 0:
                return False
        elif not _op('sem.acquire', self._label, lambda: self._value > 0, timeout):
            return False
        self._value -= 1
        return True

    def release(self, n=1):
        _op('sem.release', self._label)
        self._value += n

    __enter__ = acquire

    def __exit__(self, *a):
        self.release()


class BoundedSemaphore(Semaphore):
    def __init__(self, value=1):
        Semaphore.__init__(self, value)
        self._initial = value

    def release(self, n=1):
        _op('sem.release', self._label)
        if self._value + n > self._initial:
            raise ValueError('Semaphore released too many times')
        self._value += n


class Thread:
    def __init__(self, group=None, target=None, name=None, args=(), kwargs=None, *, daemon=None):
        self._target = target
        self._args = args
        self._kwargs = kwargs or {}
        r = core._active
        if name is None:
            if r is not None:
                r.names += 1
                name = 'Thread-%d' % r.names
            else:
                name = _new_label('Thread-')
        self._name = str(name)
        self._daemonic = daemon if daemon is not None else current_thread().daemon
        self._started = False
        self._finished = False
        self._rec = None

    def start(self):
        r = core.active()
        if r is None:
            raise VschedError('Thread.start outside a controlled run')
        if self._started:
            raise RuntimeError('threads can only be started once')
        r.yield_point('start', self._name)
        self._started = True
        self._rec = r.spawn(self, self.run, self._name, self._daemonic)

    def run(self):
        try:
            if self._target is not None:
                self._target(*self._args, **self._kwargs)
        finally:
            del self._target, self._args, self._kwargs

    def join(self, timeout=None):
        if not self._started:
            raise RuntimeError('cannot join thread before it is started')
        r = core.active()
        if r is not None and r.me() is self._rec:
            raise RuntimeError('cannot join current thread')
        _op('join', self._name, lambda: self._finished, timeout)

    def is_alive(self):
        return self._started and not self._finished

    @property
    def name(self):
        return self._name

    @name.setter
    def name(self, v):
        self._name = str(v)
        if self._rec is not None:
            self._rec.name = self._name

    @property
    def daemon(self):
        return self._daemonic

    @daemon.setter
    def daemon(self, v):
        if self._started:
            raise RuntimeError('cannot set daemon status of active thread')
        self._daemonic = bool(v)

    @property
    def ident(self):
        return None if self._rec is None else 1000 + self._rec.tid

    native_id = ident

    def isDaemon(self):
        return self._daemonic

    def setDaemon(self, v):
        self.daemon = v

    def getName(self):
        return self._name

    def setName(self, v):
        self.name = v

    def __repr__(self):
        return '<vsched Thread %s>' % self._name


class _MainThread(Thread):
    def __init__(self):
        self._name = 'MainThread'
        self._daemonic = False
        self._started = True
        self._finished = False
        self._rec = None
        self._target = None
        self._args = ()
        self._kwargs = {}


class _Outside(Thread):
    """what current_thread() returns to an uncontrolled thread"""

    def __init__(self):
        self._name = 'uncontrolled-' + _rt.current_thread().name
        self._daemonic = False
        self._started = True
        self._finished = False
        self._rec = None


class Timer(Thread):
    def __init__(self, interval, function, args=None, kwargs=None):
        Thread.__init__(self)
        self.interval = interval
        self.function = function
        self.args = args if args is not None else []
        self.kwargs = kwargs if kwargs is not None else {}
        self.finished = Event()

    def cancel(self):
        self.finished.set()

    def run(self):
        self.finished.wait(self.interval)
        if not self.finished.is_set():
            self.function(*self.args, **self.kwargs)
        self.finished.set()


class Barrier:
    def __init__(self, *a, **k):
        raise NotImplementedError('vsched: threading.Barrier is not modelled')


def current_thread():
    r = core.active()
    if r is not None:
        return r.me().shim
    return _Outside()


def main_thread():
    r = core._active
    if r is not None:
        return r.threads[0].shim
    return _Outside()


def enumerate_():
    r = core._active
    if r is None:
        return []
    return [t.shim for t in r.threads if not t.done]


def active_count():
    return len(enumerate_())


def get_ident():
    r = core.active()
    if r is not None:
        return 1000 + r.me().tid
    return _rt.get_ident()


# ======================================================================================================
# time
# ======================================================================================================
def _now():
    r = core._active
    return r.now if r is not None else 0.0


def _read(kind):
    r = core.active()
    if r is not None and r.yield_on_time:
        r.yield_point(kind, '')
    return _now()


def v_time():
    return core.EPOCH + _read('time')


def v_monotonic():
    return 1000.0 + _read('monotonic')


def v_time_ns():
    return int(v_time() * 1e9)


def v_monotonic_ns():
    return int(v_monotonic() * 1e9)


def v_sleep(secs):
    if secs < 0:
        raise ValueError('sleep length must be non-negative')
    r = core.active()
    if r is None:
        raise VschedError('time.sleep outside a controlled thread')
    r.yield_point('sleep', '%g' % secs, core._never, secs)


def v_localtime(secs=None):
    return _rtime.localtime(core.EPOCH + _now() if secs is None else secs)


def v_gmtime(secs=None):
    return _rtime.gmtime(core.EPOCH + _now() if secs is None else secs)


def v_strftime(fmt, t=None):
    return _rtime.strftime(fmt, v_localtime() if t is None else t)


def v_ctime(secs=None):
    return _rtime.ctime(core.EPOCH + _now() if secs is None else secs)


# ======================================================================================================
# queue
# ======================================================================================================
class Queue:
    def __init__(self, maxsize=0):
        self.maxsize = maxsize
        self._label = _new_label(type(self).__name__)
        self.unfinished_tasks = 0
        self._init(maxsize)

    def _init(self, maxsize):
        self.queue = collections.deque()

    def _qsize(self):
        return len(self.queue)

    def _put(self, item):
        self.queue.append(item)

    def _get(self):
        return self.queue.popleft()

    def qsize(self):
        return self._qsize()

    def empty(self):
        return not self._qsize()

    def full(self):
        return 0 < self.maxsize <= self._qsize()

    def _not_full(self):
        return not self.full()

    def _not_empty(self):
        return self._qsize() > 0

    def put(self, item, block=True, timeout=None):
        if not block:
            _op('put?', self._label)
            if self.full():
                raise _rq.Full
        else:
            if timeout is not None and timeout < 0:
                raise ValueError("'timeout' must be a non-negative number")
            if not _op('put', self._label, self._not_full, timeout):
                raise _rq.Full
        self._put(item)
        self.unfinished_tasks += 1

    def get(self, block=True, timeout=None):
        if not block:
            _op('get?', self._label)
            if not self._qsize():
                raise _rq.Empty
        else:
            if timeout is not None and timeout < 0:
                raise ValueError("'timeout' must be a non-negative number")
            if not _op('get', self._label, self._not_empty, timeout):
                raise _rq.Empty
        return self._get()

    def put_nowait(self, item):
        return self.put(item, block=False)

    def get_nowait(self):
        return self.get(block=False)

    def task_done(self):
        _op('task_done', self._label)
        if self.unfinished_tasks <= 0:
            raise ValueError('task_done() called too many times')
        self.unfinished_tasks -= 1

    def join(self):
        _op('q.join', self._label, lambda: self.unfinished_tasks == 0)


class LifoQueue(Queue):
    def _init(self, maxsize):
        self.queue = []

    def _put(self, item):
        self.queue.append(item)

    def _get(self):
        return self.queue.pop()


class PriorityQueue(Queue):
    def _init(self, maxsize):
        self.queue = []

    def _put(self, item):
        heapq.heappush(self.queue, item)

    def _get(self):
        return heapq.heappop(self.queue)


class SimpleQueue(Queue):
    def __init__(self):
        Queue.__init__(self, 0)


# ======================================================================================================
# the module objects
# ======================================================================================================
def _module(real, overrides):
    m = types.ModuleType(real.__name__)
    for k, v in real.__dict__.items():
        if not k.startswith('__'):
            setattr(m, k, v)
    m.__doc__ = 'vsched shim of ' + real.__name__
    for k, v in overrides.items():
        setattr(m, k, v)
    m.__vsched__ = True
    return m


threading = _module(_rt, dict(
    Lock=Lock, RLock=RLock, Event=Event, Condition=Condition, Semaphore=Semaphore, BoundedSemaphore=BoundedSemaphore,
    Thread=Thread, Timer=Timer, Barrier=Barrier, current_thread=current_thread, currentThread=current_thread,
    main_thread=main_thread, enumerate=enumerate_, active_count=active_count, activeCount=active_count,
    get_ident=get_ident))

queue = _module(_rq, dict(Queue=Queue, LifoQueue=LifoQueue, PriorityQueue=PriorityQueue, SimpleQueue=SimpleQueue))

time = _module(_rtime, dict(
    time=v_time, monotonic=v_monotonic, perf_counter=v_monotonic, time_ns=v_time_ns, monotonic_ns=v_monotonic_ns,
    perf_counter_ns=v_monotonic_ns, sleep=v_sleep, localtime=v_localtime, gmtime=v_gmtime, strftime=v_strftime,
    ctime=v_ctime))

MODULES = {'threading': threading, 'queue': queue, 'time': time}

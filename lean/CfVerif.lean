-- Root of the CfVerif library: base libraries only.  Property modules
-- (CfVerif.Props.Cxx) are built as explicit targets by ./check.
import CfVerif.Base.Bytes
import CfVerif.Base.Struct
import CfVerif.Base.StructLemmas
import CfVerif.Base.Py
import CfVerif.Base.Proto
import CfVerif.Base.AuditTool

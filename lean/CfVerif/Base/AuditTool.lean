/-
Base/AuditTool: `#audit_module M` prints, for every theorem declared in module `M`,
a line `AXIOMS <theorem> : <comma-separated axioms>`; and `THEOREMS <n>`.
Used by ./check to require axioms ⊆ {propext, Classical.choice, Quot.sound}.
-/
import Lean
open Lean Elab Command

elab "#audit_module " m:ident : command => do
  let env ← getEnv
  let modName := m.getId
  let some idx := env.getModuleIdx? modName
    | throwError "audit: module {modName} is not imported"
  let names := env.header.moduleData[idx.toNat]!.constNames
  let mut n : Nat := 0
  for c in names do
    match env.find? c with
    | some (.thmInfo _) =>
      if c.isInternal then continue
      -- only theorems written in the source (auto-generated equation lemmas have no range)
      if (← Lean.findDeclarationRanges? c).isNone then continue
      let axs ← Lean.collectAxioms c
      n := n + 1
      logInfo m!"AXIOMS {c} : {", ".intercalate (axs.toList.map toString)}"
    | _ => pure ()
  logInfo m!"THEOREMS {n}"

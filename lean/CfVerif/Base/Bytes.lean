/-
Base/Bytes: little-endian byte strings, hex printing/parsing.  No Mathlib.
-/
namespace CfVerif

/-- little-endian encoding of `n` into exactly `k` bytes (`n` is taken modulo `256^k`). -/
def leBytes : Nat → Nat → List UInt8
  | 0, _ => []
  | k+1, n => UInt8.ofNat (n % 256) :: leBytes k (n / 256)

/-- value of a little-endian byte string. -/
def leVal : List UInt8 → Nat
  | [] => 0
  | b :: bs => b.toNat + 256 * leVal bs

@[simp] theorem leBytes_length (k n : Nat) : (leBytes k n).length = k := by
  induction k generalizing n with
  | zero => rfl
  | succ k ih => simp [leBytes, ih]

theorem leVal_lt (bs : List UInt8) : leVal bs < 256 ^ bs.length := by
  induction bs with
  | nil => simp [leVal]
  | cons b bs ih =>
    have hb : b.toNat < 256 := b.toNat_lt
    simp only [leVal, List.length_cons, Nat.pow_succ]
    omega

theorem UInt8.toNat_ofNat_mod (n : Nat) : (UInt8.ofNat (n % 256)).toNat = n % 256 := by
  simp

theorem leVal_leBytes (k n : Nat) : leVal (leBytes k n) = n % 256 ^ k := by
  induction k generalizing n with
  | zero => simp [leBytes, leVal, Nat.mod_one]
  | succ k ih =>
    simp only [leBytes, leVal, ih, UInt8.toNat_ofNat_mod, Nat.pow_succ]
    rw [Nat.mul_comm (256 ^ k) 256, Nat.mod_mul]

theorem leVal_leBytes_of_lt {k n : Nat} (h : n < 256 ^ k) : leVal (leBytes k n) = n := by
  rw [leVal_leBytes, Nat.mod_eq_of_lt h]

theorem leBytes_leVal (bs : List UInt8) : leBytes bs.length (leVal bs) = bs := by
  induction bs with
  | nil => rfl
  | cons b bs ih =>
    have hb : b.toNat < 256 := b.toNat_lt
    simp only [List.length_cons, leBytes, leVal]
    have h1 : (b.toNat + 256 * leVal bs) % 256 = b.toNat := by omega
    have h2 : (b.toNat + 256 * leVal bs) / 256 = leVal bs := by omega
    rw [h1, h2, ih]
    simp

theorem leBytes_leVal_of_length {bs : List UInt8} {k : Nat} (h : bs.length = k) :
    leBytes k (leVal bs) = bs := by
  subst h; exact leBytes_leVal bs

theorem leBytes_inj {k a b : Nat} (ha : a < 256 ^ k) (hb : b < 256 ^ k)
    (h : leBytes k a = leBytes k b) : a = b := by
  have := congrArg leVal h
  rwa [leVal_leBytes_of_lt ha, leVal_leBytes_of_lt hb] at this

/-! ### hex -/

def hexDigit (n : Nat) : Char := Nat.digitChar (n % 16)

def hexByte (b : UInt8) : String :=
  String.ofList [hexDigit (b.toNat / 16), hexDigit b.toNat]

/-- lowercase hex of a byte string; `-` for the empty string (line-protocol convention). -/
def toHex (bs : List UInt8) : String :=
  if bs.isEmpty then "-" else String.join (bs.map hexByte)

def hexVal? (c : Char) : Option Nat :=
  if '0' ≤ c ∧ c ≤ '9' then some (c.toNat - '0'.toNat)
  else if 'a' ≤ c ∧ c ≤ 'f' then some (c.toNat - 'a'.toNat + 10)
  else if 'A' ≤ c ∧ c ≤ 'F' then some (c.toNat - 'A'.toNat + 10)
  else none

def ofHexChars : List Char → Option (List UInt8)
  | [] => some []
  | [_] => none
  | a :: b :: rest => do
    let x ← hexVal? a
    let y ← hexVal? b
    let r ← ofHexChars rest
    pure (UInt8.ofNat (16 * x + y) :: r)

def ofHex? (s : String) : Option (List UInt8) :=
  if s == "-" then some [] else ofHexChars s.toList

end CfVerif

/-
Base/Proto: helpers for the line protocol between the Python harness and the Lean drivers.
One request per line: `<op> <arg> ...`; ints decimal, bytes lowercase hex (`-` = empty),
lists comma separated (`-` = empty).  Replies: `ok ...` / `err <enum>` / `bad-op`.
-/
import CfVerif.Base.Struct
namespace CfVerif

def splitWords (line : String) : List String :=
  (line.trimAscii.toString.splitOn " ").filter (· ≠ "")

def parseIntList? (s : String) : Option (List Int) :=
  if s == "-" then some [] else (s.splitOn ",").mapM String.toInt?

def parseNatList? (s : String) : Option (List Nat) :=
  if s == "-" then some [] else (s.splitOn ",").mapM String.toNat?

def showIntList (l : List Int) : String :=
  if l.isEmpty then "-" else ",".intercalate (l.map toString)

def showNatList (l : List Nat) : String :=
  if l.isEmpty then "-" else ",".intercalate (l.map toString)

/-- a `Val` on the wire: `i<int>` | `f<bits>` | `t` | `n` (bool) | `x<hex>` -/
def parseVal? (s : String) : Option Val :=
  match s.toList with
  | 'i' :: r => (String.ofList r).toInt?.map Val.int
  | 'f' :: r => (String.ofList r).toNat?.map Val.flt
  | ['t'] => some (.bool true)
  | ['n'] => some (.bool false)
  | 'x' :: r => (ofHex? (String.ofList r)).map Val.bytes
  | _ => none

def parseVals? (s : String) : Option (List Val) :=
  if s == "-" then some [] else (s.splitOn ",").mapM parseVal?

def showVal : Val → String
  | .int v => s!"i{v}"
  | .flt b => s!"f{b}"
  | .bool true => "t"
  | .bool false => "n"
  | .bytes b => s!"x{toHex b}"

def showVals (l : List Val) : String :=
  if l.isEmpty then "-" else ",".intercalate (l.map showVal)

def showExcept {α} (f : α → String) : Except PyErr α → String
  | .ok a => s!"ok {f a}"
  | .error e => s!"err {e}"

/-- read lines from stdin, answer each with `step`, threading a state. -/
partial def protoLoop {σ} (h : IO.FS.Stream) (out : IO.FS.Stream) (st : σ)
    (step : σ → List String → σ × String) : IO Unit := do
  let line ← h.getLine
  if line.isEmpty then
    out.flush
    return ()
  let (st', reply) := step st (splitWords line)
  out.putStrLn reply
  protoLoop h out st' step

def runProto {σ} (init : σ) (step : σ → List String → σ × String) : IO Unit := do
  protoLoop (← IO.getStdin) (← IO.getStdout) init step

end CfVerif

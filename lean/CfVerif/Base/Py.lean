/-
Base/Py: Python integer semantics that differ from (or are missing in) core Lean.
Core `Int` has floor `/` and `%` for positive divisors (as Python) and `>>>`; it has no `&&&`.
-/
namespace CfVerif

/-- Python `a & m` for a non-negative mask `m` (two's-complement semantics for negative `a`). -/
def pyAnd (a : Int) (m : Nat) : Nat :=
  (a % ((2 ^ (m.log2 + 1) : Nat) : Int)).toNat &&& m

/-- Python `a >> n` (arithmetic shift: floor division by `2^n`). -/
def pyShr (a : Int) (n : Nat) : Int := a >>> n

/-- Python `int(q)` for a rational given as numerator/denominator (den > 0): truncation toward 0. -/
def pyTrunc (num : Int) (den : Nat) : Int := Int.tdiv num den

/-- Python `a // b` for ints (`b ≠ 0`): floor division. -/
def pyFloorDiv (a b : Int) : Int := Int.fdiv a b
/-- Python `a % b` for ints: sign follows the divisor. -/
def pyMod (a b : Int) : Int := Int.fmod a b

end CfVerif

/-
Base/Sched: a minimal generic interleaving semantics for threads.

A `Machine` is a partial step function indexed by thread ids: `step c t = none` means thread `t` is not
enabled in configuration `c` (blocked in a join / lock / queue operation, not started, or finished).
A *schedule* is the list of thread ids picked by the scheduler; `run` executes it and fails (`none`) as soon
as a picked thread is not enabled.  "For ALL interleavings" is therefore "for all `sch : List Nat` and all
`c'` with `run m c sch = some c'`"; such statements are proved by `run_invariant` (induction on the schedule).
Core Lean only.
-/
namespace CfVerif.Sched

structure Machine (Cfg : Type) where
  step : Cfg → Nat → Option Cfg

variable {Cfg : Type}

/-- execute a schedule; `none` iff some picked thread was not enabled -/
def run (m : Machine Cfg) : Cfg → List Nat → Option Cfg
  | c, [] => some c
  | c, t :: ts =>
    match m.step c t with
    | none => none
    | some c' => run m c' ts

@[simp] theorem run_nil (m : Machine Cfg) (c : Cfg) : run m c [] = some c := rfl

theorem run_cons (m : Machine Cfg) (c : Cfg) (t : Nat) (ts : List Nat) :
    run m c (t :: ts) = (m.step c t).bind (fun c' => run m c' ts) := by
  simp only [run]; cases m.step c t <;> rfl

theorem run_append (m : Machine Cfg) (c : Cfg) (s₁ s₂ : List Nat) :
    run m c (s₁ ++ s₂) = (run m c s₁).bind (fun c' => run m c' s₂) := by
  induction s₁ generalizing c with
  | nil => rfl
  | cons t ts ih =>
    simp only [List.cons_append, run]
    cases m.step c t with
    | none => rfl
    | some c' => exact ih c'

/-- `c'` is reachable from `c` under some interleaving -/
def Reachable (m : Machine Cfg) (c c' : Cfg) : Prop := ∃ sch, run m c sch = some c'

/-- Induction on the schedule: a property that holds initially and is preserved by every enabled step of
every thread holds after every interleaving. -/
theorem run_invariant (m : Machine Cfg) (Inv : Cfg → Prop)
    (hstep : ∀ c t c', Inv c → m.step c t = some c' → Inv c') :
    ∀ (sch : List Nat) (c c' : Cfg), Inv c → run m c sch = some c' → Inv c' := by
  intro sch
  induction sch with
  | nil => intro c c' h hr; simp only [run, Option.some.injEq] at hr; exact hr ▸ h
  | cons t ts ih =>
    intro c c' h hr
    simp only [run] at hr
    cases hs : m.step c t with
    | none => rw [hs] at hr; exact absurd hr (by simp)
    | some c₁ => rw [hs] at hr; exact ih c₁ c' (hstep c t c₁ h hs) hr

/-- no thread is enabled -/
def Stuck (m : Machine Cfg) (c : Cfg) : Prop := ∀ t, m.step c t = none

/-- Termination: if every step strictly decreases a measure, every executable schedule from `c` is no longer than
`μ c` (so there is no infinite interleaving, and a configuration that is never `Stuck` before its goal reaches it). -/
theorem run_length_le (m : Machine Cfg) (μ : Cfg → Nat)
    (hdec : ∀ c t c', m.step c t = some c' → μ c' < μ c) :
    ∀ (sch : List Nat) (c c' : Cfg), run m c sch = some c' → sch.length + μ c' ≤ μ c := by
  intro sch
  induction sch with
  | nil => intro c c' hr; simp only [run, Option.some.injEq] at hr; subst hr; simp
  | cons t ts ih =>
    intro c c' hr
    simp only [run] at hr
    cases hs : m.step c t with
    | none => rw [hs] at hr; exact absurd hr (by simp)
    | some c₁ =>
      rw [hs] at hr
      have h1 := ih c₁ c' hr
      have h2 := hdec c t c₁ hs
      simp only [List.length_cons]; omega

end CfVerif.Sched

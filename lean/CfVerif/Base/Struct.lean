/-
Base/Struct: a model of the subset of Python's `struct` module that cflib uses.

* byte-order prefixes `<`, `=` (standard sizes, no padding) and none/`@` (native: modelled
  as little-endian with natural alignment padding, as on the x86-64/aarch64 hosts cflib runs on);
* codes `B b H h I i L l Q q f d e ? x` and `<n>s`, with repeat counts;
* out-of-range integers are `struct.error` (never wrapped);
* floats are carried as IEEE bit patterns (`Val.flt bits`): the binary64 -> binary32/16
  rounding that CPython performs inside `struct.pack` is NOT modelled (trusted base).
-/
import CfVerif.Base.Bytes
namespace CfVerif

inductive PyErr
  | structError | valueError | keyError | indexError | zeroDiv | overflow | typeError
  | attributeError | assertion | other
  deriving Repr, DecidableEq, Inhabited

def PyErr.toString : PyErr → String
  | .structError => "struct_error" | .valueError => "value_error" | .keyError => "key_error"
  | .indexError => "index_error" | .zeroDiv => "zero_div" | .overflow => "overflow"
  | .typeError => "type_error" | .attributeError => "attribute_error"
  | .assertion => "assertion" | .other => "other"
instance : ToString PyErr := ⟨PyErr.toString⟩

deriving instance DecidableEq for Except

inductive Code
  | B | b | H | h | I | i | Q | q | f | d | e | bool | x | s (n : Nat)
  deriving Repr, DecidableEq, Inhabited

def Code.size : Code → Nat
  | .B | .b | .bool | .x => 1
  | .H | .h | .e => 2
  | .I | .i | .f => 4
  | .Q | .q | .d => 8
  | .s n => n

abbrev Fmt := List Code

def Fmt.size (f : Fmt) : Nat := (f.map Code.size).sum

inductive Val
  | int (v : Int)
  | flt (bits : Nat)          -- IEEE bit pattern of the width of the code
  | bool (b : Bool)
  | bytes (b : List UInt8)
  deriving Repr, DecidableEq, Inhabited

/-- does the code consume a value from the argument list? -/
def Code.takesVal : Code → Bool
  | .x => false
  | _ => true

/- NOTE (kernel performance): range checks are done on `Nat` after matching the `Int` constructor.
`Int` comparisons against large literals on symbolic values make the *kernel* unfold unary
subtraction (deep recursion) whenever it has to weak-head-normalise a `match` on a pack result. -/
def packUnsigned (k : Nat) : Int → Except PyErr (List UInt8)
  | .ofNat n => if n < 256 ^ k then .ok (leBytes k n) else .error .structError
  | .negSucc _ => .error .structError

def packSigned (k : Nat) : Int → Except PyErr (List UInt8)
  | .ofNat n => if n < 256 ^ k / 2 then .ok (leBytes k n) else .error .structError
  | .negSucc n => if n < 256 ^ k / 2 then .ok (leBytes k (256 ^ k - 1 - n)) else .error .structError

def unpackSigned (k : Nat) (bs : List UInt8) : Int :=
  if leVal bs < 256 ^ k / 2 then Int.ofNat (leVal bs) else Int.negSucc (256 ^ k - 1 - leVal bs)

def packFlt (k : Nat) (bits : Nat) : Except PyErr (List UInt8) :=
  if bits < 256 ^ k then .ok (leBytes k bits) else .error .structError

/-- pad with zero bytes / truncate to exactly `n` bytes, as `struct` does for `<n>s`. -/
def fitBytes (n : Nat) (b : List UInt8) : List UInt8 :=
  (b ++ List.replicate n 0).take n

def packOne : Code → Val → Except PyErr (List UInt8)
  | .B, .int v => packUnsigned 1 v
  | .H, .int v => packUnsigned 2 v
  | .I, .int v => packUnsigned 4 v
  | .Q, .int v => packUnsigned 8 v
  | .b, .int v => packSigned 1 v
  | .h, .int v => packSigned 2 v
  | .i, .int v => packSigned 4 v
  | .q, .int v => packSigned 8 v
  -- Python: bool is an int
  | .B, .bool v => packUnsigned 1 (if v then 1 else 0)
  | .H, .bool v => packUnsigned 2 (if v then 1 else 0)
  | .I, .bool v => packUnsigned 4 (if v then 1 else 0)
  | .Q, .bool v => packUnsigned 8 (if v then 1 else 0)
  | .b, .bool v => packSigned 1 (if v then 1 else 0)
  | .h, .bool v => packSigned 2 (if v then 1 else 0)
  | .i, .bool v => packSigned 4 (if v then 1 else 0)
  | .q, .bool v => packSigned 8 (if v then 1 else 0)
  | .f, .flt v => packFlt 4 v
  | .d, .flt v => packFlt 8 v
  | .e, .flt v => packFlt 2 v
  | .bool, .bool v => .ok [if v then 1 else 0]
  | .bool, .int v => .ok [if v ≠ 0 then 1 else 0]      -- truthiness
  | .s n, .bytes b => .ok (fitBytes n b)
  | _, _ => .error .structError

def pack : Fmt → List Val → Except PyErr (List UInt8)
  | [], [] => .ok []
  | [], _ :: _ => .error .structError
  | .x :: cs, vs => do
    let r ← pack cs vs
    pure (0 :: r)
  | _ :: _, [] => .error .structError
  | c :: cs, v :: vs => do
    let a ← packOne c v
    let r ← pack cs vs
    pure (a ++ r)

def unpackOne : Code → List UInt8 → Val
  | .B, bs | .H, bs | .I, bs | .Q, bs => .int (leVal bs)
  | .b, bs => .int (unpackSigned 1 bs)
  | .h, bs => .int (unpackSigned 2 bs)
  | .i, bs => .int (unpackSigned 4 bs)
  | .q, bs => .int (unpackSigned 8 bs)
  | .f, bs | .d, bs | .e, bs => .flt (leVal bs)
  | .bool, bs => .bool (leVal bs ≠ 0)
  | .s _, bs => .bytes bs
  | .x, _ => .int 0

/-- `struct.unpack`: the buffer must have exactly the size of the format. -/
def unpack : Fmt → List UInt8 → Except PyErr (List Val)
  | [], [] => .ok []
  | [], _ :: _ => .error .structError
  | c :: cs, bs =>
    if bs.length < c.size then .error .structError else do
      let r ← unpack cs (bs.drop c.size)
      if c.takesVal then pure (unpackOne c (bs.take c.size) :: r) else pure r

/-! ### format strings -/

def codeOfChar? : Char → Option Code
  | 'B' => some .B | 'b' => some .b | 'H' => some .H | 'h' => some .h
  | 'I' => some .I | 'i' => some .i | 'L' => some .I | 'l' => some .i
  | 'Q' => some .Q | 'q' => some .q | 'f' => some .f | 'd' => some .d
  | 'e' => some .e | '?' => some .bool | 'x' => some .x | 'c' => some (.s 1)
  | _ => none

/-- parse the body of a format string: optional decimal count then a code character. -/
def parseBody (native : Bool) : List Char → Nat → Option Nat → Option Fmt
  | [], _, none => some []
  | [], _, some _ => none
  | ch :: rest, off, cnt =>
    if ch.isDigit then
      parseBody native rest off (some ((cnt.getD 0) * 10 + (ch.toNat - '0'.toNat)))
    else if ch == ' ' then parseBody native rest off cnt
    else if ch == 's' then do
      let n := cnt.getD 1
      let r ← parseBody native rest (off + n) none
      pure (.s n :: r)
    else do
      let c ← codeOfChar? ch
      let n := cnt.getD 1
      -- native alignment: pad to a multiple of the item size before the first item
      let pad := if native ∧ c.size > 0 then (c.size - off % c.size) % c.size else 0
      let r ← parseBody native rest (off + pad + n * c.size) none
      pure (List.replicate pad Code.x ++ List.replicate n c ++ r)

/-- `<` and `=`: little-endian standard; none / `@`: native (little-endian, aligned).
Big-endian (`>`/`!`) is not used by cflib and is rejected. -/
def parseFmt (s : String) : Option Fmt :=
  match s.toList with
  | '<' :: r => parseBody false r 0 none
  | '=' :: r => parseBody false r 0 none
  | '>' :: _ => none
  | '!' :: _ => none
  | '@' :: r => parseBody true r 0 none
  | r => parseBody true r 0 none

def parseFmt! (s : String) : Fmt := (parseFmt s).getD []

end CfVerif

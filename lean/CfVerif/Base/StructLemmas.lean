/-
Lemmas about Base/Struct: sizes and the pack/unpack round trip.
-/
import CfVerif.Base.Struct
namespace CfVerif

theorem packUnsigned_ok {k : Nat} {v : Int} {bs} (h : packUnsigned k v = .ok bs) :
    0 ≤ v ∧ v < ((256 ^ k : Nat) : Int) ∧ v.toNat < 256 ^ k ∧ bs = leBytes k v.toNat := by
  cases v with
  | ofNat n =>
    simp only [packUnsigned] at h
    split at h
    · rename_i hc; cases h
      exact ⟨Int.natCast_nonneg n, by show (n : Int) < _; exact_mod_cast hc, by simpa using hc, by simp⟩
    · cases h
  | negSucc n => cases h

theorem packSigned_ok {k : Nat} {v : Int} {bs} (h : packSigned k v = .ok bs) :
    -((256 ^ k / 2 : Nat) : Int) ≤ v ∧ v < ((256 ^ k / 2 : Nat) : Int) := by
  cases v with
  | ofNat n =>
    simp only [packSigned] at h
    split at h
    · rename_i hc; cases h
      refine ⟨?_, by show (n : Int) < _; exact_mod_cast hc⟩
      have : (0 : Int) ≤ Int.ofNat n := Int.natCast_nonneg n
      omega
    · cases h
  | negSucc n =>
    simp only [packSigned] at h
    split at h
    · rename_i hc; cases h
      constructor
      · rw [Int.negSucc_eq]; omega
      · rw [Int.negSucc_eq]; omega
    · cases h

theorem packFlt_ok {k bits : Nat} {bs} (h : packFlt k bits = .ok bs) :
    bits < 256 ^ k ∧ bs = leBytes k bits := by
  unfold packFlt at h
  split at h
  · rename_i hc; cases h; exact ⟨hc, rfl⟩
  · cases h

theorem pow256_even {k : Nat} (hk : 0 < k) : 256 ^ k = 2 * (256 ^ k / 2) := by
  obtain ⟨j, rfl⟩ : ∃ j, k = j + 1 := ⟨k - 1, by omega⟩
  rw [Nat.pow_succ]; omega

theorem unpackSigned_packSigned {k : Nat} (hk : 0 < k) {v : Int} {bs}
    (h : packSigned k v = .ok bs) : unpackSigned k bs = v := by
  have he := pow256_even hk
  cases v with
  | ofNat n =>
    simp only [packSigned] at h
    split at h
    · rename_i hc; cases h
      unfold unpackSigned
      rw [leVal_leBytes_of_lt (by omega), if_pos hc]
    · cases h
  | negSucc n =>
    simp only [packSigned] at h
    split at h
    · rename_i hc; cases h
      unfold unpackSigned
      rw [leVal_leBytes_of_lt (by omega), if_neg (by omega)]
      congr 1; omega
    · cases h

theorem packSigned_length {k : Nat} {v : Int} {bs} (h : packSigned k v = .ok bs) : bs.length = k := by
  cases v <;> simp only [packSigned] at h <;> split at h <;> first | (cases h; simp) | cases h

theorem packOne_length {c : Code} {v : Val} {bs} (h : packOne c v = .ok bs) :
    bs.length = c.size := by
  cases c <;> cases v <;> simp only [packOne] at h <;>
    first
    | (cases h; done)
    | (obtain ⟨_, _, _, rfl⟩ := packUnsigned_ok h; simp [Code.size])
    | (exact packSigned_length h)
    | (obtain ⟨_, rfl⟩ := packFlt_ok h; simp [Code.size])
    | (cases h; simp [Code.size]; done)
    | (cases h; simp [Code.size, fitBytes])

theorem pack_length : ∀ {f : Fmt} {vs : List Val} {bs}, pack f vs = .ok bs → bs.length = Fmt.size f
  | [], [], bs, h => by cases h; rfl
  | [], _ :: _, _, h => by cases h
  | c :: cs, vs, bs, h => by
    by_cases hx : c = .x
    · subst hx
      simp only [pack, bind, Except.bind] at h
      split at h
      · cases h
      · rename_i r hr; cases h
        simp [Fmt.size, Code.size, pack_length hr, Nat.add_comm]
    · cases vs with
      | nil => cases c <;> first | exact absurd rfl hx | cases h
      | cons v vs =>
        have : pack (c :: cs) (v :: vs) = (do let a ← packOne c v; let r ← pack cs vs; pure (a ++ r)) := by
          cases c <;> first | exact absurd rfl hx | rfl
        rw [this] at h
        simp only [bind, Except.bind] at h
        split at h
        · cases h
        · rename_i a ha
          split at h
          · cases h
          · rename_i r hr; cases h
            simp [Fmt.size, packOne_length ha, pack_length hr]

/-- Values in canonical form for a code: what `unpack` produces.  (`?` packs any int, `B`
packs a bool, `<n>s` pads/truncates: those inputs do not round-trip literally.) -/
def Val.canonFor : Code → Val → Bool
  | .bool, .bool _ => true
  | .s n, .bytes b => b.length == n
  | .f, .flt _ | .d, .flt _ | .e, .flt _ => true
  | .B, .int _ | .H, .int _ | .I, .int _ | .Q, .int _ => true
  | .b, .int _ | .h, .int _ | .i, .int _ | .q, .int _ => true
  | _, _ => false

theorem unpackOne_packOne {c : Code} {v : Val} {bs} (hc : v.canonFor c = true)
    (h : packOne c v = .ok bs) : unpackOne c bs = v := by
  cases c <;> cases v <;> simp only [Val.canonFor] at hc <;> try (cases hc; done)
  all_goals simp only [packOne] at h
  case B.int v | H.int v | I.int v | Q.int v =>
    obtain ⟨h0, _, h1, rfl⟩ := packUnsigned_ok h
    simp only [unpackOne]
    rw [leVal_leBytes_of_lt h1, Int.toNat_of_nonneg h0]
  case b.int v => simp only [unpackOne]; rw [unpackSigned_packSigned (by decide) h]
  case h.int v => simp only [unpackOne]; rw [unpackSigned_packSigned (by decide) h]
  case i.int v => simp only [unpackOne]; rw [unpackSigned_packSigned (by decide) h]
  case q.int v => simp only [unpackOne]; rw [unpackSigned_packSigned (by decide) h]
  case f.flt v | d.flt v | e.flt v =>
    obtain ⟨h1, rfl⟩ := packFlt_ok h
    simp only [unpackOne]; rw [leVal_leBytes_of_lt h1]
  case bool.bool v =>
    cases h; cases v <;> simp [unpackOne, leVal]
  case s.bytes n b =>
    cases h
    simp only [beq_iff_eq] at hc
    simp [unpackOne, fitBytes, ← hc]

/-- canonical value lists for a format -/
def canonVals : Fmt → List Val → Bool
  | [], [] => true
  | .x :: cs, vs => canonVals cs vs
  | c :: cs, v :: vs => v.canonFor c && canonVals cs vs
  | _, _ => false

theorem unpack_pack : ∀ {f : Fmt} {vs : List Val} {bs}, canonVals f vs = true →
    pack f vs = .ok bs → unpack f bs = .ok vs
  | [], [], bs, _, h => by cases h; rfl
  | [], _ :: _, _, _, h => by cases h
  | c :: cs, vs, bs, hc, h => by
    by_cases hx : c = .x
    · subst hx
      simp only [pack, bind, Except.bind] at h
      split at h
      · cases h
      · rename_i r hr; cases h
        have hc' : canonVals cs vs = true := by simpa [canonVals] using hc
        simp [unpack, Code.size, Code.takesVal, unpack_pack hc' hr, bind, Except.bind, pure, Except.pure]
    · cases vs with
      | nil => cases c <;> first | exact absurd rfl hx | cases h
      | cons v vs =>
        have hp : pack (c :: cs) (v :: vs) = (do let a ← packOne c v; let r ← pack cs vs; pure (a ++ r)) := by
          cases c <;> first | exact absurd rfl hx | rfl
        have hcv : v.canonFor c = true ∧ canonVals cs vs = true := by
          have : canonVals (c :: cs) (v :: vs) = (v.canonFor c && canonVals cs vs) := by
            cases c <;> first | exact absurd rfl hx | rfl
          rw [this] at hc; simpa using hc
        have htv : c.takesVal = true := by cases c <;> first | exact absurd rfl hx | rfl
        rw [hp] at h
        simp only [bind, Except.bind] at h
        split at h
        · cases h
        · rename_i a ha
          split at h
          · cases h
          · rename_i r hr; cases h
            have hl := packOne_length ha
            simp [unpack, hl, htv, unpack_pack hcv.2 hr, unpackOne_packOne hcv.1 ha,
              bind, Except.bind, pure, Except.pure]

end CfVerif

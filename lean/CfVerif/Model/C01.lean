/-
Model/C01: executable model of the Crazyradio link driver's radio loop
(`cflib/crtp/radiodriver.py`: `_RadioDriverThread.run`, `_send_packet_safe`, `RadioDriver.send_packet`,
queue hand-off) and of `Crazyradio.send_packet`'s decoding of the dongle's USB reply
(`cflib/drivers/crazyradio.py`).  One call of `Host.tx` is one transmission: one pass of the negotiation
`for` loop or one pass of the `while True` body, given what `radio.send_packet` returned.
All constants and bit expressions come from Gen/C01 (Tie A).  No Mathlib.
-/
import CfVerif.Base.Struct
import CfVerif.Gen.C01
namespace CfVerif.C01
open CfVerif

abbrev Bytes := List UInt8

def bytesOfNats (l : List Nat) : Bytes := l.map UInt8.ofNat

/-- an uplink `CRTPPacket` as the loop reads it: `outPacket.header` (0..255) and `outPacket.data` (a bytearray) -/
structure Pkt where
  hdr : UInt8
  data : Bytes
  deriving Repr, DecidableEq

/-- `dataOut.append(outPacket.header); for X in outPacket.data: dataOut.append(X)` -/
def Pkt.frame (p : Pkt) : Bytes := p.hdr :: p.data

/-! ### `Crazyradio.send_packet`: decoding of the USB reply -/

/-- the `_radio_ack` object -/
structure RadioAck where
  ack : Bool
  powerDet : Bool
  retry : Nat
  data : Bytes
  deriving Repr, DecidableEq

/-- What `radio.send_packet` hands to the driver thread. -/
inductive Ans
  | none                      -- `None` (USB transfer failed)
  | exc                       -- an exception escaped `send_packet`
  | resp (a : RadioAck)
  deriving Repr, DecidableEq

/-- `Crazyradio.send_packet` after the USB transfer: `usb = none` is `usb.USBError` (data stays `None`),
`some bytes` is what `handle.read` returned; `arc` is `self.arc`.
`data[0]` on an empty reply raises IndexError. -/
def decodeUsb (usb : Option Bytes) (arc : Nat) : Except PyErr Ans :=
  match usb with
  | none => .ok .none
  | some [] => .error .indexError
  | some (s :: rest) =>
    if s.toNat ≠ 0 then
      .ok (.resp { ack := Gen.C01.ackBit s.toNat ≠ 0, powerDet := Gen.C01.powerDetBit s.toNat ≠ 0,
                   retry := Gen.C01.retryField s.toNat, data := rest })
    else
      .ok (.resp { ack := false, powerDet := false, retry := arc, data := [] })

/-! ### the driver thread -/

inductive ErrKind
  | tooManyLost      -- 'Too many packets lost'
  | usbException     -- 'Error communicating with crazy radio ...'
  | couldNotSend     -- 'RadioDriver: Could not send packet to copter'
  deriving Repr, DecidableEq

/-- observable events, in the order they happen -/
inductive Ev
  | tx (f : Bytes)                               -- frame handed to `radio.send_packet`
  | rx (hdr port chan : Nat) (data : Bytes)      -- `CRTPPacket(data[0], list(data[1:]))` put into `in_queue`
  | err (e : ErrKind)                            -- `link_error_callback(...)`
  | accepted (p : Pkt)                           -- a `RadioDriver.send_packet(p)` call returned True
  | refused (p : Pkt)                            -- ... returned False
  | blocked (p : Pkt)                            -- ... is blocked in `out_queue.put` (slot full)
  | died                                         -- an exception escaped `run()`: the thread is gone
  deriving Repr, DecidableEq

structure Host where
  nRetries : Nat                 -- module global `_nr_of_retries` (settable: `set_retries_before_disconnect`)
  negLeft : Nat                  -- passes of `for _ in range(10)` still to run; 0 = in the `while True` loop
  safelink : Bool                -- `_has_safelink`
  curUp : Nat                    -- `_curr_up`
  curDown : Nat                  -- `_curr_down`
  needsResending : Bool          -- `link.needs_resending`
  out : Bytes                    -- `dataOut`
  retry : Int                    -- `_retry_before_disconnect` (keeps decrementing below 0)
  last : Option RadioAck         -- `ackStatus` (survives an exception in the next send)
  slot : Option Pkt              -- `out_queue` (capacity `Gen.outQueueSize` = 1)
  waiter : Option Pkt            -- an application thread blocked in `out_queue.put(pk, True, 2)`
  dead : Bool
  deriving Repr, DecidableEq

/-- `RadioDriver.__init__` + `_RadioDriverThread.__init__` + the first statements of `run` -/
def Host.init (n : Nat) : Host :=
  { nRetries := n, negLeft := Gen.C01.safelinkAttempts, safelink := false,
    curUp := Gen.C01.initUp, curDown := Gen.C01.initDown, needsResending := true,
    out := bytesOfNats Gen.C01.initFrame, retry := n, last := none, slot := none, waiter := none, dead := false }

/-- `packet[0] &= 0xF3; packet[0] |= self._curr_up << 3 | self._curr_down << 2` -/
def setBits (h : UInt8) (up down : Nat) : UInt8 :=
  UInt8.ofNat ((h.toNat &&& Gen.C01.safeMask) ||| Gen.C01.safeBits up down)

/-- header rewrite of `_send_packet_safe` (in place).  `dataOut` is never empty (theorem `out_ne_nil`);
on an empty frame Python would raise IndexError. -/
def stamp (f : Bytes) (up down : Nat) : Bytes :=
  match f with
  | [] => []
  | h :: t => setBits h up down :: t

/-- `1 - self._curr_x` (the counters only ever hold 0 or 1: theorem `bits_le_one`) -/
def flip (x : Nat) : Nat := 1 - x

/-- `CRTPPacket(data[0], list(data[1:]))` -/
def rxEvent (d0 : UInt8) (rest : Bytes) : Ev :=
  .rx (Gen.C01.crtpHeaderExpr d0.toNat) (Gen.C01.crtpPortExpr d0.toNat) (Gen.C01.crtpChanExpr d0.toNat) rest

/-- one pass of the negotiation loop: `resp = self._radio.send_packet((0xff, 0x05, 0x01))`, exact-echo test;
after the last pass `self._link.needs_resending = not self._has_safelink` -/
def Host.negStep (h : Host) (ans : Ans) : Host × List Ev :=
  let txev := Ev.tx (bytesOfNats Gen.C01.safelinkReq)
  match ans with
  | .exc => ({ h with dead := true }, [txev, .died])       -- not inside any try: the thread dies
  | .none =>
    let left := h.negLeft - 1
    ({ h with negLeft := left, needsResending := if left = 0 then !h.safelink else h.needsResending }, [txev])
  | .resp a =>
    -- `resp and resp.data and tuple(resp.data) == (0xff, 0x05, 0x01)`  (the ack flag is not looked at)
    if a.data ≠ [] ∧ a.data = bytesOfNats Gen.C01.safelinkEcho then
      ({ h with safelink := true, curUp := Gen.C01.confirmUp, curDown := Gen.C01.confirmDown, negLeft := 0,
                needsResending := false }, [txev])
    else
      let left := h.negLeft - 1
      ({ h with negLeft := left, needsResending := if left = 0 then !h.safelink else h.needsResending }, [txev])

/-- `if (len(data) > 0): inPacket = CRTPPacket(data[0], list(data[1:])); self._in_queue.put(inPacket)` -/
def rxEvs (data : Bytes) : List Ev :=
  match data with
  | [] => []
  | d0 :: rest => [rxEvent d0 rest]

/-- the blocked `RadioDriver.send_packet` call (if any) returns True once its `put` has gone through -/
def accEv : Option Pkt → List Ev
  | some w => [.accepted w]
  | none => []

/-- `outPacket = self._out_queue.get(True, waitTime)` and the construction of the next `dataOut`;
a `put` blocked on the full queue completes as soon as the slot is free -/
def Host.fetch (h : Host) : Host × List Ev :=
  match h.slot with
  | some p =>
    ({ h with out := p.frame, slot := h.waiter, waiter := none }, accEv h.waiter)
  | none => ({ h with out := [UInt8.ofNat Gen.C01.nullByte] }, [])

/-- the part of the `while True` body after `ackStatus` has been assigned -/
def Host.process (h : Host) : Host × List Ev :=
  match h.last with
  | none => (h, [])                                          -- `if ackStatus is None: continue`
  | some a =>
    if a.ack = false then                                    -- `if ackStatus.ack is False:`
      ({ h with retry := h.retry - 1 }, if h.retry - 1 = 0 then [.err .tooManyLost] else [])
    else
      let r := { h with retry := h.nRetries }.fetch
      (r.1, rxEvs a.data ++ r.2)

/-- the frame that goes to the radio: `_send_packet_safe` first rewrites `dataOut[0]` in place -/
def Host.frameOut (h : Host) : Bytes :=
  if h.safelink then stamp h.out h.curUp h.curDown else h.out

/-- `_send_packet_safe` after `cr.send_packet(packet)` returned `resp`:
`if resp and resp.ack and len(resp.data) and (resp.data[0] & 0x04) == (self._curr_down << 2)`: flip down;
`if resp and resp.ack`: flip up -/
def newDown (curDown : Nat) (a : RadioAck) : Nat :=
  match a.data with
  | d0 :: _ => if a.ack ∧ Gen.C01.downTag d0.toNat = Gen.C01.downExpect curDown then flip curDown else curDown
  | [] => curDown

def Host.flips (h : Host) (a : RadioAck) : Host :=
  if h.safelink then
    { h with curUp := if a.ack then flip h.curUp else h.curUp, curDown := newDown h.curDown a }
  else h

/-- one pass of the `while True` body -/
def Host.iter (h : Host) (ans : Ans) : Host × List Ev :=
  let h1 := { h with out := h.frameOut }
  match ans with
  | .exc =>
    -- `except Exception`: callback; `ackStatus` keeps its previous value and is processed again
    (h1.process.1, [.tx h.frameOut, .err .usbException] ++ h1.process.2)
  | .none =>
    ({ h1 with last := none }.process.1, .tx h.frameOut :: { h1 with last := none }.process.2)
  | .resp a =>
    ({ h1.flips a with last := some a }.process.1, .tx h.frameOut :: { h1.flips a with last := some a }.process.2)

/-- one transmission -/
def Host.tx (h : Host) (ans : Ans) : Host × List Ev :=
  if h.dead then (h, [])
  else if h.negLeft ≠ 0 then h.negStep ans
  else h.iter ans

/-- `RadioDriver.send_packet(pk)` at iteration granularity: the put succeeds at once when the slot is free,
otherwise the caller blocks (one blocked caller is modelled) -/
def Host.submit (h : Host) (p : Pkt) : Option (Host × List Ev) :=
  match h.slot, h.waiter with
  | none, _ => some ({ h with slot := some p }, [.accepted p])
  | some _, none => some ({ h with waiter := some p }, [.blocked p])
  | some _, some _ => none

/-- the 2 s timeout of a blocked `out_queue.put` expires: `queue.Full` -> callback, return False -/
def Host.timeout (h : Host) : Option (Host × List Ev) :=
  match h.waiter with
  | some p => some ({ h with waiter := none }, [.err .couldNotSend, .refused p])
  | none => none

/-- what can happen at the driver: a transmission completes, or the application acts -/
inductive Op
  | tx (a : Ans)
  | sub (p : Pkt)
  | timeout
  deriving Repr, DecidableEq

/-- an application operation that is not enabled (second blocked caller, timeout without a blocked caller)
leaves the state unchanged -/
def Host.apply (h : Host) : Op → Host × List Ev
  | .tx a => h.tx a
  | .sub p => (h.submit p).getD (h, [])
  | .timeout => h.timeout.getD (h, [])

def Host.run (h : Host) : List Op → Host × List Ev
  | [] => (h, [])
  | op :: ops =>
    let (h1, e1) := h.apply op
    let (h2, e2) := h1.run ops
    (h2, e1 ++ e2)

/-! ### several links on one dongle: `_SharedRadio`'s instance table -/

/-- `_next_instance_id` and the dict `_rsp_queues` (instance id ↦ response queue; a queue is named by the link it was
created for). -/
structure Shared where
  next : Nat
  table : Nat → Option Nat

def Shared.init : Shared := { next := 0, table := fun _ => none }

/-- `open_instance` for link `q`: `instance_id = self._next_instance_id; self._rsp_queues[instance_id] = rsp_queue;
self._next_instance_id += 1`; returns the id handed to the `_SharedRadioInstance`. -/
def Shared.open (s : Shared) (q : Nat) : Shared × Nat :=
  ({ next := s.next + 1, table := fun k => if k = s.next then some q else s.table k }, s.next)

/-- STOP command: `del self._rsp_queues[command[0]]` -/
def Shared.stop (s : Shared) (id : Nat) : Shared :=
  { s with table := fun k => if k = id then none else s.table k }

/-- SEND_PACKET command of instance `id`: the queue that `self._rsp_queues[command[0]].put(ack)` puts the ack into -/
def Shared.route (s : Shared) (id : Nat) : Option Nat := s.table id

inductive ShOp
  | open (q : Nat)        -- `RadioDriver.connect` of link `q` (ignored while `q` is open)
  | close (q : Nat)       -- `RadioDriver.close` of link `q` (ignored while `q` is closed)
  deriving Repr, DecidableEq

/-- the shared radio and the live links as `(link, instance id)` -/
structure Links where
  sh : Shared
  live : List (Nat × Nat)

def Links.init : Links := { sh := Shared.init, live := [] }

def Links.step (l : Links) : ShOp → Links
  | .open q =>
    if l.live.any (·.1 == q) then l
    else { sh := (l.sh.open q).1, live := (q, (l.sh.open q).2) :: l.live }
  | .close q =>
    match l.live.find? (·.1 == q) with
    | some p => { sh := l.sh.stop p.2, live := l.live.filter (·.1 != q) }
    | none => l

def Links.run (l : Links) (ops : List ShOp) : Links := ops.foldl Links.step l

end CfVerif.C01

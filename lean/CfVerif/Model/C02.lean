/-
Model/C02 (layer M1): the sequential connection protocol of `Crazyflie` + `SyncCrazyflie`
(cflib/crazyflie/__init__.py, syncCrazyflie.py, toc.py, param.py, mem/__init__.py, platformservice.py)
closed with a conformant device: every request the library transmits is answered by exactly one reply, replies
are delivered in order, and a new link starts with an empty receive queue.

State machine `step : Dev → Sys → Op → Sys × List Out`, `Sys` = the `Crazyflie` object `S` + the wrapper `Wrap`.
The environment/user operations are
  open drv | deliver | work | err | arm | close | syncOpen drv | syncClose    (drv = missing | ok | failing)
(`deliver` = the dispatcher thread hands the next received packet to the callbacks, `work` = one iteration of the
first ready worker thread (`_ParamUpdater.run`, `_ExtendedTypeFetcher.run`), `err` = the link driver reports an
error from its own thread, `arm` = the next transmission reports a link error from the *sending* thread).
Outputs are the calls on the public `Caller`s, the marker `linkFailed` (entry of `_link_error_cb`) and what
the blocking `SyncCrazyflie` calls do (return / raise).

The state-dependent fan-out of `_link_error_cb` is the table `Gen.C02.errFanout` regenerated from the source.
The behaviour that the proposed repairs change is selected by two constant flags kept in the state, initialised
from the regenerated `Gen.C02.syncDisconnectedSetsConnectEvent` (D1, `Wrap.fixD1`) and
`Gen.C02.extFetcherAbortsOnDisconnect` (D21, `S.fixD21`); the theorems are about the repaired values, the
counterexample theorems about the unrepaired ones.  The model of the TOC fetchers is the one of the repaired code
(`Gen.C02.tocFetcherAbortsOnDisconnect`): a fetcher of an aborted attempt is gone.  Core Lean only.
-/
import CfVerif.Gen.C02
namespace CfVerif.C02

/-- `Crazyflie.state`.  `State.SETUP_FINISHED` is never assigned (obligation `state_assignments`). -/
inductive St | disc | init | conn
  deriving DecidableEq, Repr, Inhabited

def St.code : St → Nat
  | .disc => Gen.C02.stDisconnected
  | .init => Gen.C02.stInitialized
  | .conn => Gen.C02.stConnected

/-- what `cflib.crtp.get_link_driver` does for the URI: no usable driver (or it raises) / a working driver / a driver
whose link fails while `connect()` is still running: the error callback is invoked (by the driver itself or by
its thread) before `open_link` has stored the driver in `cf.link` -/
inductive Drv | missing | ok | failing
  deriving DecidableEq, Repr, Inhabited

/-- the public `Caller`s whose calls are observed -/
inductive Ev | requested | failed | established | connected | fully | disconnected | lost | discLinkError
  deriving DecidableEq, Repr, Inhabited

inductive Out
  | cb (e : Ev)
  | linkFailed          -- `_link_error_cb` entered (environment event, recorded for the specification)
  | closeCalled         -- `close_link` called from inside a callback of the incoming thread (for the specification)
  | openReturned        -- SyncCrazyflie.open_link returned
  | openRaised          -- SyncCrazyflie.open_link raised Exception(error message)
  | openAlreadyOpen     -- SyncCrazyflie.open_link raised 'Link already open'
  | closeReturned       -- SyncCrazyflie.close_link returned
  deriving DecidableEq, Repr, Inhabited

/-- the device tables (environment) -/
structure Dev where
  magic : Bool          -- the link-source answer carries the magic string (else protocol version -1)
  nLog : Nat            -- entries of the log TOC
  nMem : Nat            -- memories (none of them 1-wire)
  ext : List Bool       -- one entry per parameter: "extended type" flag in the TOC
  deriving DecidableEq, Repr, Inhabited

def Dev.nPar (d : Dev) : Nat := d.ext.length

/-- ids of the parameters whose TOC entry has the extended flag, in TOC order -/
def extIdsFrom : Nat → List Bool → List Nat
  | _, [] => []
  | i, b :: bs => if b then i :: extIdsFrom (i + 1) bs else extIdsFrom (i + 1) bs

def Dev.extIds (d : Dev) : List Nat := extIdsFrom 0 d.ext

/-- device → host packets, named after the request they answer -/
inductive Pkt
  | src | ver | logReset | logInfo | logItem (i : Nat) | memCount | memInfo (j : Nat)
  | parInfo | parItem (i : Nat) | ext (id : Nat) | val (id : Nat)
  deriving DecidableEq, Repr, Inhabited

/-- where the set-up chain `_start_connection_setup .. _param_toc_updated_cb` stands -/
inductive Stage
  | idle | src | ver | logReset | logInfo | logItem (i : Nat) | memCount | memInfo (j : Nat)
  | parInfo | parItem (i : Nat) | ext | up
  deriving DecidableEq, Repr, Inhabited

/-- `_ParamUpdater`: request queue, `wait_lock`, `_lock_pattern` -/
structure Updater where
  q : List Nat := []
  locked : Bool := false
  pat : Option Nat := none
  deriving DecidableEq, Repr, Inhabited

/-- one `_ExtendedTypeFetcher`: request queue, `_lock`, `_req_param`, `_count` -/
structure ExtF where
  q : List Nat
  locked : Bool
  req : Option Nat
  count : Nat
  deriving DecidableEq, Repr, Inhabited

/-- the `Crazyflie` object with its sub-objects (everything except the blocking wrapper) -/
structure S where
  st : St := .disc
  link : Bool := false                  -- `cf.link is not None`
  initCb : Bool := true                 -- `_check_for_initial_packet_cb` registered (it is, by the constructor)
  inq : List Pkt := []                  -- packets received by the current link, not yet dispatched
  armed : Bool := false                 -- the next transmission reports a link error
  stage : Stage := .idle
  upd : Updater := {}
  exts : List ExtF := []                -- registered extended-type fetchers, oldest first
  parToc : Nat := 0                     -- entries in `param.toc`
  vals : List Nat := []                 -- parameter ids that have a value in `param.values`
  isUpdated : Bool := false             -- `param.is_updated`
  connTs : Bool := false                -- `connected_ts is not None` (`is_connected()`)
  logGot : Nat := 0                     -- ghost: log TOC entries received in this attempt
  extGot : Nat := 0                     -- ghost: extended types received in this attempt
  dead : Bool := false                  -- `cf.link` is a driver that already reported its error (during connect())
  fixAbort : Bool := Gen.C02.abortedTocFetcherCannotFinish   -- constant: an aborted TocFetcher never runs its finished callback
  fixFirst : Bool := Gen.C02.firstPacketCbChecksLink         -- constant: the first-packet callback ignores a packet whose link is gone (D26)
  fixUpd : Bool := Gen.C02.allUpdatedRequiresConnected        -- constant: the completion test is evaluated only once connected (D28)
  fixExtCmd : Bool := Gen.C02.extCbChecksCommand              -- constant: the extended-type fetcher checks the command byte (D29)
  cbLate : Bool := false                -- `_check_for_initial_packet_cb` was re-registered by open_link: it now runs AFTER the
                                        -- application's all-packet callbacks (it was first when the constructor registered it)
  fixD21 : Bool := Gen.C02.extFetcherAbortsOnDisconnect   -- constant: the code has repair D21 (from the source)
  deriving DecidableEq, Repr, Inhabited

def S.init : S := {}

abbrev R := S × List Out

/-- sequencing of effects: run `f`, then `g` on the resulting state, outputs concatenated -/
@[inline] def andThen (r : R) (g : S → R) : R :=
  let r' := g r.1
  (r'.1, r.2 ++ r'.2)

infixl:55 " >>> " => andThen

@[inline] def pureS (s : S) : R := (s, [])

/-- a Caller fires.  (The application's callback is the observation; the callbacks of `SyncCrazyflie` only set
its own flags and events and never call back into the `Crazyflie` object, so they are applied to the output
list afterwards, see `wrapOut`.) -/
def emit (e : Ev) (s : S) : R := (s, [.cb e])

/-! ### disconnect fan-out, link error, transmission -/

/-- `Crazyflie.disconnected.call`: `Param._disconnected` (updater.close(): queue emptied, `wait_lock` released;
table and values dropped), `Memory._disconnected`, `Crazyflie._disconnected` (connected_ts), TOC fetchers and
(repaired code) extended-type fetchers unregistered, then the application's (and the wrapper's) callbacks. -/
def disconnectedCall (s : S) : R :=
  emit .disconnected { s with
    upd := { s.upd with q := [], locked := false }
    parToc := 0, vals := [], connTs := false
    exts := if s.fixD21 then [] else s.exts
    stage := .idle }

def callByName (name : String) (s : S) : R :=
  if name = "disconnected" then disconnectedCall s
  else if name = "connection_lost" then emit .lost s
  else if name = "connection_failed" then emit .failed s
  else if name = "disconnected_link_error" then emit .discLinkError s
  else pureS s

/-- the callers `_link_error_cb` fires in state `code`, from the regenerated table -/
def errCallers (code : Nat) : List String :=
  match Gen.C02.errFanout.find? (fun b => b.1.contains code) with
  | some b => b.2
  | none => []

def callAll : List String → S → R
  | [], s => pureS s
  | n :: ns, s => callByName n s >>> callAll ns

/-- `Crazyflie._link_error_cb` -/
def linkErrorCb (s : S) : R :=
  let s1 := { s with link := false, dead := false, inq := [], stage := .idle }
  let r := callAll (errCallers s.st.code) s1
  ({ r.1 with st := .disc }, Out.linkFailed :: r.2)

/-- `Crazyflie.send_packet(pk)`; `reply` = what the device will answer (none for set-points) -/
def send (reply : Option Pkt) (s : S) : R :=
  if ¬ s.link ∨ s.dead then pureS s
  else if s.armed then linkErrorCb { s with armed := false }
  else pureS { s with inq := s.inq ++ reply.toList }

/-! ### the set-up chain -/

/-- `_param_toc_updated_cb`: `connected.call`, then one read request per parameter is queued -/
def paramTocUpdated (d : Dev) (s : S) : R :=
  emit .connected { s with stage := .up, connTs := true } >>> fun s =>
    pureS { s with upd := { s.upd with q := s.upd.q ++ List.range d.nPar } }

/-- `Param.refresh_toc.refresh_done` -/
def paramTocDone (d : Dev) (s : S) : R :=
  if d.extIds.isEmpty then paramTocUpdated d s
  else pureS { s with stage := .ext
                      exts := s.exts ++ [{ q := d.extIds, locked := false, req := none, count := d.extIds.length }] }

def startParamToc (s : S) : R := send (some .parInfo) { s with stage := .parInfo }
def startMems (s : S) : R := send (some .memCount) { s with stage := .memCount }
def startLog (s : S) : R := send (some .logReset) { s with stage := .logReset }

/-- the port callbacks that belong to the set-up chain (platform service, log, TOC fetcher, memory) -/
def chainPacket (d : Dev) (p : Pkt) (s : S) : R :=
  match s.stage, p with
  | .src, .src => if d.magic then send (some .ver) { s with stage := .ver } else startLog s
  | .ver, .ver => startLog s
  | .logReset, .logReset => send (some .logInfo) { s with stage := .logInfo, logGot := 0 }
  | .logInfo, .logInfo =>
      if d.nLog > 0 then send (some (.logItem 0)) { s with stage := .logItem 0 } else startMems s
  | .logItem i, .logItem j =>
      if j ≠ i then pureS s
      else if i < d.nLog - 1 then send (some (.logItem (i + 1))) { s with stage := .logItem (i + 1), logGot := s.logGot + 1 }
      else startMems { s with logGot := s.logGot + 1 }
  | .memCount, .memCount =>
      if d.nMem > 0 then send (some (.memInfo 0)) { s with stage := .memInfo 0 } else startParamToc s
  | .memInfo j, .memInfo j' =>
      if j' ≠ j then pureS s
      else if d.nMem - 1 ≥ j + 1 then send (some (.memInfo (j + 1))) { s with stage := .memInfo (j + 1) }
      else startParamToc s
  | .parInfo, .parInfo =>
      if d.nPar > 0 then send (some (.parItem 0)) { s with stage := .parItem 0 } else paramTocDone d s
  | .parItem i, .parItem j =>
      if j ≠ i then pureS s
      else if i < d.nPar - 1 then send (some (.parItem (i + 1))) { s with stage := .parItem (i + 1), parToc := s.parToc + 1 }
      else paramTocDone d { s with parToc := s.parToc + 1 }
  | _, _ => pureS s

/-- one `_ExtendedTypeFetcher._new_packet_cb` for an extended-type reply -/
def extOne (d : Dev) (id : Nat) (e : ExtF) (s : S) : ExtF × R :=
  if e.req = some id then
    if e.count = 1 then
      -- last one: done callback, then `_close()` (queue emptied, lock released)
      let r := paramTocUpdated d { s with extGot := s.extGot + 1 }
      ({ e with q := [], locked := false, req := none, count := 0 }, r)
    else
      ({ e with locked := false, req := none, count := e.count - 1 }, pureS { s with extGot := s.extGot + 1 })
  else (e, pureS s)

/-- all registered fetchers see the packet, oldest first (the done callback does not touch the fetcher list);
a fetcher that finishes unregisters itself in the repaired code -/
def extAll (d : Dev) (id : Nat) : List ExtF → S → List ExtF × R
  | [], s => ([], pureS s)
  | e :: es, s =>
    let (e', r) := extOne d id e s
    let (es', r') := extAll d id es r.1
    let finished : Bool := e.req = some id ∧ e.count = 1
    (if s.fixD21 ∧ finished then es' else e' :: es', (r'.1, r.2 ++ r'.2))

def extPacket (d : Dev) (id : Nat) (s : S) : R :=
  let (es, r) := extAll d id s.exts s
  ({ r.1 with exts := es }, r.2)

/-- `Param._param_updated` for parameter `id` (read reply or unsolicited value-updated notification): the value is
stored if the id is in the table received so far; completion test: [only once connected, D28] every element of the
table has a value (`_check_if_all_updated` walks the table) and it was not signalled before -/
def paramUpdated (id : Nat) (s : S) : R :=
  if id < s.parToc then
    let s1 := { s with vals := if s.vals.contains id then s.vals else id :: s.vals }
    if (!s.fixUpd || s1.connTs) && (List.range s1.parToc).all (fun i => s1.vals.contains i) && !s1.isUpdated then
      emit .fully { s1 with isUpdated := true }
    else pureS s1
  else pureS s

/-- `_ParamUpdater._new_packet_cb` for a read reply: only the reply that matches `_lock_pattern` is used -/
def valPacket (id : Nat) (s : S) : R :=
  if s.upd.pat = some id then
    let r := paramUpdated id s
    ({ r.1 with upd := { r.1.upd with pat := none, locked := false } }, r.2)
  else pureS s

/-- `_IncomingPacketHandler.run`: one packet -/
def deliver (d : Dev) (s : S) : R :=
  if ¬ s.link then pureS s else
  match s.inq with
  | [] => pureS s
  | p :: rest =>
    let s0 := { s with inq := rest }
    -- packet_received: `_check_for_initial_packet_cb`
    let r0 := if s0.initCb then emit .established { s0 with st := .conn, initCb := false } else pureS s0
    r0 >>> fun s =>
      match p with
      | .ext id => extPacket d id s
      | .val id => valPacket id s
      | p => chainPacket d p s

/-! ### worker threads -/

def workUpdater (s : S) : R :=
  match s.upd.q with
  | [] => pureS s
  | id :: q =>
    if s.link then send (some (.val id)) { s with upd := { q := q, locked := true, pat := some id } }
    else pureS { s with upd := { s.upd with q := q, locked := false } }

def workExt : List ExtF → List ExtF → S → Option R
  | [], _, _ => none
  | e :: es, pre, s =>
    if ¬ e.locked then
      match e.q with
      | id :: q =>
        if s.link then
          some (send (some (.ext id)) { s with exts := pre.reverse ++ { e with q := q, locked := true, req := some id } :: es })
        else some (pureS { s with exts := pre.reverse ++ { e with q := q, locked := false } :: es })
      | [] => workExt es (e :: pre) s
    else workExt es (e :: pre) s

/-- one iteration of the first ready worker (the updater first, then the fetchers in creation order) -/
def work (s : S) : R :=
  if s.upd.q ≠ [] ∧ ¬ s.upd.locked then workUpdater s
  else match workExt s.exts [] s with
    | some r => r
    | none => pureS s

/-! ### user operations -/

/-- `Crazyflie.open_link` -/
def openLink (drv : Drv) (s : S) : R :=
  -- connection_requested: `Param._connection_requested` resets is_updated / toc / values
  emit .requested { s with isUpdated := false, parToc := 0, vals := [], logGot := 0, extGot := 0 } >>> fun s =>
    let s := { s with st := .init }
    match drv with
    | .missing => emit .failed { s with link := false, dead := false, stage := .idle }
    | .ok => send (some .src) { s with link := true, dead := false, inq := [], initCb := true, stage := .src,
                                       cbLate := s.cbLate || !s.initCb }
    | .failing =>
        -- `_link_error_cb` runs while get_link_driver() has not returned (cf.link is still the old value); then the
        -- driver is stored and the set-up is started on the dead link
        linkErrorCb s >>> fun s =>
          send (some .src) { s with link := true, dead := true, inq := [], initCb := true, stage := .src,
                                    cbLate := s.cbLate || !s.initCb }

/-- `Crazyflie.close_link` -/
def closeLink (s : S) : R :=
  send none s >>> fun s =>
    disconnectedCall { s with link := false, dead := false, inq := [] } >>> fun s => pureS { s with st := .disc }

/-! ### close / link error from INSIDE a callback of the incoming thread, during the dispatch of a packet

The application registers its callbacks after the `Crazyflie` object is built: its all-packet callback runs after
`_check_for_initial_packet_cb` and before the port callbacks (whose snapshot `list(self.cb)` is taken afterwards);
its port callback runs after the library's static port callbacks (platform, log, memory, parameter updater) and
BEFORE the fetchers registered during the connection (TocFetcher, _ExtendedTypeFetcher), which are in the
dispatcher's snapshot for this packet even when the action unregisters them. -/

/-- where the application's callback sits -/
inductive Pos | allPkt | port
  deriving DecidableEq, Repr, Inhabited

/-- what it does -/
inductive Act | close | err
  deriving DecidableEq, Repr, Inhabited

/-- packets handled by a fetcher that was registered during the connection -/
def Pkt.isDynamic : Pkt → Bool
  | .logInfo | .logItem _ | .parInfo | .parItem _ | .ext _ => true
  | _ => false

/-- `p` is the packet that completes the parameter TOC in stage `st` -/
def completesParToc (d : Dev) (st : Stage) (p : Pkt) : Bool :=
  match st, p with
  | .parInfo, .parInfo => d.nPar = 0
  | .parItem i, .parItem j => i = j ∧ ¬ (i < d.nPar - 1)
  | _, _ => false

/-- the aborted log fetcher still stores the element it was waiting for (`cf.log.toc` is not dropped on disconnect) -/
def logItemAccepted (st : Stage) (p : Pkt) : Bool :=
  match st, p with
  | .logItem i, .logItem j => i = j
  | _, _ => false

/-- the action: `cf.close_link()`, or the driver's error report while the link is still there -/
def actNow (a : Act) (s : S) : R :=
  match a with
  | .close => (s, [.closeCalled]) >>> closeLink
  | .err => if s.link ∧ ¬ s.dead then linkErrorCb s else pureS s

/-- the packet is taken, the all-packet callbacks run (first-packet callback), nothing else yet -/
def popInitial (s : S) (rest : List Pkt) : R :=
  let s0 := { s with inq := rest }
  if s0.initCb then emit .established { s0 with st := .conn, initCb := false } else pureS s0

/-- dispatch of one packet during which the application's callback at `pos` performs `a` -/
def deliverAct (d : Dev) (pos : Pos) (a : Act) (s : S) : R :=
  if ¬ s.link then pureS s else
  match s.inq with
  | [] => pureS s
  | p :: rest =>
    match pos with
    | .allPkt =>
        -- the port callbacks run afterwards on a snapshot without the fetchers; the static ones find no link and no
        -- pending callback: nothing observable
        if s.initCb ∧ s.cbLate then
          -- first packet of a later connection: the first-packet callback comes after the application's callback
          actNow a { s with inq := rest } >>> fun s' =>
            if s.fixFirst then pureS s'                   -- repaired (D26): `if self.link is None: return`
            else emit .established { s' with st := .conn, initCb := false }
        else popInitial s rest >>> actNow a
    | .port =>
        if p.isDynamic then
          -- the fetcher is aborted by the action and still gets the packet (snapshot): it must not advance the set-up
          (popInitial s rest >>> actNow a) >>> fun s' =>
            let s' := if logItemAccepted s.stage p then { s' with logGot := s'.logGot + 1 } else s'
            if ¬ s.fixAbort ∧ completesParToc d s.stage p then paramTocDone d s' else pureS s'
        else deliver d s >>> actNow a

/-! ### extra packets from the device / network during the connection -/

/-- an unsolicited `MISC_VALUE_UPDATED` notification for a parameter, or a duplicated / late read reply -/
inductive Inj | upd (id : Nat) | dupVal (id : Nat)
  deriving DecidableEq, Repr, Inhabited

/-- the dispatcher handles the extra packet at once (it does not take the place of an awaited reply) -/
def injectPkt (d : Dev) (inj : Inj) (s : S) : R :=
  if ¬ s.link ∨ s.dead then pureS s else
  (if s.initCb then emit .established { s with st := .conn, initCb := false } else pureS s) >>> fun s =>
    match inj with
    | .upd id =>
        -- `_ParamUpdater._new_packet_cb`, MISC channel: `updated_callback(pk)`; no pattern matches.  Then the
        -- extended-type fetchers see the packet: the repaired one (D29) checks the command byte; the unrepaired one
        -- takes it for the answer to its request for this parameter (the extended type is NOT received by that)
        paramUpdated id s >>> fun s =>
          if s.fixExtCmd then pureS s
          else let r := extPacket d id s; ({ r.1 with extGot := s.extGot }, r.2)
    | .dupVal id => valPacket id s        -- READ channel: ignored unless it matches `_lock_pattern`

/-! ### SyncCrazyflie -/

/-- `SyncCrazyflie`.  An `Event` attribute is two flags: the attribute is not None / the event is set. -/
structure Wrap where
  cbReg : Bool := false                 -- its four callbacks are registered on the Crazyflie object
  isOpen : Bool := false                -- `_is_link_open`
  cev : Bool := false                   -- `_connect_event is not None`
  cset : Bool := false                  -- ... and it is set
  dev : Bool := false                   -- `_disconnect_event is not None`
  dset : Bool := false
  waitOpen : Bool := false              -- the user thread is blocked in `_connect_event.wait()`
  waitClose : Bool := false             -- ... in `_disconnect_event.wait()`
  fixD1 : Bool := Gen.C02.syncDisconnectedSetsConnectEvent   -- constant: the code has repair D1 (from the source)
  deriving DecidableEq, Repr, Inhabited

/-- `if self._connect_event: self._connect_event.set()` -/
def Wrap.setConnect (w : Wrap) : Wrap := { w with cset := w.cset || w.cev }
def Wrap.setDisconnect (w : Wrap) : Wrap := { w with dset := w.dset || w.dev }

/-- the wrapper's callback for one call of a Caller (they are registered iff `cbReg`):
`_connected`, `_connection_failed`, `_disconnected` (its last step only in the repaired code, D1) -/
def wrapOut (w : Wrap) : Out → Wrap
  | .cb .connected => if w.cbReg then ({ w with isOpen := true } : Wrap).setConnect else w
  | .cb .failed => if w.cbReg then ({ w with isOpen := false } : Wrap).setConnect else w
  | .cb .disconnected =>
      if w.cbReg then
        let w1 := ({ w with cbReg := false, isOpen := false } : Wrap).setDisconnect
        if w.fixD1 then w1.setConnect else w1
      else w
  | _ => w

def wrapOuts (w : Wrap) (outs : List Out) : Wrap := outs.foldl wrapOut w

/-- the blocked `SyncCrazyflie` call resumes when its event is set (end of the operation that set it):
`open_link` clears the event attribute and returns, or removes the callbacks and raises; `close_link` returns -/
def settle (w : Wrap) : Wrap × List Out :=
  if w.waitOpen ∧ w.cset then
    let w := { w with waitOpen := false, cev := false, cset := false }
    if w.isOpen then (w, [.openReturned]) else ({ w with cbReg := false }, [.openRaised])
  else if w.waitClose ∧ w.dset then
    ({ w with waitClose := false, dev := false, dset := false }, [.closeReturned])
  else (w, [])

/-- the whole object: `SyncCrazyflie` around `Crazyflie` -/
structure Sys where
  c : S := {}
  w : Wrap := {}
  deriving DecidableEq, Repr, Inhabited

def Sys.init : Sys := {}

inductive Op
  | open (drv : Drv) | deliver | work | err | arm | close | syncOpen (drv : Drv) | syncClose
  | deliverAct (pos : Pos) (a : Act)
  | inject (inj : Inj)
  deriving DecidableEq, Repr, Inhabited

/-- an operation on the `Crazyflie` object; the wrapper's callbacks see the calls, then a blocked call may resume -/
def lift (w : Wrap) (r : R) : Sys × List Out :=
  let (w', o) := settle (wrapOuts w r.2)
  ({ c := r.1, w := w' }, r.2 ++ o)

def step (d : Dev) (s : Sys) : Op → Sys × List Out
  | .open f => lift s.w (openLink f s.c)
  | .deliver => lift s.w (deliver d s.c)
  | .work => lift s.w (work s.c)
  | .err => lift s.w (linkErrorCb s.c)
  | .arm => ({ s with c := { s.c with armed := true } }, [])
  | .close => lift s.w (closeLink s.c)
  | .deliverAct pos a => lift s.w (deliverAct d pos a s.c)
  | .inject inj => lift s.w (injectPkt d inj s.c)
  | .syncOpen f =>
      -- `SyncCrazyflie.open_link` up to the wait
      if s.w.isOpen then (s, [.openAlreadyOpen])
      else
        let r := openLink f s.c
        let w := wrapOuts { s.w with cbReg := true, cev := true, cset := false } r.2
        lift { w with waitOpen := true } (r.1, []) |> fun x => (x.1, r.2 ++ x.2)
  | .syncClose =>
      -- `SyncCrazyflie.close_link` up to the wait
      if s.w.isOpen then
        let r := closeLink s.c
        let w := wrapOuts { s.w with dev := true, dset := false } r.2
        lift { w with waitClose := true } (r.1, []) |> fun x => (x.1, r.2 ++ x.2)
      else (s, [.closeReturned])

/-- run an op sequence, collecting `(op, outputs)` -/
def run (d : Dev) : Sys → List Op → Sys × List (Op × List Out)
  | s, [] => (s, [])
  | s, o :: os =>
    let r := step d s o
    let rest := run d r.1 os
    (rest.1, (o, r.2) :: rest.2)

/-- what a well-behaved user / environment does (everything else is outside the property):
one user thread (no user call while a SyncCrazyflie call is blocked, except a plain `close_link` from another
thread), a link is opened only when none is open (or the one that is there is dead), and only a live driver reports
errors (a driver reports once). -/
def allowed (d : Dev) (s : Sys) : Op → Bool
  | .open _ => (¬ s.c.link ∨ s.c.dead) ∧ ¬ s.w.waitOpen ∧ ¬ s.w.waitClose
  | .syncOpen _ => ((¬ s.c.link ∨ s.c.dead) ∨ s.w.isOpen) ∧ ¬ s.w.waitOpen ∧ ¬ s.w.waitClose
  | .syncClose => ¬ s.w.waitOpen ∧ ¬ s.w.waitClose
  | .err => s.c.link ∧ ¬ s.c.dead
  | .arm => s.c.link ∧ ¬ s.c.dead
  | .close => ¬ s.w.waitClose
  | .deliver => true
  | .work => true
  -- outside the model: an action in the application's ALL-PACKET callback while the acknowledgement of the log reset is
  -- dispatched (the static `Log._new_packet_cb` that runs afterwards starts a TOC download on the closed object; the
  -- left-over fetcher duplicates the requests of the next connection - checked directly on the real code by search())
  | .deliverAct .allPkt _ => ¬ (s.c.link ∧ ¬ s.c.dead ∧ s.c.stage = .logReset)
  | .deliverAct .port _ => true
  -- value-updated notifications and 16-bit read replies exist only in the current protocol generation; a "duplicate"
  -- that matches the outstanding request IS the reply (`deliver`), a duplicate is a read reply that does not
  | .inject (.upd _) => d.magic
  | .inject (.dupVal id) => d.magic ∧ s.c.upd.pat ≠ some id

def usage (d : Dev) : Sys → List Op → Bool
  | _, [] => true
  | s, o :: os => allowed d s o && usage d (step d s o).1 os

end CfVerif.C02

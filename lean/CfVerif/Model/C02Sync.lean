/-
Model/C02Sync (layer M2): locks, joins and thread death on a link error or close.

A finite model on the thread semantics of `Base/Sched`: every thread is a straight-line program with jumps whose
instructions are the SYNC steps of the code path it executes (`Crazyflie.send_packet`, `_link_error_cb` with the
`disconnected` fan-out, `close_link`, `_IncomingPacketHandler.run`, `_ParamUpdater.run`, `Latency._ping_thread`,
the radio driver thread, `Memory.write`), plus the racy reads of `cf.link`.  Shared state: `_send_lock` (S),
`_ParamUpdater.wait_lock` (W, a plain Lock: any thread may release it), `Memory._write_requests_lock` (M),
`cf.link`, `cf.state == DISCONNECTED`, the ping thread's stop event, the radio thread's `_sp` flag, and the
per-thread "deferred link error" of the repaired `send_packet`.

The programs are built from the regenerated repair flags (`Fix.ofSource`): where the lock is released, whether the
error fan-out runs under the send lock, whether `Latency.stop` joins the calling thread, how often the dispatcher reads
`cf.link`, whether the releases in `run()` are guarded, whether M is reentrant.  Core Lean only.
-/
import CfVerif.Base.Sched
import CfVerif.Gen.C02
namespace CfVerif.C02.M2

inductive Lk | S | W | M
  deriving DecidableEq, Repr

/-- thread ids -/
def tUser : Nat := 0
def tDisp : Nat := 1
def tRadio : Nat := 2
def tUpd : Nat := 3
def tPing : Nat := 4
def tTimer : Nat := 5
def nThreads : Nat := 6

inductive I
  | acq (l : Lk)              -- blocking acquire
  | rel (l : Lk)              -- release; RuntimeError (thread dies) when the lock is not held
  | relTry (l : Lk)           -- release inside try/except RuntimeError
  | join (t : Nat)            -- Thread.join: blocks until t has ended; RuntimeError when t is the calling thread
  | joinTry (t : Nat)         -- join inside try/except (radio thread `stop()`)
  | joinOther (t : Nat)       -- `if t is not current_thread(): t.join()`
  | setStop | setSp | linkNone | setDisc
  | jLinkNone (n : Nat)       -- `if self.link is None` (a read of the shared attribute): jump
  | jStop (n : Nat) | jSp (n : Nat) | jDisc (n : Nat) | jPending (n : Nat) | jmp (n : Nat)
  | deref                     -- a second read of `self.cf.link`, used: AttributeError when it is None by now
  | setPending | clrPending   -- the repaired send_packet records the error / handles it after the release
  | tau
  deriving DecidableEq, Repr

structure Fix where
  finallyRelease : Bool       -- D2: `_send_lock` released in a finally block
  deferred : Bool             -- D2: error reported by the driver inside send_packet is handled after the release
  noSelfJoin : Bool           -- D2: Latency.stop() does not join the calling thread
  linkOnce : Bool             -- D3: the dispatcher reads cf.link once per iteration
  guardedRelease : Bool       -- D4: `wait_lock.release()` in run() tolerates an already released lock
  mReentrant : Bool           -- D22: Memory._write_requests_lock is an RLock
  deriving DecidableEq, Repr

def Fix.ofSource : Fix :=
  { finallyRelease := Gen.C02.sendLockReleasedInFinally
    deferred := Gen.C02.sendErrorDeferred
    noSelfJoin := Gen.C02.pingStopGuardsSelfJoin
    linkOnce := decide (Gen.C02.dispatcherLinkReads = 1)
    guardedRelease := Gen.C02.updaterReleaseGuarded
    mReentrant := Gen.C02.memLockReentrant }

def Fix.repaired : Fix := ⟨true, true, true, true, true, true⟩
def Fix.unrepaired : Fix := ⟨false, false, false, false, false, false⟩

/-! ### code paths as instruction lists (jump targets are absolute; `b` = address of the first instruction) -/

/-- `_link_error_cb` in state CONNECTED (11 instructions): close the link (radio `stop()`), forget it, and unless
the state is already DISCONNECTED fan out `disconnected`: `_ParamUpdater.close()`, `Memory._disconnected()`,
`Latency.stop()`; finally the state -/
def errCb (fx : Fix) (b : Nat) : List I :=
  [ .jLinkNone (b + 3), .setSp, .joinTry tRadio, .linkNone,
    .jDisc (b + 10),
    .relTry .W, .acq .M, .rel .M, .setStop,
    (if fx.noSelfJoin then .joinOther tPing else .join tPing),
    .setDisc ]

def errCbLen : Nat := 11

/-- `Crazyflie.send_packet`; `fails`: the driver reports a link error from inside `link.send_packet` -/
def send (fx : Fix) (fails : Bool) (b : Nat) : List I :=
  if ¬ fails then [ .acq .S, .jLinkNone (b + 3), .tau, .rel .S ]
  else if fx.deferred then
    -- acquire; try: transmit (error recorded) finally: release; then handle the recorded error
    [ .acq .S, .jLinkNone (b + 3), .setPending, .rel .S, .jPending (b + 6), .jmp (b + 7 + errCbLen), .clrPending ]
      ++ errCb fx (b + 7)
  else
    [ .acq .S, .jLinkNone (b + 2 + errCbLen) ] ++ errCb fx (b + 2) ++ [ .rel .S ]

def sendLen (fx : Fix) (fails : Bool) : Nat := (send fx fails 0).length

/-- `Crazyflie.close_link`: set-point, `link.close()`, `link = None`, the `disconnected` fan-out, the state -/
def closeLink (fx : Fix) (b : Nat) : List I :=
  let s := send fx false b
  let c := b + s.length
  s ++ [ .jLinkNone (c + 4), .setSp, .joinTry tRadio, .linkNone,
         .relTry .W, .acq .M, .rel .M, .setStop,
         (if fx.noSelfJoin then .joinOther tPing else .join tPing),
         .setDisc ]

/-- one iteration of `_IncomingPacketHandler.run` that receives a parameter reply and sends the next request -/
def dispIter (fx : Fix) (fails : Bool) (b : Nat) : List I :=
  let s := send fx fails (b + 3)
  [ .jLinkNone (b + 3 + s.length), (if fx.linkOnce then .tau else .deref), .relTry .W ] ++ s

/-- one iteration of `_ParamUpdater.run` -/
def updIter (fx : Fix) (fails : Bool) (b : Nat) : List I :=
  let s := send fx fails (b + 2)
  [ .acq .W, .jLinkNone (b + 3 + s.length) ] ++ s ++ [ .jmp (b + 4 + s.length),
    (if fx.guardedRelease then .relTry .W else .rel .W) ]

/-- `Latency._ping_thread` -/
def pingProg (fx : Fix) (fails : Bool) : List I :=
  let s := send fx fails 1
  [ .jStop (2 + s.length) ] ++ s ++ [ .jmp 0 ]

/-- the radio driver thread; `fails`: it detects the lost link itself -/
def radioProg (fx : Fix) (fails : Bool) : List I :=
  if fails then [ .jSp (2 + errCbLen) ] ++ errCb fx 1 ++ [ .jmp 0 ] else [ .jSp 2, .jmp 0 ]

/-- `Memory.write` (the lock is held while the first chunk is sent) -/
def memWrite (fx : Fix) (fails : Bool) (b : Nat) : List I :=
  [ .acq .M ] ++ send fx fails (b + 1) ++ [ .rel .M ]

/-- where the driver reports the error (at most one error per scenario) -/
inductive Fault | none | radio | disp | upd | ping | timer | userMem
  deriving DecidableEq, Repr

/-- what the user thread does -/
inductive User | idle | close | memWrite | memWriteClose
  deriving DecidableEq, Repr

structure Scenario where
  fault : Fault
  user : User
  extra : List Nat          -- further threads that run concurrently (besides the faulting one, ping and radio)
  deriving DecidableEq, Repr

def Fault.thread : Fault → List Nat
  | .none => [] | .radio => [tRadio] | .disp => [tDisp] | .upd => [tUpd] | .ping => [tPing] | .timer => [tTimer]
  | .userMem => [tUser]

/-- threads that take part in the scenario; the others are idle (parked outside any lock) -/
def Scenario.active (sc : Scenario) : List Nat := [tUser, tRadio, tPing] ++ sc.fault.thread ++ sc.extra

def userProg (fx : Fix) (sc : Scenario) : List I :=
  match sc.user with
  | .idle => []
  | .close => closeLink fx 0
  | .memWrite => memWrite fx (sc.fault = .userMem) 0
  | .memWriteClose =>
      let m := memWrite fx (sc.fault = .userMem) 0
      m ++ closeLink fx m.length

def prog (fx : Fix) (sc : Scenario) (t : Nat) : List I :=
  if ¬ sc.active.contains t then []
  else if t = tUser then userProg fx sc
  else if t = tDisp then
    let a := dispIter fx (sc.fault = .disp) 0
    a ++ dispIter fx false a.length
  else if t = tRadio then radioProg fx (sc.fault = .radio)
  else if t = tUpd then
    let a := updIter fx (sc.fault = .upd) 0
    a ++ updIter fx false a.length
  else if t = tPing then pingProg fx (sc.fault = .ping)
  else if t = tTimer then send fx (sc.fault = .timer) 0
  else []

/-! ### configurations and the step function -/

structure Cfg where
  pcs : List Nat            -- program counter per thread
  dead : List Bool          -- an exception escaped the thread
  sOwner : Option Nat
  wHeld : Bool
  mOwner : Option Nat
  mCount : Nat
  link : Bool
  disc : Bool
  stop : Bool
  sp : Bool
  pending : List Bool
  deriving DecidableEq, Repr

def Cfg.init : Cfg :=
  { pcs := List.replicate nThreads 0, dead := List.replicate nThreads false, sOwner := none, wHeld := false,
    mOwner := none, mCount := 0, link := true, disc := false, stop := false, sp := false,
    pending := List.replicate nThreads false }

def Cfg.pc (c : Cfg) (t : Nat) : Nat := c.pcs.getD t 0
def Cfg.isDead (c : Cfg) (t : Nat) : Bool := c.dead.getD t false
def Cfg.setPc (c : Cfg) (t n : Nat) : Cfg := { c with pcs := c.pcs.set t n }
def Cfg.kill (c : Cfg) (t : Nat) : Cfg := { c with dead := c.dead.set t true }

/-- the programs of a scenario, computed once -/
structure Progs where
  code : List (List I)
  mReentrant : Bool
  deriving DecidableEq, Repr

def progs (fx : Fix) (sc : Scenario) : Progs := { code := threads.map (prog fx sc), mReentrant := fx.mReentrant }
  where threads := List.range nThreads

def Progs.of (P : Progs) (t : Nat) : List I := P.code.getD t []

/-- thread `t` has ended (ran off its program, or died) -/
def ended (P : Progs) (c : Cfg) (t : Nat) : Bool :=
  c.isDead t || decide ((P.of t).length ≤ c.pc t)

/-- one instruction of thread `t`; `none` = blocked (or ended) -/
def step1 (P : Progs) (c : Cfg) (t : Nat) : Option Cfg :=
  if c.isDead t then none else
  match (P.of t)[c.pc t]? with
  | none => none
  | some ins =>
    let next := c.setPc t (c.pc t + 1)
    match ins with
    | .acq .S => if c.sOwner.isNone then some { next with sOwner := some t } else none
    | .acq .W => if c.wHeld then none else some { next with wHeld := true }
    | .acq .M =>
        match c.mOwner with
        | none => some { next with mOwner := some t, mCount := 1 }
        | some o => if o = t ∧ P.mReentrant then some { next with mCount := c.mCount + 1 } else none
    | .rel .S => if c.sOwner = some t then some { next with sOwner := none } else some (c.kill t)
    | .rel .W => if c.wHeld then some { next with wHeld := false } else some (c.kill t)
    | .rel .M =>
        if c.mOwner = some t then
          (if c.mCount ≤ 1 then some { next with mOwner := none, mCount := 0 } else some { next with mCount := c.mCount - 1 })
        else some (c.kill t)
    | .relTry .S => some (if c.sOwner = some t then { next with sOwner := none } else next)
    | .relTry .W => some { next with wHeld := false }
    | .relTry .M => some next
    | .join u => if u = t then some (c.kill t) else if ended P c u then some next else none
    | .joinTry u => if u = t then some next else if ended P c u then some next else none
    | .joinOther u => if u = t then some next else if ended P c u then some next else none
    | .setStop => some { next with stop := true }
    | .setSp => some { next with sp := true }
    | .linkNone => some { next with link := false }
    | .setDisc => some { next with disc := true }
    | .jLinkNone n => some (if c.link then next else c.setPc t n)
    | .jStop n => some (if c.stop then c.setPc t n else next)
    | .jSp n => some (if c.sp then c.setPc t n else next)
    | .jDisc n => some (if c.disc then c.setPc t n else next)
    | .jPending n => some (if c.pending.getD t false then c.setPc t n else next)
    | .jmp n => some (c.setPc t n)
    | .deref => if c.link then some next else some (c.kill t)
    | .setPending => some { next with pending := c.pending.set t true }
    | .clrPending => some { next with pending := c.pending.set t false }
    | .tau => some next

/-- thread-local instructions (no shared state is read or written) -/
def I.isLocal : I → Bool
  | .jmp _ | .tau | .jPending _ | .setPending | .clrPending => true
  | _ => false

/-- run the thread-local instructions that follow (at most `n`) -/
def skipLocal (P : Progs) (t : Nat) : Nat → Cfg → Cfg
  | 0, c => c
  | n + 1, c =>
    match (P.of t)[c.pc t]? with
    | some ins => if ins.isLocal then (match step1 P c t with | some c' => skipLocal P t n c' | none => c) else c
    | none => c

/-- a cheap key: configurations are compared by key first -/
def Cfg.key (c : Cfg) : Nat :=
  let bit (b : Bool) : Nat := if b then 1 else 0
  let o (x : Option Nat) : Nat := match x with | none => 0 | some t => t + 1
  let n := c.pcs.foldl (fun acc p => acc * 64 + p) 0
  let n := c.dead.foldl (fun acc b => acc * 2 + bit b) n
  let n := c.pending.foldl (fun acc b => acc * 2 + bit b) n
  ((((((n * 8 + o c.sOwner) * 2 + bit c.wHeld) * 8 + o c.mOwner) * 4 + c.mCount) * 2 + bit c.link) * 2 + bit c.disc) * 4
    + bit c.stop * 2 + bit c.sp


/-- an atomic step of thread `t`: one instruction on shared state together with the thread-local ones after it -/
def stepT (P : Progs) (c : Cfg) (t : Nat) : Option Cfg :=
  (step1 P c t).map (skipLocal P t 6)

def machine (P : Progs) : Sched.Machine Cfg := ⟨stepT P⟩

def threads : List Nat := List.range nThreads

/-- the quiescent disconnected state: every thread has ended, none died, no lock is held, the link is gone and
the state is DISCONNECTED -/
def goal (P : Progs) (c : Cfg) : Bool :=
  threads.all (fun t => ended P c t && !c.isDead t) && c.sOwner.isNone && c.mOwner.isNone && c.disc && !c.link

def noDeath (c : Cfg) : Bool := threads.all (fun t => !c.isDead t)

/-! ### reachable set by breadth-first search, and a fair strategy that drives any configuration to the goal -/

def succs (P : Progs) (c : Cfg) : List Cfg := threads.filterMap (stepT P c)

def memK (k : Nat) (c : Cfg) : List (Nat × Cfg) → Bool
  | [] => false
  | (k', c') :: rest => (k == k' && c == c') || memK k c rest

def bfs (P : Progs) : Nat → List Cfg → List (Nat × Cfg) → List (Nat × Cfg)
  | 0, _, seen => seen
  | _ + 1, [], seen => seen
  | fuel + 1, c :: frontier, seen =>
    let r := (succs P c).foldl (fun (acc : List Cfg × List (Nat × Cfg)) c' =>
      if memK c'.key c' acc.2 then acc else (c' :: acc.1, (c'.key, c') :: acc.2)) (frontier, seen)
    bfs P fuel r.1 r.2

def reach (P : Progs) (fuel : Nat) : List (Nat × Cfg) :=
  bfs P fuel [Cfg.init] [(Cfg.init.key, Cfg.init)]

/-- the set is closed under every step of every thread -/
def closed (P : Progs) (R : List (Nat × Cfg)) : Bool :=
  R.all fun kc => (succs P kc.2).all fun c' => memK c'.key c' R

/-- first enabled thread at or after position `k` (cyclically), with its successor -/
def pickFrom (P : Progs) (c : Cfg) (k : Nat) : Option (Nat × Cfg) :=
  ((List.range nThreads).map (fun i => (k + i) % nThreads)).findSome? (fun t => (stepT P c t).map (fun c' => (t, c')))

/-- round-robin scheduling for at most `n` steps: did we reach the goal?  (a fair strategy: no thread is starved) -/
def drive (P : Progs) : Nat → Nat → Cfg → Bool
  | 0, _, c => goal P c
  | n + 1, k, c =>
    goal P c ||
      match pickFrom P c k with
      | some (t, c') => drive P n (t + 1) c'
      | none => false

/-- the whole check for one scenario: the BFS set contains the initial configuration, is closed under all steps, no
configuration in it has a dead thread, and from each of them round-robin scheduling reaches the goal in `n` steps -/
def checkP (P : Progs) (fuel n : Nat) : Bool :=
  let R := reach P fuel
  memK Cfg.init.key Cfg.init R && closed P R && R.all fun kc => noDeath kc.2 && drive P n 0 kc.2

def check (fx : Fix) (sc : Scenario) (fuel n : Nat) : Bool := checkP (progs fx sc) fuel n

end CfVerif.C02.M2

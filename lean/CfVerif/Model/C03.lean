/-
Model/C03: executable model of cflib's table-of-contents download:
`Toc` (toc.py), `TocFetcher` (toc.py), `LogTocElement.__init__` (log.py), `ParamTocElement.__init__`,
`Param.refresh_toc` and `_ExtendedTypeFetcher` (param.py).
Command ids, struct formats, index byte expressions, type tables and type-byte masks come from Gen/C03
(Tie A).  Strings that Python decodes with ISO-8859-1 (a bijection bytes <-> code points < 256) are kept
as byte lists.  Python exceptions are explicit `Except PyErr` results; when a callback raises, the
dispatcher catches it and the object's state is unchanged (every raise below precedes the first mutation).
The TOC cache is absent in this model (`fetch` -> None, `insert` -> no-op): cache behaviour is C11.
No Mathlib.
-/
import CfVerif.Base.Struct
import CfVerif.Gen.C03
namespace CfVerif.C03
open CfVerif

abbrev Bytes := List UInt8

/-- A TOC element object (`LogTocElement` / `ParamTocElement`).  Log elements have no `extended` /
`persistent` attributes; they are carried as `false`. -/
structure Elem where
  ident : Nat
  group : Bytes
  name : Bytes
  ctype : String
  pytype : String
  access : Nat
  extended : Bool
  persistent : Bool
  deriving Repr, DecidableEq

/-! ## element decoders -/

/-- `bytearray.find(bytearray((0,)))`: index of the first NUL, `none` for -1 -/
def findNul : Bytes → Option Nat
  | [] => none
  | b :: bs => if b = 0 then some 0 else (findNul bs).map (· + 1)

/-- `LogTocElement.types[code]` (KeyError = none) -/
def lookupLog (code : Nat) : Option (String × String × Nat) :=
  (Gen.C03.logTypes.find? (fun r => r.1 == code)).map (·.2)

/-- `ParamTocElement.types[code]` -/
def lookupParam (code : Nat) : Option (String × String) :=
  (Gen.C03.paramTypes.find? (fun r => r.1 == code)).map (·.2)

/-- `LogTocElement(ident, data)`: `naming = data[1:]`; group = `naming[:find]`, name = `naming[find+1:-1]`
(with `find = -1` when there is no NUL: `naming[:-1]` and `naming[0:-1]`); the *whole* type byte indexes
the type table (KeyError otherwise).  Empty `data` is falsy: the object gets no `group` attribute and
`Toc.add_element` raises AttributeError. -/
def decodeLog (ident : Nat) (data : Bytes) : Except PyErr Elem :=
  match data with
  | [] => .error .attributeError
  | t :: naming =>
    let gn : Bytes × Bytes := match findNul naming with
      | some k => (naming.take k, (naming.drop (k + 1)).dropLast)
      | none => (naming.dropLast, naming.dropLast)
    match lookupLog t.toNat with
    | none => .error .keyError
    | some (ctype, pytype, _) =>
      .ok { ident := ident, group := gn.1, name := gn.2, ctype := ctype, pytype := pytype,
            access := t.toNat &&& Gen.C03.logAccessMask, extended := false, persistent := false }

/-- `s.split('\x00')` on the decoded string (never empty) -/
def splitNul : Bytes → List Bytes
  | [] => [[]]
  | b :: bs =>
    match splitNul bs with
    | [] => [[]]
    | p :: ps => if b = 0 then [] :: p :: ps else (b :: p) :: ps

/-- `ParamTocElement(ident, data)`: `strs = decode(data[1:]).split('\x00')`, group = `strs[0]`,
name = `strs[1]` (IndexError without a NUL), then the type byte: extended flag, `types[metadata & 0x0F]`
(KeyError), access from the read-only flag. -/
def decodeParam (ident : Nat) (data : Bytes) : Except PyErr Elem :=
  match data with
  | [] => .error .attributeError
  | m :: rest =>
    match splitNul rest with
    | g :: n :: _ =>
      let md := m.toNat
      match lookupParam (md &&& Gen.C03.paramTypeMask) with
      | none => .error .keyError
      | some (ctype, pytype) =>
        .ok { ident := ident, group := g, name := n, ctype := ctype, pytype := pytype,
              access := if md &&& Gen.C03.paramRoMask ≠ 0 then Gen.C03.paramRoAccess else Gen.C03.paramRwAccess,
              extended := md &&& Gen.C03.paramExtendedMask ≠ 0, persistent := false }
    | _ => .error .indexError

/-! ## `Toc`: `{group: {name: element}}` with Python dict semantics (insertion order, overwrite in place) -/

abbrev Toc := List (Bytes × List (Bytes × Elem))

def setName : List (Bytes × Elem) → Bytes → Elem → List (Bytes × Elem)
  | [], n, e => [(n, e)]
  | (k, v) :: r, n, e => if k = n then (k, e) :: r else (k, v) :: setName r n e

/-- `Toc.add_element` -/
def Toc.add : Toc → Elem → Toc
  | [], e => [(e.group, [(e.name, e)])]
  | (g, m) :: r, e => if g = e.group then (g, setName m e.name e) :: r else (g, m) :: Toc.add r e

def lookupKey {α} : List (Bytes × α) → Bytes → Option α
  | [], _ => none
  | (k, v) :: r, key => if k = key then some v else lookupKey r key

/-- `Toc.get_element(group, name)` (KeyError -> None) -/
def Toc.get (t : Toc) (g n : Bytes) : Option Elem :=
  match lookupKey t g with
  | some m => lookupKey m n
  | none => none

/-- the elements in dict iteration order (groups, then names) -/
def Toc.elems (t : Toc) : List Elem := t.flatMap (fun gm => gm.2.map (·.2))

/-- `Toc.get_element_by_id`: first element in iteration order with that ident -/
def Toc.byId (t : Toc) (ident : Nat) : Option Elem := t.elems.find? (fun e => e.ident == ident)

/-- `str.split('.')` -/
def splitDot : Bytes → List Bytes
  | [] => [[]]
  | b :: bs =>
    match splitDot bs with
    | [] => [[]]
    | p :: ps => if b = 46 then [] :: p :: ps else (b :: p) :: ps

/-- `Toc.get_element_by_complete_name`: `[group, name] = complete_name.split('.')` (ValueError for any
other arity is caught -> None); element not found -> `get_element_by_id(None)` -> None. -/
def Toc.byCompleteName (t : Toc) (s : Bytes) : Option Elem :=
  match splitDot s with
  | [g, n] =>
    match t.get g n with
    | some e => t.byId e.ident
    | none => none
  | _ => none

/-- `mark_persistent()` on the object returned by `get_element_by_id(ident)` (objects are shared with the
dict, so this updates the first element with that ident in place) -/
def markNames : List (Bytes × Elem) → Nat → List (Bytes × Elem) × Bool
  | [], _ => ([], false)
  | (k, e) :: r, ident =>
    if e.ident == ident then ((k, { e with persistent := true }) :: r, true)
    else let (r', b) := markNames r ident; ((k, e) :: r', b)

def Toc.markPersistent : Toc → Nat → Toc
  | [], _ => []
  | (g, m) :: r, ident =>
    let (m', b) := markNames m ident
    if b then (g, m') :: r else (g, m) :: Toc.markPersistent r ident

/-! ### `Toc` as a stateful object

The only attribute of a `Toc` object is the dictionary `toc` (Gen: `tocAttrs`); it changes in exactly three
ways: `add_element`, `clear()`, and a direct assignment `toc_holder.toc = table` - which is how `TocFetcher`
installs a table found in the cache (Gen: `cacheInstall`).  The lookups read `self.toc` and nothing else. -/

inductive TocOp
  | add (e : Elem)          -- `add_element(e)`
  | clear                   -- `clear()`
  | install (t : Toc)       -- `toc.toc = t` (cache hit)
  deriving Repr, DecidableEq

def TocOp.apply (t : Toc) : TocOp → Toc
  | .add e => t.add e
  | .clear => []
  | .install t' => t'

/-- the dictionary of a `Toc()` object after a history of mutations (lookups in between do not change it) -/
def tocAfter (ops : List TocOp) : Toc := ops.foldl TocOp.apply []

/-! ## `TocFetcher` -/

inductive FState
  | info      -- GET_TOC_INFO
  | element   -- GET_TOC_ELEMENT
  | done      -- finished: port callback and `disconnected` callback removed, no packet reaches the object any more
  | aborted   -- `_disconnected` ran before the download finished: both callbacks removed, nothing was signalled
  deriving Repr, DecidableEq

structure Fetcher where
  st : FState
  req : Nat        -- requested_index
  nbr : Nat        -- nbr_of_items
  crc : Nat
  v2 : Bool
  toc : Toc
  deriving Repr, DecidableEq

/-- result of one callback: new state, packets sent (payloads on the fetcher's port, channel 0),
whether `finished_callback` was called -/
structure Step where
  f : Fetcher
  sends : List Bytes
  finished : Bool
  deriving Repr, DecidableEq

/-- `bytearray(tuple)`: ValueError unless every value is in range(256) -/
def mkBytes : List Nat → Except PyErr Bytes
  | [] => .ok []
  | n :: r =>
    if n < 256 then
      match mkBytes r with
      | .ok bs => .ok (UInt8.ofNat n :: bs)
      | .error e => .error e
    else .error .valueError

/-- `TocFetcher.start`: the info request (`pk.data = (CMD_TOC_INFO_V2,)` / `(CMD_TOC_INFO,)`) -/
def infoRequest (v2 : Bool) : Except PyErr Bytes :=
  mkBytes [if v2 then Gen.C03.tocCmdTocInfoV2 else Gen.C03.tocCmdTocInfo]

/-- `_request_toc_element(index)` -/
def itemRequest (v2 : Bool) (index : Nat) : Except PyErr Bytes :=
  if v2 then mkBytes [Gen.C03.tocCmdTocItemV2, Gen.C03.idxLo index, Gen.C03.idxHi index]
  else mkBytes [Gen.C03.tocCmdTocElement, index]

def Fetcher.start (v2 : Bool) : Except PyErr (Fetcher × Bytes) :=
  match infoRequest v2 with
  | .ok r => .ok ({ st := .info, req := 0, nbr := 0, crc := 0, v2 := v2, toc := [] }, r)
  | .error e => .error e

/-- decode `[nbr_of_items, crc]` from `payload[:6]` (`<HI`) / `payload[:5]` (`<BI`) -/
def unpackInfo (v2 : Bool) (payload : Bytes) : Except PyErr (Nat × Nat) :=
  let r := if v2 then unpack (parseFmt! Gen.C03.infoFmtV2) (payload.take Gen.C03.infoTakeV2)
           else unpack (parseFmt! Gen.C03.infoFmtV1) (payload.take Gen.C03.infoTakeV1)
  match r with
  | .ok [.int n, .int c] => .ok (n.toNat, c.toNat)
  | .ok _ => .error .valueError          -- `[a, b] = ...` with another arity
  | .error e => .error e

/-- `ident`: `struct.unpack('<H', payload[:2])[0]` / `payload[0]` -/
def unpackIdent (v2 : Bool) (payload : Bytes) : Except PyErr Nat :=
  if v2 then
    match unpack (parseFmt! Gen.C03.identFmtV2) (payload.take Gen.C03.identTakeV2) with
    | .ok (.int i :: _) => .ok i.toNat
    | .ok _ => .error .indexError
    | .error e => .error e
  else
    match payload with
    | b :: _ => .ok b.toNat
    | [] => .error .indexError

/-- `TocFetcher._new_packet_cb` for a packet with channel `chan` and payload bytes `data`
(`dec` = the element class). -/
def Fetcher.onPacket (dec : Nat → Bytes → Except PyErr Elem) (f : Fetcher) (chan : Nat) (data : Bytes) :
    Except PyErr Step :=
  if chan ≠ 0 then .ok ⟨f, [], false⟩ else
  let payload := data.drop Gen.C03.payloadDrop
  match f.st with
  | .done => .ok ⟨f, [], false⟩
  | .aborted => .ok ⟨f, [], false⟩
  | .info =>
    match unpackInfo f.v2 payload with
    | .error e => .error e
    | .ok (n, c) =>
      let f1 := { f with nbr := n, crc := c, st := .element, req := 0 }
      if n > 0 then
        match itemRequest f.v2 0 with
        | .ok r => .ok ⟨f1, [r], false⟩
        | .error e => .error e
      else .ok ⟨{ f1 with st := .done }, [], true⟩
  | .element =>
    match unpackIdent f.v2 payload with
    | .error e => .error e
    | .ok ident =>
      if ident ≠ f.req then .ok ⟨f, [], false⟩ else
      match dec ident (payload.drop (if f.v2 then Gen.C03.elemDropV2 else Gen.C03.elemDropV1)) with
      | .error e => .error e
      | .ok e =>
        let toc' := f.toc.add e
        -- `self.requested_index < self.nbr_of_items - 1` on Python ints
        if f.req + 1 < f.nbr then
          match itemRequest f.v2 (f.req + 1) with
          | .ok r => .ok ⟨{ f with toc := toc', req := f.req + 1 }, [r], false⟩
          | .error e => .error e
        else .ok ⟨{ f with toc := toc', st := .done }, [], true⟩

/-- `TocFetcher._new_packet_cb` with a TOC cache: `cache crc` = what `TocCache.fetch(crc)` returns (None = none;
an empty dict is falsy, so it counts as a miss).  On a hit in GET_TOC_INFO the cached dictionary is installed by
direct assignment and the download is finished without any element request; everything else is `onPacket`.
(`TocCache.insert` on the download path does not affect this object; what the cache returns is C11.) -/
def Fetcher.onPacketC (dec : Nat → Bytes → Except PyErr Elem) (cache : Nat → Option Toc) (f : Fetcher) (chan : Nat)
    (data : Bytes) : Except PyErr Step :=
  if chan ≠ 0 then .ok ⟨f, [], false⟩ else
  match f.st with
  | .info =>
    match unpackInfo f.v2 (data.drop Gen.C03.payloadDrop) with
    | .error e => .error e
    | .ok (n, c) =>
      match cache c with
      | some (g :: t) => .ok ⟨{ f with nbr := n, crc := c, toc := g :: t, st := .done }, [], true⟩
      | _ => f.onPacket dec chan data
  | _ => f.onPacket dec chan data

/-- are the port callback and the `disconnected` callback registered? (`start` registers both,
`_toc_fetch_finished` and `_disconnected` remove both) -/
def Fetcher.registered (f : Fetcher) : Bool :=
  match f.st with
  | .info | .element => true
  | .done | .aborted => false

/-- `TocFetcher._disconnected` (called through `cf.disconnected` only while it is registered) -/
def Fetcher.disconnect (f : Fetcher) : Fetcher :=
  if f.registered then { f with st := .aborted } else f

/-- the dispatcher: one packet is offered to every fetcher object ever started on the port (the callbacks of
the unregistered ones are not in the list: `onPacket` leaves them alone); an exception in one callback is
caught and does not affect the others.  Returns the objects, everything sent, and the finished signals. -/
def dispatchAll (dec : Nat → Bytes → Except PyErr Elem) (chan : Nat) (data : Bytes) :
    List Fetcher → List Fetcher × List Bytes × Nat
  | [] => ([], [], 0)
  | f :: fs =>
    let (fs', sends, fin) := dispatchAll dec chan data fs
    match f.onPacket dec chan data with
    | .ok r => (r.f :: fs', r.sends ++ sends, (if r.finished then 1 else 0) + fin)
    | .error _ => (f :: fs', sends, fin)

/-! ## `Param.refresh_toc.refresh_done` and `_ExtendedTypeFetcher` -/

structure ExtF where
  queue : List Nat        -- idents of the requests still in `request_queue`
  reqParam : Option Nat   -- `_req_param` (`-1` = none)
  count : Int             -- `_count`
  locked : Bool           -- `_lock` held
  toc : Toc
  done : Nat              -- how often the done callback was called
  active : Bool           -- port callback and `disconnected` callback registered (from `__init__` until `_close()`)
  deriving Repr, DecidableEq

/-- the request packet of `request_extended_types`: `struct.pack('<BH', MISC_GET_EXTENDED_TYPE, ident)` -/
def extRequest (ident : Nat) : Except PyErr Bytes :=
  pack (parseFmt! Gen.C03.extReqFmt) [.int Gen.C03.miscGetExtendedType, .int ident]

/-- `refresh_done`: collect the extended elements in iteration order; none -> callback at once (`none`),
else a fetcher with every request queued (`struct.error` if an ident does not fit `H`). -/
def refreshDone (toc : Toc) : Except PyErr (Option ExtF) :=
  let ext := toc.elems.filter (·.extended)
  if ext.length > 0 then
    match ext.mapM (fun e => extRequest e.ident) with
    | .error e => .error e
    | .ok _ => .ok (some { queue := ext.map (·.ident), reqParam := none, count := ext.length,
                           locked := false, toc := toc, done := 0, active := true })
  else .ok none

/-- one iteration of `_ExtendedTypeFetcher.run` (enabled when the queue is non-empty and the lock free):
take a request, lock, remember its id, send it.  Returns the payload sent on 2:3. -/
def ExtF.worker (x : ExtF) : Option (ExtF × Bytes) :=
  match x.queue, x.locked with
  | i :: q, false =>
    match extRequest i with
    | .ok r => some ({ x with queue := q, locked := true, reqParam := some i }, r)
    | .error _ => none
  | _, _ => none

/-- the body of `_ExtendedTypeFetcher._new_packet_cb` for a packet that passed the channel and command tests -/
def ExtF.onExtReply (x : ExtF) (data : Bytes) : Except PyErr ExtF :=
  match unpack (parseFmt! Gen.C03.extIdFmt) ((data.drop 1).take 2) with
  | .error e => .error e
  | .ok (.int v :: _) =>
    if x.reqParam = some v.toNat then
      match data.drop 3 with
      | [] => .error .indexError
      | ext :: _ =>
        let marked : Except PyErr Toc :=
          if ext.toNat = Gen.C03.paramExtendedPersistent then
            match x.toc.byId v.toNat with
            | some _ => .ok (x.toc.markPersistent v.toNat)
            | none => .error .attributeError
          else .ok x.toc
        match marked with
        | .error e => .error e
        | .ok toc' =>
          let c := x.count - 1
          if c = 0 then
            -- done callback, then `_close()` unregisters, empties the queue and releases the lock
            .ok { x with toc := toc', count := c, done := x.done + 1, queue := [], reqParam := none, locked := false,
                         active := false }
          else .ok { x with toc := toc', count := c, reqParam := none, locked := false }
    else .ok x
  | .ok _ => .error .indexError

/-- `_ExtendedTypeFetcher._new_packet_cb`: `pk.channel == MISC_CHANNEL and pk.data[0] == MISC_GET_EXTENDED_TYPE`
(fix D29: other misc packets, e.g. value-updated notifications, are ignored; `pk.data[0]` of an empty packet raises) -/
def ExtF.onPacket (x : ExtF) (chan : Nat) (data : Bytes) : Except PyErr ExtF :=
  if ¬ x.active then .ok x else       -- `_close()` removed the callback: the dispatcher no longer calls it
  if chan ≠ Gen.C03.miscChannel then .ok x else
  match data with
  | [] => .error .indexError
  | cmd :: _ => if cmd.toNat ≠ Gen.C03.miscGetExtendedType then .ok x else x.onExtReply data

/-- `_ExtendedTypeFetcher._disconnected` (only called while registered): `_req_param = -1`, `_close()` -/
def ExtF.disconnect (x : ExtF) : ExtF :=
  if x.active then { x with reqParam := none, queue := [], locked := false, active := false } else x

/-! ## `Log.refresh_toc` / reset reply: the log download starts once per refresh

`refresh_toc` sets `self.toc = None` and sends the reset request; the CMD_RESET_LOGGING branch of
`Log._new_packet_cb` creates the `Toc` and the `TocFetcher` only `if not self.toc` (a `Toc` object is truthy). -/

structure LogStart where
  tocSet : Bool      -- `self.toc` is a Toc object
  fetchers : Nat     -- TocFetchers created and started
  deriving Repr, DecidableEq

def LogStart.refresh (s : LogStart) : LogStart := { s with tocSet := false }
def LogStart.onResetReply (s : LogStart) : LogStart :=
  if s.tocSet then s else { tocSet := true, fetchers := s.fetchers + 1 }

/-! ## `PlatformService`: the step that starts the download (once per connection)

`fetch_platform_informations(callback)` asks for the link source (15:1); a reply starting with the magic
string triggers the protocol-version query (13:1 `00`), its reply stores the version and continues the
connection setup (`Crazyflie._platform_info_fetched` -> `Log.refresh_toc`).  `Platform.onPacket` is the
REPAIRED code (fix D17: the continuation is consumed when it is called); `Platform.onPacketLive` is the
unrepaired code, which continues the setup again for every further copy of a reply. -/

structure Platform where
  version : Int          -- `_protocolVersion`
  pending : Bool         -- repaired code: `self._callback is not None`
  started : Nat          -- how often the setup continuation ran (each run resets and re-downloads the log TOC)
  queries : Nat          -- protocol-version queries sent
  deriving Repr, DecidableEq

/-- `'Bitcraze Crazyflie'` -/
def magic : Bytes := [66, 105, 116, 99, 114, 97, 122, 101, 32, 67, 114, 97, 122, 121, 102, 108, 105, 101]

def Platform.fetch : Platform := { version := -1, pending := true, started := 0, queries := 0 }

/-- continue the connection setup (`self._callback()`); the repaired code consumes the continuation -/
def Platform.cont (guarded : Bool) (q : Platform) : Platform :=
  if guarded then (if q.pending then { q with pending := false, started := q.started + 1 } else q)
  else { q with started := q.started + 1 }

/-- one packet on port 15 (`_crt_service_callback`) or 13 (`_platform_callback`); `guarded` = repaired code.
(The UTF-8 decoding of the first 18 bytes of a link-source reply is not modelled: ASCII replies only.) -/
def Platform.onPacketG (guarded : Bool) (p : Platform) (port chan : Nat) (data : Bytes) : Except PyErr Platform :=
  if port = 15 then
    if chan = Gen.C03.platLinkserviceSource then
      if data.take 18 = magic then .ok { p with queries := p.queries + 1 }
      else .ok (Platform.cont guarded { p with version := -1 })
    else .ok p
  else if port = 13 then
    if chan = Gen.C03.platVersionCommand then
      match data with
      | [] => .error .indexError
      | c :: rest =>
        if c.toNat = Gen.C03.platVersionGetProtocol then
          match rest with
          | [] => .error .indexError
          | v :: _ => .ok (Platform.cont guarded { p with version := v.toNat })
        else .ok p
    else .ok p
  else .ok p

def Platform.onPacket := Platform.onPacketG true
def Platform.onPacketLive := Platform.onPacketG false

/-- deliver a packet; an exception is swallowed by the dispatcher -/
def Platform.deliverG (guarded : Bool) (p : Platform) (pk : Nat × Nat × Bytes) : Platform :=
  match p.onPacketG guarded pk.1 pk.2.1 pk.2.2 with
  | .ok q => q
  | .error _ => p

def Platform.runG (guarded : Bool) (pks : List (Nat × Nat × Bytes)) : Platform :=
  pks.foldl (Platform.deliverG guarded) Platform.fetch

end CfVerif.C03

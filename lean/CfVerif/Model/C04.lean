/-
Model/C04: executable model of cflib's parameter subsystem
(`cflib/crazyflie/param.py`: `Param`, `_ParamUpdater`; the part of `toc.py:Toc` that `Param` calls; the PARAM-port
slice of `cflib/crazyflie/__init__.py:_IncomingPacketHandler.run`).

* `Host` is the library-side state: TOC, the two protocol flags (`Param._useV2`, `_ParamUpdater._useV2`), the value
  cache, `request_queue`, the packet the updater thread has taken from the queue (`cur`), `wait_lock`, `_lock_pattern`,
  the pending misc requests and the registered update callbacks.
* Every API call is one function that either raises (an explicit `PyErr`) or returns the new state and what it did
  (`Out.enq` = `request_queue.put`).  A call that raises leaves the state unchanged - visible in the definitions: the
  state is only built in the last line.
* The updater thread is two steps (`updGet` = `request_queue.get()`, `updSend` = `wait_lock.acquire()` + set pattern +
  `cf.send_packet`), each with an enabledness condition; `rx` is one iteration of the incoming-packet thread for a
  packet on the PARAM port: the updater's port callback first, then the routing of misc replies.
* Misc replies are routed in one of three ways (`Variant.routing`, chosen from the source by Gen/C04):
  2 = FIFO of pending requests, one permanent port callback (the repaired code); 0 / 1 = one self-removing port callback per
  request that matches on the command byte only (D5) / on command byte and parameter id, iterated by the dispatcher over a
  snapshot or over the live list (D7).
* Values are `Val`s (`Val.int v` or `Val.flt bits` with the bit width of the parameter's type); the string that
  `value.__str__()` produces for them is not modelled (trusted: `str` of an int / float is injective up to NaN payloads).
Constants, formats and slice lengths come from Gen/C04.  No Mathlib.
-/
import CfVerif.Base.Struct
import CfVerif.Gen.C04
namespace CfVerif.C04
open CfVerif

/-! ### Python's numeric conversions (`int(value)`, `float(value)`, the binary64 -> binary32 step of `struct.pack('<f')`) -/

/-- `x / 2^sh` rounded to nearest, ties to even -/
def rneShift (x sh : Nat) : Nat :=
  if sh = 0 then x else
    let q := x / 2 ^ sh
    let r := x % 2 ^ sh
    let half := 2 ^ (sh - 1)
    if r > half ∨ (r = half ∧ q % 2 = 1) then q + 1 else q

def f64Sign (b : Nat) : Nat := b / 2 ^ 63 % 2
def f64Exp (b : Nat) : Nat := b / 2 ^ 52 % 2048
def f64Man (b : Nat) : Nat := b % 2 ^ 52

/-- `PyFloat_Pack4`: `(float)x` (round to nearest even; NaN keeps sign and the top payload bits, quiet bit set), then
`OverflowError` when a finite double became infinite -/
def f64ToF32 (b : Nat) : Except PyErr Nat :=
  let s := f64Sign b * 2 ^ 31
  let e := f64Exp b
  let m := f64Man b
  if e = 2047 then
    if m = 0 then .ok (s + 0x7F800000) else .ok (s + 0x7F800000 + ((m / 2 ^ 29) ||| 0x400000))
  else if e = 0 then .ok s
  else
    let sig := 2 ^ 52 + m
    let r := if e ≥ 897 then (e - 897) * 2 ^ 23 + rneShift sig 29 else rneShift sig (926 - e)
    if r ≥ 0x7F800000 then .error .overflow else .ok (s + r)

/-- binary32 -> binary64 (exact), used for what `struct.unpack('<f')` returns -/
def f32ToF64 (b : Nat) : Nat :=
  let s := (b / 2 ^ 31 % 2) * 2 ^ 63
  let e := b / 2 ^ 23 % 256
  let m := b % 2 ^ 23
  if e = 255 then s + 0x7FF0000000000000 + m * 2 ^ 29
  else if e = 0 then
    if m = 0 then s
    else
      let l := m.log2                    -- m = 2^l + rest, value = m * 2^-149
      s + (l + 874) * 2 ^ 52 + (m - 2 ^ l) * 2 ^ (52 - l)
  else s + (e + 896) * 2 ^ 52 + m * 2 ^ 29

/-- `float(n)` for a natural number: round to nearest even, `OverflowError` beyond the binary64 range -/
def natToF64 (n : Nat) : Except PyErr Nat :=
  if n = 0 then .ok 0 else
    let l := n.log2 + 1
    let sig := if l ≤ 53 then n * 2 ^ (53 - l) else rneShift n (l - 53)
    let r := (l + 1021) * 2 ^ 52 + sig
    if r ≥ 0x7FF0000000000000 then .error .overflow else .ok r

def intToF64 : Int → Except PyErr Nat
  | .ofNat n => natToF64 n
  | .negSucc n => (natToF64 (n + 1)).map (· + 2 ^ 63)

/-- `int(x)` for a float: truncation toward zero; `OverflowError` for infinities, `ValueError` for NaN -/
def f64ToInt (b : Nat) : Except PyErr Int :=
  let e := f64Exp b
  let m := f64Man b
  if e = 2047 then (if m = 0 then .error .overflow else .error .valueError)
  else if e < 1023 then .ok 0
  else
    let sig := 2 ^ 52 + m
    let mag : Nat := if e ≥ 1075 then sig * 2 ^ (e - 1075) else sig / 2 ^ (1075 - e)
    .ok (if f64Sign b = 1 then -(mag : Int) else (mag : Int))

/-- the ASCII characters `int()` strips: space, `\t \n \v \f \r` (0x1c-0x1f are not stripped, measured) -/
def isPyWs (c : Char) : Bool :=
  c.toNat == 0x20 || (0x09 ≤ c.toNat && c.toNat ≤ 0x0d)

def stripWs (cs : List Char) : List Char :=
  ((cs.dropWhile isPyWs).reverse.dropWhile isPyWs).reverse

/-- `digit (["_"] digit)*` -/
def parseDigits : List Char → Nat → Bool → Option Nat
  | [], acc, last => if last then some acc else none
  | c :: cs, acc, last =>
    if c.isDigit then parseDigits cs (acc * 10 + (c.toNat - 48)) true
    else if c == '_' && last && (match cs with | d :: _ => d.isDigit | [] => false) then parseDigits cs acc false
    else none

/-- `int(s)` for an ASCII string, base 10 -/
def pyIntStr (s : List Char) : Except PyErr Int :=
  match stripWs s with
  | '-' :: r => match parseDigits r 0 false with
    | some n => .ok (-(n : Int))
    | none => .error .valueError
  | '+' :: r => match parseDigits r 0 false with
    | some n => .ok (n : Int)
    | none => .error .valueError
  | r => match parseDigits r 0 false with
    | some n => .ok (n : Int)
    | none => .error .valueError

/-- the Python objects a caller may pass as `value` -/
inductive PyVal
  | int (v : Int)
  | flt (bits : Nat)         -- a Python float, as binary64 bit pattern
  | str (s : List Char)
  | bool (b : Bool)
  | none
  deriving DecidableEq, Repr

/-- `int(value)` -/
def pyInt : PyVal → Except PyErr Int
  | .int v => .ok v
  | .flt b => f64ToInt b
  | .str s => pyIntStr s
  | .bool b => .ok (if b then 1 else 0)
  | .none => .error .typeError

/-- `float(value)`; decimal strings are converted by `strToF64` (CPython's correctly rounded `float(str)`, a parameter of
the model: it is supplied per case by the harness and is part of the trusted base) -/
def pyFloat (strToF64 : List Char → Except PyErr Nat) : PyVal → Except PyErr Nat
  | .int v => intToF64 v
  | .flt b => .ok b
  | .str s => strToF64 s
  | .bool b => .ok (if b then 0x3FF0000000000000 else 0)
  | .none => .error .typeError

/-! ### the type table and the TOC -/

def lookupFmt : List Nat → List String → Nat → Option String
  | c :: cs, f :: fs, tc => if c = tc then some f else lookupFmt cs fs tc
  | _, _, _ => none

/-- `ParamTocElement.types[code][1]` (`element.pytype`) -/
def typeFmt (tc : Nat) : Option String := lookupFmt Gen.C04.typeCodes Gen.C04.typeFmts tc

/-- one `ParamTocElement` of the library's TOC -/
structure Elem where
  ident : Nat
  group : Nat
  name : Nat
  tcode : Nat
  ro : Bool
  persistent : Bool
  deriving DecidableEq, Repr

def Elem.fmt (e : Elem) : String := (typeFmt e.tcode).getD ""

/-- `Toc.get_element(group, name)` -/
def lookupElem (toc : List Elem) (g n : Nat) : Option Elem := toc.find? (fun e => e.group == g && e.name == n)

/-- `Toc.get_element_by_id(ident)`: first element with that ident in iteration order -/
def elemById (toc : List Elem) (i : Nat) : Option Elem := toc.find? (fun e => e.ident == i)

/-- `Toc.get_element_id(complete_name)`: `ValueError` unless the name has exactly two dot-separated parts;
`ok none` = Python `None` (not in the TOC) -/
def elementId (toc : List Elem) (cn : List Nat) : Except PyErr (Option Nat) :=
  match cn with
  | [g, n] => .ok ((lookupElem toc g n).map (·.ident))
  | _ => .error .valueError

/-- `Toc.get_element_by_complete_name`: by name -> ident -> by ident; the `ValueError` is swallowed -/
def elemByName (toc : List Elem) (cn : List Nat) : Option Elem :=
  match elementId toc cn with
  | .ok (some i) => elemById toc i
  | _ => none

/-! ### packets, pending misc requests, state -/

/-- a CRTP packet on the PARAM port -/
structure Pkt where
  chan : Nat
  data : List UInt8
  deriving DecidableEq, Repr

inductive MiscKind
  | getDefault | getState | store | clear
  deriving DecidableEq, Repr

def MiscKind.cmd : MiscKind → Nat
  | .getDefault => Gen.C04.MISC_GET_DEFAULT_VALUE
  | .getState => Gen.C04.MISC_PERSISTENT_GET_STATE
  | .store => Gen.C04.MISC_PERSISTENT_STORE
  | .clear => Gen.C04.MISC_PERSISTENT_CLEAR

/-- a misc request waiting for its reply (repaired code: an entry of `Param._misc_requests`; code before the fix: a
registered one-shot `new_packet_cb`).  `rid` identifies the caller's callback (`none`: `callback=None`). -/
structure Pending where
  kind : MiscKind
  ident : Nat
  cn : List Nat
  tcode : Nat
  rid : Option Nat
  noElem : Bool := false       -- registered for a name that is not in the TOC (`element` is None in the closure)
  deriving DecidableEq, Repr

structure Host where
  toc : List Elem
  useV2 : Bool                     -- `Param._useV2`
  updV2 : Bool                     -- `_ParamUpdater._useV2`
  initialized : Bool               -- `_initialized.is_set()`
  isUpdated : Bool
  values : List (Nat × Nat × Val)  -- `values[group][name]`, most recent first
  queue : List Pkt                 -- `request_queue`, head = oldest
  cur : Option Pkt                 -- taken by the updater thread, not sent yet
  lockHeld : Bool                  -- `wait_lock`
  pattern : Option (List UInt8)    -- `_lock_pattern`
  pending : List Pending           -- oldest first
  nameCbs : List (Nat × Nat × Nat) -- (group, name, callback) in registration order
  groupCbs : List (Nat × Nat)
  allCbs : List Nat
  nameCallers : List (Nat × Nat) := []   -- keys of `param_update_callbacks` (a `Caller` exists, possibly empty)
  groupCallers : List Nat := []          -- keys of `group_update_callbacks`
  connected : Bool := true               -- `cf.is_connected()`: the TOCs are complete (D28: gates the "all updated" notification)
  deriving DecidableEq, Repr

def Host.init (toc : List Elem) (v2 : Bool) : Host :=
  { toc := toc, useV2 := v2, updV2 := false, initialized := false, isUpdated := false, values := [], queue := [], cur := none,
    lockHeld := false, pattern := none, pending := [], nameCbs := [], groupCbs := [], allCbs := [] }

/-- The SAME `Crazyflie` / `Param` / `_ParamUpdater` objects after `close_link()` and the next `open_link()` reached `connected`
with a device whose parameter table is `toc` (generation `v2`) - possibly ANOTHER device / firmware build: other indices, other
types, other parameters.  `_disconnected`: `param_updater.close()` (request queue emptied, `wait_lock` released), `toc`, `values`
reset; `_connection_requested`: `is_updated`, `toc`, `values`, `_initialized` reset; `refresh_toc`: `_useV2` recomputed, the new
table downloaded.  Everything else is KEPT, as in the code (`Gen.C04.paramAttrs` / `updaterAttrs` are all the attributes there
are): the update callbacks (registered by NAME, meant to stay), `_ParamUpdater._useV2` (recomputed by the first
`request_param_update`, i.e. by the fetch at `connected`), `_lock_pattern`, a packet the updater thread had already taken, and the
one-shot reply handlers of misc requests that were never answered. -/
def Host.reconnect (h : Host) (toc : List Elem) (v2 : Bool) : Host :=
  { h with toc := toc, useV2 := v2, initialized := false, isUpdated := false, values := [], queue := [], lockHeld := false,
           connected := true }

inductive MiscResult
  | dflt (v : Option Val)                           -- get_default_value: value or None
  | state (s : Option (Bool × Val × Option Val))    -- PersistentParamState(is_stored, default, stored) or None
  | status (ok : Bool)                              -- store / clear
  deriving DecidableEq, Repr

/-- what a step did (observable at the API, on the wire, or by the registered callbacks) -/
inductive Out
  | enq (p : Pkt) (e : Option Pending)       -- `request_queue.put(p)`; `e`: the reply handler registered with it (misc requests)
  | tx (p : Pkt)                             -- `cf.send_packet(p, expected_reply=...)`
  | raised (e : PyErr)                       -- the API call raised
  | ret (v : Val)                            -- `get_value` returned `str(v)`
  | blocked                                  -- the call waits for `_initialized` (60 s wall-clock timeout: outside the model)
  | update (cb : Nat) (cn : List Nat) (v : Val)   -- update callback `cb("group.name", str(v))`
  | allUpdated                               -- `all_updated.call()`
  | misc (rid : Nat) (cn : List Nat) (r : MiscResult)   -- the caller's misc callback, called by a reply handler
  | refusedCb (rid : Nat) (cn : List Nat)    -- `persistent_store` of an unknown name: `callback(name, False)` at once, nothing sent
  | rxd (p : Pkt)                            -- the incoming-packet thread took `p` from the link
  | released (rep : Pkt)                     -- `_lock_pattern = None; wait_lock.release()` while handling `rep`
  | cbError (e : PyErr)                      -- an exception escaped a port callback (logged by the dispatcher)
  deriving DecidableEq, Repr

/-! ### values and update callbacks -/

def getVal (vals : List (Nat × Nat × Val)) (g n : Nat) : Option Val :=
  (vals.find? (fun x => x.1 == g && x.2.1 == n)).map (·.2.2)

def hasGroup (vals : List (Nat × Nat × Val)) (g : Nat) : Bool := vals.any (fun x => x.1 == g)

/-- `_check_if_all_updated` -/
def allFetched (h : Host) : Bool := h.toc.all (fun e => (getVal h.values e.group e.name).isSome)

/-- `struct.unpack(fmt, raw)[0]` -/
def unpack1 (fmt : String) (raw : List UInt8) : Except PyErr Val :=
  match unpack (parseFmt! fmt) raw with
  | .ok (v :: _) => .ok v
  | .ok [] => .error .indexError
  | .error e => .error e

/-- the callbacks called for an update of `g.n`, in call order: name, group, all -/
def fanout (h : Host) (g n : Nat) (v : Val) : List Out :=
  ((h.nameCbs.filter (fun x => x.1 == g && x.2.1 == n)).map (fun x => Out.update x.2.2 [g, n] v))
  ++ ((h.groupCbs.filter (fun x => x.1 == g)).map (fun x => Out.update x.2 [g, n] v))
  ++ (h.allCbs.map (fun c => Out.update c [g, n] v))

/-- `Param._param_updated(pk)`.  Raises before anything is changed (`struct.error` / `IndexError` on a short packet). -/
def paramUpdated (h : Host) (p : Pkt) : Except PyErr (Host × List Out) :=
  let idIndex := if p.chan = Gen.C04.MISC_CHANNEL then 1 else 0
  let varId : Except PyErr Nat :=
    if h.useV2 then
      match unpack1 "<H" ((p.data.drop idIndex).take 2) with
      | .ok (.int v) => .ok v.toNat
      | .ok _ => .error .other
      | .error e => .error e
    else match p.data with
      | b :: _ => .ok b.toNat
      | [] => .error .indexError
  match varId with
  | .error e => .error e
  | .ok i =>
    match elemById h.toc i with
    | none => .ok (h, [])
    | some e =>
      let raw := if h.useV2 then p.data.drop (idIndex + 2) else p.data.drop 1
      match unpack1 e.fmt raw with
      | .error er => .error er
      | .ok v =>
        let h1 := { h with values := (e.group, e.name, v) :: h.values }
        let outs := fanout h e.group e.name v
        if h1.connected && allFetched h1 && !h1.isUpdated then
          .ok ({ h1 with isUpdated := true, initialized := true }, outs ++ [.allUpdated])
        else .ok (h1, outs)

/-! ### API calls -/

/-- bytes of the parameter index: `struct.pack('<H' | '<B', varid)` -/
def idBytes (v2 : Bool) (fmtV2 fmtV1 : String) (ident : Option Nat) : Except PyErr (List UInt8) :=
  match ident with
  | some i => pack (parseFmt! (if v2 then fmtV2 else fmtV1)) [.int i]
  | none => .error .structError            -- `struct.pack('<H', None)`

/-- `struct.pack(element.pytype, value_nr)` after the `float(value)` / `int(value)` conversion -/
def valueBytes (strToF64 : List Char → Except PyErr Nat) (fmt : String) (v : PyVal) : Except PyErr (List UInt8) :=
  if fmt == "<f" then
    match pyFloat strToF64 v with
    | .error e => .error e
    | .ok x => match f64ToF32 x with
      | .error e => .error e
      | .ok y => pack (parseFmt! fmt) [.flt y]
  else if fmt == "<d" then
    match pyFloat strToF64 v with
    | .error e => .error e
    | .ok x => pack (parseFmt! fmt) [.flt x]
  else
    match pyInt v with
    | .error e => .error e
    | .ok n => pack (parseFmt! fmt) [.int n]

/-- the packet `set_value` builds, or the exception it raises; nothing has been queued at this point -/
def setValuePkt (strToF64 : List Char → Except PyErr Nat) (h : Host) (cn : List Nat) (v : PyVal) : Except PyErr Pkt :=
  match elemByName h.toc cn with
  | none => .error .keyError
  | some e =>
    if e.ro then .error .attributeError else
    match idBytes h.useV2 Gen.C04.setIdFmtV2 Gen.C04.setIdFmtV1 (some e.ident) with
    | .error er => .error er
    | .ok ib =>
      match valueBytes strToF64 e.fmt v with
      | .error er => .error er
      | .ok vb => .ok { chan := Gen.C04.WRITE_CHANNEL, data := ib ++ vb }

def enqueue (h : Host) (p : Pkt) : Host := { h with queue := h.queue ++ [p] }

/-- the `_initialized` gate of `set_value` / `get_value`: `none` = pass -/
def gate (h : Host) (inCb : Bool) : Option Out :=
  if h.initialized then none else if inCb then some (.raised .other) else some .blocked

/-- `Param.set_value(complete_name, value)`; `inCb`: called from the incoming-packet thread -/
def setValue (strToF64 : List Char → Except PyErr Nat) (h : Host) (cn : List Nat) (v : PyVal) (inCb : Bool) : Host × List Out :=
  match gate h inCb with
  | some o => (h, [o])
  | none =>
    match setValuePkt strToF64 h cn v with
    | .error e => (h, [.raised e])
    | .ok p => (enqueue h p, [.enq p none])

/-- `Param.get_value(complete_name)` -/
def getValue (h : Host) (cn : List Nat) (inCb : Bool) : Host × List Out :=
  match gate h inCb with
  | some o => (h, [o])
  | none =>
    match cn with
    | [g, n] =>
      if hasGroup h.values g then
        match getVal h.values g n with
        | some v => (h, [.ret v])
        | none => (h, [.raised .keyError])
      else (h, [.raised .keyError])
    | _ => (h, [.raised .valueError])

/-- `Param.request_param_update(complete_name)`; `proto4` = `cf.platform.get_protocol_version() >= 4` at call time.
The updater's flag is assigned before the index is packed. -/
def requestUpdate (h : Host) (cn : List Nat) (proto4 : Bool) : Host × List Out :=
  match elementId h.toc cn with
  | .error e => (h, [.raised e])
  | .ok i =>
    let h1 := { h with updV2 := proto4 }
    match idBytes proto4 Gen.C04.readIdFmtV2 Gen.C04.readIdFmtV1 i with
    | .error e => (h1, [.raised e])
    | .ok ib =>
      let p : Pkt := { chan := Gen.C04.READ_CHANNEL, data := ib }
      (enqueue h1 p, [.enq p none])

/-- which of the three reply-routing mechanisms the code uses, and how the dispatcher iterates -/
structure Variant where
  routing : Nat        -- 0: one-shot callbacks matching the command byte; 1: command byte + id; 2: FIFO of pending requests
  snap : Bool          -- dispatcher iterates over a snapshot of its callback list
  deriving DecidableEq, Repr

def Variant.fixed : Variant := { routing := 2, snap := true }
/-- what the current source does (Tie A) -/
def Variant.code : Variant := { routing := Gen.C04.miscRouting, snap := Gen.C04.dispatchSnapshot }

/-- the request packet of a misc command: `struct.pack('<BH', command, element.ident)` -/
def miscPkt (k : MiscKind) (ident : Nat) : Except PyErr Pkt :=
  match pack (parseFmt! Gen.C04.miscReqFmt) [.int k.cmd, .int ident] with
  | .ok d => .ok { chan := Gen.C04.MISC_CHANNEL, data := d }
  | .error e => .error e

/-- register the reply handler and queue the request -/
def sendMisc (v : Variant) (h : Host) (k : MiscKind) (e : Elem) (cn : List Nat) (rid : Option Nat) : Host × List Out :=
  match miscPkt k e.ident with
  | .error er =>
    -- one-shot variants register the port callback before the request is packed
    if v.routing = 2 || rid.isNone then (h, [.raised er])
    else ({ h with pending := h.pending ++ [{ kind := k, ident := e.ident, cn := cn, tcode := e.tcode, rid := rid }] }, [.raised er])
  | .ok p =>
    let ent : Pending := { kind := k, ident := e.ident, cn := cn, tcode := e.tcode, rid := rid }
    if v.routing = 2 || rid.isSome then (enqueue { h with pending := h.pending ++ [ent] } p, [.enq p (some ent)])
    else (enqueue h p, [.enq p none])

/-- `get_default_value(complete_name, callback)`: no check that the element exists (`AttributeError` on `None`) -/
def getDefault (v : Variant) (h : Host) (cn : List Nat) (rid : Nat) : Host × List Out :=
  match elemByName h.toc cn with
  | none =>
    -- repaired code: `element.ident` is evaluated first; one-shot code: the callback is registered, then `element.ident` raises
    if v.routing = 2 then (h, [.raised .attributeError])
    else ({ h with pending := h.pending ++ [{ kind := .getDefault, ident := 0, cn := cn, tcode := 0, rid := some rid, noElem := true }] },
          [.raised .attributeError])
  | some e => sendMisc v h .getDefault e cn (some rid)

/-- `persistent_get_state(complete_name, callback)` -/
def getState (v : Variant) (h : Host) (cn : List Nat) (rid : Nat) : Host × List Out :=
  match elemByName h.toc cn with
  | none => (h, [.raised .attributeError])
  | some e => if !e.persistent then (h, [.raised .attributeError]) else sendMisc v h .getState e cn (some rid)

/-- `persistent_store(complete_name, callback=None)`: an unknown name calls `callback(name, False)` at once -/
def store (v : Variant) (h : Host) (cn : List Nat) (rid : Option Nat) : Host × List Out :=
  match elemByName h.toc cn with
  | none => match rid with
    | some r => (h, [.refusedCb r cn])
    | none => (h, [.raised .typeError])
  | some e => if !e.persistent then (h, [.raised .attributeError]) else sendMisc v h .store e cn rid

/-- `persistent_clear(complete_name, callback=None)` -/
def clear (v : Variant) (h : Host) (cn : List Nat) (rid : Option Nat) : Host × List Out :=
  match elemByName h.toc cn with
  | none => (h, [.raised .attributeError])
  | some e => if !e.persistent then (h, [.raised .attributeError]) else sendMisc v h .clear e cn rid

/-- `Caller.add_callback`: no duplicates -/
def addUnique {α} [BEq α] (l : List α) (x : α) : List α := if l.contains x then l else l ++ [x]

/-- `add_update_callback(group, name, cb)` -/
def addCb (h : Host) (g n : Option Nat) (cb : Nat) : Host :=
  match g, n with
  | _, some nn => match g with
    | some gg => { h with nameCbs := addUnique h.nameCbs (gg, nn, cb), nameCallers := addUnique h.nameCallers (gg, nn) }
    | none => h                                   -- a name without a group: registered under 'None.name', never called
  | some gg, none => { h with groupCbs := addUnique h.groupCbs (gg, cb), groupCallers := addUnique h.groupCallers gg }
  | none, none => { h with allCbs := addUnique h.allCbs cb }

/-- `remove_update_callback(group, name, cb)`: `Caller.remove_callback` raises `ValueError` for an unknown callback -/
def removeCb (h : Host) (g : Nat) (n : Option Nat) (cb : Nat) : Host × List Out :=
  match n with
  | none =>
    if h.groupCallers.contains g then
      if h.groupCbs.contains (g, cb) then ({ h with groupCbs := h.groupCbs.erase (g, cb) }, []) else (h, [.raised .valueError])
    else (h, [])
  | some nn =>
    if h.nameCallers.contains (g, nn) then
      if h.nameCbs.contains (g, nn, cb) then ({ h with nameCbs := h.nameCbs.erase (g, nn, cb) }, []) else (h, [.raised .valueError])
    else (h, [])

/-! ### the updater thread -/

/-- `_lock_pattern` for a request about to be sent -/
def lockPatternOf (updV2 : Bool) (p : Pkt) : List UInt8 :=
  if updV2 then
    if p.chan = Gen.C04.MISC_CHANNEL then p.data.take Gen.C04.patLenMisc else p.data.take Gen.C04.patLenV2
  else p.data.take Gen.C04.patLenV1

/-- `pk = self.request_queue.get()`; enabled when the thread is at the top of its loop and the queue is not empty -/
def updGet (h : Host) : Option Host :=
  match h.cur, h.queue with
  | none, p :: q => some { h with cur := some p, queue := q }
  | _, _ => none

/-- `self.wait_lock.acquire()`, set `_lock_pattern`, `cf.send_packet(pk, ...)`; enabled when the lock is free -/
def updSend (h : Host) : Option (Host × List Out) :=
  match h.cur with
  | some p =>
    if h.lockHeld then none
    else some ({ h with cur := none, lockHeld := true, pattern := some (lockPatternOf h.updV2 p) }, [.tx p])
  | none => none

/-! ### the incoming-packet thread, PARAM port -/

def release (h : Host) : Host := { h with pattern := none, lockHeld := false }

/-- `if command == MISC_VALUE_UPDATED: self.updated_callback(pk)` -/
def notifUpdate (h : Host) (p : Pkt) (c : UInt8) : Except PyErr (Host × List Out) :=
  if c.toNat = Gen.C04.MISC_VALUE_UPDATED then paramUpdated h p else .ok (h, [])

/-- `release_pattern` of a read / write reply -/
def relPattern (updV2 : Bool) (p : Pkt) : List UInt8 :=
  if updV2 then p.data.take Gen.C04.relLenV2 else p.data.take Gen.C04.relLenV1

/-- `pk.data = pk.data[:2] + pk.data[3:]` for a V2 read reply: the status byte is removed, in place -/
def stripStatus (updV2 : Bool) (p : Pkt) : Pkt :=
  if updV2 ∧ p.chan = Gen.C04.READ_CHANNEL then { p with data := p.data.take 2 ++ p.data.drop 3 } else p

/-- `_ParamUpdater._new_packet_cb(pk)`; also returns the packet as later callbacks see it (a V2 read reply has its
status byte removed in place) -/
def updaterRx (h : Host) (p : Pkt) : Host × List Out × Pkt :=
  if p.chan = Gen.C04.READ_CHANNEL ∨ p.chan = Gen.C04.WRITE_CHANNEL then
    let rel := relPattern h.updV2 p
    let p' : Pkt := stripStatus h.updV2 p
    if h.pattern = some rel then
      match paramUpdated h p' with
      | .ok (h', outs) => (release h', outs ++ [.released p], p')
      | .error e => (h, [.cbError e], p')
    else (h, [], p')
  else if p.chan = Gen.C04.MISC_CHANNEL then
    match p.data with
    | [] => (h, [.cbError .indexError], p)
    | c :: _ =>
      match notifUpdate h p c with
      | .error e => (h, [.cbError e], p)
      | .ok (h', outs) =>
        if h'.pattern = some (p.data.take Gen.C04.relLenMisc) then
          if h'.lockHeld then (release h', outs ++ [.released p], p)
          else ({ h' with pattern := none }, outs ++ [.cbError .other], p)      -- `release()` of an unlocked lock
        else (h', outs, p)
  else (h, [], p)

/-- the body of a reply handler (`new_packet_cb` of the four misc functions): what the caller's callback receives, or the
exception that escapes.  The `Bool` says whether the handler unregistered itself: on an exception it did not; on the early
ENOENT return and at the normal end it did iff the source has `remove_port_callback` on that path (Gen: `...EnoentUnreg`,
`...EndUnreg`). -/
def handleMisc (e : Pending) (p : Pkt) : List Out × Bool :=
  let fmt := (typeFmt e.tcode).getD ""
  match e.kind with
  | .getDefault =>
    match p.data[3]?, e.rid with
    | none, _ => ([.cbError .indexError], false)
    | some b, some r =>
      if b.toNat = Gen.C04.ENOENT then ([.misc r e.cn (.dflt none)], Gen.C04.getDefaultEnoentUnreg)
      else if e.noElem then ([.cbError .attributeError], false)      -- `element.pytype` with `element` None
      else match unpack1 fmt (p.data.drop 3) with
        | .ok v => ([.misc r e.cn (.dflt (some v))], Gen.C04.getDefaultEndUnreg)
        | .error er => ([.cbError er], false)
    | some _, none => ([.cbError .typeError], false)
  | .getState =>
    match p.data[3]?, e.rid with
    | none, _ => ([.cbError .indexError], false)
    | some b, some r =>
      if b.toNat = Gen.C04.ENOENT then ([.misc r e.cn (.state none)], Gen.C04.getStateEnoentUnreg)
      else if b.toNat = 1 then
        match unpack (parseFmt! fmt ++ parseFmt! fmt) (p.data.drop 4) with
        | .ok [d, s] => ([.misc r e.cn (.state (some (true, d, some s)))], Gen.C04.getStateEndUnreg)
        | .ok _ => ([.cbError .valueError], false)
        | .error er => ([.cbError er], false)
      else match unpack1 fmt (p.data.drop 4) with
        | .ok d => ([.misc r e.cn (.state (some (false, d, none)))], Gen.C04.getStateEndUnreg)
        | .error er => ([.cbError er], false)
    | some _, none => ([.cbError .typeError], false)
  | .store =>
    match e.rid with
    | none => ([], true)
    | some r =>
      match p.data[3]? with
      | none => ([.cbError .indexError], false)
      | some b => ([.misc r e.cn (.status (b.toNat = 0))], Gen.C04.storeEndUnreg)
  | .clear =>
    match e.rid with
    | none => ([], true)
    | some r =>
      match p.data[3]? with
      | none => ([.cbError .indexError], false)
      | some b => ([.misc r e.cn (.status (b.toNat = 0))], Gen.C04.clearEndUnreg)

/-- repaired code, `Param._misc_reply_cb(pk)`: the oldest pending request with the reply's command and id gets it -/
def miscRxFifo (h : Host) (p : Pkt) : Host × List Out :=
  if p.chan ≠ Gen.C04.MISC_CHANNEL ∨ p.data.length < 3 then (h, [])
  else
    let cmd := (p.data.headD 0).toNat
    let ident := leVal ((p.data.drop 1).take 2)
    match h.pending.find? (fun e => e.kind.cmd == cmd && e.ident == ident) with
    | none => (h, [])
    | some e => ({ h with pending := h.pending.erase e }, (handleMisc e p).1)

/-- the test of a one-shot `new_packet_cb`:
`pk.channel == MISC_CHANNEL and pk.data[0] == <command> [and struct.unpack('<H', pk.data[1:3])[0] == element.ident]`;
an error is the exception it raises (`pk.data[0]` on an empty packet, `unpack` on a short one, `element` None) -/
def oneShotMatches (matchId : Bool) (e : Pending) (p : Pkt) : Except PyErr Bool :=
  if p.chan ≠ Gen.C04.MISC_CHANNEL then .ok false
  else match p.data with
    | [] => .error .indexError
    | c :: _ =>
      if c.toNat ≠ e.kind.cmd then .ok false
      else if !matchId then .ok true
      else if ((p.data.drop 1).take 2).length ≠ 2 then .error .structError
      else if e.noElem then .error .attributeError
      else .ok (leVal ((p.data.drop 1).take 2) == e.ident)

/-- call one one-shot callback; it unregisters itself when its handler ran to the end -/
def oneShotCall (matchId : Bool) (h : Host) (e : Pending) (p : Pkt) : Host × List Out :=
  match oneShotMatches matchId e p with
  | .error er => (h, [.cbError er])
  | .ok false => (h, [])
  | .ok true =>
    let (outs, done) := handleMisc e p
    (if done then { h with pending := h.pending.erase e } else h, outs)

/-- dispatcher iterating over a snapshot of the registered one-shot callbacks -/
def oneShotSnap (matchId : Bool) (p : Pkt) : List Pending → Host → List Out → Host × List Out
  | [], h, acc => (h, acc)
  | e :: es, h, acc =>
    let (h', o) := oneShotCall matchId h e p
    oneShotSnap matchId p es h' (acc ++ o)

/-- dispatcher iterating over the live list: an index compared with the current length on every step -/
def oneShotLive (matchId : Bool) (p : Pkt) : Nat → Nat → Host → List Out → Host × List Out
  | 0, _, h, acc => (h, acc)
  | fuel + 1, i, h, acc =>
    match h.pending[i]? with
    | none => (h, acc)
    | some e =>
      let (h', o) := oneShotCall matchId h e p
      oneShotLive matchId p fuel (i + 1) h' (acc ++ o)

def miscRx (v : Variant) (h : Host) (p : Pkt) : Host × List Out :=
  if v.routing = 2 then miscRxFifo h p
  else if v.snap then oneShotSnap (v.routing = 1) p h.pending h []
  else oneShotLive (v.routing = 1) p (h.pending.length + 1) 0 h []

/-- one iteration of `_IncomingPacketHandler.run` for a packet on the PARAM port: the updater's callback (registered
first), then the misc reply routing; exceptions are caught per callback -/
def rx (v : Variant) (h : Host) (p : Pkt) : Host × List Out :=
  let (h1, o1, p1) := updaterRx h p
  let (h2, o2) := miscRx v h1 p1
  (h2, .rxd p :: (o1 ++ o2))

end CfVerif.C04

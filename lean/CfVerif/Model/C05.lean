/-
Model/C05: executable model of cflib's log subsystem (cflib/crazyflie/log.py: LogVariable, LogConfig,
LogTocElement, Log; cflib/crazyflie/toc.py: Toc look-ups; cflib/crazyflie/syncLogger.py: SyncLogger).
Constants, the type table, the bit expressions, struct formats and limits come from Gen/C05 (Tie A).

Conventions
* Variable names ("group.name" strings) are abstracted to `Nat` keys; a name that is not of the form
  `group.name` is simply a key that no TOC element carries (`Toc.get_element_by_complete_name` returns None
  for it).  Type names stay strings (they go through the `LogTocElement.types` table).
* Python objects shared by reference (LogConfig, SyncLogger) live in stores indexed by handles.
* Every operation returns the new state, the observable outputs (packets handed to `cf.send_packet`,
  callback invocations, SyncLogger results) and the Python exception that escaped, if any.  State changes
  and outputs that happened before an exception are kept, as in Python.
* `add_config` is modelled as REPAIRED by fixes/D6-c05.patch (a resolved default-typed name is removed from
  `default_fetch_as`); the unrepaired behaviour is kept as `resolveDefaultsLive` / `addConfigLive`.
No Mathlib.
-/
import CfVerif.Base.Struct
import CfVerif.Base.Py
import CfVerif.Gen.C05
namespace CfVerif.C05
open CfVerif

/-! ### LogTocElement.types -/

/-- `LogTocElement.get_id_from_cstring`: first key (dict order) whose name matches, else KeyError -/
def idFromCString (s : String) : Except PyErr Nat :=
  match Gen.C05.types.find? (fun e => e.2.1 == s) with
  | some e => .ok e.1
  | none => .error .keyError

def typeRow? (id : Nat) : Option (Nat × String × String × Nat) := Gen.C05.types.find? (fun e => e.1 == id)

/-- `LogTocElement.get_size_from_id` -/
def sizeFromId (id : Nat) : Except PyErr Nat :=
  match typeRow? id with
  | some e => .ok e.2.2.2
  | none => .error .keyError

/-- `LogTocElement.get_unpack_string_from_id`, already parsed -/
def fmtFromId (id : Nat) : Except PyErr Fmt :=
  match typeRow? id with
  | some e => .ok (parseFmt! e.2.2.1)
  | none => .error .keyError

/-! ### LogVariable -/

structure LVar where
  name : Nat
  fetch : Nat         -- `fetch_as` (type id)
  stored : Nat        -- `stored_as`
  isToc : Bool        -- `type == TOC_TYPE`
  addr : Nat
  deriving Repr, DecidableEq

/-- `LogVariable.__init__(name, fetchAs, varType, storedAs, address)` -/
def mkVar (name : Nat) (fetchAs : String) (isToc : Bool) (storedAs : String) (addr : Nat) : Except PyErr LVar :=
  match idFromCString fetchAs with
  | .error e => .error e
  | .ok f =>
    if storedAs.length == 0 then .ok ⟨name, f, f, isToc, addr⟩
    else match idFromCString storedAs with
      | .error e => .error e
      | .ok s => .ok ⟨name, f, s, isToc, addr⟩

/-- `LogVariable.get_storage_and_fetch_byte` -/
def typeByte (v : LVar) : Nat := Gen.C05.typeByteExpr v.fetch v.stored

/-! ### Toc (the part the log subsystem uses) -/

structure TocEl where
  name : Nat
  ident : Nat
  ctype : String
  deriving Repr, DecidableEq

/-- elements in dict iteration order; names are distinct (it is a dict keyed by group and name) -/
abbrev Toc := List TocEl

/-- `Toc.get_element_id`: the ident of the element stored under that name, None if there is none -/
def Toc.elementId (t : Toc) (n : Nat) : Option Nat := (t.find? (fun e => e.name == n)).map (·.ident)

/-- `Toc.get_element_by_id`: first element (dict order) with that ident -/
def Toc.byId (t : Toc) (i : Nat) : Option TocEl := t.find? (fun e => e.ident == i)

/-- `Toc.get_element_by_complete_name`: `get_element_by_id(get_element_id(name))`; `get_element_by_id(None)` is None -/
def Toc.byName (t : Toc) (n : Nat) : Option TocEl :=
  match t.elementId n with
  | none => none
  | some i => t.byId i

/-! ### state -/

/-- an item in a SyncLogger queue -/
inductive QItem
  | sample (ts : Nat) (vals : List (Nat × Val)) (conf : Nat)
  | disc
  deriving Repr, DecidableEq

/-- LogConfig -/
structure Conf where
  period : Int
  variables : List LVar := []
  defaults : List Nat := []       -- `default_fetch_as`
  valid : Bool := false
  added : Bool := false
  started : Bool := false
  pending : Nat := 0              -- `False`, then `+= 1` / `= False`
  id : Nat := 0
  hasCf : Bool := false           -- `cf is not None`
  useV2 : Bool := false
  errNo : Nat := 0
  dataCbs : List Nat := []        -- SyncLoggers whose `_log_callback` is registered on `data_received_cb`
  deriving Repr, DecidableEq

/-- SyncLogger -/
structure SL where
  confs : List Nat
  connected : Bool := false
  queue : List QItem := []
  deriving Repr, DecidableEq

/-- Log + the parts of Crazyflie it talks to -/
structure St where
  confs : List Conf := []
  blocks : List Nat := []         -- `log_blocks` (handles; the same object may be listed more than once)
  counter : Nat := Gen.C05.idCounterInit
  useV2 : Bool := false
  toc : Option Toc := none
  link : Bool := false            -- `cf.link is not None`
  sls : List SL := []
  discCbs : List Nat := []        -- SyncLoggers registered on `cf.disconnected`
  deriving Repr, DecidableEq

inductive Out
  | tx (data : List UInt8) (expect : List Nat)   -- `cf.send_packet(pk, expected_reply=...)` on port 5 channel 1
  | blockAdded (h : Nat)                         -- `block_added_cb.call(logconf)`
  | addedCb (h : Nat) (v : Bool)                 -- `added_cb.call(block, v)` from the property setter
  | startedCb (h : Nat) (v : Bool)
  | addedErr (h : Nat)                           -- `added_cb.call(False)`
  | startedErr (h : Nat)                         -- `started_cb.call(log, False)`
  | errorCb (h : Nat) (status : Nat)             -- `error_cb.call(block, msg)`
  | data (h : Nat) (ts : Nat) (vals : List (Nat × Val))   -- `data_received_cb.call(ts, dict, block)`
  | tocFetch                                     -- TocFetcher(...).start()
  | put (s : Nat) (item : QItem)                 -- SyncLogger `_queue.put`
  | yield (s : Nat) (item : QItem)               -- `__next__` returned this item
  | stop (s : Nat) (popped : Bool)               -- `__next__` raised StopIteration (after popping DISCONNECT_EVENT?)
  | blocks (s : Nat)                             -- `__next__` would block in `_queue.get()`
  deriving Repr, DecidableEq

structure Res where
  st : St
  outs : List Out := []
  err : Option PyErr := none
  deriving Repr, DecidableEq

def St.conf? (st : St) (h : Nat) : Option Conf := st.confs[h]?
def St.setConf (st : St) (h : Nat) (c : Conf) : St := { st with confs := st.confs.set h c }

/-- sequencing: run `g` on the result of `r` unless an exception escaped -/
def Res.andThen (r : Res) (g : St → Res) : Res :=
  match r.err with
  | some _ => r
  | none => let r2 := g r.st; { st := r2.st, outs := r.outs ++ r2.outs, err := r2.err }

/-- `bytearray(tuple)`: every item must be in range(256) -/
def bytesOf : List Int → Except PyErr (List UInt8)
  | [] => .ok []
  | .ofNat n :: r =>
    if n < 256 then (match bytesOf r with | .ok b => .ok (UInt8.ofNat n :: b) | .error e => .error e)
    else .error .valueError
  | .negSucc _ :: _ => .error .valueError

/-! ### LogConfig construction -/

/-- `int(period_in_ms / 10)` for an integer number of milliseconds -/
def periodOf (ms : Int) : Int := pyTrunc ms Gen.C05.periodDivisor

def newConf (st : St) (ms : Int) : St := { st with confs := st.confs ++ [{ period := periodOf ms }] }

/-- `LogConfig.add_variable(name, fetch_as)`; an empty `fetch_as` (or None) means "stored type" -/
def Conf.addVariable (c : Conf) (name : Nat) (fetchAs : String) : Except PyErr Conf :=
  if fetchAs.length ≠ 0 then
    match mkVar name fetchAs true "" 0 with
    | .ok v => .ok { c with variables := c.variables ++ [v] }
    | .error e => .error e
  else .ok { c with defaults := c.defaults ++ [name] }

/-- `LogConfig.add_memory(name, fetch_as, stored_as, address)` -/
def Conf.addMemory (c : Conf) (name : Nat) (fetchAs storedAs : String) (addr : Nat) : Except PyErr Conf :=
  match mkVar name fetchAs false storedAs addr with
  | .ok v => .ok { c with variables := c.variables ++ [v] }
  | .error e => .error e

/-! ### Log.add_config -/

/-- `self.toc.get_element_by_complete_name(n)` with `self.toc` possibly None -/
def lookup (toc : Option Toc) (n : Nat) : Except PyErr (Option TocEl) :=
  match toc with
  | none => .error .attributeError
  | some t => .ok (t.byName n)

/-- first loop of `add_config` (repaired): resolve default-typed names one by one, removing each resolved
name.  Result: the configuration as left behind, and the exception if one escaped (`valid` is cleared when
a name is missing). -/
def resolveDefaults (toc : Option Toc) : List Nat → Conf → Conf × Option PyErr
  | [], c => (c, none)
  | n :: ds, c =>
    match lookup toc n with
    | .error e => (c, some e)
    | .ok none => ({ c with valid := false }, some .keyError)
    | .ok (some el) =>
      match c.addVariable n el.ctype with
      | .error e => (c, some e)
      | .ok c' => resolveDefaults toc ds { c' with defaults := c'.defaults.erase n }

/-- the unrepaired loop (D6): the names stay in `default_fetch_as` -/
def resolveDefaultsLive (toc : Option Toc) : List Nat → Conf → Conf × Option PyErr
  | [], c => (c, none)
  | n :: ds, c =>
    match lookup toc n with
    | .error e => (c, some e)
    | .ok none => ({ c with valid := false }, some .keyError)
    | .ok (some el) =>
      match c.addVariable n el.ctype with
      | .error e => (c, some e)
      | .ok c' => resolveDefaultsLive toc ds c'

/-- second loop of `add_config`: total payload size and TOC existence.  `.error (e, clearValid)` -/
def checkVars (toc : Option Toc) : List LVar → Nat → Except (PyErr × Bool) Nat
  | [], acc => .ok acc
  | v :: vs, acc =>
    match sizeFromId v.fetch with
    | .error e => .error (e, false)
    | .ok sz =>
      if v.isToc then
        match lookup toc v.name with
        | .error e => .error (e, false)
        | .ok none => .error (.keyError, true)
        | .ok (some _) => checkVars toc vs (acc + sz)
      else checkVars toc vs (acc + sz)

/-- `logconf.period > 0 and logconf.period < 0xFF` -/
def periodOk : Int → Bool
  | .ofNat n => Gen.C05.periodLo < n && n < Gen.C05.periodHi
  | .negSucc _ => false

def addConfigWith (resolve : Option Toc → List Nat → Conf → Conf × Option PyErr) (st : St) (h : Nat) : Option Res :=
  match st.conf? h with
  | none => none
  | some c0 =>
    if !st.link then some { st := st }       -- logged error, plain return
    else
      let (c1, e1) := resolve st.toc c0.defaults c0
      match e1 with
      | some e => some { st := st.setConf h c1, err := some e }
      | none =>
        match checkVars st.toc c1.variables 0 with
        | .error (e, clr) => some { st := st.setConf h (if clr then { c1 with valid := false } else c1), err := some e }
        | .ok size =>
          if size ≤ Gen.C05.maxLen && periodOk c1.period then
            let c2 := { c1 with valid := true, hasCf := true, id := st.counter, useV2 := st.useV2 }
            some { st := { (st.setConf h c2) with counter := Gen.C05.nextIdExpr st.counter, blocks := st.blocks ++ [h] },
                   outs := [.blockAdded h] }
          else some { st := st.setConf h { c1 with valid := false }, err := some .attributeError }

/-- `Log.add_config(logconf)` (repaired, fixes/D6-c05.patch) -/
def addConfig := addConfigWith resolveDefaults
/-- `Log.add_config(logconf)` as on the unrepaired tree -/
def addConfigLive := addConfigWith resolveDefaultsLive

/-! ### LogConfig.create -/

/-- One call of `_setup_log_elements(pk, next_to_add)`, on the list of variables from `next_to_add` on.
`.ok (data, none)`: done; `.ok (data, some rest)`: packet full, continue with `rest` (which starts with the
variable whose type byte was already appended).  `Gen.maxDataSize - len` is Nat subtraction: Python's
`available_data_size()` may be negative, which fails `>= size_to_add` just the same. -/
def fill (toc : Option Toc) (v2 : Bool) : List UInt8 → List LVar → Except PyErr (List UInt8 × Option (List LVar))
  | data, [] => .ok (data, none)
  | data, v :: vs =>
    if !v.isToc then
      -- `pk.data.append(struct.pack('<B', ...))`: bytearray.append(bytes) raises TypeError (D8)
      if typeByte v < 256 then .error .typeError else .error .structError
    else
      match toc with
      | none => .error .attributeError
      | some t =>
        if typeByte v < 256 then
          let data1 := data ++ [UInt8.ofNat (typeByte v)]
          if v2 then
            if Gen.C05.maxDataSize - data1.length ≥ Gen.C05.sizeToAdd then
              match t.elementId v.name with
              | none => .error .typeError                 -- `None & 0x0ff`
              | some e => fill toc v2 (data1 ++ [UInt8.ofNat (Gen.C05.idLoExpr e), UInt8.ofNat (Gen.C05.idHiExpr e)]) vs
            else .ok (data1, some (v :: vs))
          else
            match t.elementId v.name with
            | none => .error .typeError                   -- `bytearray.append(None)`
            | some e => if e < 256 then fill toc v2 (data1 ++ [UInt8.ofNat e]) vs else .error .valueError
        else .error .valueError

/-- the `while not is_done` loop of `create`.  Fuel = number of variables + 1 (every packet takes at least
one variable, `create_terminates`); running out of fuel is reported as `.other` and is unreachable. -/
def createLoop (toc : Option Toc) (v2 : Bool) (id appendCmd : Nat) : Nat → Nat → List LVar → List Out × Option PyErr
  | 0, _, _ => ([], some .other)
  | fuel + 1, cmd, vars =>
    match bytesOf [cmd, id] with
    | .error e => ([], some e)
    | .ok hdr =>
      match fill toc v2 hdr vars with
      | .error e => ([], some e)
      | .ok (data, none) => ([.tx data [cmd, id]], none)
      | .ok (data, some rest) =>
        let (o, e) := createLoop toc v2 id appendCmd fuel appendCmd rest
        (.tx data [cmd, id] :: o, e)

/-- the counting loop of `create`: (pending, num_variables) over `log_blocks` -/
def countBlocks (st : St) : List Nat → Nat × Nat
  | [] => (0, 0)
  | b :: bs =>
    let (p, n) := countBlocks st bs
    match st.conf? b with
    | some c => if c.pending ≠ 0 || c.added || c.started then (p + 1, n + c.variables.length) else (p, n)
    | none => (p, n)

/-- `LogConfig.create()` -/
def create (st : St) (h : Nat) (c : Conf) : Res :=
  let (pending, numVars) := countBlocks st st.blocks
  if pending < Gen.C05.maxBlocks then
    if numVars + c.variables.length > Gen.C05.maxVariables then { st := st, err := some .attributeError }
    else
      let st1 := st.setConf h { c with pending := c.pending + 1 }
      let cmd := if c.useV2 then Gen.C05.cmdCreateV2 else Gen.C05.cmdCreate
      let app := if c.useV2 then Gen.C05.cmdAppendV2 else Gen.C05.cmdAppend
      let (o, e) := createLoop st.toc c.useV2 c.id app (c.variables.length + 1) cmd c.variables
      { st := st1, outs := o, err := e }
  else { st := st, err := some .attributeError }

/-- `LogConfig.start()` -/
def start (st : St) (h : Nat) : Option Res :=
  match st.conf? h with
  | none => none
  | some c =>
    if !c.hasCf then some { st := st, err := some .attributeError }     -- `None.link`
    else if st.link then
      if c.added == false then some (create st h c)
      else match bytesOf [Gen.C05.cmdStart, c.id, c.period] with
        | .ok d => some { st := st, outs := [.tx d [Gen.C05.cmdStart, c.id]] }
        | .error e => some { st := st, err := some e }
    else some { st := st }

/-- `LogConfig.stop()` / `LogConfig.delete()` -/
def simpleCmd (cmd : Nat) (st : St) (h : Nat) : Option Res :=
  match st.conf? h with
  | none => none
  | some c =>
    if !c.hasCf then some { st := st, err := some .attributeError }
    else if st.link then
      match bytesOf [cmd, c.id] with
      | .ok d => some { st := st, outs := [.tx d [cmd, c.id]] }
      | .error e => some { st := st, err := some e }
    else some { st := st }

def stop := simpleCmd Gen.C05.cmdStop
def delete := simpleCmd Gen.C05.cmdDelete

/-! ### Log._new_packet_cb -/

/-- `Log._find_block(id)`: first block in `log_blocks` with that id -/
def findBlock (st : St) (id : Nat) : List Nat → Option Nat
  | [] => none
  | b :: bs =>
    match st.conf? b with
    | some c => if c.id == id then some b else findBlock st id bs
    | none => findBlock st id bs

/-- the `added` property setter -/
def setAdded (st : St) (h : Nat) (v : Bool) : St × List Out :=
  match st.conf? h with
  | none => (st, [])
  | some c => (st.setConf h { c with added := v }, if v != c.added then [.addedCb h v] else [])

/-- the `started` property setter -/
def setStarted (st : St) (h : Nat) (v : Bool) : St × List Out :=
  match st.conf? h with
  | none => (st, [])
  | some c => (st.setConf h { c with started := v }, if v != c.started then [.startedCb h v] else [])

/-- Python dict item assignment (insertion order kept, an existing key keeps its place) -/
def dictSet (d : List (Nat × Val)) (k : Nat) (v : Val) : List (Nat × Val) :=
  if d.any (·.1 == k) then d.map (fun e => if e.1 == k then (k, v) else e) else d ++ [(k, v)]

/-- the loop of `LogConfig.unpack_log_data` (`bytes` = `log_data[data_index:]`) -/
def unpackVars : List LVar → List UInt8 → List (Nat × Val) → Except PyErr (List (Nat × Val))
  | [], _, d => .ok d
  | v :: vs, bytes, d =>
    match sizeFromId v.fetch with
    | .error e => .error e
    | .ok sz =>
      match fmtFromId v.fetch with
      | .error e => .error e
      | .ok fmt =>
        match unpack fmt (bytes.take sz) with
        | .error e => .error e
        | .ok [] => .error .indexError
        | .ok (x :: _) => unpackVars vs (bytes.drop sz) (dictSet d v.name x)

/-- `data_received_cb.call(ts, data, block)`: the observer, then every registered SyncLogger `_log_callback` -/
def deliver (h ts : Nat) (vals : List (Nat × Val)) : List Nat → St → St × List Out
  | [], st => (st, [])
  | s :: ss, st =>
    match st.sls[s]? with
    | none => deliver h ts vals ss st
    | some sl =>
      let item := QItem.sample ts vals h
      let st1 := { st with sls := st.sls.set s { sl with queue := sl.queue ++ [item] } }
      let (st2, o) := deliver h ts vals ss st1
      (st2, .put s item :: o)

def errCodeKnown (status : Nat) : Bool := Gen.C05.errCodes.contains status

/-- settings channel: `cmd`, `id`, `status` already read -/
def onSettings (st : St) (cmd id status : Nat) : Res :=
  let block := findBlock st id st.blocks
  if cmd == Gen.C05.cmdCreate || cmd == Gen.C05.cmdCreateV2 then
    match block with
    | none => { st := st }
    | some h =>
      match st.conf? h with
      | none => { st := st }
      | some c =>
        if status == 0 || status == Gen.C05.errnoEEXIST then
          if !c.added then
            match bytesOf [Gen.C05.cmdStart, id, c.period] with
            | .error e => { st := st, err := some e }
            | .ok d =>
              let (st1, o) := setAdded st h true
              let st2 := match st1.conf? h with
                | some c1 => st1.setConf h { c1 with pending := 0 }
                | none => st1
              { st := st2, outs := .tx d [Gen.C05.cmdStart, id] :: o }
          else { st := st }
        else if errCodeKnown status then
          { st := st.setConf h { c with errNo := status }, outs := [.addedErr h, .errorCb h status] }
        else { st := st, err := some .keyError }
  else if cmd == Gen.C05.cmdStart then
    if status == 0 then
      match block with
      | none => { st := st }
      | some h => let (st1, o) := setStarted st h true; { st := st1, outs := o }
    else if errCodeKnown status then
      match block with
      | none => { st := st }
      | some h =>
        match st.conf? h with
        | none => { st := st }
        | some c => { st := st.setConf h { c with errNo := status }, outs := [.startedErr h] }
    else { st := st, err := some .keyError }
  else if cmd == Gen.C05.cmdStop then
    if status == 0 then
      match block with
      | none => { st := st }
      | some h => let (st1, o) := setStarted st h false; { st := st1, outs := o }
    else { st := st }
  else if cmd == Gen.C05.cmdDelete then
    if status == 0 || status == Gen.C05.errnoENOENT then
      match block with
      | none => { st := st }
      | some h =>
        let (st1, o1) := setStarted st h false
        let (st2, o2) := setAdded st1 h false
        { st := st2, outs := o1 ++ o2 }
    else { st := st }
  else if cmd == Gen.C05.cmdReset then
    match st.toc with
    | none => { st := { st with blocks := [], toc := some [] }, outs := [.tocFetch] }
    | some _ => { st := st }
  else { st := st }

/-- log data channel: `data` is the whole packet payload -/
def onLogData (st : St) (data : List UInt8) : Res :=
  match data with
  | [] => { st := st, err := some .indexError }       -- unreachable: `cmd = packet.data[0]` raised first
  | idb :: _ =>
    let block := findBlock st idb.toNat st.blocks
    match unpack (parseFmt! Gen.C05.tsFmt) ((data.drop 1).take 3) with
    | .ok [.int t0, .int t1, .int t2] =>
      let ts := Gen.C05.tsExpr t0.toNat t1.toNat t2.toNat
      match block with
      | none => { st := st }
      | some h =>
        match st.conf? h with
        | none => { st := st }
        | some c =>
          match unpackVars c.variables (data.drop 4) [] with
          | .error e => { st := st, err := some e }
          | .ok vals =>
            let (st1, o) := deliver h ts vals c.dataCbs st
            { st := st1, outs := .data h ts vals :: o }
    | .ok _ => { st := st, err := some .structError }
    | .error e => { st := st, err := some e }

/-- `Log._new_packet_cb(packet)` for a packet on port 5 -/
def newPacket (st : St) (chan : Nat) (data : List UInt8) : Res :=
  match data with
  | [] => { st := st, err := some .indexError }                  -- `packet.data[0]`
  | cmd :: payload =>
    if chan == Gen.C05.chanSettings then
      match payload with
      | id :: status :: _ => onSettings st cmd.toNat id.toNat status.toNat
      | _ => { st := st, err := some .indexError }               -- `payload[0]` / `payload[1]`
    else if chan == Gen.C05.chanLogdata then onLogData st data
    else { st := st }

/-! ### Log.reset / refresh_toc, link, TOC download result -/

def resetPacket : Out := .tx [UInt8.ofNat Gen.C05.cmdReset] [Gen.C05.cmdReset]

/-- `Log.reset()` -/
def reset (st : St) : Res := { st := { st with blocks := [] }, outs := [resetPacket] }

/-- `Log.refresh_toc(...)` with the platform's protocol version -/
def refreshToc (st : St) (ver : Int) : Res :=
  { st := { st with useV2 := decide (4 ≤ ver), toc := none }, outs := [resetPacket] }

/-! ### SyncLogger -/

def callerAdd (l : List Nat) (x : Nat) : List Nat := if l.contains x then l else l ++ [x]

/-- the `for config in self._log_config` loop of `connect` -/
def slConnectLoop (s : Nat) : List Nat → St → Option Res
  | [], st => some { st := st }
  | h :: hs, st =>
    match addConfig st h with
    | none => none
    | some r1 =>
      match r1.err with
      | some _ => some r1
      | none =>
        match r1.st.conf? h with
        | none => none
        | some c =>
          let st2 := r1.st.setConf h { c with dataCbs := callerAdd c.dataCbs s }
          match start st2 h with
          | none => none
          | some r2 =>
            match r2.err with
            | some _ => some { st := r2.st, outs := r1.outs ++ r2.outs, err := r2.err }
            | none =>
              match slConnectLoop s hs r2.st with
              | none => none
              | some r3 => some { st := r3.st, outs := r1.outs ++ r2.outs ++ r3.outs, err := r3.err }

/-- `SyncLogger.connect()` -/
def slConnect (st : St) (s : Nat) : Option Res :=
  match st.sls[s]? with
  | none => none
  | some sl =>
    if sl.connected then some { st := st, err := some .other }      -- Exception('Already connected')
    else
      let st1 := { st with discCbs := callerAdd st.discCbs s }
      match slConnectLoop s sl.confs st1 with
      | none => none
      | some r =>
        match r.err with
        | some _ => some r
        | none =>
          match r.st.sls[s]? with
          | none => none
          | some sl' => some { r with st := { r.st with sls := r.st.sls.set s { sl' with connected := true } } }

/-- the `for config in self._log_config` loop of `disconnect` -/
def slDisconnectLoop (s : Nat) : List Nat → St → Option Res
  | [], st => some { st := st }
  | h :: hs, st =>
    match stop st h with
    | none => none
    | some r1 =>
      match r1.err with
      | some _ => some r1
      | none =>
        match delete r1.st h with
        | none => none
        | some r2 =>
          match r2.err with
          | some _ => some { st := r2.st, outs := r1.outs ++ r2.outs, err := r2.err }
          | none =>
            match r2.st.conf? h with
            | none => none
            | some c =>
              if c.dataCbs.contains s then
                let st3 := r2.st.setConf h { c with dataCbs := c.dataCbs.erase s }
                match slDisconnectLoop s hs st3 with
                | none => none
                | some r3 => some { st := r3.st, outs := r1.outs ++ r2.outs ++ r3.outs, err := r3.err }
              else some { st := r2.st, outs := r1.outs ++ r2.outs, err := some .valueError }   -- list.remove(x)

/-- `SyncLogger.disconnect()` -/
def slDisconnect (st : St) (s : Nat) : Option Res :=
  match st.sls[s]? with
  | none => none
  | some sl =>
    if !sl.connected then some { st := st }
    else
      match slDisconnectLoop s sl.confs st with
      | none => none
      | some r =>
        match r.err with
        | some _ => some r
        | none =>
          if r.st.discCbs.contains s then
            match r.st.sls[s]? with
            | none => none
            | some sl' =>
              some { r with st := { r.st with discCbs := r.st.discCbs.erase s,
                                              sls := r.st.sls.set s { sl' with connected := false } } }
          else some { r with err := some .valueError }

/-- `SyncLogger.__next__()` -/
def slNext (st : St) (s : Nat) : Option Res :=
  match st.sls[s]? with
  | none => none
  | some sl =>
    if !sl.connected then some { st := st, outs := [.stop s false] }
    else match sl.queue with
      | [] => some { st := st, outs := [.blocks s] }
      | item :: q =>
        let st1 := { st with sls := st.sls.set s { sl with queue := q } }
        match item with
        | .disc => some { st := st1, outs := [.stop s true] }
        | it => some { st := st1, outs := [.yield s it] }

/-- `SyncLogger._disconnected(uri)` -/
def slDisconnected (st : St) (s : Nat) : Option Res :=
  match slDisconnect st s with
  | none => none
  | some r =>
    match r.err with
    | some _ => some r
    | none =>
      match r.st.sls[s]? with
      | none => none
      | some sl =>
        some { r with st := { r.st with sls := r.st.sls.set s { sl with queue := sl.queue ++ [.disc] } },
                      outs := r.outs ++ [.put s .disc] }

/-- `cf.disconnected.call(uri)` over a copy of the callback list; an exception ends the iteration -/
def callDisconnected : List Nat → St → Option Res
  | [], st => some { st := st }
  | s :: ss, st =>
    match slDisconnected st s with
    | none => none
    | some r1 =>
      match r1.err with
      | some _ => some r1
      | none =>
        match callDisconnected ss r1.st with
        | none => none
        | some r2 => some { st := r2.st, outs := r1.outs ++ r2.outs, err := r2.err }

/-- the link goes away (close_link or link error): `cf.link = None`, then `cf.disconnected.call(uri)` -/
def linkLost (st : St) : Option Res :=
  let st1 := { st with link := false }
  callDisconnected st1.discCbs st1

/-! ### operations -/

inductive Op
  | newConf (ms : Int)
  | addVar (h : Nat) (name : Nat) (fetchAs : String)
  | addMem (h : Nat) (name : Nat) (fetchAs storedAs : String) (addr : Nat)
  | addConfig (h : Nat)
  | start (h : Nat)
  | stop (h : Nat)
  | delete (h : Nat)
  | rx (chan : Nat) (data : List UInt8)
  | reset
  | refresh (ver : Int)
  | setToc (t : Toc)              -- environment: the TOC download completed with this table
  | linkUp
  | linkLost
  | newSl (confs : List Nat)
  | slConnect (s : Nat)
  | slDisconnect (s : Nat)
  | slNext (s : Nat)
  deriving Repr, DecidableEq

/-- one operation; `none` = the operation names a handle that does not exist (driver: bad-op) -/
def step (st : St) : Op → Option Res
  | .newConf ms => some { st := newConf st ms }
  | .addVar h n f =>
    match st.conf? h with
    | none => none
    | some c => match c.addVariable n f with
      | .ok c' => some { st := st.setConf h c' }
      | .error e => some { st := st, err := some e }
  | .addMem h n f s a =>
    match st.conf? h with
    | none => none
    | some c => match c.addMemory n f s a with
      | .ok c' => some { st := st.setConf h c' }
      | .error e => some { st := st, err := some e }
  | .addConfig h => addConfig st h
  | .start h => start st h
  | .stop h => stop st h
  | .delete h => delete st h
  | .rx chan data => some (newPacket st chan data)
  | .reset => some (reset st)
  | .refresh ver => some (refreshToc st ver)
  | .setToc t => match st.toc with
    | some _ => some { st := { st with toc := some t } }
    | none => none
  | .linkUp => some { st := { st with link := true } }
  | .linkLost => linkLost st
  | .newSl confs => if confs.all (fun h => (st.conf? h).isSome) then some { st := { st with sls := st.sls ++ [{ confs := confs }] } } else none
  | .slConnect s => slConnect st s
  | .slDisconnect s => slDisconnect st s
  | .slNext s => slNext st s

/-- run a history; a bad operation is skipped (it has no counterpart in Python) -/
def run (st : St) : List Op → St × List Out
  | [] => (st, [])
  | op :: ops =>
    match step st op with
    | none => run st ops
    | some r => let (st', o) := run r.st ops; (st', r.outs ++ o)

/-! ### packet objects and links that serialise later than `send_packet` returns

Links keep the packet OBJECTS handed to `send_packet` (driver out-queues, the resend timer) and read header
and data later.  What reaches the wire for message `k` is therefore the data LAST assigned to its object.
Freshness: in `create()` the `CRTPPacket()` call is inside the while loop (Gen `createPacketInLoop`), every other
sending function constructs its own local packet (Gen `packetSites`), nothing is stored on an attribute. -/

/-- `msgs` = (object id, data at the time of `send_packet`), in call order: what a late-serialising link sends -/
def lateWire (msgs : List (Nat × List UInt8)) : List (List UInt8) :=
  msgs.map fun m => match (msgs.filter (fun x => x.1 == m.1)).getLast? with
    | some x => x.2
    | none => m.2

/-- object ids of the `n` messages of one `create()` call: one fresh object per loop iteration when the
constructor call is inside the loop, the same object for all of them otherwise -/
def createPids (inLoop : Bool) (base n : Nat) : List Nat :=
  if inLoop then (List.range n).map (base + ·) else List.replicate n base

def txData (outs : List Out) : List (List UInt8) :=
  outs.filterMap fun o => match o with | .tx d _ => some d | _ => none

/-- what a late-serialising link transmits for the messages of one `create()` call -/
def createWire (base : Nat) (outs : List Out) : List (List UInt8) :=
  lateWire ((createPids Gen.C05.createPacketInLoop base (txData outs).length).zip (txData outs))

/-- … and for a whole history: every `send_packet` is given a packet constructed for it, so the k-th packet of the
history is object k -/
def historyWire (outs : List Out) : List (List UInt8) :=
  lateWire ((List.range (txData outs).length).zip (txData outs))

/-! ### connect() / disconnect() as sequences of atomic statements (interleaving model)

`SyncLogger.connect` and `.disconnect` run in the user's thread while the incoming-packet thread delivers
acknowledgements and log data.  Here a call is a program: the statements of the method in source order (the
order of the loop body comes from Gen: `slConnectLoopOrder` / `slDisconnectLoopOrder`), executed one at a time,
with arbitrary other operations in between.  Granularity: one Python statement is atomic (deliveries *inside*
`config.start()` are not modelled). -/

inductive Stmt
  | discAdd                -- `self._cf.disconnected.add_callback(self._disconnected)`
  | addCfg (h : Nat)       -- `self._cf.log.add_config(config)`
  | sub (h : Nat)          -- `config.data_received_cb.add_callback(self._log_callback)`
  | start (h : Nat)        -- `config.start()`
  | setConn                -- `self._is_connected = True`
  | stop (h : Nat)         -- `config.stop()`
  | del (h : Nat)          -- `config.delete()`
  | unsub (h : Nat)        -- `config.data_received_cb.remove_callback(self._log_callback)`
  | discRemove             -- `self._cf.disconnected.remove_callback(self._disconnected)`
  | setDisconn             -- `self._is_connected = False`
  deriving Repr, DecidableEq

def stmtOfName (h : Nat) (name : String) : Option Stmt :=
  if name == "log.add_config" then some (.addCfg h)
  else if name == "config.data_received_cb.add_callback" then some (.sub h)
  else if name == "config.start" then some (.start h)
  else if name == "config.stop" then some (.stop h)
  else if name == "config.delete" then some (.del h)
  else if name == "config.data_received_cb.remove_callback" then some (.unsub h)
  else none

/-- the statements of one loop iteration, in the order of the source -/
def loopBlock (order : List String) (h : Nat) : List Stmt := order.filterMap (stmtOfName h)

/-- `connect()` after the "already connected" test -/
def connectProg (confs : List Nat) : List Stmt :=
  .discAdd :: confs.flatMap (loopBlock Gen.C05.slConnectLoopOrder) ++ [.setConn]

/-- `disconnect()` inside `if self._is_connected:` -/
def disconnectProg (confs : List Nat) : List Stmt :=
  confs.flatMap (loopBlock Gen.C05.slDisconnectLoopOrder) ++ [.discRemove, .setDisconn]

/-- one statement of SyncLogger `s` -/
def execStmt (st : St) (s : Nat) : Stmt → Option Res
  | .discAdd => some { st := { st with discCbs := callerAdd st.discCbs s } }
  | .addCfg h => addConfig st h
  | .sub h =>
    match st.conf? h with
    | none => none
    | some c => some { st := st.setConf h { c with dataCbs := callerAdd c.dataCbs s } }
  | .start h => start st h
  | .setConn =>
    match st.sls[s]? with
    | none => none
    | some sl => some { st := { st with sls := st.sls.set s { sl with connected := true } } }
  | .stop h => stop st h
  | .del h => delete st h
  | .unsub h =>
    match st.conf? h with
    | none => none
    | some c =>
      if c.dataCbs.contains s then some { st := st.setConf h { c with dataCbs := c.dataCbs.erase s } }
      else some { st := st, err := some .valueError }
  | .discRemove =>
    if st.discCbs.contains s then some { st := { st with discCbs := st.discCbs.erase s } }
    else some { st := st, err := some .valueError }
  | .setDisconn =>
    match st.sls[s]? with
    | none => none
    | some sl => some { st := { st with sls := st.sls.set s { sl with connected := false } } }

/-- state of the interleaving model: the Log state, the remaining statements of the call in progress of each
SyncLogger, and (ghost, for the theorems only) the blocks each logger has requested to start and not yet
unsubscribed from -/
structure ISt where
  st : St := {}
  progs : List (Nat × List Stmt) := []
  started : List (Nat × Nat) := []
  deriving Repr, DecidableEq

def ISt.prog (i : ISt) (s : Nat) : List Stmt :=
  match i.progs.find? (fun e => e.1 == s) with
  | some e => e.2
  | none => []

def ISt.setProg (i : ISt) (s : Nat) (p : List Stmt) : ISt :=
  { i with progs := (s, p) :: i.progs.filter (fun e => e.1 != s) }

inductive IOp
  | callConnect (s : Nat)      -- the user thread enters `connect()`
  | callDisconnect (s : Nat)   -- the user thread enters `disconnect()`
  | run (s : Nat)              -- the user thread executes the next statement of the call in progress
  | op (o : Op)                -- anything else (packets from the incoming thread, other user operations)
  deriving Repr, DecidableEq

/-- ghost bookkeeping: `start h` executed without exception adds (s, h); `remove_callback` executed removes it -/
def startedAfter (s : Nat) (stmt : Stmt) (err : Option PyErr) (l : List (Nat × Nat)) : List (Nat × Nat) :=
  match stmt, err with
  | .start h, none => (s, h) :: l
  | .unsub h, none => l.filter (fun e => e != (s, h))
  | _, _ => l

/-- one step of the interleaving model; `none` = not possible here (no such logger, a call already in
progress / none in progress) -/
def istep (i : ISt) : IOp → Option (ISt × List Out × Option PyErr)
  | .callConnect s =>
    match i.st.sls[s]? with
    | none => none
    | some sl =>
      if i.prog s ≠ [] then none
      else if sl.connected then some (i, [], some .other)              -- Exception('Already connected')
      else some (i.setProg s (connectProg sl.confs), [], none)
  | .callDisconnect s =>
    match i.st.sls[s]? with
    | none => none
    | some sl =>
      if i.prog s ≠ [] then none
      else if sl.connected then some (i.setProg s (disconnectProg sl.confs), [], none)
      else some (i, [], none)
  | .run s =>
    match i.prog s with
    | [] => none
    | stmt :: rest =>
      match execStmt i.st s stmt with
      | none => none
      | some r =>
        some (({ i with st := r.st, started := startedAfter s stmt r.err i.started }).setProg s (if r.err.isSome then [] else rest), r.outs, r.err)
  | .op o =>
    match step i.st o with
    | none => none
    | some r => some ({ i with st := r.st }, r.outs, r.err)

/-- run a schedule; impossible steps are skipped -/
def irun (i : ISt) : List IOp → ISt × List Out
  | [] => (i, [])
  | a :: as =>
    match istep i a with
    | none => irun i as
    | some (i', o, _) => let (i'', o') := irun i' as; (i'', o ++ o')

end CfVerif.C05

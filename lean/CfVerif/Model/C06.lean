/-
Model/C06: executable model of cflib's memory subsystem
(`cflib/crazyflie/mem/__init__.py`: `_ReadRequest`, `_WriteRequest`, `Memory.read/write`,
`Memory._new_packet_cb/_handle_chan_read/_handle_chan_write`, `Memory._disconnected`).

* One *event* = one call into `Memory` (an API call, the port callback for one received packet, or the
  disconnect callback).  An event returns the new state, the observable outputs in order (packets handed to
  `cf.send_packet`, invocations of `mem_read_cb / mem_read_failed_cb / mem_write_cb / mem_write_failed_cb`,
  progress callbacks) and how the call ended: a return value, a Python exception (state changes made before
  the `raise` persist, exactly as in Python), or `hang` (the call blocks forever in `Lock.acquire()` on a lock
  that is already held; in the sequential model that is a deadlock).
* `_write_requests_lock` is the Boolean `St.lock`; every acquire / release of the code is a statement here.
* The chunk limits, channels, struct formats and the *lock discipline* (`acquire/release` vs `with`, empty
  queue guard, zero-length guard of the progress computation) come from Gen/C06 (Tie A): `Variant.code` is
  what the current source does, `Variant.fixed` the repaired code (fixes/D9-c06.patch, fixes/D17-c06.patch),
  `Variant.live` the code before the repairs.
* Dictionaries are association lists in insertion order (Python dicts iterate in insertion order; this is
  the order of the failure callbacks on disconnect).
* A request carries a ghost `tag` (in the harness: the identity of the `memory` object handed to
  `read`/`write`, which the code passes back unchanged as first argument of every callback).
Outside the model: `refresh()` / the info channel (CHAN_INFO) and the 1-wire/I2C element parsing, the
`resend()` methods (never called by `Memory`), `DeckMemoryManager`-specific progress texts.  No Mathlib.
-/
import CfVerif.Base.Struct
import CfVerif.Gen.C06
import CfVerif.Model.C07
namespace CfVerif.C06
open CfVerif

/-! ### variants of the code (lock discipline) -/

structure Variant where
  /-- `Memory.write` holds the lock in a `with` block (released when an exception escapes) -/
  writeWith : Bool
  /-- `Memory.write` creates the per-id queue inside the critical section -/
  writeCreateInside : Bool
  /-- `_handle_chan_write` holds the lock in a `with` block -/
  handleWith : Bool
  /-- `_handle_chan_write` only touches `queue[0]` when the queue is non-empty -/
  handleGuard : Bool
  /-- `_handle_chan_write` looks the id up inside the critical section -/
  handleLookupInside : Bool
  /-- `write_done` skips the progress computation for a zero-length write -/
  progGuard : Bool
  deriving DecidableEq, Repr

/-- the repaired code -/
def Variant.fixed : Variant := ⟨true, true, true, true, true, true⟩
/-- the code before the repairs (D9, D17) -/
def Variant.live : Variant := ⟨false, false, false, false, false, false⟩
/-- what the current source does (Tie A) -/
def Variant.code : Variant :=
  ⟨Gen.C06.writeLockWith, Gen.C06.writeCreateInsideLock, Gen.C06.handleLockWith, Gen.C06.handleGuardsEmpty,
   Gen.C06.handleLookupInsideLock, Gen.C06.progGuardsZero⟩

/-! ### observable outputs and call results -/

inductive Out
  /-- `cf.send_packet(pk, expected_reply=..., timeout=1)` with `pk.port = MEM`, `pk.channel = chan` -/
  | send (chan : Nat) (data : List UInt8)
  /-- `mem_read_cb.call(rreq.mem, rreq.addr, rreq.data)` -/
  | readOk (tag id addr : Nat) (data : List UInt8)
  /-- `mem_read_failed_cb.call(rreq.mem, rreq.addr, rreq.data)` -/
  | readFail (tag id addr : Nat) (data : List UInt8)
  /-- `mem_write_cb.call(wreq.mem, wreq.addr)` -/
  | writeOk (tag id addr : Nat)
  /-- `mem_write_failed_cb.call(wreq.mem, wreq.addr)` -/
  | writeFail (tag id addr : Nat)
  /-- `progress_cb(message, percent)` -/
  | progress (tag : Nat) (pct : Int)
  deriving DecidableEq, Repr

inductive Res
  /-- the call returned: `some b` = `True`/`False`, `none` = `None` -/
  | ret (v : Option Bool)
  | raised (e : PyErr)
  /-- blocked forever in `_write_requests_lock.acquire()` -/
  | hang
  deriving DecidableEq, Repr

/-! ### formats (Tie A) -/

def fmtReadReq : Fmt := parseFmt! Gen.C06.readReqFmt       -- '<BIB'  id, address, length
def fmtReadExp : Fmt := parseFmt! Gen.C06.readExpFmt       -- '<BBBBB' expected-reply tuple
def fmtWriteHdr : Fmt := parseFmt! Gen.C06.writeHdrFmt     -- '<BI'   id, address
def fmtWriteExp : Fmt := parseFmt! Gen.C06.writeExpFmt     -- '<BBBBB'
def fmtAck : Fmt := parseFmt! Gen.C06.ackFmt               -- '<IB'   address, status (write reply)
def fmtReadReply : Fmt := parseFmt! Gen.C06.readReplyFmt   -- '<IB'   address, status (read reply)

/-- `Crazyflie.send_packet`: `if not pk.is_data_size_valid(): raise Exception(...)`, else the packet goes out -/
def sendPacket (chan : Nat) (data : List UInt8) : Except PyErr Out :=
  if data.length > Gen.C06.maxDataSize then .error .other else .ok (.send chan data)

/-! ### `_ReadRequest` -/

structure RReq where
  tag : Nat
  id : Nat            -- self.mem.id
  addr : Nat          -- self.addr
  left : Nat          -- self._bytes_left (only ever compared with 0 after a subtraction: see `addData`)
  data : List UInt8   -- self.data
  cur : Nat           -- self._current_addr
  deriving DecidableEq, Repr

/-- `_ReadRequest.__init__` -/
def RReq.new (tag id addr len : Nat) : RReq :=
  { tag := tag, id := id, addr := addr, left := len, data := [], cur := addr }

/-- `_ReadRequest._request_new_chunk` (also `start`) -/
def requestNewChunk (r : RReq) : Except PyErr Out :=
  -- new_len = self._bytes_left; if new_len > MAX_DATA_LENGTH: new_len = MAX_DATA_LENGTH
  let newLen := if r.left > Gen.C06.readMax then Gen.C06.readMax else r.left
  -- pk.data = struct.pack('<BIB', self.mem.id, self._current_addr, new_len)
  match pack fmtReadReq [.int r.id, .int r.cur, .int newLen] with
  | .error e => .error e
  | .ok bs =>
    -- reply = struct.unpack('<BBBBB', pk.data[:-1])
    match unpack fmtReadExp bs.dropLast with
    | .error e => .error e
    | .ok _ => sendPacket Gen.C06.chanRead bs

/-- `_ReadRequest.add_data(addr, data)`: new request state, outputs, and the return value
(`none` = `None`: address mismatch, ignored). -/
def addData (r : RReq) (addr : Nat) (data : List UInt8) : RReq × List Out × Except PyErr (Option Bool) :=
  -- if not addr == self._current_addr: return
  if addr ≠ r.cur then (r, [], .ok none) else
  -- self.data += data; self._bytes_left -= data_len; self._current_addr += data_len
  let r1 := { r with data := r.data ++ data, left := r.left - data.length, cur := r.cur + data.length }
  -- if self._bytes_left > 0   (Python ints: left - len > 0  iff  left > len)
  if r.left > data.length then
    match requestNewChunk r1 with
    | .error e => (r1, [], .error e)
    | .ok o => (r1, [o], .ok (some false))
  else (r1, [], .ok (some true))

/-! ### `_WriteRequest` -/

structure WReq where
  tag : Nat
  id : Nat             -- self.mem.id
  addr : Nat           -- self.addr
  left : Nat           -- self._bytes_left
  writeLen : Nat       -- self._write_len
  rest : List UInt8    -- self._data (not yet sent)
  cur : Nat            -- self._current_addr
  addrAdd : Nat        -- self._addr_add
  prog : Option Int    -- `none`: no progress_cb;  `some p`: progress_cb given, self._progress = p
  deriving DecidableEq, Repr

/-- `_WriteRequest.__init__` -/
def WReq.new (tag id addr : Nat) (data : List UInt8) (progressCb : Bool) : WReq :=
  { tag := tag, id := id, addr := addr, left := data.length, writeLen := data.length, rest := data,
    cur := addr, addrAdd := 0, prog := if progressCb then some (-1) else none }

/-- `_WriteRequest._write_new_chunk` (also `start`): the request after the call (the slice of `_data` is
taken before anything can raise) and the packet sent, or the exception. -/
def writeNewChunk (w : WReq) : WReq × Except PyErr Out :=
  -- new_len = len(self._data); if new_len > MAX_DATA_LENGTH: new_len = MAX_DATA_LENGTH
  let newLen := if w.rest.length > Gen.C06.writeMax then Gen.C06.writeMax else w.rest.length
  -- data = self._data[:new_len]; self._data = self._data[new_len:]
  let data := w.rest.take newLen
  let w1 := { w with rest := w.rest.drop newLen }
  -- pk.data = struct.pack('<BI', self.mem.id, self._current_addr)
  match pack fmtWriteHdr [.int w.id, .int w.cur] with
  | .error e => (w1, .error e)
  | .ok hdr =>
    -- reply = struct.unpack('<BBBBB', pk.data)
    match unpack fmtWriteExp hdr with
    | .error e => (w1, .error e)
    | .ok _ =>
      -- pk.data += struct.pack('B' * len(data), *data); self.cf.send_packet(pk, ...)
      match sendPacket Gen.C06.chanWrite (hdr ++ data) with
      | .error e => (w1, .error e)
      | .ok o =>
        -- self._addr_add = len(data); self._bytes_left -= self._addr_add
        ({ w1 with addrAdd := data.length, left := w1.left - data.length }, .ok o)

/-- the progress part of `write_done`:
`new_progress = int(100 * (self._write_len - self._bytes_left) / self._write_len)` (a `ZeroDivisionError` for a
zero-length write unless guarded); `if new_progress > self._progress: ...; self._progress_cb(msg, self._progress)` -/
def progressStep (v : Variant) (w : WReq) : WReq × List Out × Except PyErr Unit :=
  match w.prog with
  | none => (w, [], .ok ())
  | some p =>
    if w.writeLen = 0 then
      if v.progGuard then (w, [], .ok ()) else (w, [], .error .zeroDiv)
    else
      let np : Int := ((100 * (w.writeLen - w.left) / w.writeLen : Nat) : Int)
      if np > p then ({ w with prog := some np }, [.progress w.tag np], .ok ())
      else (w, [], .ok ())

/-- `_WriteRequest.write_done(addr)` -/
def writeDone (v : Variant) (w : WReq) (addr : Nat) : WReq × List Out × Except PyErr (Option Bool) :=
  -- if not addr == self._current_addr: return
  if addr ≠ w.cur then (w, [], .ok none) else
  match progressStep v w with
  | (w1, outs, .error e) => (w1, outs, .error e)
  | (w1, outs, .ok ()) =>
    -- if len(self._data) > 0: self._current_addr += self._addr_add; self._write_new_chunk(); return False
    if w1.rest.length > 0 then
      match writeNewChunk { w1 with cur := w1.cur + w1.addrAdd } with
      | (w2, .error e) => (w2, outs, .error e)
      | (w2, .ok o) => (w2, outs ++ [o], .ok (some false))
    else (w1, outs, .ok (some true))

/-! ### dictionaries (association lists in insertion order) -/

section Dict
variable {α : Type}

def dhas (d : List (Nat × α)) (k : Nat) : Bool := d.any (fun e => e.1 == k)

def dget? (d : List (Nat × α)) (k : Nat) : Option α :=
  match d with
  | [] => none
  | e :: es => if e.1 == k then some e.2 else dget? es k

/-- `d[k] = v`: an existing key keeps its position, a new key goes last -/
def dset (d : List (Nat × α)) (k : Nat) (v : α) : List (Nat × α) :=
  match d with
  | [] => [(k, v)]
  | e :: es => if e.1 == k then (k, v) :: es else e :: dset es k v

/-- `d.pop(k, None)` -/
def derase (d : List (Nat × α)) (k : Nat) : List (Nat × α) :=
  match d with
  | [] => []
  | e :: es => if e.1 == k then derase es k else e :: derase es k

end Dict

/-! ### `Memory` -/

structure St where
  reads : List (Nat × RReq)          -- self._read_requests
  writes : List (Nat × List WReq)    -- self._write_requests
  lock : Bool                        -- self._write_requests_lock.locked()
  deriving DecidableEq, Repr

def St.init : St := { reads := [], writes := [], lock := false }

/-- result of one event -/
structure Step where
  st : St
  outs : List Out
  res : Res
  deriving DecidableEq, Repr

/-- the queue of an id (`[]` when the key is missing: only used where the key is known to exist) -/
def St.queue (s : St) (id : Nat) : List WReq := (dget? s.writes id).getD []

/-- `Memory.read(memory, addr, length)` -/
def memRead (s : St) (tag id addr len : Nat) : Step :=
  -- if memory.id in self._read_requests: return False
  if dhas s.reads id then ⟨s, [], .ret (some false)⟩ else
  -- rreq = _ReadRequest(...); self._read_requests[memory.id] = rreq; rreq.start(); return True
  let r := RReq.new tag id addr len
  let s1 := { s with reads := dset s.reads id r }
  match requestNewChunk r with
  | .error e => ⟨s1, [], .raised e⟩
  | .ok o => ⟨s1, [o], .ret (some true)⟩

/-- `if memory.id not in self._write_requests: self._write_requests[memory.id] = []` -/
def ensureQueue (ws : List (Nat × List WReq)) (id : Nat) : List (Nat × List WReq) :=
  if dhas ws id then ws else dset ws id []

/-- the critical section of `Memory.write` (lock already taken): flush, append, start if alone -/
def memWriteLocked (v : Variant) (s : St) (w : WReq) (flush : Bool) : Step :=
  -- [repaired] if memory.id not in self._write_requests: self._write_requests[memory.id] = []
  let ws := if v.writeCreateInside then ensureQueue s.writes w.id else s.writes
  -- if flush_queue: self._write_requests[memory.id] = self._write_requests[memory.id][:1]
  let q0 := (dget? ws w.id).getD []
  let q := if flush then q0.take 1 else q0
  -- self._write_requests[memory.id].append(wreq)
  -- if len(self._write_requests[memory.id]) == 1: wreq.start()
  match q with
  | [] =>
    match writeNewChunk w with
    | (w', .error e) =>
      -- the exception leaves the critical section: `with` releases the lock, acquire/release does not
      ⟨{ s with writes := dset ws w.id [w'], lock := !v.writeWith }, [], .raised e⟩
    | (w', .ok o) => ⟨{ s with writes := dset ws w.id [w'], lock := false }, [o], .ret (some true)⟩
  | h :: t =>
    ⟨{ s with writes := dset ws w.id (h :: t ++ [w]), lock := false }, [], .ret (some true)⟩

/-- `Memory.write(memory, addr, data, flush_queue, progress_cb)` -/
def memWrite (v : Variant) (s : St) (tag id addr : Nat) (data : List UInt8) (flush progressCb : Bool) : Step :=
  -- wreq = _WriteRequest(memory, addr, data, self.cf, progress_cb)
  let w := WReq.new tag id addr data progressCb
  -- [before the repair] if memory.id not in self._write_requests: self._write_requests[memory.id] = []
  let s := { s with writes := if v.writeCreateInside then s.writes else ensureQueue s.writes id }
  -- self._write_requests_lock.acquire()  /  with self._write_requests_lock:
  if s.lock then ⟨s, [], .hang⟩ else
  memWriteLocked v { s with lock := true } w flush

/-- start the next queued request after the head was removed:
`if len(self._write_requests[id]) > 0: self._write_requests[id][0].start()` -/
def startNext (q : List WReq) : List WReq × Except PyErr (List Out) :=
  match q with
  | [] => ([], .ok [])
  | n :: rest =>
    match writeNewChunk n with
    | (n', .error e) => (n' :: rest, .error e)
    | (n', .ok o) => (n' :: rest, .ok [o])

/-- the part of `_handle_chan_write` that runs with the lock held and a head request `w :: rest`.
Result: the new queue, the packets sent, the callback to invoke after the lock is released, or the
exception that escaped. -/
def handleWriteHead (v : Variant) (w : WReq) (rest : List WReq) (addr status : Nat) :
    List WReq × List Out × Except PyErr (List Out) :=
  if status = 0 then
    -- if wreq.write_done(addr):
    match writeDone v w addr with
    | (w', outs, .error e) => (w' :: rest, outs, .error e)
    | (w', outs, .ok (some true)) =>
      -- self._write_requests[id].pop(0); do_call_sucess_cb = True; start the next one
      match startNext rest with
      | (q', .error e) => (q', outs, .error e)
      | (q', .ok sent) => (q', outs ++ sent, .ok [.writeOk w'.tag w'.id w'.addr])
    | (w', outs, .ok _) => (w' :: rest, outs, .ok [])
  else
    -- self._write_requests[id].pop(0); do_call_fail_cb = True; start the next one
    match startNext rest with
    | (q', .error e) => (q', [], .error e)
    | (q', .ok sent) => (q', sent, .ok [.writeFail w.tag w.id w.addr])

/-- `Memory._handle_chan_write` after the reply has been parsed into `(id, addr, status)` -/
def onWriteReply (v : Variant) (s : St) (id addr status : Nat) : Step :=
  -- before the repair the lookup `if id in self._write_requests:` precedes the acquire
  if !v.handleLookupInside && !dhas s.writes id then ⟨s, [], .ret none⟩ else
  -- self._write_requests_lock.acquire()  /  with self._write_requests_lock:
  if s.lock then ⟨s, [], .hang⟩ else
  -- [repaired] if id in self._write_requests and ...
  if !dhas s.writes id then ⟨s, [], .ret none⟩ else
  match s.queue id with
  | [] =>
    -- [repaired] `... and len(self._write_requests[id]) > 0` : nothing to do
    if v.handleGuard then ⟨s, [], .ret none⟩
    -- wreq = self._write_requests[id][0]  ->  IndexError inside the critical section
    else ⟨{ s with lock := !v.handleWith }, [], .raised .indexError⟩
  | w :: rest =>
    match handleWriteHead v w rest addr status with
    | (q', outs, .error e) => ⟨{ s with writes := dset s.writes id q', lock := !v.handleWith }, outs, .raised e⟩
    -- release, then the callbacks
    | (q', outs, .ok cbs) => ⟨{ s with writes := dset s.writes id q', lock := false }, outs ++ cbs, .ret none⟩

/-- `Memory._handle_chan_write(cmd, payload)` -/
def handleChanWrite (v : Variant) (s : St) (cmd : Nat) (payload : List UInt8) : Step :=
  -- id = cmd; (addr, status) = struct.unpack('<IB', payload[0:5])
  match unpack fmtAck (payload.take 5) with
  | .error e => ⟨s, [], .raised e⟩
  | .ok [.int addr, .int status] => onWriteReply v s cmd addr.toNat status.toNat
  | .ok _ => ⟨s, [], .raised .structError⟩

/-- `Memory._handle_chan_read` after the reply has been parsed into `(id, addr, status, data)` -/
def onReadReply (s : St) (id addr status : Nat) (data : List UInt8) : Step :=
  -- if id in self._read_requests: rreq = self._read_requests[id]
  match dget? s.reads id with
  | none => ⟨s, [], .ret none⟩
  | some r =>
    if status = 0 then
      -- if rreq.add_data(addr, payload[5:]): pop; self.mem_read_cb.call(rreq.mem, rreq.addr, rreq.data)
      match addData r addr data with
      | (r', outs, .error e) => ⟨{ s with reads := dset s.reads id r' }, outs, .raised e⟩
      | (r', outs, .ok (some true)) =>
        ⟨{ s with reads := derase s.reads id }, outs ++ [.readOk r'.tag r'.id r'.addr r'.data], .ret none⟩
      | (r', outs, .ok _) => ⟨{ s with reads := dset s.reads id r' }, outs, .ret none⟩
    else
      -- pop; self.mem_read_failed_cb.call(rreq.mem, rreq.addr, rreq.data)
      ⟨{ s with reads := derase s.reads id }, [.readFail r.tag r.id r.addr r.data], .ret none⟩

/-- `Memory._handle_chan_read(cmd, payload)` -/
def handleChanRead (s : St) (cmd : Nat) (payload : List UInt8) : Step :=
  -- id = cmd; (addr, status) = struct.unpack('<IB', payload[0:5])
  -- data = struct.unpack('B' * len(payload[5:]), payload[5:])    (cannot fail)
  match unpack fmtReadReply (payload.take 5) with
  | .error e => ⟨s, [], .raised e⟩
  | .ok [.int addr, .int status] => onReadReply s cmd addr.toNat status.toNat (payload.drop 5)
  | .ok _ => ⟨s, [], .raised .structError⟩

/-- `Memory._new_packet_cb(packet)` for a packet on port MEM, channel `chan`, with payload `data`.
(The info channel belongs to `refresh()`, which is outside the model: the drivers never feed it.) -/
def newPacketCb (v : Variant) (s : St) (chan : Nat) (data : List UInt8) : Step :=
  -- cmd = packet.data[0]; payload = packet.data[1:]
  match data with
  | [] => ⟨s, [], .raised .indexError⟩
  | cmd :: payload =>
    if chan = Gen.C06.chanWrite then handleChanWrite v s cmd.toNat payload
    else if chan = Gen.C06.chanRead then handleChanRead s cmd.toNat payload
    else ⟨s, [], .ret none⟩

/-- `Memory._disconnected(uri)` = `_call_all_failed_callbacks(); _clear_state()` -/
def disconnected (s : St) : Step :=
  -- read_requests = list(self._read_requests.values()); self._read_requests.clear(); failed callbacks
  let o1 := s.reads.map fun e => Out.readFail e.2.tag e.2.id e.2.addr e.2.data
  -- self._write_requests_lock.acquire()
  if s.lock then ⟨{ s with reads := [] }, o1, .hang⟩ else
  -- for requests in self._write_requests.values(): write_requests += requests; clear; release; failed callbacks
  let ws := (s.writes.map (·.2)).flatten
  let o2 := ws.map fun w => Out.writeFail w.tag w.id w.addr
  ⟨St.init, o1 ++ o2, .ret none⟩

/-! ### events and runs -/

inductive Ev
  | read (tag id addr len : Nat)
  | write (tag id addr : Nat) (data : List UInt8) (flush progressCb : Bool)
  /-- a packet received on port MEM: any channel, any bytes -/
  | pkt (chan : Nat) (data : List UInt8)
  | disconnect
  deriving DecidableEq, Repr

def step (v : Variant) (s : St) : Ev → Step
  | .read tag id addr len => memRead s tag id addr len
  | .write tag id addr data flush p => memWrite v s tag id addr data flush p
  | .pkt chan data => newPacketCb v s chan data
  | .disconnect => disconnected s

/-- run a history; the outputs of all events in order -/
def run (v : Variant) : St → List Ev → St × List Out
  | s, [] => (s, [])
  | s, e :: es =>
    let r := step v s e
    let (s', outs) := run v r.st es
    (s', r.outs ++ outs)


/-! ### a client: `MemoryTester` (cflib/crazyflie/mem/memory_tester.py)

`read_data` / `write_data` go through `Memory.read` / `Memory.write(..., flush_queue=True)`; `new_data` / `write_done`
are registered on `mem_read_cb` / `mem_write_cb` and react to the notifications. -/

structure Tester where
  id : Nat
  updateCb : Option Nat     -- self._update_finished_cb (identified by a number)
  writeCb : Option Nat      -- self._write_finished_cb
  valid : Bool              -- self.readValidationSucess
  deriving DecidableEq, Repr

def Tester.new (id : Nat) : Tester := { id := id, updateCb := none, writeCb := none, valid := true }

/-- what the tester's callbacks did -/
inductive TOut
  | updateFinished (cb : Nat)          -- update_finished_cb(self)
  | writeFinished (cb addr : Nat)      -- write_finished_cb(self, addr)
  deriving DecidableEq, Repr

/-- the byte `MemoryTester` expects / writes at `address`: `(start_address + i) & 0xff` -/
def testerByte (address : Nat) : UInt8 := UInt8.ofNat (address % 256)

/-- `MemoryTester.read_data(start_address, size, update_finished_cb)` -/
def testerRead (s : St) (t : Tester) (tag start size cb : Nat) : Tester × Step :=
  -- if not self._update_finished_cb: self._update_finished_cb = cb; self.mem_handler.read(self, start, size)
  match t.updateCb with
  | some _ => (t, ⟨s, [], .ret none⟩)
  | none => ({ t with updateCb := some cb }, { memRead s tag t.id start size with res := .ret none })

/-- `MemoryTester.write_data(start_address, size, write_finished_cb)` -/
def testerWrite (v : Variant) (s : St) (t : Tester) (tag start size cb : Nat) : Tester × Step :=
  -- self._write_finished_cb = cb; data = bytes((start + i) & 0xff); self.mem_handler.write(self, start, data, flush_queue=True)
  let data := (List.range size).map fun i => testerByte (start + i)
  ({ t with writeCb := some cb }, { memWrite v s tag t.id start data true false with res :=
      match (memWrite v s tag t.id start data true false).res with
      | .ret _ => .ret none
      | r => r })

/-- the loop of `MemoryTester.new_data(mem, start_address, data)` for `mem.id == self.id`: every byte is compared
with the expected pattern; the finished callback is invoked (and cleared) INSIDE the loop, i.e. on the first byte -
never for empty data -/
def testerNewDataLoop (start : Nat) : List UInt8 → Nat → Tester → Tester × List TOut
  | [], _, t => (t, [])
  | b :: bs, i, t =>
    let t1 := if b ≠ testerByte (start + i) then { t with valid := false } else t
    match t1.updateCb with
    | some cb =>
      let r := testerNewDataLoop start bs (i + 1) { t1 with updateCb := none }
      (r.1, .updateFinished cb :: r.2)
    | none => testerNewDataLoop start bs (i + 1) t1

def testerNewData (t : Tester) (memId start : Nat) (data : List UInt8) : Tester × List TOut :=
  if memId = t.id then testerNewDataLoop start data 0 t else (t, [])

/-- `MemoryTester.write_done(mem, addr)` -/
def testerWriteDone (t : Tester) (memId addr : Nat) : Tester × List TOut :=
  match t.writeCb with
  | some cb => if memId = t.id then ({ t with writeCb := none }, [.writeFinished cb addr]) else (t, [])
  | none => (t, [])

/-- the tester's reaction to the notifications of one event, in order -/
def testerReact (t : Tester) : List Out → Tester × List TOut
  | [] => (t, [])
  | .readOk _ i a d :: os =>
    let r := testerNewData t i a d
    let r2 := testerReact r.1 os
    (r2.1, r.2 ++ r2.2)
  | .writeOk _ i a :: os =>
    let r := testerWriteDone t i a
    let r2 := testerReact r.1 os
    (r2.1, r.2 ++ r2.2)
  | _ :: os => testerReact t os


/-! ### a client with its own pending-request records: `DeckMemoryManager` (cflib/crazyflie/mem/deck_memory.py)

`query_decks`, `_read` and `_write` (reached through `DeckMemory.read / write / _write_command_data`) each keep ONE
pending-request record - the pair `(complete_cb, failed_cb)` - and refuse a new request of the same kind with an
exception while it is set.  `_new_data`, `_new_data_failed`, `_write_done`, `_write_failed` are subscribers of
`Memory`'s four callback lists (wired in `_handle_cmd_info_details`); they clear the record and call the callback.
A request is identified by a number `rid` (ghost; in the harness the callbacks are closures over it);
`hasFail`: an (optional) failure callback was supplied.  An exception raised by a subscriber propagates through
`Caller.call` into the `Memory` handler that was delivering the notifications: the remaining subscribers and the
remaining notifications of that handler are lost (`clientStep`). -/

structure DeckVariant where
  /-- `_new_data_failed` reports a failed info-section read to `_query_failed_cb` -/
  queryFailNotifies : Bool
  /-- `_write_failed` only calls `_write_failed_cb` when one was supplied -/
  writeFailGuard : Bool
  /-- `query_decks` / `_read` look at the result of `mem_handler.read` (False = refused) and undo the record -/
  readAcceptedCheck : Bool
  /-- `_new_data_failed` clears the read record also when no failure callback was supplied -/
  readFailClearsAlways : Bool
  deriving DecidableEq, Repr

def DeckVariant.fixed : DeckVariant := ⟨true, true, true, true⟩
/-- what the current source does (Tie A) -/
def DeckVariant.code : DeckVariant :=
  ⟨Gen.C06.deckQueryFailNotifies, Gen.C06.deckWriteFailGuard, Gen.C06.deckReadAcceptedCheck,
   Gen.C06.deckReadFailClearsAlways⟩

structure Slot where
  rid : Nat
  hasFail : Bool
  deriving DecidableEq, Repr

structure Deck where
  id : Nat
  query : Option Slot        -- _query_complete_cb / _query_failed_cb
  read : Option Slot         -- _read_complete_cb / _read_failed_cb
  write : Option Slot        -- _write_complete_cb / _write_failed_cb
  readBase : Nat             -- _read_base_address
  deriving DecidableEq, Repr

def Deck.new (id : Nat) : Deck := { id := id, query := none, read := none, write := none, readBase := 0 }

/-- what the manager's callbacks did.  `silent k rid`: a failure of request `rid` for which no failure callback had been
supplied: nothing is called (ghost) -/
inductive DOut
  | queryDone (rid : Nat)
  | queryFailed (rid : Nat)
  | readDone (rid : Nat) (addr : Int) (data : List UInt8)
  | readFailed (rid : Nat) (addr : Int)
  | writeDone (rid : Nat) (addr : Int)
  | writeFailed (rid : Nat) (addr : Int)
  | silent (kind rid : Nat)      -- kind: 0 query, 1 read, 2 write
  deriving DecidableEq, Repr

/-- `DeckMemoryManager.query_decks(query_complete_cb, query_failed_cb)` -/
def deckQuery (dv : DeckVariant) (s : St) (d : Deck) (tag rid : Nat) (hasFail : Bool) : Deck × Step :=
  -- if self._query_complete_cb is not None: raise Exception('Query ongoing')
  match d.query with
  | some _ => (d, ⟨s, [], .raised .other⟩)
  | none =>
    -- self.mem_handler.read(self, self.INFO_SECTION_ADDRESS, self.SIZE_OF_INFO_SECTION)
    let r := memRead s tag d.id Gen.C06.deckInfoAddr Gen.C06.deckInfoSize
    if dv.readAcceptedCheck && r.res == .ret (some false) then (d, { r with res := .raised .other })
    else ({ d with query := some ⟨rid, hasFail⟩ }, { r with res := match r.res with | .ret _ => .ret none | x => x })

/-- `DeckMemoryManager._read(base_address, address, length, read_complete_cb, read_failed_cb)` -/
def deckRead (dv : DeckVariant) (s : St) (d : Deck) (tag base address len rid : Nat) (hasFail : Bool) : Deck × Step :=
  -- if self._read_complete_cb is not None: raise Exception('Read operation ongoing')
  match d.read with
  | some _ => (d, ⟨s, [], .raised .other⟩)
  | none =>
    -- self._read_base_address = base_address; ...; self.mem_handler.read(self, address + base_address, length)
    let r := memRead s tag d.id (address + base) len
    if dv.readAcceptedCheck && r.res == .ret (some false) then
      ({ d with readBase := base }, { r with res := .raised .other })
    else ({ d with read := some ⟨rid, hasFail⟩, readBase := base },
          { r with res := match r.res with | .ret _ => .ret none | x => x })

/-- `DeckMemoryManager._write(base_address, address, data, complete_cb, failed_cb, progress_cb)` -/
def deckWrite (v : Variant) (s : St) (d : Deck) (tag base address : Nat) (data : List UInt8) (rid : Nat)
    (hasFail progressCb : Bool) : Deck × Step :=
  -- if self._write_complete_cb is not None: raise Exception('Write operation ongoing')
  match d.write with
  | some _ => (d, ⟨s, [], .raised .other⟩)
  | none =>
    -- self.mem_handler.write(self, address + base_address, data, flush_queue=True, progress_cb=progress_cb)
    let r := memWrite v s tag d.id (address + base) data true progressCb
    ({ d with write := some ⟨rid, hasFail⟩ }, { r with res := match r.res with | .ret _ => .ret none | x => x })

/-- `_parse_info_section(data)`: `none` = parsed; `some e` = the exception it raises (`.other` stands for the
RuntimeError of an unsupported version, which `_new_data` catches; a `struct.error` of a too short section is not) -/
def deckParseInfo (data : List UInt8) : Option PyErr :=
  match data with
  | [] => some .structError                              -- struct.unpack('<B', data[0:1])
  | ver :: _ =>
    if ver.toNat ≠ Gen.C06.deckSupportedVersion then some .other
    else if data.length < Gen.C06.deckMinInfoLen then some .structError   -- unpack('<BB', ...) of the last record
    else none

/-- `DeckMemoryManager._new_data(mem, addr, data)` for `mem.id == self.id` -/
def deckNewData (d : Deck) (addr : Nat) (data : List UInt8) : Deck × List DOut × Option PyErr :=
  if addr = Gen.C06.deckInfoAddr then
    match deckParseInfo data with
    | none =>
      -- tmp_cb = self._query_complete_cb; self._clear_query_cb(); tmp_cb(self.deck_memories)
      match d.query with
      | some q => ({ d with query := none }, [.queryDone q.rid], none)
      | none => (d, [], some .typeError)
    | some .other =>
      -- except RuntimeError: tmp_cb = self._query_failed_cb; self._clear_query_cb(); if tmp_cb: tmp_cb(str(e))
      match d.query with
      | some q => ({ d with query := none }, [if q.hasFail then .queryFailed q.rid else .silent 0 q.rid], none)
      | none => (d, [], none)
    | some e => (d, [], some e)
  else
    -- tmp_cb = self._read_complete_cb; self._clear_read_cb(); tmp_cb(addr - self._read_base_address, data)
    match d.read with
    | some q => ({ d with read := none }, [.readDone q.rid ((addr : Int) - d.readBase) data], none)
    | none => (d, [], some .typeError)

/-- `DeckMemoryManager._new_data_failed(mem, addr, data)` for `mem.id == self.id` -/
def deckNewDataFailed (dv : DeckVariant) (d : Deck) (addr : Nat) : Deck × List DOut × Option PyErr :=
  if addr = Gen.C06.deckInfoAddr then
    -- self._clear_query_cb(); logger.error(...)      [repaired: the failure callback is told]
    match d.query with
    | some q =>
      ({ d with query := none },
        if q.hasFail then (if dv.queryFailNotifies then [.queryFailed q.rid] else []) else [.silent 0 q.rid], none)
    | none => (d, [], none)
  else
    -- tmp_cb = self._read_failed_cb; self._clear_read_cb(); if tmp_cb is not None: tmp_cb(addr - base)
    match d.read with
    | some q =>
      if q.hasFail then ({ d with read := none }, [.readFailed q.rid ((addr : Int) - d.readBase)], none)
      else if dv.readFailClearsAlways then ({ d with read := none }, [.silent 1 q.rid], none)
      else (d, [], none)
    | none => (d, [], none)

/-- `DeckMemoryManager._write_done(mem, addr)` for `mem.id == self.id` -/
def deckWriteDone (d : Deck) (addr : Nat) : Deck × List DOut × Option PyErr :=
  -- tmp_cb = self._write_complete_cb; self._clear_write_cb(); tmp_cb(addr - self._read_base_address)
  match d.write with
  | some q => ({ d with write := none }, [.writeDone q.rid ((addr : Int) - d.readBase)], none)
  | none => (d, [], some .typeError)

/-- `DeckMemoryManager._write_failed(mem, addr)` for `mem.id == self.id` -/
def deckWriteFailed (dv : DeckVariant) (d : Deck) (addr : Nat) : Deck × List DOut × Option PyErr :=
  -- tmp_cb = self._write_failed_cb; self._clear_write_cb(); tmp_cb(addr - self._read_base_address)
  match d.write with
  | some q =>
    if q.hasFail then ({ d with write := none }, [.writeFailed q.rid ((addr : Int) - d.readBase)], none)
    else if dv.writeFailGuard then ({ d with write := none }, [.silent 2 q.rid], none)
    else ({ d with write := none }, [], some .typeError)
  | none => if dv.writeFailGuard then (d, [], none) else (d, [], some .typeError)

/-- the manager's subscriber for one output of `Memory` (only notifications with `mem.id == self.id` matter) -/
def deckOnOut (dv : DeckVariant) (d : Deck) : Out → Deck × List DOut × Option PyErr
  | .readOk _ i a data => if i = d.id then deckNewData d a data else (d, [], none)
  | .readFail _ i a _ => if i = d.id then deckNewDataFailed dv d a else (d, [], none)
  | .writeOk _ i a => if i = d.id then deckWriteDone d a else (d, [], none)
  | .writeFail _ i a => if i = d.id then deckWriteFailed dv d a else (d, [], none)
  | _ => (d, [], none)

/-- the manager's subscribers react to the notifications of one `Memory` event, in order; the first exception
ends the delivery: `(deck, what its callbacks did, notifications actually delivered, exception)` -/
def deckReact (dv : DeckVariant) (d : Deck) : List Out → Deck × List DOut × List Out × Option PyErr
  | [] => (d, [], [], none)
  | o :: os =>
    match deckOnOut dv d o with
    | (d1, o1, some e) => (d1, o1, [o], some e)
    | (d1, o1, none) =>
      let r2 := deckReact dv d1 os
      (r2.1, o1 ++ r2.2.1, o :: r2.2.2.1, r2.2.2.2)

/-- one `Memory` event with the manager subscribed: state, what was observably delivered, what the manager's
callbacks did; an exception of a subscriber becomes the exception of the event -/
def clientStep (dv : DeckVariant) (v : Variant) (s : St) (d : Deck) (e : Ev) : Deck × Step × List DOut :=
  let r := step v s e
  let x := deckReact dv d r.outs
  (x.1, { r with outs := x.2.2.1, res := match x.2.2.2 with | some err => .raised err | none => r.res }, x.2.1)


/-! ### the retransmission layer under `Memory` (cflib/crazyflie/__init__.py: `Crazyflie.send_packet`,
`_check_for_answers`, `_no_answer_do_retry`, `_cancel_answer_timers`)

Every chunk request is handed to `cf.send_packet(pk, expected_reply=reply, timeout=1)` where `reply` is the tuple of
the first five bytes `id, addr32` of THAT packet (`struct.unpack('<BBBBB', pk.data[:-1])` for a read request,
`struct.unpack('<BBBBB', pk.data)` before the data is appended for a write: Gen `readExpArgs` / `writeExpArgs`).
On a link with `needs_resending` the Crazyflie object records `pattern = (pk.header,) + expected_reply -> retry timer`;
every received packet whose `(header,) + data` starts with a recorded pattern cancels that entry BEFORE the port
callbacks run; a timer that fires while its entry is still recorded transmits the same packet again (and re-arms);
closing / losing the link forgets all entries.  An entry here is `(channel, packet)`; its pattern is
`(channel, first five bytes)`. -/

abbrev Retry := List (Nat × List UInt8)

def retryPattern (e : Nat × List UInt8) : Nat × List UInt8 := (e.1, e.2.take 5)

/-- `_check_for_answers(pk)`: the recorded pattern that is a prefix of the received packet is cancelled -/
def retryCancel (rs : Retry) (chan : Nat) (data : List UInt8) : Retry :=
  if data.length < 5 then rs else rs.filter fun e => retryPattern e != (chan, data.take 5)

/-- `send_packet(pk, expected_reply=...)` on a link that needs resending: `self._answer_patterns[pattern] = new_timer`
(an entry with the same pattern is replaced) -/
def retryRegister (rs : Retry) : List Out → Retry
  | [] => rs
  | .send c d :: os => retryRegister ((rs.filter fun e => retryPattern e != (c, d.take 5)) ++ [(c, d)]) os
  | _ :: os => retryRegister rs os

structure RSt where
  s : St
  retry : Retry

/-- one event of the library on a link with (`resend = true`) or without retransmission -/
def rstep (resend : Bool) (x : RSt) (e : Ev) : RSt × Step :=
  let retry1 : Retry := match e with
    | .pkt c d => retryCancel x.retry c d
    | .disconnect => []
    | _ => x.retry
  let r := step Variant.fixed x.s e
  (⟨r.st, if resend then retryRegister retry1 r.outs else retry1⟩, r)


/-! ### `Memory.write` / `Memory.read` statement by statement, interleaved with the incoming-packet thread

The events above treat a call of `Memory.write` / `Memory.read` as one step.  Here a call is the sequence of its
statements, executed by the calling thread, while the incoming-packet thread handles replies in between (a synchronous
link, whose reply is dispatched before `send_packet` has returned, is the extreme case).  `write()`:

  `enqueue`  `with self._write_requests_lock:` + create/flush/append + the decision `len(queue) == 1`
  `prepare`  `_write_new_chunk`: `data = self._data[:new_len]; self._data = self._data[new_len:]`, the packet is built
  `send`     `self.cf.send_packet(pk, ...)`
  `book`     `self._addr_add = len(data); self._bytes_left -= self._addr_add`   (AFTER `send_packet` has returned)
  `release`  the `with` block ends, `return True`

`ConcVariant.startInsideLock` (Tie A): `wreq.start()` is called inside the `with` block (the code), or after it.
`_handle_chan_write` takes the same lock before it looks at the queue, so the incoming thread BLOCKS on a write
reply while the lock is held by the caller (`cexec` returns `none`: that delivery cannot happen now); read replies
and packets of other channels take no lock and are handled at once; the disconnect handler blocks on the lock too
(it is modelled as ONE step that waits for the lock; its first half, which fails the read requests, does not wait in
the code - a link loss in the middle of a call is outside this model).
(The reply is handled by another thread: cflib dispatches incoming packets only from `_IncomingPacketHandler`.)

`read()` (no lock): `check` (`if memory.id in self._read_requests: return False`), `register`
(`self._read_requests[memory.id] = rreq`), `send` (`rreq.start()`: pack, `send_packet`; `_request_new_chunk` assigns
no field - Tie A `readChunkOrder`).  Between `register` and `send` a read reply for this memory cannot be in flight
(the device has not received the request, replies of earlier requests are gone: A1) - `cexec` returns `none` for it.

One application thread calls at a time (`begin` needs `call = none`); every handler is one step (one incoming
thread). -/

structure ConcVariant where
  startInsideLock : Bool
  deriving DecidableEq, Repr

def ConcVariant.code : ConcVariant := ⟨Gen.C06.writeStartInsideLock⟩

/-- a call of `Memory.write` in progress on the calling thread -/
structure WCall where
  tag : Nat
  id : Nat
  addr : Nat
  data : List UInt8
  flush : Bool
  progressCb : Bool
  /-- 0 created, 1 enqueued (first chunk to be started), 2 chunk prepared, 3 packet sent, 4 bookkeeping done / nothing
  to start -/
  pc : Nat
  /-- the chunk cut off by `prepare` (local variable `data` of `_write_new_chunk`) -/
  chunk : List UInt8
  deriving DecidableEq, Repr

/-- a call of `Memory.read` in progress on the calling thread: 0 created, 1 checked (`memory.id` has no request),
2 request registered (`self._read_requests[memory.id] = rreq`); the last statement, `rreq.start()`, sends the request
packet - `_request_new_chunk` assigns no field (Tie A: `readChunkOrder`), all bookkeeping precedes `send_packet` -/
structure RCall where
  tag : Nat
  id : Nat
  addr : Nat
  len : Nat
  pc : Nat
  deriving DecidableEq, Repr

inductive Call
  | w (k : WCall)
  | r (k : RCall)
  deriving DecidableEq, Repr

structure CState where
  s : St
  call : Option Call
  deriving DecidableEq, Repr

/-- a `read()` call is between registering its request and sending the packet (`id`: for memory `id` only) -/
def CState.inWindow (c : CState) (id : Option Nat) : Bool :=
  match c.call with
  | some (.r k) => k.pc == 2 && (id.isNone || id == some k.id)
  | _ => false

/-- apply `f` to the request with tag `t` in the queue of memory `id` (the Python object the caller holds) -/
def updateReq (ws : List (Nat × List WReq)) (id t : Nat) (f : WReq → WReq) : List (Nat × List WReq) :=
  match dget? ws id with
  | some q => dset ws id (q.map fun w => if w.tag = t then f w else w)
  | none => ws

inductive CAct
  /-- the application calls `Memory.write(...)` -/
  | begin (tag id addr : Nat) (data : List UInt8) (flush progressCb : Bool)
  /-- the application calls `Memory.read(...)` -/
  | beginRead (tag id addr len : Nat)
  /-- the calling thread executes its next statement -/
  | stepCall
  /-- the incoming-packet thread handles a received packet / the link drops -/
  | env (e : Ev)
  deriving DecidableEq, Repr

/-- one step of the interleaved execution: new state, outputs, and the atomic event this step is the linearisation
point of (`none` result: the action is not possible now - a thread is blocked on the lock, or nothing to step) -/
def cexec (cv : ConcVariant) (c : CState) : CAct → Option (CState × List Out × List Ev)
  | .begin tag id addr data flush p =>
    match c.call with
    | some _ => none                  -- one application thread
    | none => some (⟨c.s, some (.w ⟨tag, id, addr, data, flush, p, 0, []⟩)⟩, [], [])
  | .beginRead tag id addr len =>
    match c.call with
    | some _ => none
    | none => some (⟨c.s, some (.r ⟨tag, id, addr, len, 0⟩)⟩, [], [])
  | .env e =>
    -- between registering a read request and sending its packet: no reply for that memory can be in flight (the
    -- device has not received the request; replies of earlier requests are gone, A1), and a link loss in this
    -- window is outside the model
    match e with
    | .pkt chan data =>
      -- `_handle_chan_write` starts with `with self._write_requests_lock:`: the incoming thread blocks while the
      -- caller holds the lock
      if chan = Gen.C06.chanWrite ∧ c.s.lock = true ∧ 6 ≤ data.length then none
      else if chan = Gen.C06.chanRead ∧ c.inWindow (some (data.headD 0).toNat) = true then none
      else
        -- (a write reply too short to be unpacked raises before the lock is touched; `step` leaves the state alone)
        let r := step Variant.fixed c.s e
        some (⟨r.st, c.call⟩, r.outs, [e])
    | .disconnect =>
      if c.s.lock = true ∨ c.inWindow none = true then none
      else let r := step Variant.fixed c.s e; some (⟨r.st, c.call⟩, r.outs, [e])
    | _ => none
  | .stepCall =>
    match c.call with
    | none => none
    | some (.r k) =>
      let ev := Ev.read k.tag k.id k.addr k.len
      if k.pc = 0 then
        -- if memory.id in self._read_requests: return False
        if dhas c.s.reads k.id then some (⟨c.s, none⟩, [], [ev])
        else some (⟨c.s, some (.r { k with pc := 1 })⟩, [], [])
      else if k.pc = 1 then
        -- rreq = _ReadRequest(memory, addr, length, self.cf); self._read_requests[memory.id] = rreq
        some (⟨{ c.s with reads := dset c.s.reads k.id (RReq.new k.tag k.id k.addr k.len) }, some (.r { k with pc := 2 })⟩,
              [], [])
      else if k.pc = 2 then
        -- rreq.start(): pack, send_packet; return True
        match requestNewChunk (RReq.new k.tag k.id k.addr k.len) with
        | .error _ => some (⟨c.s, none⟩, [], [ev])
        | .ok o => some (⟨c.s, none⟩, [o], [ev])
      else none
    | some (.w k) =>
      let ev := Ev.write k.tag k.id k.addr k.data k.flush k.progressCb
      if k.pc = 0 then
        -- with self._write_requests_lock: ...
        if c.s.lock = true then none else
        let ws := ensureQueue c.s.writes k.id
        let q0 := (dget? ws k.id).getD []
        let q := if k.flush then q0.take 1 else q0
        let w := WReq.new k.tag k.id k.addr k.data k.progressCb
        let s1 : St := { c.s with writes := dset ws k.id (q ++ [w]), lock := cv.startInsideLock }
        if q.isEmpty then some (⟨s1, some (.w { k with pc := 1 })⟩, [], [])
        else some (⟨s1, some (.w { k with pc := 4 })⟩, [], [ev])          -- queued behind another request: nothing to start
      else if k.pc = 1 then
        -- data = self._data[:new_len]; self._data = self._data[new_len:]
        let n := if k.data.length > Gen.C06.writeMax then Gen.C06.writeMax else k.data.length
        some (⟨{ c.s with writes := updateReq c.s.writes k.id k.tag fun w => { w with rest := w.rest.drop n } },
                some (.w { k with pc := 2, chunk := k.data.take n })⟩, [], [])
      else if k.pc = 2 then
        -- self.cf.send_packet(pk, expected_reply=reply, timeout=1)
        some (⟨c.s, some (.w { k with pc := 3 })⟩, [.send Gen.C06.chanWrite ((leBytes 1 k.id ++ leBytes 4 k.addr) ++ k.chunk)], [ev])
      else if k.pc = 3 then
        -- self._addr_add = len(data); self._bytes_left -= self._addr_add
        some (⟨{ c.s with writes := updateReq c.s.writes k.id k.tag fun w =>
                  { w with addrAdd := k.chunk.length, left := w.left - k.chunk.length } },
                some (.w { k with pc := 4 })⟩, [], [])
      else
        -- the `with` block ends (if it is still open); return True
        some (⟨{ c.s with lock := if cv.startInsideLock then false else c.s.lock }, none⟩, [], [])

/-- run a schedule; `none` if it picks an impossible action -/
def cexecAll (cv : ConcVariant) : CState → List CAct → Option (CState × List Out × List Ev)
  | c, [] => some (c, [], [])
  | c, a :: as =>
    match cexec cv c a with
    | none => none
    | some (c1, o1, l1) =>
      match cexecAll cv c1 as with
      | none => none
      | some (c2, o2, l2) => some (c2, o1 ++ o2, l1 ++ l2)

/-! ### who is told: the notification `Caller`s (cflib/utils/callbacks.py) and their subscribers

`Memory` announces the end of a request through four `Caller` objects (`mem_read_cb`, `mem_read_failed_cb`,
`mem_write_cb`, `mem_write_failed_cb`); the `Out` notifications above are the CALLS of `Caller.call`.  Here: what the
subscribers see.  A subscriber is a number; when told it may subscribe / unsubscribe anybody (itself included) on any
of the four Callers (`SubAct`; what it does may depend on everything it and the others were told so far: `SBeh`).
`add_callback` / `remove_callback` are C07's `callerAdd` / `callerRemove` (an unsubscribe of somebody who is not
subscribed is written as a guarded removal, so subscribers never raise - assumption of the whole package).
`Caller.call`: over a copy of the list (`CallerVariant.copies`, Tie A `callerCallCopies`) or over the live list (the
list iterator is an index that re-reads the list after every callback).  `_clear_state()` on a link loss creates new
`Caller` objects: nobody is subscribed afterwards (Tie A `clearStateCallers`). -/

inductive NKind
  | rOk | rFail | wOk | wFail
  deriving DecidableEq, Repr

def Out.kind? : Out → Option NKind
  | .readOk .. => some .rOk
  | .readFail .. => some .rFail
  | .writeOk .. => some .wOk
  | .writeFail .. => some .wFail
  | _ => none

/-- `callbacks` of the four Callers, in registration order -/
structure Subs where
  rOk : List Nat
  rFail : List Nat
  wOk : List Nat
  wFail : List Nat
  deriving DecidableEq, Repr

def Subs.none : Subs := ⟨[], [], [], []⟩

def Subs.get (s : Subs) : NKind → List Nat
  | .rOk => s.rOk
  | .rFail => s.rFail
  | .wOk => s.wOk
  | .wFail => s.wFail

def Subs.set (s : Subs) (k : NKind) (l : List Nat) : Subs :=
  match k with
  | .rOk => { s with rOk := l }
  | .rFail => { s with rFail := l }
  | .wOk => { s with wOk := l }
  | .wFail => { s with wFail := l }

inductive SubAct
  /-- `caller.add_callback(cb)` -/
  | add (k : NKind) (c : Nat)
  /-- `if cb in caller.callbacks: caller.remove_callback(cb)` -/
  | remove (k : NKind) (c : Nat)
  deriving DecidableEq, Repr

def runSubAct (s : Subs) : SubAct → Subs
  | .add k c => s.set k (C07.callerAdd (s.get k) c)
  | .remove k c => s.set k ((C07.callerRemove (s.get k) c).getD (s.get k))

def runSubActs (s : Subs) (as : List SubAct) : Subs := as.foldl runSubAct s

/-- who was told what, chronologically -/
abbrev Told := List (Nat × Out)

/-- behaviour of all subscribers: what subscriber `c` does when told `o`; the first argument is everything told so far,
this invocation included (last) -/
abbrev SBeh := Told → Nat → Out → List SubAct

structure Fan where
  subs : Subs
  told : Told
  /-- ghost: for every notification, the subscribers registered when `Caller.call` was entered -/
  due : Told
  deriving DecidableEq, Repr

def Fan.init : Fan := ⟨Subs.none, [], []⟩

structure CallerVariant where
  copies : Bool
  /-- bound of the live walk (subscribers that keep subscribing new ones would be walked for ever) -/
  liveFuel : Nat := 10000
  deriving DecidableEq, Repr

def CallerVariant.code : CallerVariant := { copies := Gen.C06.callerCallCopies }
def CallerVariant.fixed : CallerVariant := { copies := true }

/-- `for cb in copy_of_callbacks: cb(*args)` -/
def fanSnap (beh : SBeh) (o : Out) : List Nat → Fan → Fan
  | [], f => f
  | c :: cs, f =>
    let told := f.told ++ [(c, o)]
    fanSnap beh o cs { f with subs := runSubActs f.subs (beh told c o), told := told }

/-- `for cb in self.callbacks: cb(*args)` -/
def fanLive (beh : SBeh) (o : Out) (k : NKind) : Nat → Nat → Fan → Fan
  | 0, _, f => f
  | fuel + 1, i, f =>
    match (f.subs.get k)[i]? with
    | none => f
    | some c =>
      let told := f.told ++ [(c, o)]
      fanLive beh o k fuel (i + 1) { f with subs := runSubActs f.subs (beh told c o), told := told }

/-- `Caller.call` for one notification -/
def callerCall (cv : CallerVariant) (beh : SBeh) (o : Out) (f : Fan) : Fan :=
  match o.kind? with
  | none => f
  | some k =>
    let f1 := { f with due := f.due ++ (f.subs.get k).map fun c => (c, o) }
    if cv.copies then fanSnap beh o (f1.subs.get k) f1 else fanLive beh o k cv.liveFuel 0 f1

/-- the notifications of one event, in order -/
def notifyAll (cv : CallerVariant) (beh : SBeh) (outs : List Out) (f : Fan) : Fan :=
  outs.foldl (fun f o => callerCall cv beh o f) f

inductive FEv
  | mem (e : Ev)
  /-- the application subscribes / unsubscribes between two events -/
  | sub (a : SubAct)
  deriving DecidableEq, Repr

structure FSt where
  s : St
  f : Fan
  deriving DecidableEq, Repr

def FSt.init : FSt := ⟨St.init, Fan.init⟩

def fstep (cv : CallerVariant) (beh : SBeh) (x : FSt) : FEv → FSt × Step
  | .sub a => (⟨x.s, { x.f with subs := runSubAct x.f.subs a }⟩, ⟨x.s, [], .ret none⟩)
  | .mem e =>
    let r := step Variant.fixed x.s e
    let f1 := notifyAll cv beh r.outs x.f
    -- `_disconnected` = `_call_all_failed_callbacks(); _clear_state()`: new Caller objects
    let f2 := match e with
      | .disconnect => { f1 with subs := Subs.none }
      | _ => f1
    (⟨r.st, f2⟩, r)

def frun (cv : CallerVariant) (beh : SBeh) : FSt → List FEv → FSt × List Out
  | x, [] => (x, [])
  | x, e :: es =>
    let r := fstep cv beh x e
    let rest := frun cv beh r.1 es
    (rest.1, r.2.outs ++ rest.2)

/-! ### who owns the data of a write (input aliasing)

`_WriteRequest.__init__` keeps the object the caller passed (`self._data = data`: `AliasVariant.ctorCopies = false`,
Tie A `writeCtorCopiesData`) or a copy.  `_write_new_chunk` replaces `self._data` by a fresh slice
(`self._data = self._data[new_len:]`) the first time it runs, so a request that has been STARTED (the head of its queue)
owns its remaining data; a request waiting in the queue still refers to the caller's buffer.  `refill tag data`: the
application overwrites, in place and with the same length, the buffer it passed to `write(tag ..)`. -/

structure AliasVariant where
  ctorCopies : Bool
  deriving DecidableEq, Repr

def AliasVariant.code : AliasVariant := ⟨Gen.C06.writeCtorCopiesData⟩

/-- the waiting (not started) requests of a queue that were given buffer `tag` now see `data` -/
def refillQueue (tag : Nat) (data : List UInt8) : List WReq → List WReq
  | [] => []
  | h :: waiting => h :: waiting.map fun w => if w.tag = tag ∧ w.rest.length = data.length then { w with rest := data } else w

def refillSt (av : AliasVariant) (s : St) (tag : Nat) (data : List UInt8) : St :=
  if av.ctorCopies then s else { s with writes := s.writes.map fun e => (e.1, refillQueue tag data e.2) }

inductive AEv
  | mem (e : Ev)
  | refill (tag : Nat) (data : List UInt8)
  deriving DecidableEq, Repr

def arun (av : AliasVariant) : St → List AEv → St × List Out
  | s, [] => (s, [])
  | s, .refill t d :: es => arun av (refillSt av s t d) es
  | s, .mem e :: es =>
    let r := step Variant.fixed s e
    let rest := arun av r.st es
    (rest.1, r.outs ++ rest.2)

end CfVerif.C06

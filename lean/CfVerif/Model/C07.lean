/-
Model/C07: executable model of cflib's incoming-packet dispatcher
(`cflib/crazyflie/__init__.py: _IncomingPacketHandler`, `cflib/utils/callbacks.py: Caller`,
`cflib/crtp/crtpstack.py: CRTPPacket` header -> port/channel).

* the registry `self.cb` is a `List Reg`; a `_CallbackContainer` is a namedtuple, so `list.remove` and
  `==` compare the five fields - exactly `DecidableEq Reg`;
* a callback is a *script*: when invoked it performs a list of actions (register / unregister port
  callbacks or all-packet callbacks, raise).  What a callback does may depend on everything that
  happened before (`Beh := List Ev → List Act`, the argument is the trace up to and including the
  invocation event), so stateful callbacks are covered;
* both iteration disciplines are modelled: over a snapshot (`list(self.cb)`, the repaired code) and
  over the live list (an index walk that re-reads the list after every callback; the code before the
  fix D7).  `Variant.code` selects per loop what the current source does (Gen flags, Tie A).
The match condition and the header expressions are the translated source expressions of Gen/C07.
No Mathlib.
-/
import CfVerif.Gen.C07
namespace CfVerif.C07

/-- one `_CallbackContainer(port, port_mask, channel, channel_mask, callback)`; callbacks are identified
by a number (Python compares them with `==`) -/
structure Reg where
  port : Nat
  portMask : Nat
  chan : Nat
  chanMask : Nat
  cb : Nat
  deriving DecidableEq, Repr

/-- `pk.port` of `CRTPPacket(header)` -/
def pkPort (hdr : Nat) : Nat := Gen.C07.crtpPortExpr hdr
/-- `pk.channel` of `CRTPPacket(header)` -/
def pkChan (hdr : Nat) : Nat := Gen.C07.crtpChanExpr hdr

/-- the `if` of the generator in `run`:
`cb.port == (pk.port & cb.port_mask) and cb.channel == (pk.channel & cb.channel_mask)` -/
def Reg.matches (r : Reg) (hdr : Nat) : Bool :=
  Gen.C07.matchExpr r.port r.portMask r.chan r.chanMask (pkPort hdr) (pkChan hdr)

/-- the five `==` of `remove_header_callback` -/
def Reg.same (x r : Reg) : Bool :=
  x.port == r.port && x.portMask == r.portMask && x.chan == r.chan && x.chanMask == r.chanMask && x.cb == r.cb

/-- the registration made by `add_header_callback(cb, port, channel[, port_mask[, channel_mask]])` -/
def headerReg (cb port chan : Nat) (portMask : Nat := Gen.C07.defaultPortMask)
    (chanMask : Nat := Gen.C07.defaultChanMask) : Reg :=
  { port := port, portMask := portMask, chan := chan, chanMask := chanMask, cb := cb }

/-- the pattern looked for by `remove_header_callback(cb, port, channel[, port_mask[, channel_mask]])` -/
def headerRegRemove (cb port chan : Nat) (portMask : Nat := Gen.C07.removeDefaultPortMask)
    (chanMask : Nat := Gen.C07.removeDefaultChanMask) : Reg :=
  { port := port, portMask := portMask, chan := chan, chanMask := chanMask, cb := cb }

/-- `add_port_callback(port, cb)` = `add_header_callback(cb, port, 0, 0xff, 0x0)` -/
def portReg (port cb : Nat) : Reg :=
  headerReg cb port Gen.C07.addPortChannel Gen.C07.addPortPortMask Gen.C07.addPortChanMask

/-- `remove_port_callback(port, cb)` = `remove_header_callback(cb, port, 0, 0xff, 0x0)` -/
def portRegRemove (port cb : Nat) : Reg :=
  headerRegRemove cb port Gen.C07.removePortChannel Gen.C07.removePortPortMask Gen.C07.removePortChanMask

/-! ### registry operations -/

/-- `add_header_callback`: `self.cb.append(...)` -/
def addHeaderCallback (l : List Reg) (r : Reg) : List Reg := l ++ [r]

/-- `list.remove(x)`: removes the first element equal to `x`; `none` = `ValueError` (no such element) -/
def listRemove (l : List Reg) (x : Reg) : Option (List Reg) :=
  if l.contains x then some (l.erase x) else none

/-- `remove_header_callback`, repaired: `for x in list(self.cb): if x == pattern: self.cb.remove(x)`.
First argument: what is left of the snapshot; second: the live list.  `none` = the `ValueError` of
`list.remove` escaping (proved impossible: `removeHeaderCallback_eq_filter`). -/
def removeGo (r : Reg) : List Reg → List Reg → Option (List Reg)
  | [], l => some l
  | x :: xs, l => if x.same r then (listRemove l x).bind (removeGo r xs) else removeGo r xs l

def removeHeaderCallback (l : List Reg) (r : Reg) : Option (List Reg) := removeGo r l l

/-- `remove_header_callback` before the fix: `for x in self.cb: if x == pattern: self.cb.remove(x)`.
The list iterator is an index into the live list (`fuel` bounds the walk; `length + 1` is enough). -/
def removeLiveGo (r : Reg) : Nat → Nat → List Reg → Option (List Reg)
  | 0, _, l => some l
  | fuel + 1, i, l =>
    match l[i]? with
    | none => some l
    | some x => if x.same r then (listRemove l x).bind (removeLiveGo r fuel (i + 1)) else removeLiveGo r fuel (i + 1) l

def removeHeaderCallbackLive (l : List Reg) (r : Reg) : Option (List Reg) := removeLiveGo r (l.length + 1) 0 l

/-- `Caller.add_callback`: `if (cb in self.callbacks) is False: self.callbacks.append(cb)` -/
def callerAdd (l : List Nat) (c : Nat) : List Nat := if l.contains c then l else l ++ [c]

/-- `Caller.remove_callback`: `self.callbacks.remove(cb)`; `none` = `ValueError` (not registered) -/
def callerRemove (l : List Nat) (c : Nat) : Option (List Nat) := if l.contains c then some (l.erase c) else none

/-! ### callbacks as scripts -/

inductive Act
  | add (r : Reg)          -- add_header_callback / add_port_callback
  | remove (r : Reg)       -- remove_header_callback / remove_port_callback
  | addAll (cb : Nat)      -- cf.packet_received.add_callback
  | removeAll (cb : Nat)   -- cf.packet_received.remove_callback   (ValueError when absent)
  | raise                  -- raise an exception; the rest of the script is not run
  | setPort (p : Nat)      -- mutate the packet object being dispatched: `pk.port = p` (also half of `pk.set_header`)
  | setChan (c : Nat)      -- `pk.channel = c`
  deriving DecidableEq, Repr

/-- what can be observed (or, for `added`/`removed`, what the spec needs to refer to) -/
inductive Ev
  | pkt (hdr : Nat)        -- `receive_packet` handed out a packet with this header
  | callAll (cb : Nat)     -- all-packet callback invoked with that packet
  | call (r : Reg)         -- the callback of registration `r` invoked with that packet
  | added (r : Reg)        -- a callback appended a registration
  | removed (r : Reg)      -- a callback called remove_header_callback with this pattern
  | raised                 -- the callback just invoked raised
  | mutated                -- the callback just invoked changed port/channel of the packet object it was given
  | died                   -- the exception escaped `run`: the dispatcher thread is gone
  deriving DecidableEq, Repr

/-- behaviour of all callbacks: the actions performed by the callback whose invocation is the last
event of the given trace -/
abbrev Beh := List Ev → List Act

structure St where
  regs : List Reg          -- `_IncomingPacketHandler.cb`
  all : List Nat           -- `cf.packet_received.callbacks`
  trace : List Ev          -- chronological
  dead : Bool              -- an exception escaped `run`
  pk : Nat × Nat := (0, 0) -- current `(pk.port, pk.channel)` of the packet object being dispatched (callbacks can write it)
  deriving DecidableEq, Repr

def St.init : St := { regs := [], all := [], trace := [], dead := false }

def St.push (st : St) (e : Ev) : St := { st with trace := st.trace ++ [e] }

/-- `receive_packet` handed out a packet object with this header -/
def St.recv (st : St) (hdr : Nat) : St :=
  { st with trace := st.trace ++ [Ev.pkt hdr], pk := (pkPort hdr, pkChan hdr) }

/-- which loops iterate over a snapshot; `liveFuel` bounds the live dispatch walk (a live walk over a list
that callbacks keep extending need not terminate) -/
structure Variant where
  snapDispatch : Bool
  snapRemove : Bool
  /-- the match uses port/channel read once when the packet was received (fix D71); otherwise it re-reads the
  live packet object for every registration -/
  capturedHeader : Bool
  liveFuel : Nat := 100000

/-- the repaired code -/
def Variant.fixed : Variant := { snapDispatch := true, snapRemove := true, capturedHeader := true }
/-- the code before the fix for D7 -/
def Variant.original : Variant := { snapDispatch := false, snapRemove := false, capturedHeader := false }
/-- after D7, before D71: snapshot iteration, live packet fields -/
def Variant.liveHeader : Variant := { snapDispatch := true, snapRemove := true, capturedHeader := false }
/-- what the current source does (Tie A) -/
def Variant.code : Variant :=
  { snapDispatch := Gen.C07.dispatchSnapshot, snapRemove := Gen.C07.removeSnapshot, capturedHeader := Gen.C07.matchCapturedHeader }

def Variant.remove (v : Variant) (l : List Reg) (r : Reg) : Option (List Reg) :=
  if v.snapRemove then removeHeaderCallback l r else removeHeaderCallbackLive l r

/-- run the body of a callback; the Bool says whether it raised -/
def runActs (v : Variant) : St → List Act → St × Bool
  | st, [] => (st, false)
  | st, .add r :: as => runActs v ({ st with regs := addHeaderCallback st.regs r }.push (.added r)) as
  | st, .remove r :: as =>
    match v.remove st.regs r with
    | some l => runActs v ({ st with regs := l }.push (.removed r)) as
    | none => ((st.push (.removed r)).push .raised, true)
  | st, .addAll c :: as => runActs v { st with all := callerAdd st.all c } as
  | st, .removeAll c :: as =>
    match callerRemove st.all c with
    | some l => runActs v { st with all := l } as
    | none => (st.push .raised, true)
  | st, .raise :: _ => (st.push .raised, true)
  | st, .setPort p :: as => runActs v ({ st with pk := (p, st.pk.2) }.push .mutated) as
  | st, .setChan c :: as => runActs v ({ st with pk := (st.pk.1, c) }.push .mutated) as

/-- invoke a callback: log the invocation, then run what it does -/
def invoke (v : Variant) (beh : Beh) (st : St) (e : Ev) : St × Bool :=
  let st1 := st.push e
  runActs v st1 (beh st1.trace)

/-- the dispatch loop of `run` over a snapshot of the registry:
`for cb in (cb for cb in list(self.cb) if <match>): try: cb.callback(pk) except Exception: log` -/
def dispatchSnap (v : Variant) (beh : Beh) (hdr : Nat) : List Reg → St → St
  | [], st => st
  | r :: rs, st =>
    if r.matches hdr then dispatchSnap v beh hdr rs (invoke v beh st (.call r)).1
    else dispatchSnap v beh hdr rs st

/-- the match condition evaluated for one registration at the moment the generator reaches it -/
def matchNow (v : Variant) (r : Reg) (hdr : Nat) (st : St) : Bool :=
  if v.capturedHeader then r.matches hdr
  else Gen.C07.matchExpr r.port r.portMask r.chan r.chanMask st.pk.1 st.pk.2

/-- snapshot iteration, but `pk.port`/`pk.channel` re-read from the live packet object for every registration
(the code after D7 and before D71) -/
def dispatchSnapLivePk (v : Variant) (beh : Beh) (hdr : Nat) : List Reg → St → St
  | [], st => st
  | r :: rs, st =>
    if matchNow v r hdr st then dispatchSnapLivePk v beh hdr rs (invoke v beh st (.call r)).1
    else dispatchSnapLivePk v beh hdr rs st

/-- the dispatch loop over the live list: the generator's list iterator is an index that is compared with
the *current* length and reads the *current* element on every step -/
def dispatchLive (v : Variant) (beh : Beh) (hdr : Nat) : Nat → Nat → St → St
  | 0, _, st => st
  | fuel + 1, i, st =>
    match st.regs[i]? with
    | none => st
    | some r =>
      if matchNow v r hdr st then dispatchLive v beh hdr fuel (i + 1) (invoke v beh st (.call r)).1
      else dispatchLive v beh hdr fuel (i + 1) st

def dispatch (v : Variant) (beh : Beh) (hdr : Nat) (st : St) : St :=
  if v.snapDispatch then
    (if v.capturedHeader then dispatchSnap v beh hdr st.regs st else dispatchSnapLivePk v beh hdr st.regs st)
  else dispatchLive v beh hdr v.liveFuel 0 st

/-- `Caller.call`: `for cb in list(self.callbacks): cb(*args)` - no exception handling, so a raising
all-packet callback propagates out of `run` -/
def callerGo (v : Variant) (beh : Beh) : List Nat → St → St
  | [], st => st
  | c :: cs, st =>
    match invoke v beh st (.callAll c) with
    | (st2, true) => { st2.push .died with dead := true }
    | (st2, false) => callerGo v beh cs st2

def callerCall (v : Variant) (beh : Beh) (st : St) : St := callerGo v beh st.all st

/-- the state in which the port dispatch of a packet starts: the packet was taken from the link and the
all-packet callbacks have run -/
def afterAll (v : Variant) (beh : Beh) (st : St) (hdr : Nat) : St := callerCall v beh (st.recv hdr)

/-- one iteration of the `while True` loop of `run` for a packet with header `hdr` -/
def handlePacket (v : Variant) (beh : Beh) (st : St) (hdr : Nat) : St :=
  if st.dead then st else
  let st1 := afterAll v beh st hdr
  if st1.dead then st1 else dispatch v beh hdr st1

/-- the dispatcher thread fed with a sequence of packets -/
def run (v : Variant) (beh : Beh) (st : St) (hdrs : List Nat) : St := hdrs.foldl (handlePacket v beh) st

/-! ### packets as `run` can observe them -/

/-- a received `CRTPPacket`: header byte and payload length (0..30).  Besides `pk.port`/`pk.channel` the
only thing `run` can observe of the object is its truthiness (the "no packet" test after `receive_packet`). -/
structure Pkt where
  hdr : Nat
  len : Nat
  deriving DecidableEq, Repr

/-- `bool(pk)`: an object without `__bool__`/`__len__` is always true; with `__len__` = payload size a
header-only packet is false (Gen: which of the two the class currently is) -/
def Pkt.truthy (p : Pkt) : Bool := if Gen.C07.packetTruthyByLen then p.len != 0 else true

/-- the test between `receive_packet` and the callbacks: `if pk is None: continue` never skips a packet,
`if not pk: continue` skips the falsy ones -/
def Pkt.skipped (p : Pkt) : Bool := if Gen.C07.recvSkipIsNone then false else !p.truthy

/-- one iteration of `run` for a packet object handed out by the link -/
def receive (v : Variant) (beh : Beh) (st : St) (p : Pkt) : St :=
  if st.dead then st
  else if p.skipped then st.push (.pkt p.hdr)       -- taken from the link and dropped
  else handlePacket v beh st p.hdr

/-- the dispatcher thread fed with a sequence of packet objects -/
def runPkts (v : Variant) (beh : Beh) (st : St) (pkts : List Pkt) : St := pkts.foldl (receive v beh) st

/-! ### projections of the trace -/

def Ev.asCall : Ev → Option Reg
  | .call r => some r
  | _ => none
def Ev.asAllCall : Ev → Option Nat
  | .callAll c => some c
  | _ => none
def Ev.asPkt : Ev → Option Nat
  | .pkt h => some h
  | _ => none
def Ev.asDelivery : Ev → Option Ev
  | .pkt h => some (.pkt h)
  | .call r => some (.call r)
  | _ => none

/-- the registrations whose callback was invoked, in order -/
def callsOf (tr : List Ev) : List Reg := tr.filterMap Ev.asCall
/-- the all-packet callbacks invoked, in order -/
def allCallsOf (tr : List Ev) : List Nat := tr.filterMap Ev.asAllCall
/-- the packets taken from the link, in order -/
def pktsOf (tr : List Ev) : List Nat := tr.filterMap Ev.asPkt
/-- deliveries: packets taken and port callbacks invoked, in order -/
def deliveries (tr : List Ev) : List Ev := tr.filterMap Ev.asDelivery

end CfVerif.C07

/-
Model/C08 — executable model of every packet-emitting method of
  cflib/crazyflie/commander.py, high_level_commander.py, localization.py (send_*), extpos.py,
  platformservice.py (set_continous_wave, send_*), lpslib/lopoanchor.py,
of `CRTPPacket`'s header logic and of the size check in `Crazyflie.send_packet`.

Formats, argument orders (pinned in Props), constants, the header expression, the version/range comparison
constants and the compress_quaternion bit expression come from Gen/C08 (regenerated from /repo on every run).

Numbers.  A Python numeric argument is a `Num`: a float (with its binary64 pattern) or an int, together with the
result `Conv` of CPython's conversion of that number to binary32 inside `struct.pack('f')` (a bit pattern, or
the exception it raises: OverflowError for a finite float beyond binary32, struct.error for a huge int).
The binary64->binary32 rounding itself and all double arithmetic (X-mode mix, `v*1000`, quaternion
normalisation and scaling) are OUTSIDE the model: the model receives their results as operands.
Everything from there on (sign flips, int() truncation, comparisons, range checks, bit packing, layout,
header, size check) is modelled exactly.
-/
import CfVerif.Base.Struct
import CfVerif.Base.Py
import CfVerif.Gen.C08
namespace CfVerif.C08
open CfVerif

/-! ### numbers -/

/-- outcome of converting a Python number to binary32 in `struct.pack('f', x)` -/
inductive Conv
  | bits (b : Nat)
  | err (e : PyErr)
  deriving DecidableEq, Repr, Inhabited

/-- flip bit `k` of a `k+1`-bit pattern (anything wider is not a pattern of that width and is left alone) -/
def flipBit (k : Nat) (b : Nat) : Nat := if b < 2 ^ k then b + 2 ^ k else if b < 2 ^ (k + 1) then b - 2 ^ k else b

def Conv.neg : Conv → Conv
  | .bits b => .bits (flipBit 31 b)
  | .err e => .err e

/-- a Python number: `f d c` a float with binary64 pattern `d`; `i v c` an int (bools are ints) -/
inductive Num
  | f (d : Nat) (c : Conv)
  | i (v : Int) (c : Conv)
  deriving DecidableEq, Repr, Inhabited

def Num.conv : Num → Conv
  | .f _ c => c
  | .i _ c => c

/-- Python unary minus.  Float: sign bit flipped (also for NaN and zero; the binary32 conversion is
sign-symmetric).  Int: exact; `-0 == 0`. -/
def Num.neg : Num → Num
  | .f d c => .f (flipBit 63 d) c.neg
  | .i v c => .i (-v) (if v = 0 then c else c.neg)

/-- a constant of the source used as an integer field (never converted to float) -/
def k (n : Nat) : Num := .i n (.err .other)
def ki (v : Int) : Num := .i v (.err .other)

/-! ### binary64 helpers (exact integer logic on the bit pattern) -/

def f64Sign (d : Nat) : Nat := d / 2 ^ 63 % 2
def f64Exp (d : Nat) : Nat := d / 2 ^ 52 % 2048
def f64Frac (d : Nat) : Nat := d % 2 ^ 52
def f64IsNaN (d : Nat) : Bool := f64Exp d == 2047 && f64Frac d != 0
def f64IsInf (d : Nat) : Bool := f64Exp d == 2047 && f64Frac d == 0
/-- significand and unbiased-by-1075 exponent: |value| = mant * 2^(ex - 1075) for finite d -/
def f64Mant (d : Nat) : Nat := if f64Exp d = 0 then f64Frac d else f64Frac d + 2 ^ 52
def f64Ex (d : Nat) : Nat := if f64Exp d = 0 then 1 else f64Exp d

/-- Python `int(x)` for a float: truncation toward zero; NaN -> ValueError, inf -> OverflowError -/
def f64ToInt (d : Nat) : Except PyErr Int :=
  if f64Exp d = 2047 then
    if f64Frac d = 0 then .error .overflow else .error .valueError
  else
    let mag : Nat := if 1075 ≤ f64Ex d then f64Mant d * 2 ^ (f64Ex d - 1075) else f64Mant d / 2 ^ (1075 - f64Ex d)
    .ok (if f64Sign d = 1 then -(mag : Int) else (mag : Int))

/-- magnitude bits (|x| ordering of non-NaN doubles is the ordering of the low 63 bits) -/
def f64Mag (d : Nat) : Nat := d % 2 ^ 63
/-- `abs(a) > abs(b)` on doubles -/
def f64AbsGt (a b : Nat) : Bool := !f64IsNaN a && !f64IsNaN b && decide (f64Mag b < f64Mag a)
/-- `a < 0` on a double -/
def f64Neg (a : Nat) : Bool := !f64IsNaN a && f64Sign a == 1 && f64Mag a != 0

/-- exact comparison of a Python number with a double constant `c` (finite, given as bit pattern):
`x < c` / `x > c` as Python evaluates them (int-vs-float comparison is exact in CPython). -/
def ratLt (n1 : Int) (e1 : Nat) (n2 : Int) (e2 : Nat) : Bool :=
  -- n1 * 2^(e1-1075) < n2 * 2^(e2-1075)
  decide (n1 * (2 ^ (e1 - min e1 e2) : Nat) < n2 * (2 ^ (e2 - min e1 e2) : Nat))

def f64Num (d : Nat) : Int := if f64Sign d = 1 then -(f64Mant d : Int) else (f64Mant d : Int)

def Num.ltF64 (x : Num) (c : Nat) : Bool :=
  match x with
  | .f d _ => !f64IsNaN d && !f64IsNaN c &&
      (if f64IsInf d then f64Sign d == 1 && !(f64IsInf c && f64Sign c == 1)
       else if f64IsInf c then f64Sign c == 0
       else ratLt (f64Num d) (f64Ex d) (f64Num c) (f64Ex c))
  | .i v _ => !f64IsNaN c &&
      (if f64IsInf c then f64Sign c == 0 else ratLt v 1075 (f64Num c) (f64Ex c))

def Num.gtF64 (x : Num) (c : Nat) : Bool :=
  match x with
  | .f d _ => !f64IsNaN d && !f64IsNaN c &&
      (if f64IsInf d then f64Sign d == 0 && !(f64IsInf c && f64Sign c == 0)
       else if f64IsInf c then f64Sign c == 1
       else ratLt (f64Num c) (f64Ex c) (f64Num d) (f64Ex d))
  | .i v _ => !f64IsNaN c &&
      (if f64IsInf c then f64Sign c == 1 else ratLt (f64Num c) (f64Ex c) v 1075)

/-- `x > n` / `x < n` for an int constant `n` of the source -/
def Num.gtInt (x : Num) (n : Int) : Bool :=
  match x with
  | .i v _ => decide (n < v)
  | .f d _ => !f64IsNaN d && (if f64IsInf d then f64Sign d == 0 else ratLt n 1075 (f64Num d) (f64Ex d))
def Num.ltInt (x : Num) (n : Int) : Bool :=
  match x with
  | .i v _ => decide (v < n)
  | .f d _ => !f64IsNaN d && (if f64IsInf d then f64Sign d == 1 else ratLt (f64Num d) (f64Ex d) n 1075)

/-- Python truthiness of a number -/
def Num.truthy : Num → Bool
  | .i v _ => v != 0
  | .f d _ => f64Mag d != 0

/-! ### struct.pack on numbers -/

/-- what `struct.pack` does with one Python number for one format code -/
def packNum (c : Code) (x : Num) : Except PyErr (List UInt8) :=
  match c with
  | .f => match x.conv with
    | .bits b => packOne .f (.flt b)
    | .err e => .error e
  | .bool => .ok [if x.truthy then 1 else 0]
  | .B | .b | .H | .h | .I | .i | .Q | .q =>
    match x with
    | .i v _ => packOne c (.int v)
    | .f _ _ => .error .structError          -- "required argument is not an integer"
  | _ => .error .other                       -- d / e / s / x are not used by these methods (Gen obligation)

/-- `struct.pack(fmt, *xs)`: arguments are converted and range-checked left to right -/
def packNums : Fmt → List Num → Except PyErr (List UInt8)
  | [], [] => .ok []
  | c :: cs, x :: xs => do
    let a ← packNum c x
    let r ← packNums cs xs
    pure (a ++ r)
  | _, _ => .error .structError

/-! ### CRTPPacket and Crazyflie.send_packet -/

structure Packet where
  header : Nat
  data : List UInt8
  deriving DecidableEq, Repr, Inhabited

/-- channel / port of a fresh `CRTPPacket()` (constructor default header) -/
def defaultChan : Nat := Gen.C08.initChanExpr 0
def defaultPort : Nat := Gen.C08.initPortExpr 0

/-- `pk = CRTPPacket(); pk.port = port; [pk.channel = chan]; pk.data = data` — the header is recomputed by
`_update_header` at every assignment, the last one wins. -/
def mkPacket (port chan : Nat) (data : List UInt8) : Packet :=
  { header := Gen.C08.hdrExpr port chan, data := data }

/-- `Crazyflie.send_packet`: `if not pk.is_data_size_valid(): raise Exception`, then the link gets the packet -/
def send (p : Packet) : Except PyErr (List Packet) :=
  if p.data.length ≤ Gen.C08.maxDataSize then .ok [p] else .error .other

def build (port chan : Nat) (fmt : String) (args : List Num) : Except PyErr (List Packet) := do
  let data ← packNums (parseFmt! fmt) args
  send (mkPacket port chan data)

/-- `bytearray(tuple)`: every element must be an int in range(256) -/
def tupleBytes : List Num → Except PyErr (List UInt8)
  | [] => .ok []
  | .f _ _ :: _ => .error .typeError
  | .i (.ofNat n) _ :: xs => if n < 256 then (do let r ← tupleBytes xs; pure (UInt8.ofNat n :: r)) else .error .valueError
  | .i (.negSucc _) _ :: _ => .error .valueError

/-! ### full-state helpers -/

/-- one component of a vector passed to `vector_to_mm_16bit`: a Python int, or a Python float whose product
with 1000 (computed in binary64 by Python, outside the model) has the given bit pattern -/
inductive Scaled
  | i (v : Int)
  | f (prod : Nat)
  deriving DecidableEq, Repr, Inhabited

/-- `int(vec[j] * 1000)` -/
def Scaled.mm : Scaled → Except PyErr Int
  | .i v => .ok (v * 1000)
  | .f p => f64ToInt p

structure Vec3 where
  a : Scaled
  b : Scaled
  c : Scaled
  deriving DecidableEq, Repr, Inhabited

def Vec3.mm (v : Vec3) : Except PyErr (Int × Int × Int) := do
  let x ← v.a.mm
  let y ← v.b.mm
  let z ← v.c.mm
  pure (x, y, z)

/-- one component of the normalised quaternion `quat_n[i]` (binary64 pattern `q`) together with the binary64
pattern `t` of `((1 << 9) - 1) * (abs(quat_n[i]) / M_SQRT1_2) + 0.5` (both computed by numpy/Python) -/
structure QComp where
  q : Nat
  t : Nat
  deriving DecidableEq, Repr, Inhabited

structure QuatN where
  c0 : QComp
  c1 : QComp
  c2 : QComp
  c3 : QComp
  deriving DecidableEq, Repr, Inhabited

def QuatN.get (qn : QuatN) : Nat → QComp
  | 0 => qn.c0 | 1 => qn.c1 | 2 => qn.c2 | _ => qn.c3

/-- `for i in range(1, 4): if abs(quat_n[i]) > abs(quat_n[i_largest]): i_largest = i` -/
def iLargest (qn : QuatN) : Nat :=
  [1, 2, 3].foldl (fun l i => if f64AbsGt (qn.get i).q (qn.get l).q then i else l) 0

/-- the running value of `comp`: `some n` a non-negative Python int, `none` a negative one (only reachable
from a negative `mag`; once negative, `<<` and `|` keep it negative, and `struct.pack('I')` rejects it) -/
def cqFold (qn : QuatN) (l : Nat) (negate : Bool) : List Nat → Option Nat → Except PyErr (Option Nat)
  | [], comp => .ok comp
  | i :: is, comp =>
    if i != l then do
      let negbit : Nat := if (f64Neg (qn.get i).q != negate) then 1 else 0
      let mag ← f64ToInt (qn.get i).t
      let comp' : Option Nat := match comp, mag with
        | some c, .ofNat m => some (Gen.C08.cqStep c negbit m)
        | _, _ => none
      cqFold qn l negate is comp'
    else cqFold qn l negate is comp

/-- `compress_quaternion` after the normalisation -/
def compressQuat (qn : QuatN) : Except PyErr Int := do
  let l := iLargest qn
  let negate := f64Neg (qn.get l).q
  let r ← cqFold qn l negate [0, 1, 2, 3] (some l)
  pure (match r with | some n => (n : Int) | none => -1)

/-! ### lighthouse persist helpers -/

def listMin : List Int → Int
  | [] => 0
  | x :: xs => xs.foldl min x
def listMax : List Int → Int
  | [] => 0
  | x :: xs => xs.foldl max x

/-- `for bs in l: mask |= 1 << bs` (all elements already known to be in 0..max).  This is the REPAIRED code
(fixes/D17-c08.patch); the order of the (sorted) list is irrelevant for the result. -/
def maskOr (l : List Int) : Nat := l.foldl (fun m b => m ||| (1 <<< b.toNat)) 0

/-- the unrepaired code: `for bs in l: mask += 1 << bs` — a duplicated id carries into the next bit -/
def maskSumLive (l : List Int) : Nat := l.foldl (fun m b => m + (1 <<< b.toNat)) 0

/-- the validation of one base-station list: after `l.sort()`, `l[0]` is the minimum and `l[-1]` the maximum -/
def lhListBad (l : List Int) : Bool :=
  !l.isEmpty && (decide (listMin l < 0) || decide (listMax l > Gen.C08.lhMaxBs))

/-! ### the emitting methods -/

inductive Call
  -- Commander
  | setpoint (xmode : Bool) (roll pitch mixRoll mixPitch yawrate thrust : Num)
  | notifyStop (ms : Num)
  | stopSetpoint
  | velocityWorld (vx vy vz yawrate : Num)
  | zdistance (roll pitch yawrate z : Num)
  | hover (vx vy yawrate z : Num)
  | fullState (pos vel acc : Vec3) (quat : QuatN) (rates : Vec3)
  | position (x y z yaw : Num)
  -- HighLevelCommander
  | hlGroupMask (gm : Num)
  | hlTakeoff (height dur gm : Num) (yaw : Option Num)
  | hlLand (height dur gm : Num) (yaw : Option Num)
  | hlStop (gm : Num)
  | hlGoTo (x y z yaw dur relative linear gm : Num)
  | hlSpiral (angle r0 rF ascent dur sideways clockwise gm : Num)
  | hlStartTraj (id ts relative reversed gm : Num)
  | hlDefineTraj (id offset n typ : Num)
  -- Localization / Extpos
  | extpos (x y z : Num)
  | extpose (x y z qx qy qz qw : Num)
  | shortLpp (dest : Num) (data : List UInt8)
  | emergencyStop
  | emergencyWatchdog
  | lhPersist (geo calib : List Int)
  | extposWrap (x y z : Num)
  | extposeWrap (x y z qx qy qz qw : Num)
  -- PlatformService
  | contWave (enabled : Num)
  | arming (doArm : Num)
  | crashRecovery
  -- LoPoAnchor
  | lopoPosition (id x y z : Num)
  | lopoReboot (id mode : Num)
  | lopoMode (id mode : Num)
  deriving DecidableEq, Repr, Inhabited

open Gen.C08 in
/-- `HighLevelCommander._send_packet(data)` -/
def hlSend (data : Except PyErr (List UInt8)) : Except PyErr (List Packet) := do
  let d ← data
  send (mkPacket Port.SETPOINT_HL defaultChan d)

open Gen.C08 in
/-- `Localization.send_short_lpp_packet(dest_id, data)` -/
def shortLpp (dest : Num) (data : List UInt8) : Except PyErr (List Packet) := do
  let h ← packNums (parseFmt! shortLpp_fmt0) [k Loc.LPS_SHORT_LPP_PACKET, dest]
  send (mkPacket Port.LOCALIZATION Loc.GENERIC_CH (h ++ data))

def boolNum (b : Bool) : Num := .i (if b then 1 else 0) (.err .other)

open Gen.C08 in
/-- yaw handling shared by takeoff and land: `yaw is None -> (0.0, True)` -/
def yawArgs : Option Num → Num × Bool
  | none => (.f 0 (.bits 0), true)
  | some y => (y, false)

open Gen.C08 in
/-- the packets handed to the link by one API call under protocol version `ver`
(`.ok []`: the method returns without sending), or the exception it raises -/
def emit (ver : Int) : Call → Except PyErr (List Packet)
  | .setpoint xmode roll pitch mixRoll mixPitch yawrate thrust =>
    if thrust.gtInt thrustMax || thrust.ltInt 0 then .error .valueError
    else
      let r := if xmode then mixRoll else roll
      let p := if xmode then mixPitch else pitch
      build Port.COMMANDER defaultChan setpoint_fmt0 [r, p.neg, yawrate, thrust]
  | .notifyStop ms =>
    build Port.COMMANDER_GENERIC Cmdr.META_COMMAND_CHANNEL notifyStop_fmt0 [k Cmdr.TYPE_META_COMMAND_NOTIFY_SETPOINT_STOP, ms]
  | .stopSetpoint =>
    build Port.COMMANDER_GENERIC defaultChan stopSetpoint_fmt0 [k Cmdr.TYPE_STOP]
  | .velocityWorld vx vy vz yawrate =>
    if ver ≤ 8 then
      build Port.COMMANDER_GENERIC Cmdr.SET_SETPOINT_CHANNEL velocityWorld_fmt0 [k Cmdr.TYPE_VELOCITY_WORLD_LEGACY, vx, vy, vz, yawrate.neg]
    else
      build Port.COMMANDER_GENERIC Cmdr.SET_SETPOINT_CHANNEL velocityWorld_fmt1 [k Cmdr.TYPE_VELOCITY_WORLD, vx, vy, vz, yawrate]
  | .zdistance roll pitch yawrate z =>
    if ver ≤ 8 then
      build Port.COMMANDER_GENERIC Cmdr.SET_SETPOINT_CHANNEL zdistance_fmt0 [k Cmdr.TYPE_ZDISTANCE_LEGACY, roll, pitch, yawrate.neg, z]
    else
      build Port.COMMANDER_GENERIC Cmdr.SET_SETPOINT_CHANNEL zdistance_fmt1 [k Cmdr.TYPE_ZDISTANCE, roll, pitch, yawrate, z]
  | .hover vx vy yawrate z =>
    if ver ≤ 8 then
      build Port.COMMANDER_GENERIC Cmdr.SET_SETPOINT_CHANNEL hover_fmt0 [k Cmdr.TYPE_HOVER_LEGACY, vx, vy, yawrate.neg, z]
    else
      build Port.COMMANDER_GENERIC Cmdr.SET_SETPOINT_CHANNEL hover_fmt1 [k Cmdr.TYPE_HOVER, vx, vy, yawrate, z]
  | .fullState pos vel acc quat rates => do
    let p ← pos.mm          -- x, y, z = vector_to_mm_16bit(pos)
    let v ← vel.mm
    let a ← acc.mm
    let r ← rates.mm        -- rr, pr, yr = vector_to_mm_16bit([rollrate, pitchrate, yawrate])
    let oc ← compressQuat quat
    build Port.COMMANDER_GENERIC defaultChan fullState_fmt0
      [k Cmdr.TYPE_FULL_STATE, ki p.1, ki p.2.1, ki p.2.2, ki v.1, ki v.2.1, ki v.2.2, ki a.1, ki a.2.1, ki a.2.2, ki oc,
       ki r.1, ki r.2.1, ki r.2.2]
  | .position x y z yaw =>
    build Port.COMMANDER_GENERIC Cmdr.SET_SETPOINT_CHANNEL position_fmt0 [k Cmdr.TYPE_POSITION, x, y, z, yaw]
  | .hlGroupMask gm =>
    hlSend (packNums (parseFmt! hlGroupMask_fmt0) [k HL.COMMAND_SET_GROUP_MASK, gm])
  | .hlTakeoff height dur gm yaw =>
    let (ty, ucy) := yawArgs yaw
    hlSend (packNums (parseFmt! hlTakeoff_fmt0) [k HL.COMMAND_TAKEOFF_2, gm, height, ty, boolNum ucy, dur])
  | .hlLand height dur gm yaw =>
    let (ty, ucy) := yawArgs yaw
    hlSend (packNums (parseFmt! hlLand_fmt0) [k HL.COMMAND_LAND_2, gm, height, ty, boolNum ucy, dur])
  | .hlStop gm =>
    hlSend (packNums (parseFmt! hlStop_fmt0) [k HL.COMMAND_STOP, gm])
  | .hlGoTo x y z yaw dur relative linear gm =>
    if ver < 8 then
      hlSend (packNums (parseFmt! hlGoTo_fmt0) [k HL.COMMAND_GO_TO, gm, relative, x, y, z, yaw, dur])
    else
      hlSend (packNums (parseFmt! hlGoTo_fmt1) [k HL.COMMAND_GO_TO_2, gm, relative, linear, x, y, z, yaw, dur])
  | .hlSpiral angle r0 rF ascent dur sideways clockwise gm =>
    if ver < 8 then .ok []
    else
      let angle' :=
        if angle.gtF64 spiral_angleHi_f64 then Num.f spiral_angleHi_f64 (.bits spiral_angleSet0_f32)
        else if angle.ltF64 spiral_angleLo_f64 then Num.f spiral_angleLo_f64 (.bits spiral_angleSet1_f32)
        else angle
      let r0' := if r0.ltF64 spiral_r0Lo_f64 then Num.i 0 (.bits spiral_r0Set0_f32) else r0
      let rF' := if rF.ltF64 spiral_rFLo_f64 then Num.i 0 (.bits spiral_rFSet0_f32) else rF
      hlSend (packNums (parseFmt! hlSpiral_fmt0) [k HL.COMMAND_SPIRAL, gm, sideways, clockwise, angle', r0', rF', ascent, dur])
  | .hlStartTraj id ts relative reversed gm =>
    hlSend (packNums (parseFmt! hlStartTraj_fmt0) [k HL.COMMAND_START_TRAJECTORY, gm, relative, reversed, id, ts])
  | .hlDefineTraj id offset n typ =>
    hlSend (packNums (parseFmt! hlDefineTraj_fmt0) [k HL.COMMAND_DEFINE_TRAJECTORY, id, k HL.TRAJECTORY_LOCATION_MEM, typ, offset, n])
  | .extpos x y z | .extposWrap x y z =>
    build Port.LOCALIZATION Loc.POSITION_CH extpos_fmt0 [x, y, z]
  | .extpose x y z qx qy qz qw | .extposeWrap x y z qx qy qz qw =>
    build Port.LOCALIZATION Loc.GENERIC_CH extpose_fmt0 [k Loc.EXT_POSE, x, y, z, qx, qy, qz, qw]
  | .shortLpp dest data => shortLpp dest data
  | .emergencyStop =>
    build Port.LOCALIZATION Loc.GENERIC_CH emergencyStop_fmt0 [k Loc.EMERGENCY_STOP]
  | .emergencyWatchdog =>
    build Port.LOCALIZATION Loc.GENERIC_CH emergencyWatchdog_fmt0 [k Loc.EMERGENCY_STOP_WATCHDOG]
  | .lhPersist geo calib =>
    if lhListBad geo then .error .other
    else if lhListBad calib then .error .other
    else build Port.LOCALIZATION Loc.GENERIC_CH lhPersist_fmt0 [k Loc.LH_PERSIST_DATA, ki (maskOr geo), ki (maskOr calib)]
  | .contWave enabled => do
    let d ← tupleBytes [k Plat.PLATFORM_SET_CONT_WAVE, enabled]
    send (mkPacket Port.PLATFORM Plat.PLATFORM_COMMAND d)
  | .arming doArm => do
    let d ← tupleBytes [k Plat.PLATFORM_REQUEST_ARMING, doArm]
    send (mkPacket Port.PLATFORM Plat.PLATFORM_COMMAND d)
  | .crashRecovery => do
    let d ← tupleBytes [k Plat.PLATFORM_REQUEST_CRASH_RECOVERY]
    send (mkPacket Port.PLATFORM Plat.PLATFORM_COMMAND d)
  | .lopoPosition id x y z => do
    let d ← packNums (parseFmt! lopoPosition_fmt0) [k Lopo.LPP_TYPE_POSITION, x, y, z]
    shortLpp id d
  | .lopoReboot id mode => do
    let d ← packNums (parseFmt! lopoReboot_fmt0) [k Lopo.LPP_TYPE_REBOOT, mode]
    shortLpp id d
  | .lopoMode id mode => do
    let d ← packNums (parseFmt! lopoMode_fmt0) [k Lopo.LPP_TYPE_MODE, mode]
    shortLpp id d

/-! ### the long-lived objects

`Commander`, `HighLevelCommander`, `Localization`, `Extpos`, `PlatformService` and `LoPoAnchor` are created once per
`Crazyflie` object and live across connections.  The only attributes their methods write (pinned: Gen `stores_*`) are
`Commander._x_mode` (by `set_client_xmode`) and `PlatformService._protocolVersion` (reset to -1 by
`fetch_platform_informations` at the start of every connection, set by the handshake callbacks).  Every emitting method
reads both AT CALL TIME (`self._x_mode`, `self._cf.platform.get_protocol_version()`), nothing is cached. -/

structure Objs where
  xmode : Bool          -- Commander._x_mode
  version : Int         -- PlatformService._protocolVersion
  deriving DecidableEq, Repr, Inhabited

/-- `Commander.__init__`: `_x_mode = False`; `PlatformService.__init__`: `_protocolVersion = -1` -/
def Objs.init : Objs := { xmode := false, version := -1 }

/-- one step in the life of the objects -/
inductive Ev
  | setXmode (enabled : Bool)      -- Commander.set_client_xmode(enabled)
  | negotiated (version : Int)     -- the platform service learns the protocol version of the (new) connection; -1 = handshake started / not supported
  | call (c : Call)                -- an emitting API call (the x-mode component of `.setpoint` is supplied by the object state)
  deriving DecidableEq, Repr, Inhabited

/-- the call as the object executes it: `send_setpoint` consults `self._x_mode` -/
def Call.withXmode (xm : Bool) : Call → Call
  | .setpoint _ roll pitch mixRoll mixPitch yawrate thrust => .setpoint xm roll pitch mixRoll mixPitch yawrate thrust
  | c => c

/-- what one call event did: the protocol version in force, the call as executed, and its outcome -/
structure Done where
  version : Int
  call : Call
  result : Except PyErr (List Packet)
  deriving DecidableEq, Repr, Inhabited

def step (s : Objs) : Ev → Objs × Option Done
  | .setXmode b => ({ s with xmode := b }, none)
  | .negotiated v => ({ s with version := v }, none)
  | .call c =>
    let c' := c.withXmode s.xmode
    (s, some { version := s.version, call := c', result := emit s.version c' })

/-- the history of an object set: outcomes of the call events, in order -/
def run : Objs → List Ev → List Done
  | _, [] => []
  | s, e :: es =>
    match step s e with
    | (s', some d) => d :: run s' es
    | (s', none) => run s' es

def stateAfter (s : Objs) (evs : List Ev) : Objs := evs.foldl (fun s e => (step s e).1) s

/-! ### the link queues packet OBJECTS and serialises them later

`Crazyflie.send_packet` hands the packet object to the link driver; a queueing driver (RadioDriver, UsbDriver, ...) puts the
object into a queue and its thread reads `pk.header` / `pk.data` only when it transmits — after `send_packet` has returned
and possibly after further API calls.  What reaches the wire is therefore the content of the object AT TRANSMIT TIME.
The heap below gives packet objects identity: every emitting call allocates a NEW object for each packet it sends
(`pk = CRTPPacket()` in the method itself, pinned by `gen_fresh_packet`; no packet is stored on `self`, `gen_object_state`),
writes only that object, and enqueues its id. -/

/-- heap of packet objects (index = object identity), ids queued in the link, frames already serialised -/
structure LinkSt where
  heap : List Packet
  queue : List Nat
  wire : List Packet
  deriving DecidableEq, Repr, Inhabited

def LinkSt.init : LinkSt := { heap := [], queue := [], wire := [] }

/-- `pk = CRTPPacket(); ...; link.send_packet(pk)` for each packet of one call: allocate, fill, enqueue -/
def LinkSt.enqueue (l : LinkSt) : List Packet → LinkSt
  | [] => l
  | p :: ps => LinkSt.enqueue { l with heap := l.heap ++ [p], queue := l.queue ++ [l.heap.length] } ps

/-- the driver thread drains its queue: each queued object is read NOW -/
def LinkSt.transmit (l : LinkSt) : LinkSt :=
  { l with queue := [], wire := l.wire ++ l.queue.filterMap (fun i => l.heap[i]?) }

inductive LEv
  | api (e : Ev)        -- an event of the objects' life (call, negotiation, x-mode)
  | transmit            -- the link's thread gets to run
  deriving DecidableEq, Repr, Inhabited

def stepL (s : Objs × LinkSt) : LEv → Objs × LinkSt
  | .transmit => (s.1, s.2.transmit)
  | .api e =>
    match step s.1 e with
    | (s', some d) => (s', match d.result with | .ok ps => s.2.enqueue ps | .error _ => s.2)
    | (s', none) => (s', s.2)

def runL (s : Objs × LinkSt) (evs : List LEv) : Objs × LinkSt := evs.foldl stepL s

/-- the API events of a schedule, without the transmit points -/
def apiEvents : List LEv → List Ev
  | [] => []
  | .api e :: es => e :: apiEvents es
  | .transmit :: es => apiEvents es

/-- the packets of the successful calls of a history, in call order -/
def emitted (ds : List Done) : List Packet :=
  ds.flatMap fun d => match d.result with | .ok ps => ps | .error _ => []

end CfVerif.C08

/-
Model/C09: executable model of the *logic* of cflib's lighthouse geometry estimation pipeline:
  * `LighthouseSampleMatcher.match` / `_append_result`                     (timestamps in any ordered additive type),
  * `LighthouseInitialEstimator.estimate` from the reference choice on: `_estimate_remaining_bs_poses`
    (the linking loop over the co-visibility structure) and `_estimate_cf_poses`, over an abstract pose type,
  * `LighthouseGeometrySolver`: `_create_bs_map`, `_populate_indexes_and_jacobian`, `_populate_initial_guess`,
    `_params_to_struct`, the gather structure of `_calc_residual`, `_condense_results`  (parameter-vector layout),
  * `IppeCf`'s axis permutations.
The comparison expressions, index arithmetic and the permutation matrix come from Gen/C09 (Tie A).
The numerics (IPPE, mirror voting, quaternion averaging, least squares) are NOT modelled: they are parameters
(`PoseOps`, `rowFn`) of the model.  No Mathlib.
-/
import CfVerif.Gen.C09
namespace CfVerif.C09
open CfVerif

/-! ## Python dict: insertion-ordered association list (unique keys are maintained by `set`) -/
abbrev Dict (α : Type) := List (Nat × α)

namespace Dict
variable {α : Type}

def keys (d : Dict α) : List Nat := d.map Prod.fst

def get? : Dict α → Nat → Option α
  | [], _ => none
  | (k', v) :: r, k => if k' = k then some v else get? r k

/-- `d[k] = v`: overwrite in place (position kept) or append -/
def set : Dict α → Nat → α → Dict α
  | [], k, v => [(k, v)]
  | (k', v') :: r, k, v => if k' = k then (k', v) :: r else (k', v') :: set r k v

end Dict

/-! ## 1. Sample matcher -/

/-- `LhMeasurement(timestamp, base_station_id, angles)`; the angles are opaque to the matcher -/
structure Meas (T A : Type) where
  ts : T
  bs : Nat
  ang : A
  deriving Repr, DecidableEq

/-- `LhCfPoseSample(timestamp, angles_calibrated)` -/
structure Group (T A : Type) where
  ts : T
  angles : Dict A
  deriving Repr, DecidableEq

section Matcher
variable {T A : Type} [Add T] [LT T] [DecidableLT T]

/-- `_append_result`: `if current is not None and len(current.angles_calibrated) >= min_nr_of_bs_in_match` -/
def appendResult (cur : Option (Group T A)) (result : List (Group T A)) (minBs : Int) : List (Group T A) :=
  match cur with
  | none => result
  | some g => if Gen.C09.keepCond (g.angles.length : Int) minBs then result ++ [g] else result

/-- the `for sample in samples` loop of `match`, statement by statement -/
def matchLoop (maxDiff : T) (minBs : Int) :
    List (Meas T A) → Option (Group T A) → List (Group T A) → List (Group T A)
  | [], cur, result => appendResult cur result minBs          -- after the loop
  | s :: rest, cur, result =>
    let ts := s.ts
    -- if current is None: current = LhCfPoseSample(timestamp=ts)
    let cur1 : Group T A := match cur with
      | none => { ts := ts, angles := [] }
      | some g => g
    -- if ts > current.timestamp + max_time_diff: _append_result(...); current = LhCfPoseSample(timestamp=ts)
    if Gen.C09.splitCond ts cur1.ts maxDiff then
      matchLoop maxDiff minBs rest (some { ts := ts, angles := Dict.set [] s.bs s.ang })
        (appendResult (some cur1) result minBs)
    else
      -- current.angles_calibrated[sample.base_station_id] = sample.angles
      matchLoop maxDiff minBs rest (some { ts := cur1.ts, angles := cur1.angles.set s.bs s.ang }) result

/-- `LighthouseSampleMatcher.match(samples, max_time_diff, min_nr_of_bs_in_match)` -/
def matchSamples (samples : List (Meas T A)) (maxDiff : T) (minBs : Int) : List (Group T A) :=
  matchLoop maxDiff minBs samples none []

end Matcher

/-! ## 2. Initial estimator: reference choice, linking loop, CF poses (poses abstract) -/

inductive LinkErr
  | noReference   -- LhException('Too little data, no reference')
  | cannotLink    -- LhException('Can not link positions between all base stations')
  | keyError      -- a dict lookup failed (shown impossible)
  | avgEmpty      -- `_avarage_poses([])`: numpy LinAlgError (a ValueError)
  | fuel          -- the model's loop bound was exhausted (shown impossible)
  deriving Repr, DecidableEq

/-- the numeric operations the linking logic is parameterised by -/
structure PoseOps (P : Type) where
  /-- `_map_pose_to_ref_frame(known_global, known_cf, unknown_cf)` -/
  mapRef : P → P → P → P
  /-- `_map_cf_pos_to_cf_pos(pose_global, pose_cf)` -/
  cfFrom : P → P → P
  /-- `_avarage_poses(poses)` on a non-empty list -/
  avg : List P → P

/-- a Python `set` of ints, as a duplicate-free list (iteration order is not modelled) -/
def dedup : List Nat → List Nat
  | [] => []
  | a :: r => if r.contains a then dedup r else a :: dedup r

section Linking
variable {P : Type}

/-- `all_bs`: union of the key sets of all samples -/
def allBs (refCfs : List (Dict P)) : List Nat := dedup (refCfs.flatMap Dict.keys)

/-- `all_bs - bs_poses.keys()` -/
def setMinusKeys (all : List Nat) (bsPoses : Dict P) : List Nat :=
  all.filter fun b => !bsPoses.keys.contains b

/-- `if bs_id not in buckets: buckets[bs_id] = []` ; `buckets[bs_id].append(bs_pose)` -/
def bucketPush (buckets : Dict (List P)) (b : Nat) (p : P) : Dict (List P) :=
  match buckets.get? b with
  | none => buckets.set b [p]
  | some ps => buckets.set b (ps ++ [p])

/-- body of `for bs_id in unknown` -/
def pushUnknown (ops : PoseOps P) (kg kc : P) (sample : Dict P) :
    List Nat → Dict (List P) → Except LinkErr (Dict (List P))
  | [], bk => .ok bk
  | b :: r, bk =>
    match sample.get? b with
    | some uc => pushUnknown ops kg kc sample r (bucketPush bk b (ops.mapRef kg kc uc))
    | none => .error .keyError

/-- body of `for bs_poses_in_sample in bs_poses_ref_cfs`.  `pick` stands for `list(known)[0]`
(CPython set iteration order): an arbitrary member of `known`. -/
def roundSample (ops : PoseOps P) (pick : List Nat → Nat) (bsPoses : Dict P) (toFind : List Nat)
    (sample : Dict P) (buckets : Dict (List P)) : Except LinkErr (Dict (List P)) :=
  let unknown := toFind.filter fun b => sample.keys.contains b
  let known := bsPoses.keys.filter fun b => sample.keys.contains b
  if Gen.C09.knownCond known.length then
    let knownBs := pick known
    match bsPoses.get? knownBs, sample.get? knownBs with
    | some kg, some kc => pushUnknown ops kg kc sample unknown buckets
    | _, _ => .error .keyError
  else .ok buckets

def roundSamples (ops : PoseOps P) (pick : Nat → List Nat → Nat) (bsPoses : Dict P) (toFind : List Nat) :
    Nat → List (Dict P) → Dict (List P) → Except LinkErr (Dict (List P))
  | _, [], bk => .ok bk
  | i, s :: rest, bk =>
    match roundSample ops (pick i) bsPoses toFind s bk with
    | .ok bk' => roundSamples ops pick bsPoses toFind (i + 1) rest bk'
    | .error e => .error e

/-- `for bs_id, poses in buckets.items(): bs_poses[bs_id] = _avarage_poses(poses)` -/
def applyBuckets (ops : PoseOps P) : Dict P → Dict (List P) → Dict P
  | bsPoses, [] => bsPoses
  | bsPoses, (b, ps) :: r => applyBuckets ops (bsPoses.set b (ops.avg ps)) r

/-- the `while remaining > 0` loop of `_estimate_remaining_bs_poses`; `fuel` bounds the model's recursion
(`link_never_out_of_fuel`: `remaining + 1` always suffices), `round` only indexes the `pick` oracle. -/
def linkLoop (ops : PoseOps P) (pick : Nat → Nat → List Nat → Nat) (refCfs : List (Dict P)) (all : List Nat) :
    Nat → Nat → Dict P → List Nat → Nat → Except LinkErr (Dict P)
  | 0, _, _, _, _ => .error .fuel
  | fuel + 1, round, bsPoses, toFind, remaining =>
    if Gen.C09.loopCond remaining then
      match roundSamples ops (pick round) bsPoses toFind 0 refCfs [] with
      | .error e => .error e
      | .ok buckets =>
        let bsPoses' := applyBuckets ops bsPoses buckets
        let toFind' := setMinusKeys all bsPoses'
        if Gen.C09.doneCond toFind'.length then .ok bsPoses'                            -- break
        else if Gen.C09.stuckCond toFind'.length remaining then .error .cannotLink    -- raise
        else linkLoop ops pick refCfs all fuel (round + 1) bsPoses' toFind' toFind'.length
    else .ok bsPoses

/-- `_estimate_remaining_bs_poses(bs_poses_ref_cfs, bs_poses)` (returns the updated `bs_poses`) -/
def estimateRemaining (ops : PoseOps P) (pick : Nat → Nat → List Nat → Nat) (refCfs : List (Dict P))
    (bsPoses : Dict P) : Except LinkErr (Dict P) :=
  let all := allBs refCfs
  let toFind := setMinusKeys all bsPoses
  linkLoop ops pick refCfs all (toFind.length + 1) 0 bsPoses toFind toFind.length

/-- the poses collected for one sample in `_estimate_cf_poses` -/
def cfCandidates (ops : PoseOps P) (bsPoses : Dict P) : Dict P → Except LinkErr (List P)
  | [] => .ok []
  | (b, pc) :: r =>
    match bsPoses.get? b with
    | none => .error .keyError
    | some g =>
      match cfCandidates ops bsPoses r with
      | .ok t => .ok (ops.cfFrom g pc :: t)
      | .error e => .error e

/-- `_estimate_cf_poses` -/
def estimateCfPoses (ops : PoseOps P) (bsPoses : Dict P) : List (Dict P) → Except LinkErr (List P)
  | [] => .ok []
  | s :: rest =>
    match cfCandidates ops bsPoses s with
    | .error e => .error e
    | .ok [] => .error .avgEmpty
    | .ok (p :: ps) =>
      match estimateCfPoses ops bsPoses rest with
      | .ok t => .ok (ops.avg (p :: ps) :: t)
      | .error e => .error e

/-- the reference: first item of the first non-empty dict -/
def findReference : List (Dict P) → Option (Nat × P)
  | [] => none
  | [] :: r => findReference r
  | (kv :: _) :: _ => some kv

/-- `estimate`, from after `_angles_to_poses` on -/
def estimate (ops : PoseOps P) (pick : Nat → Nat → List Nat → Nat) (refCfs : List (Dict P)) :
    Except LinkErr (Dict P × List P) :=
  match findReference refCfs with
  | none => .error .noReference
  | some (b, p) =>
    match estimateRemaining ops pick refCfs [(b, p)] with
    | .error e => .error e
    | .ok bsPoses =>
      match estimateCfPoses ops bsPoses refCfs with
      | .error e => .error e
      | .ok cfPoses => .ok (bsPoses, cfPoses)

end Linking

/-! ## 3. Geometry solver: parameter-vector layout, index arrays, Jacobian sparsity -/

inductive SolveErr
  | keyError     -- `defs.bs_id_to_index[bs_id]` / `bs_index_to_id[index]`
  | valueError   -- numpy: negative dimension / reshape size mismatch
  | indexError   -- numpy index out of bounds
  deriving Repr, DecidableEq

/-- `sorted(...)` of base-station ids -/
def sortIds (ids : List Nat) : List Nat := ids.mergeSort (fun a b => decide (a ≤ b))

def enumFrom {α : Type} : Nat → List α → List (Nat × α)
  | _, [] => []
  | i, a :: r => (i, a) :: enumFrom (i + 1) r

/-- `_create_bs_map`: (id → index, index → id) over the sorted ids -/
def createBsMap (ids : List Nat) : Dict Nat × Dict Nat :=
  let e := enumFrom 0 (sortIds ids)
  (e.map (fun p => (p.2, p.1)), e)

/-- what `solve` stores in `LighthouseGeometrySolution` before solving -/
structure Defs where
  nBss : Nat
  nCfs : Nat
  nCfsInParams : Nat
  nSensors : Nat
  idToIndex : Dict Nat
  indexToId : Dict Nat
  deriving Repr, DecidableEq

/-- the set-up part of `solve`.  `len(matched_samples) - 1` is negative for an empty sample list; numpy then
raises ValueError (negative dimension) in `lil_matrix`/`np.zeros`. -/
def mkDefs (bsIds : List Nat) (nSamples nSensors : Nat) : Except SolveErr Defs :=
  match Gen.C09.nCfsInParamsOf (nSamples : Int) with
  | .ofNat n =>
    let m := createBsMap bsIds
    .ok { nBss := bsIds.length, nCfs := nSamples, nCfsInParams := n, nSensors := nSensors, idToIndex := m.1, indexToId := m.2 }
  | .negSucc _ => .error .valueError

/-- first loop nest of `_populate_indexes_and_jacobian` for one sample: (bs index, cf index, sensor index) per
angle pair -/
def samplePairs (defs : Defs) (cfI : Nat) : List Nat → Except SolveErr (List (Nat × Nat × Nat))
  | [] => .ok []
  | b :: r =>
    match defs.idToIndex.get? b with
    | none => .error .keyError
    | some k =>
      match samplePairs defs cfI r with
      | .ok t => .ok ((List.range defs.nSensors).map (fun s => (k, cfI, s)) ++ t)
      | .error e => .error e

def allPairsFrom (defs : Defs) : Nat → List (List Nat) → Except SolveErr (List (Nat × Nat × Nat))
  | _, [] => .ok []
  | cfI, s :: rest =>
    match samplePairs defs cfI (sortIds s) with
    | .error e => .error e
    | .ok p =>
      match allPairsFrom defs (cfI + 1) rest with
      | .ok t => .ok (p ++ t)
      | .error e => .error e

/-- the three index arrays (zipped): one entry per angle pair.  `samples` are the key sets of the matched samples -/
def pairIndexes (defs : Defs) (samples : List (List Nat)) : Except SolveErr (List (Nat × Nat × Nat)) :=
  allPairsFrom defs 0 samples

/-- Python `range(a, b)` -/
def pyRange (a b : Nat) : List Nat := List.range' a (b - a)

/-- the columns set to 1 in one row of `jac_sparsity` -/
def markRow (defs : Defs) (bsIndex cfI : Nat) : List Nat :=
  let first := Gen.C09.bsFirst bsIndex
  let bsCols := pyRange first (Gen.C09.bsRangeEnd first)
  if Gen.C09.cfGuard cfI then
    let first2 := Gen.C09.cfFirst (Gen.C09.nTotBsParams defs.nBss) cfI
    bsCols ++ pyRange first2 (Gen.C09.cfRangeEnd first2)
  else bsCols

def sampleRows (defs : Defs) (cfI : Nat) : List Nat → Except SolveErr (List (List Nat))
  | [] => .ok []
  | b :: r =>
    match defs.idToIndex.get? b with
    | none => .error .keyError
    | some k =>
      match sampleRows defs cfI r with
      | .ok t => .ok (List.replicate (Gen.C09.rowsPerPair defs.nSensors) (markRow defs k cfI) ++ t)
      | .error e => .error e

def allRowsFrom (defs : Defs) : Nat → List (List Nat) → Except SolveErr (List (List Nat))
  | _, [] => .ok []
  | cfI, s :: rest =>
    match sampleRows defs cfI (sortIds s) with
    | .error e => .error e
    | .ok p =>
      match allRowsFrom defs (cfI + 1) rest with
      | .ok t => .ok (p ++ t)
      | .error e => .error e

/-- `jac_sparsity` as the list of its rows, each row the list of marked columns (second loop nest) -/
def jacSparsity (defs : Defs) (samples : List (List Nat)) : Except SolveErr (List (List Nat)) :=
  allRowsFrom defs 0 samples

/-- shape of `jac_sparsity` -/
def jacShape (defs : Defs) (nPairs : Nat) : Nat × Nat :=
  (Gen.C09.lenResidualVec nPairs, Gen.C09.lenParamVec defs.nBss defs.nCfsInParams)

section Params
variable {α : Type}

/-- `a.reshape((n, w))` of a flat array: ValueError unless the size is `n * w` -/
def reshapeRows : Nat → Nat → List α → List (List α)
  | 0, _, _ => []
  | n + 1, w, l => l.take w :: reshapeRows n w (l.drop w)

def reshape (n w : Nat) (l : List α) : Except SolveErr (List (List α)) :=
  if l.length = n * w then .ok (reshapeRows n w l) else .error .valueError

/-- `_params_to_struct` -/
def paramsToStruct (defs : Defs) (params : List α) : Except SolveErr (List (List α) × List (List α)) :=
  let c := Gen.C09.bsParamCount defs.nBss
  match reshape defs.nBss Gen.C09.nParamsPerBs (params.take c) with
  | .error e => .error e
  | .ok bss =>
    match reshape defs.nCfsInParams Gen.C09.nParamsPerCf (params.drop c) with
    | .error e => .error e
    | .ok cfs => .ok (bss, cfs)

/-- gather structure of `_calc_residual`: row `2p + a` of the residual is computed from
`bss[index_angle_pair_to_bs[p]]`, `cfs_full[index_angle_pair_to_cf[p]]` (CF 0 = the zero pose),
sensor `index_angle_pair_to_sensor_base[p]` and the row's own target angle.  `rowFn row bs cf sensor a` stands
for the (row-wise) numerics. -/
def residualRows {β : Type} (rowFn : Nat → List α → List α → Nat → Nat → β) (bss cfsFull : List (List α)) :
    Nat → List (Nat × Nat × Nat) → Except SolveErr (List β)
  | _, [] => .ok []
  | p, (k, c, s) :: rest =>
    match bss[k]?, cfsFull[c]? with
    | some b, some cf =>
      match residualRows rowFn bss cfsFull (p + 1) rest with
      | .ok t => .ok (rowFn (2 * p) b cf s 0 :: rowFn (2 * p + 1) b cf s 1 :: t)
      | .error e => .error e
    | _, _ => .error .indexError

def calcResidual {β : Type} (rowFn : Nat → List α → List α → Nat → Nat → β) (zero : α) (defs : Defs)
    (pairs : List (Nat × Nat × Nat)) (params : List α) : Except SolveErr (List β) :=
  match paramsToStruct defs params with
  | .error e => .error e
  | .ok (bss, cfs) =>
    let cfsFull := List.replicate Gen.C09.nParamsPerCf zero :: cfs
    residualRows rowFn bss cfsFull 0 pairs

variable {P : Type}

/-- `params_bs[defs.bs_id_to_index[bs_id], :] = _pose_to_params(pose)` for all items -/
def fillBs (toParams : P → List α) (defs : Defs) : Dict P → List (List α) → Except SolveErr (List (List α))
  | [], rows => .ok rows
  | (b, p) :: r, rows =>
    match defs.idToIndex.get? b with
    | none => .error .keyError
    | some k => if k < rows.length then fillBs toParams defs r (rows.set k (toParams p)) else .error .indexError

/-- `params_cfs[index, :] = _pose_to_params(pose)` for `enumerate(cf_poses[1:])` -/
def fillCfs (toParams : P → List α) : Nat → List P → List (List α) → Except SolveErr (List (List α))
  | _, [], rows => .ok rows
  | i, p :: r, rows => if i < rows.length then fillCfs toParams (i + 1) r (rows.set i (toParams p)) else .error .indexError

/-- `_populate_initial_guess` followed by `x0 = np.hstack((params_bs.ravel(), params_cfs.ravel()))` -/
def initialX0 (toParams : P → List α) (zero : α) (defs : Defs) (bsPoses : Dict P) (cfPoses : List P) :
    Except SolveErr (List α) :=
  match fillBs toParams defs bsPoses (List.replicate defs.nBss (List.replicate Gen.C09.nParamsPerBs zero)) with
  | .error e => .error e
  | .ok pb =>
    match fillCfs toParams 0 (cfPoses.drop 1) (List.replicate defs.nCfsInParams (List.replicate Gen.C09.nParamsPerCf zero)) with
    | .error e => .error e
    | .ok pc => .ok (pb.flatten ++ pc.flatten)

/-- `for i in range(len(matched_samples) - 1): cf_poses.append(_params_to_pose(cf_poses[i]))` -/
def condenseCfs (toPose : List α → P) (cfs : List (List α)) : List Nat → Except SolveErr (List P)
  | [] => .ok []
  | i :: r =>
    match cfs[i]? with
    | none => .error .indexError
    | some row =>
      match condenseCfs toPose cfs r with
      | .ok t => .ok (toPose row :: t)
      | .error e => .error e

/-- `for index, pose in enumerate(bss): bs_poses[bs_index_to_id[index]] = _params_to_pose(pose)` -/
def condenseBs (toPose : List α → P) (defs : Defs) : List (Nat × List α) → Dict P → Except SolveErr (Dict P)
  | [], d => .ok d
  | (index, row) :: r, d =>
    match defs.indexToId.get? index with
    | none => .error .keyError
    | some id => condenseBs toPose defs r (d.set id (toPose row))

/-- pose part of `_condense_results`: (bs_poses, cf_poses) read back from the solver's parameter vector;
`ident` is `Pose()` -/
def condense (toPose : List α → P) (ident : P) (defs : Defs) (x : List α) : Except SolveErr (Dict P × List P) :=
  match paramsToStruct defs x with
  | .error e => .error e
  | .ok (bss, cfs) =>
    match condenseCfs toPose cfs (List.range (Gen.C09.condenseCfCount defs.nCfs)) with
    | .error e => .error e
    | .ok cfPoses =>
      match condenseBs toPose defs (enumFrom 0 bss) [] with
      | .error e => .error e
      | .ok bsPoses => .ok (bsPoses, ident :: cfPoses)

/-- `_params_to_pose`'s slices: `params[:len_rot_vec]`, `params[len_rot_vec:len_pose]` -/
def splitPoseParams (row : List α) : List α × List α :=
  (row.take Gen.C09.lenRotVec, (row.take Gen.C09.lenPose).drop Gen.C09.lenRotVec)

end Params

/-! ## 5. Row-wise numerics of the residual: `_rotate_translate`, `_calc_angle_pairs`, `_calc_residual` (one row)

Generic in the number type: the theorems use an arbitrary field with abstract `norm cos sin atan2 tan`
(Proofs/C09Resid), the driver uses `Float` for the correspondence with numpy. -/

structure V3 (α : Type) where
  x : α
  y : α
  z : α
  deriving Repr, DecidableEq

section Resid
variable {α : Type} [Add α] [Sub α] [Mul α] [Neg α] [Div α] [OfNat α 0] [OfNat α 1]

def V3.add (a b : V3 α) : V3 α := ⟨a.x + b.x, a.y + b.y, a.z + b.z⟩
def V3.sub (a b : V3 α) : V3 α := ⟨a.x - b.x, a.y - b.y, a.z - b.z⟩
def V3.neg (a : V3 α) : V3 α := ⟨-a.x, -a.y, -a.z⟩
def V3.smul (k : α) (a : V3 α) : V3 α := ⟨k * a.x, k * a.y, k * a.z⟩
def V3.dot (a b : V3 α) : α := a.x * b.x + a.y * b.y + a.z * b.z
/-- `np.cross(a, b)` -/
def V3.cross (a b : V3 α) : V3 α := ⟨a.y * b.z - a.z * b.y, a.z * b.x - a.x * b.z, a.x * b.y - a.y * b.x⟩
def V3.zero : V3 α := ⟨0, 0, 0⟩

/-- the numeric primitives numpy provides -/
structure Trig (α : Type) where
  norm : V3 α → α
  cos : α → α
  sin : α → α
  atan2 : α → α → α
  tan : α → α
  isZero : α → Bool

/-- `v = np.nan_to_num(rot_vecs / theta)`: `0/0 = nan ↦ 0` (a rotation vector of norm 0 is the zero vector) -/
def unitAxis (tr : Trig α) (r : V3 α) : V3 α :=
  let theta := tr.norm r
  if tr.isZero theta then V3.zero else ⟨r.x / theta, r.y / theta, r.z / theta⟩

/-- Rodrigues' formula as written in `_rotate_translate`:
`cos_theta * points + sin_theta * np.cross(v, points) + dot * (1 - cos_theta) * v + translations` -/
def rodrigues (c s : α) (v p : V3 α) : V3 α :=
  ((V3.smul c p).add (V3.smul s (v.cross p))).add (V3.smul (p.dot v * (1 - c)) v)

/-- one row of `_rotate_translate(points, rot_vecs, translations)` -/
def rotateTranslate (tr : Trig α) (p r t : V3 α) : V3 α :=
  let theta := tr.norm r
  (rodrigues (tr.cos theta) (tr.sin theta) (unitAxis tr r) p).add t

/-- one row of `_calc_angle_pairs`: a pose is (rotation vector, translation) -/
def calcAnglePair (tr : Trig α) (bs cf : V3 α × V3 α) (sens : V3 α) : α × α :=
  let sensorPoint := rotateTranslate tr sens cf.1 cf.2
  -- translate and inverse rotate (-rotation vector == inverse rotation)
  let pb := rotateTranslate tr (sensorPoint.sub bs.2) bs.1.neg V3.zero
  (tr.atan2 pb.y pb.x, tr.atan2 pb.z pb.x)

/-- the two rows of `_calc_residual` belonging to one angle pair:
`np.tan(angles - target_angles) * norm(bs_position - cf_position)` -/
def residualPair (tr : Trig α) (bs cf : V3 α × V3 α) (sens : V3 α) (target : α × α) : α × α :=
  let a := calcAnglePair tr bs cf sens
  let d := tr.norm (bs.2.sub cf.2)
  (tr.tan (a.1 - target.1) * d, tr.tan (a.2 - target.2) * d)

/-- `Pose.rotate_translate(point)` for a pose given by a rotation *function* and a translation -/
def poseApply (rot : V3 α → V3 α) (t : V3 α) (p : V3 α) : V3 α := (rot p).add t

/-- `LighthouseBsVector.from_cart(v)` then `angle_list()`: (horizontal, vertical) = (atan2(y, x), atan2(z, x)) -/
def fromCartAngles (tr : Trig α) (v : V3 α) : α × α := (tr.atan2 v.y v.x, tr.atan2 v.z v.x)

end Resid

/-! ## 6. Quaternion averaging in `_avarage_poses`: the matrix handed to the eigen-solver

`q_average(Q)` returns the dominant eigenvector of `Q.T @ Q = Σᵢ qᵢ qᵢᵀ` (the eigen-decomposition itself is numerics,
a parameter `domEig`).  What is modelled is that the average is a function of that outer-product sum only. -/
section QAvg
variable {α : Type} [Add α] [Mul α] [Neg α] [OfNat α 0]

/-- `q qᵀ` -/
def outer (q : List α) : List (List α) := q.map fun a => q.map fun b => a * b

def matAdd (A B : List (List α)) : List (List α) := List.zipWith (List.zipWith (· + ·)) A B

def zeroMat (n : Nat) : List (List α) := List.replicate n (List.replicate n 0)

/-- `Q.T @ Q` for the rows `qs` of `Q` (each of length `n`) -/
def gram (n : Nat) : List (List α) → List (List α)
  | [] => zeroMat n
  | q :: rest => matAdd (outer q) (gram n rest)

/-- `q_average`: `eigvecs[:, eigvals.argmax()]` of `eigh(Q.T @ Q)` -/
def qAverage (domEig : List (List α) → List α) (qs : List (List α)) : List α := domEig (gram 4 qs)

/-- the same rotation written with the other sign of its quaternion -/
def flipSign (flip : Bool) (q : List α) : List α := if flip then q.map (fun a => -a) else q

end QAvg

/-! ## 7. Sessions: the caller's objects across repeated calls of `solve`

No statement of the public entry points (`match`, `estimate`, `solve` and the helpers they hand their arguments to)
mutates an object owned by the caller (`Gen.callerArgMutations = []`, Tie A), so a call is modelled as a function that
returns the caller's objects as they came, together with its result. -/
section Session
variable {α P : Type}

/-- the objects the caller passes to `solve` and keeps afterwards -/
structure SolveArgs (P : Type) where
  guessBs : Dict P
  guessCf : List P
  samples : List (List Nat)

/-- one `solve` call as seen by the caller: (the caller's objects afterwards, the start vector `x0` the solver used) -/
def solveCall (toParams : P → List α) (zero : α) (defs : Defs) (a : SolveArgs P) : SolveArgs P × Except SolveErr (List α) :=
  (a, initialX0 toParams zero defs a.guessBs a.guessCf)

/-- `n` consecutive `solve` calls on the same objects (retry / re-solve) -/
def solveSession (toParams : P → List α) (zero : α) (defs : Defs) : Nat → SolveArgs P → SolveArgs P × List (Except SolveErr (List α))
  | 0, a => (a, [])
  | n + 1, a =>
    let (a1, r) := solveCall toParams zero defs a
    let (a2, rs) := solveSession toParams zero defs n a1
    (a2, r :: rs)

end Session

/-! ## 4. IPPE <-> CF axis permutation -/

abbrev Mat := List (List Int)

def dot (a b : List Int) : Int := (List.zipWith (· * ·) a b).foldl (· + ·) 0

def col (m : Mat) (j : Nat) : List Int := m.map fun r => r.getD j 0

/-- `np.transpose` of a 3x3 matrix -/
def transpose3 (m : Mat) : Mat := [col m 0, col m 1, col m 2]

/-- `np.dot(M, v)` -/
def matVec (m : Mat) (v : List Int) : List Int := m.map fun r => dot r v

/-- `np.dot(A, B)` for 3x3 matrices -/
def matMul (a b : Mat) : Mat := a.map fun r => [dot r (col b 0), dot r (col b 1), dot r (col b 2)]

def ident3 : Mat := [[1, 0, 0], [0, 1, 0], [0, 0, 1]]

def det3 : Mat → Int
  | [[a, b, c], [d, e, f], [g, h, i]] => a * (e * i - f * h) - b * (d * i - f * g) + c * (d * h - e * g)
  | _ => 0

/-- `IppeCf._R_cf_to_ippe = np.transpose(_R_ippe_to_cf)` -/
def rCfToIppe : Mat := transpose3 Gen.C09.rIppeToCf
/-- `_rotate_vector_to_ippe` -/
def vecToIppe (v : List Int) : List Int := matVec rCfToIppe v
/-- `_rotate_vector_to_cf` -/
def vecToCf (v : List Int) : List Int := matVec Gen.C09.rIppeToCf v
/-- `_rotate_rot_mat_to_cf` -/
def matToCf (r : Mat) : Mat := matMul Gen.C09.rIppeToCf (matMul r rCfToIppe)
/-- the inverse conjugation (not in the code; used to state that `matToCf` loses nothing) -/
def matToIppe (r : Mat) : Mat := matMul rCfToIppe (matMul r Gen.C09.rIppeToCf)

end CfVerif.C09

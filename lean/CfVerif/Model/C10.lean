/-
Model/C10 — executable model of the request-retry mechanism of `cflib.crazyflie.Crazyflie`
(`send_packet`, `_no_answer_do_retry`, `_check_for_answers`, `close_link`, `_link_error_cb`, `open_link`).

One `Ev` is one atomic step of one of the threads involved:
  * `send`      a caller's `send_packet(pk, expected_reply, timeout=…)` (the critical section under `_send_lock`);
  * `recv`      the incoming thread's `_check_for_answers(pk)` for one received packet;
  * `expire i`  timer thread `i` wakes up after its interval and finds itself not cancelled
                (`threading.Timer.run`: `finished.wait(interval); if not finished.is_set(): …`);
  * `run i`     that thread's callback `_no_answer_do_retry` → `send_packet(…, resend=True)` (critical section);
                anything may happen between `expire i` and `run i` (the callback waits for `_send_lock`, or is just slow);
                `Timer.cancel()` has no effect any more at that point;
  * `advance`   virtual time passes;
  * `closeSetpoint`, `closeRest`   the two halves of `close_link` (the zero set-point goes through `send_packet`,
                then the link is closed and the patterns are dropped); other threads may run in between;
  * `linkError` the driver's error callback `_link_error_cb` up to the point where it calls the application's callbacks
                (`connection_failed` / `disconnected` / `connection_lost` / `disconnected_link_error`), `linkErrorEnd` what it does after
                they returned.  The callbacks may call back into the library (`open_link`, `send_packet`, `close_link`): such a nested
                history is simply the events between `linkError` and `linkErrorEnd`.  Likewise `closeRest` … `closeEnd` (slot:
                `disconnected`) and `openLink` … `openEnd` (slot: the connection set-up that `open_link` starts on the new link).
                Whether the pending timers are cancelled / forgotten BEFORE the slot (`closeEarly`, `errorEarly`, `openEarly`, from
                Gen) or after it decides in which of the two steps that happens;
  * `openLink`  `open_link` (the part that concerns this mechanism: a new link object becomes `self.link`);
  * `setResend` the driver changes `link.needs_resending` (radio driver, after the safelink negotiation).
The schedule - every ordering of replies, timer expiries, timer callbacks, closes and re-opens - is the event list.

The decisions taken inside `send_packet` (arm a retry timer? hand the packet to the link?) are NOT written
here: they are the Boolean functions `Gen.C10.sendArms` / `Gen.C10.sendTransmits`, regenerated from the source, of the
conditions the code tests.  Likewise what close/error/open do to the pending timers.  `srcCfg` packages what the
current source says; `liveCfg` is the behaviour of the code before the D10 repair (kept for the counterexamples).

Ghost fields (never branched on): `Timer.req`, `Tx.req`/`Tx.retry`/`Tx.due`/`Tx.interval`/`Tx.onClosed`, `State.closed`,
`State.nextReq`.  Core Lean only.
-/
import CfVerif.Gen.C10
namespace CfVerif.C10

abbrev Pattern := List Nat

/-- a CRTP packet object: `id` is the identity of the Python object, `size` = `len(pk.data)` -/
structure Pk where
  id : Nat
  header : Nat
  size : Nat
deriving DecidableEq, Repr

inductive TSt
  | armed      -- started, interval not over (or over but the thread has not looked yet)
  | cancelled  -- `cancel()` came before the thread looked
  | expired    -- the thread found itself not cancelled; the callback has not run yet
  | done       -- the callback has run
deriving DecidableEq, Repr

structure Timer where
  pk : Pk
  pattern : Pattern
  interval : Nat
  deadline : Nat
  req : Nat        -- ghost: the `send` this retry chain belongs to
  st : TSt
deriving DecidableEq, Repr

structure Link where
  sid : Nat                -- identity of the link object
  needsResending : Bool
deriving DecidableEq, Repr

/-- one `link.send_packet(pk)` -/
structure Tx where
  time : Nat
  sid : Nat                -- the link object that got the packet
  pk : Pk
  req : Nat                -- ghost: which `send` (or set-point) this transmission belongs to
  retry : Option Nat       -- ghost: the timer whose callback transmitted (none: first transmission)
  due : Nat                -- ghost: that timer's deadline (first transmission: the time of the send)
  interval : Nat           -- ghost: the interval of the timer armed / asked for with this transmission
  onClosed : Bool          -- ghost: `close()` had been called on that link object before
deriving DecidableEq, Repr

inductive Err
  | tooLarge        -- `Exception('Data part of packet is too large')`, raised before anything else happens
  | notEnabled      -- harness-level: the timer thread cannot take this step now
  | keyError
  | attributeError  -- `self.link.…` on `None`
  | blocked         -- harness-level: the thread waits for `_send_lock`, which is never released again
deriving DecidableEq, Repr

abbrev Dict := List (Pattern × Nat)

/-- `d.get(k)` -/
def dget : Dict → Pattern → Option Nat
  | [], _ => none
  | (k', v) :: r, k => if k' = k then some v else dget r k

/-- `d[k] = v` (an existing key keeps its position, a new key goes last) -/
def dset : Dict → Pattern → Nat → Dict
  | [], k, v => [(k, v)]
  | (k', v') :: r, k, v => if k' = k then (k, v) :: r else (k', v') :: dset r k v

/-- `del d[k]` -/
def ddel : Dict → Pattern → Dict
  | [], _ => []
  | (k', v') :: r, k => if k' = k then ddel r k else (k', v') :: ddel r k

structure State where
  now : Nat := 0
  link : Option Link := none
  nextSid : Nat := 0
  nextReq : Nat := 0
  patterns : Dict := []             -- `_answer_patterns`: pattern ↦ index of the registered timer
  timers : List Timer := []         -- every Timer object ever created, in creation order
  log : List Tx := []               -- transmissions, newest first
  closed : List Nat := []           -- ghost: link objects on which `close()` was called
deriving DecidableEq, Repr

/-- What the source does where the repaired and the unrepaired code differ (and a few constants). -/
structure Cfg where
  /-- `send_packet` creates+registers+starts a retry timer; arguments: link open, expected_reply non-empty, resend,
      link.needs_resending, pattern registered, the registered timer is the one whose callback this is -/
  arms : Bool → Bool → Bool → Bool → Bool → Bool → Bool
  /-- `send_packet` reaches `self.link.send_packet(pk)` -/
  transmits : Bool → Bool → Bool → Bool → Bool → Bool → Bool
  /-- the retry callback hands the request's own timeout back to `send_packet` (else the default applies) -/
  retryKeepsTimeout : Bool
  defaultTimeout : Nat
  closeSetpoint : Bool
  closeCancels : Bool
  closeClears : Bool
  errorCancels : Bool
  errorClears : Bool
  openCancels : Bool
  openClears : Bool
  /-- the cancelling / forgetting happens before the application callbacks (resp. the connection set-up) run -/
  closeEarly : Bool
  errorEarly : Bool
  openEarly : Bool
  /-- `send_packet` releases `_send_lock` on every exit of the critical section (`try … finally`), not only on the normal one -/
  releasesOnRaise : Bool

/-- the current source, as extracted -/
def srcCfg : Cfg where
  arms := Gen.C10.sendArms
  transmits := Gen.C10.sendTransmits
  retryKeepsTimeout := Gen.C10.retryTimeout == "timeout"
  defaultTimeout := Gen.C10.defaultTimeoutMs
  closeSetpoint := Gen.C10.closeSendsSetpoint
  closeCancels := Gen.C10.closeCancels
  closeClears := Gen.C10.closeClears
  errorCancels := Gen.C10.errorCancels
  errorClears := Gen.C10.errorClears
  openCancels := Gen.C10.openCancels
  openClears := Gen.C10.openClears
  closeEarly := Gen.C10.closeForgetsBeforeCallbacks
  errorEarly := Gen.C10.errorForgetsBeforeCallbacks
  openEarly := Gen.C10.openForgetsBeforeLink
  releasesOnRaise := Gen.C10.sendLockReleasedInFinally

/-- the code before the D10 repair: a resend transmits whenever a link is open, re-arms whenever the pattern is
registered (by whichever timer), always with the default timeout; `close_link` drops the patterns but cancels nothing,
`_link_error_cb` and `open_link` touch neither -/
def liveCfg : Cfg where
  arms := fun lo he rs nr pe _ => lo && (if he && !rs && nr then true else rs && pe)
  transmits := fun lo _ _ _ _ _ => lo
  retryKeepsTimeout := false
  defaultTimeout := 200
  closeSetpoint := true
  closeCancels := false
  closeClears := true
  errorCancels := false
  errorClears := false
  openCancels := false
  openClears := false
  closeEarly := true
  errorEarly := true
  openEarly := true
  releasesOnRaise := false

/-- the current code with the `_cancel_answer_timers()` of `_link_error_cb` moved behind the application callbacks
(kept for the counterexample: a reconnect + request from inside `connection_lost` loses its retry timer) -/
def lateErrorCfg : Cfg := { srcCfg with errorEarly := false }

def cancelT (t : Timer) : Timer := if t.st = .armed then { t with st := .cancelled } else t
def setSt (st : TSt) (t : Timer) : Timer := { t with st := st }

/-- `for timer in list(patterns.values()): timer.cancel()` -/
def cancelAll : List Timer → Dict → List Timer
  | ts, [] => ts
  | ts, (_, i) :: r => cancelAll (ts.modify i cancelT) r

/-- the zero set-point `close_link` sends first -/
def setpointPk : Pk := { id := 0, header := Gen.C10.headerExpr Gen.C10.commanderPort 0, size := Gen.C10.setpointSize }

/-- the critical section of `send_packet` after the size check.  `retry = some i`: called from the callback of timer `i`
(`resend=True`, `expected` is then the full pattern); `req`, `due` are ghost. -/
def sendCore (c : Cfg) (s : State) (pk : Pk) (expected : Pattern) (timeout : Nat)
    (req : Nat) (retry : Option Nat) (due : Nat) : Except Err State :=
  let rs := retry.isSome
  let he := !expected.isEmpty
  let pe := (dget s.patterns expected).isSome
  let ti := rs && (dget s.patterns expected == retry)
  match s.link with
  | none =>
    if c.arms false he rs false pe ti || c.transmits false he rs false pe ti then .error .attributeError else .ok s
  | some l =>
    let pat := if rs then expected else pk.header :: expected
    let s1 : State :=
      if c.arms true he rs l.needsResending pe ti then
        { s with timers := s.timers ++ [{ pk := pk, pattern := pat, interval := timeout, deadline := s.now + timeout,
                                          req := req, st := .armed }],
                 patterns := dset s.patterns pat s.timers.length }
      else s
    let s2 : State :=
      if c.transmits true he rs l.needsResending pe ti then
        { s1 with log := { time := s.now, sid := l.sid, pk := pk, req := req, retry := retry, due := due,
                           interval := timeout, onClosed := s.closed.contains l.sid } :: s1.log }
      else s1
    .ok s2

/-- `data[0:len(p)]` is `p` -/
def isPrefix (p d : Pattern) : Bool := p.length ≤ d.length && p == d.take p.length

/-- the loop of `_check_for_answers` over the registered patterns, in dictionary order, as coded
(`if len(match) >= len(longest_match): longest_match = match`; the comparison is `Gen.C10.checkBetter`) -/
def longestMatch (d : Pattern) : Dict → Pattern → Pattern
  | [], lm => lm
  | (p, _) :: r, lm =>
    if isPrefix p d then
      let m := d.take p.length
      longestMatch d r (if Gen.C10.checkBetter m.length lm.length then m else lm)
    else longestMatch d r lm

/-- `_check_for_answers(pk)` with `data = (pk.header,) + tuple(pk.data)` -/
def checkForAnswers (s : State) (data : Pattern) : Except Err State :=
  let lm := longestMatch data s.patterns []
  if lm.length > 0 then
    match dget s.patterns lm with
    | some i => .ok { s with timers := s.timers.modify i cancelT, patterns := ddel s.patterns lm }
    | none => .error .keyError
  else .ok s

inductive Ev
  | openLink (needsResending : Bool)
  | setResend (needsResending : Bool)
  | send (pk : Pk) (expected : Pattern) (timeout : Nat)
  | recv (header : Nat) (data : List Nat)
  | expire (i : Nat)
  | run (i : Nat)
  | advance (dt : Nat)
  | closeSetpoint
  | closeRest
  | linkError
  | closeEnd          -- `close_link` after the `disconnected` callbacks returned
  | linkErrorEnd      -- `_link_error_cb` after the application callbacks returned
  | openEnd           -- `open_link` after the connection set-up it started returned
deriving DecidableEq, Repr

/-- closing the link object (if any) and forgetting it -/
def dropLink (s : State) : State :=
  match s.link with
  | some l => { s with link := none, closed := l.sid :: s.closed }
  | none => s

def forget (cancels clears : Bool) (s : State) : State :=
  { s with timers := if cancels then cancelAll s.timers s.patterns else s.timers,
           patterns := if clears then [] else s.patterns }

def step (c : Cfg) (s : State) : Ev → Except Err State
  | .openLink nr =>
    let s1 := forget (c.openCancels && c.openEarly) (c.openClears && c.openEarly) s
    .ok { s1 with link := some { sid := s.nextSid, needsResending := nr }, nextSid := s.nextSid + 1 }
  | .openEnd => .ok (forget (c.openCancels && !c.openEarly) (c.openClears && !c.openEarly) s)
  | .setResend nr =>
    match s.link with
    | some l => .ok { s with link := some { l with needsResending := nr } }
    | none => .ok s
  | .send pk expected timeout =>
    if pk.size > Gen.C10.maxDataSize then .error .tooLarge
    else sendCore c { s with nextReq := s.nextReq + 1 } pk expected timeout s.nextReq none s.now
  | .recv h d => checkForAnswers s (h :: d)
  | .expire i =>
    match s.timers[i]? with
    | some t =>
      if t.st = .armed ∧ t.deadline ≤ s.now then .ok { s with timers := s.timers.modify i (setSt .expired) }
      else .error .notEnabled
    | none => .error .notEnabled
  | .run i =>
    match s.timers[i]? with
    | some t =>
      if t.st = .expired then
        sendCore c { s with timers := s.timers.modify i (setSt .done) } t.pk t.pattern
          (if c.retryKeepsTimeout then t.interval else c.defaultTimeout) t.req (some i) t.deadline
      else .error .notEnabled
    | none => .error .notEnabled
  | .advance dt => .ok { s with now := s.now + dt }
  | .closeSetpoint =>
    if c.closeSetpoint && s.link.isSome then
      sendCore c { s with nextReq := s.nextReq + 1 } setpointPk [] c.defaultTimeout s.nextReq none s.now
    else .ok s
  | .closeRest => .ok (forget (c.closeCancels && c.closeEarly) (c.closeClears && c.closeEarly) (dropLink s))
  | .closeEnd => .ok (forget (c.closeCancels && !c.closeEarly) (c.closeClears && !c.closeEarly) s)
  | .linkError => .ok (forget (c.errorCancels && c.errorEarly) (c.errorClears && c.errorEarly) (dropLink s))
  | .linkErrorEnd => .ok (forget (c.errorCancels && !c.errorEarly) (c.errorClears && !c.errorEarly) s)

/-- an exception (or a step that is not enabled) leaves the object as it was -/
def stepT (c : Cfg) (s : State) (e : Ev) : State :=
  match step c s e with
  | .ok s' => s'
  | .error _ => s

def run (c : Cfg) (s : State) (evs : List Ev) : State := evs.foldl (stepT c) s

/-- A `send` / timer callback / set-point during which the DRIVER reports a link error from inside `link.send_packet(pk)`
(e.g. `RadioDriver.send_packet` when its out queue stays full).  `_link_error_cb`, called by the thread that is inside
`send_packet`, only records the error (`Gen.C10.errorCbDefersInsideSend`); `send_packet` runs it right after the lock has been
released (`Gen.C10.sendRunsDeferredErrorAfterRelease`).  So the critical section completes as usual and - if the packet was handed
to the link at all, otherwise the driver has nothing to report - the same thread then runs `_link_error_cb`: `linkError`, `linkErrorEnd`.
(Other threads may run between the two; that is the event list `[e, …, linkError]`, covered by the theorems about all event lists.) -/
def stepReportingError (c : Cfg) (s : State) (e : Ev) : State :=
  let s1 := stepT c s e
  if s1.log.length > s.log.length then stepT c (stepT c s1 .linkError) .linkErrorEnd else s1

def init : State := {}

/-! ## exceptional exits of the critical section and the send lock

`link.send_packet(pk)` (the driver) and `self.packet_sent.call(pk)` (any subscriber) may raise any exception.  Both are the last
two statements of the critical section, so the retry timer has been armed and the packet has been handed to the link (the model's
`log` records the call of `link.send_packet`, whatever the driver then does) when the exception leaves `send_packet` towards the caller
(the timer thread for a retry).  What happens to `_send_lock` then is `Cfg.releasesOnRaise` (from Gen: the lock is released in a
`finally`).  `LState` adds the lock to the state; `lstep` is `step` plus: a raising variant of `send` / of a timer callback, and
blocking: once the lock is held for ever, every step that has to take it (`send`, a timer callback, the set-point of `close_link`)
never completes. -/

structure LState where
  st : State := {}
  locked : Bool := false      -- `_send_lock` was left acquired by a critical section that raised
  raised : Nat := 0           -- ghost: exceptions that reached callers of `send_packet`
deriving DecidableEq, Repr

inductive LEv
  | ev (e : Ev)
  | sendRaise (pk : Pk) (expected : Pattern) (timeout : Nat)   -- `send`, and the driver or a `packet_sent` subscriber raises
  | runRaise (i : Nat)                                          -- the same inside the callback of timer `i`
deriving DecidableEq, Repr

def LEv.erase : LEv → Ev
  | .ev e => e
  | .sendRaise pk ex t => .send pk ex t
  | .runRaise i => .run i

def LEv.raises : LEv → Bool
  | .ev _ => false
  | _ => true

/-- the step has to acquire `_send_lock` (evaluated for steps that are otherwise enabled) -/
def takesLock (c : Cfg) (s : State) : Ev → Bool
  | .send .. => true
  | .run _ => true
  | .closeSetpoint => c.closeSetpoint && s.link.isSome
  | _ => false

def lstep (c : Cfg) (ls : LState) (le : LEv) : Except Err LState :=
  match step c ls.st le.erase with
  | .error er => .error er          -- size check / timer thread not at its callback: before the lock is touched
  | .ok s' =>
    if ls.locked && takesLock c ls.st le.erase then .error .blocked
    else if le.raises && s'.log.length > ls.st.log.length then
      -- nothing is called (and nothing can raise) unless the packet is handed to the link
      .ok { st := s', locked := !c.releasesOnRaise, raised := ls.raised + 1 }
    else .ok { ls with st := s' }

def lstepT (c : Cfg) (ls : LState) (le : LEv) : LState :=
  match lstep c ls le with
  | .ok ls' => ls'
  | .error _ => ls

def lrun (c : Cfg) (ls : LState) (evs : List LEv) : LState := evs.foldl (lstepT c) ls

def linit : LState := {}

/-- the current code with the `try … finally` of `send_packet` flattened (kept for the counterexample) -/
def flatSendCfg : Cfg := { srcCfg with releasesOnRaise := false }

/-- `needs_resending` as the drivers set it -/
inductive DriverKind
  | base                            -- `CRTPDriver.__init__` default (drivers that do not override it)
  | usb
  | radio (negotiated : Bool) (hasSafelink : Bool)
deriving DecidableEq, Repr

def driverNeedsResending : DriverKind → Bool
  | .base => Gen.C10.crtpDriverNeedsResending
  | .usb => Gen.C10.usbDriverNeedsResending
  | .radio false _ => Gen.C10.radioDriverNeedsResendingInitially
  | .radio true sl => Gen.C10.radioNeedsResendingAfterNegotiation sl

end CfVerif.C10

/-
Model/C11: executable model of cflib's TOC cache.

* `TocCache` (`__init__`, `fetch`, `insert`, `_encoder`, `_decoder`) over a file system
  (`FS`: files in directory-listing order, existing directories, a "writes fail" flag);
* the cache paths of `TocFetcher._new_packet_cb` (hit -> table taken from the cache,
  miss -> element-by-element download, then `insert`);
* the two functions the code uses from `json`, at character level:
  `printObj`/`printToc`  = `json.dumps(toc, indent=<Gen.indent>, default=self._encoder)` for the value
                           shape the encoder emits (dict of dict of elements; str/int/bool leaves);
  `step`/`run`/`finish`  = `json.loads(text, object_hook=self._decoder)`: a character-at-a-time
                           push-down automaton accepting exactly CPython's JSON dialect (objects, arrays,
                           strings with escapes and surrogate pairing, numbers, `true false null NaN
                           Infinity -Infinity`, whitespace ` \t\n\r`), calling the hook each time an
                           object closes, as CPython's scanner does.
  Python `str` values are lists of code points (`Str`), so lone surrogates are representable.

File names, indent, encoder keys, decoder keys and class names come from Gen/C11 (Tie A).  No Mathlib.
-/
import CfVerif.Base.Struct
import CfVerif.Gen.C11
namespace CfVerif.C11
open CfVerif

/-- a Python `str`: its code points -/
abbrev Str := List Nat

def ofString (s : String) : Str := s.toList.map Char.toNat

inductive Cls | log | param
  deriving DecidableEq, Repr

/-- Python values that `json.loads` with the `_decoder` hook can produce. -/
inductive JVal
  | null
  | bool (b : Bool)
  | int (i : Int)
  | flt (lex : Str)                  -- a float, carried as its lexeme (`1e5`, `NaN`, `-Infinity`, ...)
  | str (s : Str)
  | arr (l : List JVal)
  | obj (l : List (Str × JVal))      -- a dict: insertion order, unique keys (built with `dictSet`)
  /-- a `LogTocElement` / `ParamTocElement` instance as rebuilt by `_decoder`: `ident`, `access` and
  `extended` are whatever JSON value the file held; the other four went through `str()`. -/
  | elem (cls : Cls) (ident : JVal) (group name ctype pytype : Str) (access : JVal) (ext : Option JVal)
  deriving Repr

/-- outcome classes of the modelled Python code that are not values -/
inductive Err
  | exc          -- a Python `Exception` was raised
  | unmodelled   -- the code did something this model does not describe (see `hook`, `pyStr`, `truthy`)
  deriving DecidableEq, Repr

/-! ## dict -/

def dictGet : List (Str × JVal) → Str → Option JVal
  | [], _ => none
  | (k, v) :: r, key => if k = key then some v else dictGet r key

/-- `d[key] = v`: an existing key keeps its position, a new key goes last -/
def dictSet : List (Str × JVal) → Str → JVal → List (Str × JVal)
  | [], key, v => [(key, v)]
  | (k, w) :: r, key, v => if k = key then (k, v) :: r else (k, w) :: dictSet r key v

/-! ## `_decoder` (the `object_hook`) -/

def natDigits (n : Nat) : Str :=
  if h : n < 10 then [48 + n] else natDigits (n / 10) ++ [48 + n % 10]
termination_by n
decreasing_by omega

def intDigits : Int → Str
  | .ofNat n => natDigits n
  | .negSucc n => 45 :: natDigits (n + 1)

/-- `str(v)` for the JSON values where it is simple; `str` of floats, lists, dicts and element
objects (Python `repr` formatting) is not modelled. -/
def pyStr : JVal → Except Err Str
  | .str s => .ok s
  | .int i => .ok (intDigits i)
  | .bool true => .ok (ofString "True")
  | .bool false => .ok (ofString "False")
  | .null => .ok (ofString "None")
  | _ => .error .unmodelled

def kClass : Str := ofString (Gen.C11.encoderKeys.headD "")
def clsName : Cls → Str
  | .log => ofString Gen.C11.logClassName
  | .param => ofString Gen.C11.paramClassName

/-- `obj[key]` (KeyError when absent) -/
def getKey (d : List (Str × JVal)) (key : String) : Except Err JVal :=
  match dictGet d (ofString key) with
  | some v => .ok v
  | none => .error .exc

/-- the tagged branch of `_decoder` once `eval(obj['__class__'])()` produced an instance of `cls` -/
def decodeElem (cls : Cls) (d : List (Str × JVal)) : Except Err JVal :=
  match Gen.C11.decoderKeys with
  | [ki, kg, kn, kc, kp, ka] => do
    let ident ← getKey d ki
    let group ← (← getKey d kg) |> pyStr
    let name ← (← getKey d kn) |> pyStr
    let ctype ← (← getKey d kc) |> pyStr
    let pytype ← (← getKey d kp) |> pyStr
    let access ← getKey d ka
    match cls with
    | .log => pure (.elem .log ident group name ctype pytype access none)
    | .param =>
      match Gen.C11.decoderParamKeys with
      | [ke] => do
        let ext ← getKey d ke
        pure (.elem .param ident group name ctype pytype access (some ext))
      | _ => .error .unmodelled
  | _ => .error .unmodelled

/-- `TocCache._decoder`, called by `json.load` on every decoded object.
`eval(obj['__class__'])` is modelled for the two element class names only: any other *string* is
arbitrary Python evaluated by `eval` (`unmodelled`); a non-string raises TypeError. -/
def hook (d : List (Str × JVal)) : Except Err JVal :=
  match dictGet d kClass with
  | none => .ok (.obj d)
  | some (.str s) =>
    if s = clsName .log then decodeElem .log d
    else if s = clsName .param then decodeElem .param d
    else .error .unmodelled
  | some _ => .error .exc

/-! ## `json.loads`: character-level push-down automaton -/

inductive Frame
  | arr (items : List JVal)                    -- inside `[ ... `
  | objK (d : List (Str × JVal))               -- inside `{ ... `, before / in a key
  | objV (d : List (Str × JVal)) (k : Str)     -- inside `{ ... "k" `, before / in the value
  deriving Repr

inductive NumPh | sign | zero | int | dot | frac | e | esign | exp
  deriving DecidableEq, Repr

inductive Mode
  | val                                        -- a value must start (whitespace skipped)
  | arr0                                       -- just after `[`
  | obj0                                       -- just after `{`
  | key                                        -- after `,` in an object
  | colon                                      -- after a key
  | after                                      -- after a value inside a container
  | fin (v : JVal)                             -- the top-level value is complete
  | str (acc : Str)                            -- inside a string
  | esc (acc : Str)                            -- after a backslash
  | uni (acc : Str) (hi : Option Nat) (n : Nat) (v : Nat)   -- in `\uXXXX`: n digits read, value v; hi = pending high surrogate
  | hi (acc : Str) (h : Nat)                   -- `\uD8xx` read: does a `\uDCxx` follow?
  | hiEsc (acc : Str) (h : Nat)                -- ... and a backslash
  | lit (rest : Str) (v : JVal)                -- remaining characters of `true`/`false`/`null`/`NaN`/`Infinity`
  | num (ph : NumPh) (neg : Bool) (mag : Nat) (lex : Str)
  deriving Repr

structure St where
  stack : List Frame
  mode : Mode
  deriving Repr

def isWs (c : Nat) : Bool := c == 32 || c == 9 || c == 10 || c == 13
def isDigit (c : Nat) : Bool := 48 ≤ c && c ≤ 57

def hexVal (c : Nat) : Option Nat :=
  if 48 ≤ c ∧ c ≤ 57 then some (c - 48)
  else if 97 ≤ c ∧ c ≤ 102 then some (c - 87)
  else if 65 ≤ c ∧ c ≤ 70 then some (c - 55)
  else none

/-- a completed value goes to the enclosing container (or completes the document) -/
def deliver (stack : List Frame) (v : JVal) : Except Err St :=
  match stack with
  | [] => .ok ⟨[], .fin v⟩
  | .arr items :: s => .ok ⟨.arr (items ++ [v]) :: s, .after⟩
  | .objV d k :: s => .ok ⟨.objK (dictSet d k v) :: s, .after⟩
  | .objK _ :: _ => .error .exc      -- not reachable: no value is ever started under an `objK` frame

/-- `}`: the object hook is applied, its result is the value -/
def closeObj (d : List (Str × JVal)) (s : List Frame) : Except Err St :=
  match hook d with
  | .ok v => deliver s v
  | .error e => .error e

/-- closing quote: a key, or a string value -/
def endStr (stack : List Frame) (acc : Str) : Except Err St :=
  match stack with
  | .objK d :: s => .ok ⟨.objV d acc :: s, .colon⟩
  | _ => deliver stack (.str acc)

def startValue (stack : List Frame) (c : Nat) : Except Err St :=
  if c = 34 then .ok ⟨stack, .str []⟩
  else if c = 123 then .ok ⟨.objK [] :: stack, .obj0⟩
  else if c = 91 then .ok ⟨.arr [] :: stack, .arr0⟩
  else if c = 110 then .ok ⟨stack, .lit (ofString "ull") .null⟩
  else if c = 116 then .ok ⟨stack, .lit (ofString "rue") (.bool true)⟩
  else if c = 102 then .ok ⟨stack, .lit (ofString "alse") (.bool false)⟩
  else if c = 78 then .ok ⟨stack, .lit (ofString "aN") (.flt (ofString "NaN"))⟩
  else if c = 73 then .ok ⟨stack, .lit (ofString "nfinity") (.flt (ofString "Infinity"))⟩
  else if c = 45 then .ok ⟨stack, .num .sign true 0 [c]⟩
  else if c = 48 then .ok ⟨stack, .num .zero false 0 [c]⟩
  else if isDigit c then .ok ⟨stack, .num .int false (c - 48) [c]⟩
  else .error .exc

/-- after a value: `,` or the closing bracket of the enclosing container -/
def afterStep (stack : List Frame) (c : Nat) : Except Err St :=
  if isWs c then .ok ⟨stack, .after⟩ else
  match stack with
  | .arr items :: s =>
    if c = 44 then .ok ⟨stack, .val⟩
    else if c = 93 then deliver s (.arr items)
    else .error .exc
  | .objK d :: s =>
    if c = 44 then .ok ⟨stack, .key⟩
    else if c = 125 then closeObj d s
    else .error .exc
  | _ => .error .exc

/-- after the top-level value only whitespace may follow ("Extra data") -/
def finStep (v : JVal) (c : Nat) : Except Err St :=
  if isWs c then .ok ⟨[], .fin v⟩ else .error .exc

def strStep (stack : List Frame) (acc : Str) (c : Nat) : Except Err St :=
  if c = 34 then endStr stack acc
  else if c = 92 then .ok ⟨stack, .esc acc⟩
  else if c < 32 then .error .exc
  else .ok ⟨stack, .str (acc ++ [c])⟩

def escStep (stack : List Frame) (acc : Str) (c : Nat) : Except Err St :=
  if c = 34 ∨ c = 92 ∨ c = 47 then .ok ⟨stack, .str (acc ++ [c])⟩
  else if c = 98 then .ok ⟨stack, .str (acc ++ [8])⟩
  else if c = 102 then .ok ⟨stack, .str (acc ++ [12])⟩
  else if c = 110 then .ok ⟨stack, .str (acc ++ [10])⟩
  else if c = 114 then .ok ⟨stack, .str (acc ++ [13])⟩
  else if c = 116 then .ok ⟨stack, .str (acc ++ [9])⟩
  else if c = 117 then .ok ⟨stack, .uni acc none 0 0⟩
  else .error .exc

def isHigh (v : Nat) : Bool := 0xD800 ≤ v && v < 0xDC00
def isLow (v : Nat) : Bool := 0xDC00 ≤ v && v < 0xE000
def joinSurr (h l : Nat) : Nat := 0x10000 + (h - 0xD800) * 1024 + (l - 0xDC00)

/-- four hex digits read -/
def uniDone (acc : Str) (hi : Option Nat) (v : Nat) : Mode :=
  match hi with
  | some h =>
    if isLow v then .str (acc ++ [joinSurr h v])
    else if isHigh v then .hi (acc ++ [h]) v
    else .str (acc ++ [h, v])
  | none => if isHigh v then .hi acc v else .str (acc ++ [v])

def numNext (ph : NumPh) (c : Nat) : Option NumPh :=
  match ph with
  | .sign => if c = 48 then some .zero else if isDigit c then some .int else none
  | .zero => if c = 46 then some .dot else if c = 101 ∨ c = 69 then some .e else none
  | .int => if isDigit c then some .int else if c = 46 then some .dot else if c = 101 ∨ c = 69 then some .e else none
  | .dot => if isDigit c then some .frac else none
  | .frac => if isDigit c then some .frac else if c = 101 ∨ c = 69 then some .e else none
  | .e => if c = 43 ∨ c = 45 then some .esign else if isDigit c then some .exp else none
  | .esign => if isDigit c then some .exp else none
  | .exp => if isDigit c then some .exp else none

/-- phases in which the characters read so far form a complete number -/
def numAccepting : NumPh → Bool
  | .zero | .int | .frac | .exp => true
  | _ => false

def numVal (ph : NumPh) (neg : Bool) (mag : Nat) (lex : Str) : JVal :=
  match ph with
  | .zero | .int => .int (if neg then -(mag : Int) else (mag : Int))
  | _ => .flt lex

def step (st : St) (c : Nat) : Except Err St :=
  match st.mode with
  | .val => if isWs c then .ok st else startValue st.stack c
  | .arr0 =>
    if isWs c then .ok st
    else if c = 93 then
      match st.stack with
      | .arr items :: s => deliver s (.arr items)
      | _ => .error .exc
    else startValue st.stack c
  | .obj0 =>
    if isWs c then .ok st
    else if c = 34 then .ok ⟨st.stack, .str []⟩
    else if c = 125 then
      match st.stack with
      | .objK d :: s => closeObj d s
      | _ => .error .exc
    else .error .exc
  | .key => if isWs c then .ok st else if c = 34 then .ok ⟨st.stack, .str []⟩ else .error .exc
  | .colon => if isWs c then .ok st else if c = 58 then .ok ⟨st.stack, .val⟩ else .error .exc
  | .after => afterStep st.stack c
  | .fin v => finStep v c
  | .str acc => strStep st.stack acc c
  | .esc acc => escStep st.stack acc c
  | .uni acc hi n v =>
    match hexVal c with
    | none => .error .exc
    | some d => if n < 3 then .ok ⟨st.stack, .uni acc hi (n + 1) (v * 16 + d)⟩
                else .ok ⟨st.stack, uniDone acc hi (v * 16 + d)⟩
  | .hi acc h => if c = 92 then .ok ⟨st.stack, .hiEsc acc h⟩ else strStep st.stack (acc ++ [h]) c
  | .hiEsc acc h => if c = 117 then .ok ⟨st.stack, .uni acc (some h) 0 0⟩ else escStep st.stack (acc ++ [h]) c
  | .lit rest v =>
    match rest with
    | [] => .error .exc
    | r :: rs => if c = r then (if rs = [] then deliver st.stack v else .ok ⟨st.stack, .lit rs v⟩) else .error .exc
  | .num ph neg mag lex =>
    if ph = .sign ∧ c = 73 then .ok ⟨st.stack, .lit (ofString "nfinity") (.flt (ofString "-Infinity"))⟩ else
    match numNext ph c with
    | some ph' =>
      let mag' := if (ph' = .int ∨ ph' = .zero) then mag * 10 + (c - 48) else mag
      .ok ⟨st.stack, .num ph' neg mag' (lex ++ [c])⟩
    | none =>
      if numAccepting ph then
        match deliver st.stack (numVal ph neg mag lex) with
        | .ok ⟨s, .fin v⟩ => finStep v c
        | .ok ⟨s, _⟩ => afterStep s c
        | .error e => .error e
      else .error .exc

def run : St → Str → Except Err St
  | st, [] => .ok st
  | st, c :: cs =>
    match step st c with
    | .ok st' => run st' cs
    | .error e => .error e

def initSt : St := ⟨[], .val⟩

/-- end of input -/
def finish (st : St) : Except Err JVal :=
  match st.stack, st.mode with
  | [], .fin v => .ok v
  | [], .num ph neg mag lex => if numAccepting ph then .ok (numVal ph neg mag lex) else .error .exc
  | _, _ => .error .exc

/-- `json.loads(text, object_hook=self._decoder)` -/
def loads (text : Str) : Except Err JVal :=
  match run initSt text with
  | .ok st => finish st
  | .error e => .error e

/-! ## reading a text file: UTF-8 (strict), universal newlines -/

def cont (b : UInt8) : Bool := 0x80 ≤ b.toNat && b.toNat ≤ 0xBF

def utf8Decode : List UInt8 → Option Str
  | [] => some []
  | b0 :: rest =>
    let x := b0.toNat
    if x < 0x80 then (utf8Decode rest).map (x :: ·)
    else if 0xC2 ≤ x ∧ x ≤ 0xDF then
      match rest with
      | b1 :: r => if cont b1 then (utf8Decode r).map (((x - 0xC0) * 64 + (b1.toNat - 0x80)) :: ·) else none
      | _ => none
    else if 0xE0 ≤ x ∧ x ≤ 0xEF then
      match rest with
      | b1 :: b2 :: r =>
        let lo := if x = 0xE0 then 0xA0 else 0x80
        let hi := if x = 0xED then 0x9F else 0xBF
        if lo ≤ b1.toNat ∧ b1.toNat ≤ hi ∧ cont b2 then
          (utf8Decode r).map (((x - 0xE0) * 4096 + (b1.toNat - 0x80) * 64 + (b2.toNat - 0x80)) :: ·)
        else none
      | _ => none
    else if 0xF0 ≤ x ∧ x ≤ 0xF4 then
      match rest with
      | b1 :: b2 :: b3 :: r =>
        let lo := if x = 0xF0 then 0x90 else 0x80
        let hi := if x = 0xF4 then 0x8F else 0xBF
        if lo ≤ b1.toNat ∧ b1.toNat ≤ hi ∧ cont b2 ∧ cont b3 then
          (utf8Decode r).map (((x - 0xF0) * 262144 + (b1.toNat - 0x80) * 4096 + (b2.toNat - 0x80) * 64 + (b3.toNat - 0x80)) :: ·)
        else none
      | _ => none
    else none

/-- text-mode `read()`: `\r\n` and lone `\r` become `\n` -/
def nlTranslate : Str → Str
  | [] => []
  | 13 :: 10 :: r => 10 :: nlTranslate r
  | 13 :: r => 10 :: nlTranslate r
  | c :: r => c :: nlTranslate r

/-- `json.load(open(path), object_hook=self._decoder)` on the bytes of the file -/
def loadBytes (bs : List UInt8) : Except Err JVal :=
  match utf8Decode bs with
  | none => .error .exc                    -- UnicodeDecodeError
  | some t => loads (nlTranslate t)

/-! ## `json.dumps(toc, indent=Gen.indent, default=self._encoder)` -/

def hexDigitL (n : Nat) : Nat := if n < 10 then 48 + n else 87 + n

def u4 (x : Nat) : Str :=
  [92, 117, hexDigitL (x / 4096 % 16), hexDigitL (x / 256 % 16), hexDigitL (x / 16 % 16), hexDigitL (x % 16)]

/-- `ensure_ascii` escaping of one code point -/
def escChar (c : Nat) : Str :=
  if c = 34 then [92, 34] else if c = 92 then [92, 92]
  else if c = 10 then [92, 110] else if c = 13 then [92, 114] else if c = 9 then [92, 116]
  else if c = 8 then [92, 98] else if c = 12 then [92, 102]
  else if 32 ≤ c ∧ c ≤ 126 then [c]
  else if c < 0x10000 then u4 c
  else u4 (0xD800 + (c - 0x10000) / 1024) ++ u4 (0xDC00 + (c - 0x10000) % 1024)

def printStr (s : Str) : Str := 34 :: (s.flatMap escChar ++ [34])

/-- the leaf values `_encoder` emits -/
inductive Leaf
  | str (s : Str)
  | int (i : Int)
  | bool (b : Bool)
  deriving DecidableEq, Repr

def printLeaf (_lvl : Nat) : Leaf → Str
  | .str s => printStr s
  | .int i => intDigits i
  | .bool true => ofString "true"
  | .bool false => ofString "false"

def nlIndent (lvl : Nat) : Str := 10 :: List.replicate (Gen.C11.indent * lvl) 32

def printMembers {α} (pv : Nat → α → Str) (lvl : Nat) : List (Str × α) → Str
  | [] => []
  | [(k, a)] => printStr k ++ [58, 32] ++ pv lvl a
  | (k, a) :: m :: rest =>
    printStr k ++ [58, 32] ++ pv lvl a ++ (44 :: nlIndent lvl) ++ printMembers pv lvl (m :: rest)

/-- a dict at nesting level `lvl` whose values are printed by `pv` -/
def printObj {α} (pv : Nat → α → Str) (lvl : Nat) (ms : List (Str × α)) : Str :=
  match ms with
  | [] => [123, 125]
  | _ => 123 :: (nlIndent (lvl + 1) ++ printMembers pv (lvl + 1) ms ++ nlIndent lvl ++ [125])

/-- the attributes of a TOC element that the cache stores -/
structure Core where
  ident : Int
  group : Str
  name : Str
  ctype : Str
  pytype : Str
  access : Int
  deriving DecidableEq, Repr

/-- a `LogTocElement` or a `ParamTocElement` (which also has `extended`) as held in `Toc.toc` -/
inductive Elem
  | log (c : Core)
  | param (c : Core) (extended : Bool)
  deriving DecidableEq, Repr

def Elem.core : Elem → Core
  | .log c => c
  | .param c _ => c

def Elem.cls : Elem → Cls
  | .log _ => .log
  | .param _ _ => .param

/-- `Toc.toc`: group -> name -> element (dicts: insertion order) -/
abbrev Toc := List (Str × List (Str × Elem))

/-- `TocCache._encoder`: the dict emitted for one element, keys from the source in source order -/
def encoder (e : Elem) : List (Str × Leaf) :=
  let c := e.core
  (Gen.C11.encoderKeys.map ofString).zip
    [.str (clsName e.cls), .int c.ident, .str c.group, .str c.name, .str c.ctype, .str c.pytype, .int c.access]
  ++ match e with
     | .log _ => []
     | .param _ x => (Gen.C11.encoderParamKeys.map ofString).zip [.bool x]

def printElem (lvl : Nat) (e : Elem) : Str := printObj printLeaf lvl (encoder e)
def printGroup (lvl : Nat) (g : List (Str × Elem)) : Str := printObj printElem lvl g
def printToc (t : Toc) : Str := printObj printGroup 0 t

/-- the in-memory value of a typed element / table, as a `JVal` -/
def Elem.toVal : Elem → JVal
  | .log c => .elem .log (.int c.ident) c.group c.name c.ctype c.pytype (.int c.access) none
  | .param c x => .elem .param (.int c.ident) c.group c.name c.ctype c.pytype (.int c.access) (some (.bool x))

def groupVal (g : List (Str × Elem)) : JVal := .obj (g.map fun (n, e) => (n, e.toVal))
def tocVal (t : Toc) : JVal := .obj (t.map fun (g, ns) => (g, groupVal ns))

/-! ## Python `%` formatting of the two file-name patterns -/

def hexDigitU (n : Nat) : Nat := if n < 10 then 48 + n else 55 + n

/-- hex digits of `n`, most significant first, no padding (`[]` for 0) -/
def hexDigitsU (n : Nat) : Str :=
  if h : n = 0 then [] else hexDigitsU (n / 16) ++ [hexDigitU (n % 16)]
termination_by n
decreasing_by omega

/-- `'%08X' % n` for `n ≥ 0` -/
def hex08 (n : Nat) : Str :=
  hexDigitsU (n / 4294967296) ++
  [hexDigitU (n / 268435456 % 16), hexDigitU (n / 16777216 % 16), hexDigitU (n / 1048576 % 16), hexDigitU (n / 65536 % 16),
   hexDigitU (n / 4096 % 16), hexDigitU (n / 256 % 16), hexDigitU (n / 16 % 16), hexDigitU (n % 16)]

inductive FArg | s (v : Str) | n (v : Nat)

/-- `fmt % args` for the directives `%s` and `%08X` (anything else: `none`) -/
def pyFormat : List Char → List FArg → Option Str
  | [], [] => some []
  | [], _ :: _ => none
  | '%' :: '0' :: '8' :: 'X' :: r, .n v :: as => (pyFormat r as).map (hex08 v ++ ·)
  | '%' :: 's' :: r, .s v :: as => (pyFormat r as).map (v ++ ·)
  | '%' :: _, _ => none
  | c :: r, as => (pyFormat r as).map (c.toNat :: ·)

/-- `'%08X.json' % crc` -/
def fetchPattern (crc : Nat) : Option Str := pyFormat Gen.C11.fetchPattern.toList [.n crc]
/-- `'%s/%08X.json' % (self._rw_cache, crc)` -/
def insertName (rw : Str) (crc : Nat) : Option Str := pyFormat Gen.C11.insertPattern.toList [.s rw, .n crc]

/-! ## file system and `TocCache` -/

abbrev Path := Str

/-- a directory entry that the directory scan lists but `open(name)` cannot read: a sub-directory with that name, a
symbolic link to nowhere, a file without read permission -/
inductive Ghost | dir | dangling | noperm
  deriving DecidableEq, Repr

structure FS where
  files : List (Path × List UInt8)     -- readable regular files, in directory-listing order
  ghosts : List (Path × Ghost)         -- unopenable entries (listed after the files of their directory)
  dirs : List Path
  readonly : Bool                      -- `open(.., 'w')` and `os.makedirs` raise
  deriving Repr

def FS.ghostAt (fs : FS) (p : Path) : Option Ghost := (fs.ghosts.find? (·.1 = p)).map (·.2)

def FS.read (fs : FS) (p : Path) : Option (List UInt8) :=
  (fs.files.find? (·.1 = p)).map (·.2)

def writeFile : List (Path × List UInt8) → Path → List UInt8 → List (Path × List UInt8)
  | [], p, b => [(p, b)]
  | (q, c) :: r, p, b => if q = p then (q, b) :: r else (q, c) :: writeFile r p b

def FS.write (fs : FS) (p : Path) (b : List UInt8) : FS := { fs with files := writeFile fs.files p b }

def endsWith (s suf : Str) : Bool := suf.length ≤ s.length && s.drop (s.length - suf.length) == suf

/-- does `p` name a file directly in `dir` that `glob(dir + '/*.json')` returns? -/
def globMatch (dir p : Path) : Bool :=
  let pre := dir ++ [47]
  pre.isPrefixOf p &&
  (let name := p.drop pre.length
   !name.contains 47 && name.head? != some 46 && endsWith name (ofString ".json"))

/-- `glob(dir + '/*.json')` matches names only: unopenable entries are returned too -/
def glob (fs : FS) (dir : Path) : List Path :=
  (fs.files.filter fun f => globMatch dir f.1).map (·.1) ++ (fs.ghosts.filter fun g => globMatch dir g.1).map (·.1)

structure Cache where
  files : List Path        -- `_cache_files`
  rw : Option Path         -- `_rw_cache` (`None`/`''` are falsy: `none`)
  deriving Repr

/-- `TocCache.__init__(ro_cache, rw_cache)`.  An exception from `os.makedirs` propagates to the caller. -/
def Cache.init (fs : FS) (ro rw : Option Path) : Except Err (FS × Cache) :=
  let f1 := match ro with | some d => glob fs d | none => []
  match rw with
  | none => .ok (fs, ⟨f1, none⟩)
  | some d =>
    let f2 := f1 ++ glob fs d
    if fs.dirs.contains d then .ok (fs, ⟨f2, some d⟩)
    else if fs.readonly then .error .exc
    else .ok ({ fs with dirs := fs.dirs ++ [d] }, ⟨f2, some d⟩)

/-- the loop of `fetch`: the LAST cached path ending in the pattern -/
def findHit (files : List Path) (pat : Str) : Option Path :=
  files.foldl (fun hit name => if endsWith name pat then some name else hit) none

/-- `TocCache.fetch(crc)`: `.null` is Python's `None` (no hit, any exception, or a file holding `null`). -/
def Cache.fetch (fs : FS) (c : Cache) (crc : Nat) : Except Err JVal :=
  match fetchPattern crc with
  | none => .error .unmodelled
  | some pat =>
    match findHit c.files pat with
    | none => .ok .null
    | some p =>
      match fs.read p with
      | none => .ok .null                          -- open() raised: caught
      | some bs =>
        match loadBytes bs with
        | .ok v => .ok v
        | .error .exc => .ok .null                 -- `except Exception`
        | .error .unmodelled => .error .unmodelled

def encodeText (t : Str) : List UInt8 := t.map UInt8.ofNat

/-- can `open(dir/<file>, 'w')` succeed as far as the directory is concerned? -/
def FS.canWrite (fs : FS) (dir : Path) : Bool := !fs.readonly && fs.dirs.contains dir

/-- `open(p, 'w')` for `p` directly in `dir`: `none` when it raises (directory missing / not writable, `p` is a directory
or a file without permission); through a dangling link the file is created (the entry becomes a regular file) -/
def FS.openW (fs : FS) (dir p : Path) : Option FS :=
  if fs.canWrite dir then
    match fs.ghostAt p with
    | none => some fs
    | some .dangling => some { fs with ghosts := fs.ghosts.filter (fun g => g.1 ≠ p) }
    | some _ => none
  else none

/-- `TocCache.insert(crc, toc)`; every failure is swallowed -/
def Cache.insert (fs : FS) (c : Cache) (crc : Nat) (toc : Toc) : FS × Cache :=
  match c.rw with
  | none => (fs, c)
  | some d =>
    match insertName d crc with
    | none => (fs, c)
    | some filename =>
      match fs.openW d filename with
      | some fs' => (fs'.write filename (encodeText (printToc toc)), { c with files := c.files ++ [filename] })
      | none => (fs, c)

/-- `insert` cut short after `k` bytes reached the file (process killed, or `write` raised: the
exception is swallowed, `_cache_files` is not extended).  `open(.., 'w')` has truncated the file. -/
def Cache.insertCut (fs : FS) (c : Cache) (crc : Nat) (toc : Toc) (k : Nat) : FS × Cache :=
  match c.rw with
  | none => (fs, c)
  | some d =>
    match insertName d crc with
    | none => (fs, c)
    | some filename =>
      match fs.openW d filename with
      | some fs' => (fs'.write filename ((encodeText (printToc toc)).take k), c)
      | none => (fs, c)

/-! ## `TocFetcher`: the cache paths of `_new_packet_cb` -/

/-- Python truthiness of what `fetch` returned (`if (cache_data):`) -/
def truthy : JVal → Except Err Bool
  | .null => .ok false
  | .bool b => .ok b
  | .int i => .ok (i ≠ 0)
  | .str s => .ok (!s.isEmpty)
  | .arr l => .ok (!l.isEmpty)
  | .obj l => .ok (!l.isEmpty)
  | .elem .. => .ok true
  | .flt _ => .error .unmodelled

inductive FState | getInfo | getElem | done
  deriving DecidableEq, Repr

/-- `self.toc.toc`: the typed table being downloaded, or whatever the cache returned -/
inductive TocSlot
  | typed (t : Toc)
  | loaded (v : JVal)
  deriving Repr

structure Fetcher where
  state : FState
  nbr : Nat
  crc : Nat
  requested : Nat
  toc : TocSlot
  deriving Repr

inductive Out
  | request (index : Nat)     -- `_request_toc_element(index)`
  | finished                  -- `_toc_fetch_finished()`
  deriving DecidableEq, Repr

inductive Ev
  | info (nbr crc : Nat)      -- TOC info reply
  | elem (ident : Nat) (e : Elem)   -- TOC element reply, already decoded by the element class (C03)

/-- `Toc.add_element` on the typed table -/
def setName : List (Str × Elem) → Str → Elem → List (Str × Elem)
  | [], n, e => [(n, e)]
  | (k, w) :: r, n, e => if k = n then (k, e) :: r else (k, w) :: setName r n e

def addElement : Toc → Str → Str → Elem → Toc
  | [], g, n, e => [(g, [(n, e)])]
  | (k, ns) :: r, g, n, e => if k = g then (k, setName ns n e) :: r else (k, ns) :: addElement r g n e

structure World where
  fs : FS
  cache : Cache
  f : Fetcher

def fetcherStep (w : World) : Ev → Except Err (World × List Out)
  | .info nbr crc =>
    if w.f.state ≠ .getInfo then .ok (w, []) else
    match w.cache.fetch w.fs crc with
    | .error e => .error e
    | .ok data =>
      match truthy data with
      | .error e => .error e
      | .ok true => .ok ({ w with f := { w.f with nbr := nbr, crc := crc, toc := .loaded data, state := .done } }, [.finished])
      | .ok false =>
        let f := { w.f with nbr := nbr, crc := crc, state := .getElem, requested := 0 }
        if nbr > 0 then .ok ({ w with f := f }, [.request 0])
        else
          match f.toc with
          | .typed t =>
            let (fs', c') := w.cache.insert w.fs crc t
            .ok ({ fs := fs', cache := c', f := { f with state := .done } }, [.finished])
          | .loaded _ => .error .unmodelled
  | .elem ident e =>
    if w.f.state ≠ .getElem then .ok (w, []) else
    if ident ≠ w.f.requested then .ok (w, []) else
    match w.f.toc with
    | .loaded _ => .error .unmodelled
    | .typed t =>
      let t' := addElement t e.core.group e.core.name e
      if w.f.requested + 1 < w.f.nbr then
        .ok ({ w with f := { w.f with toc := .typed t', requested := w.f.requested + 1 } }, [.request (w.f.requested + 1)])
      else
        let (fs', c') := w.cache.insert w.fs w.f.crc t'
        .ok ({ fs := fs', cache := c', f := { w.f with toc := .typed t', state := .done } }, [.finished])

/-! ## the TOC info reply as it arrives: both protocol generations

`_new_packet_cb` in state GET_TOC_INFO: `struct.unpack('<HI', payload[:6])` (protocol ≥ 4) or
`struct.unpack('<BI', payload[:5])` (legacy); formats from Gen.  The checksum that keys the cache is the second field. -/

def infoFmt (v2 : Bool) : String := if v2 then Gen.C11.infoFmts.getD 0 "" else Gen.C11.infoFmts.getD 1 ""
def infoSize (v2 : Bool) : Nat := if v2 then 6 else 5

/-- `[self.nbr_of_items, self._crc] = struct.unpack(fmt, payload[:size])`; a short payload raises `struct.error`
in the packet callback -/
def decodeInfo (v2 : Bool) (payload : List UInt8) : Except Err (Nat × Nat) :=
  match unpack (parseFmt! (infoFmt v2)) (payload.take (infoSize v2)) with
  | .ok [.int n, .int c] => .ok (n.toNat, c.toNat)
  | _ => .error .exc

/-- the info reply packet (payload = data after the command byte) handled by a fetcher of generation `v2` -/
def fetcherInfoPkt (w : World) (v2 : Bool) (payload : List UInt8) : Except Err (World × List Out) :=
  match decodeInfo v2 payload with
  | .ok (n, c) => fetcherStep w (.info n c)
  | .error e => .error e

end CfVerif.C11

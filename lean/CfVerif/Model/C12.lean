/-
Model/C12: executable model of the flashing path of cflib's bootloader client:
`Bootloader._internal_flash` (cflib/bootloader/__init__.py) and `Cloader.upload_buffer` /
`Cloader.write_flash` (cflib/bootloader/cloader.py), statement by statement, including their error
branches, over an abstract link (`send_packet` / `receive_packet(timeout)`) whose far end is a
parameter (`Peer`).  All integer expressions, struct formats, command bytes, the retry counter and
the CRTP header expression come from Gen/C12 (Tie A).  No Mathlib.
-/
import CfVerif.Base.Struct
import CfVerif.Gen.C12
namespace CfVerif.C12
open CfVerif

/-- a CRTP packet as the link driver sees it: header byte and data -/
structure Pkt where
  hdr : Nat
  data : List UInt8
  deriving Repr, DecidableEq, Inhabited

/-- The far end of the link.  `onSend` is called for every transmitted packet and returns the packets that
reach the driver's receive queue at once; `onWaitDone` is called when a blocking receive (timeout > 0)
returns and yields the packets that reach the queue afterwards. -/
structure Peer (σ : Type) where
  onSend : σ → Pkt → σ × List Pkt
  onWaitDone : σ → σ × List Pkt

/-- The link driver: peer state, the receive queue (`in_queue` of every cflib driver), and the log of
transmitted packets (observable; never read by the model). -/
structure Link (σ : Type) where
  st : σ
  inbox : List Pkt
  sent : List Pkt

variable {σ : Type}

/-- `link.send_packet(pk)` -/
def Link.send (P : Peer σ) (L : Link σ) (p : Pkt) : Link σ :=
  let r := P.onSend L.st p
  { st := r.1, inbox := L.inbox ++ r.2, sent := L.sent ++ [p] }

/-- `link.receive_packet(0)`: non-blocking get from the receive queue -/
def Link.poll (L : Link σ) : Link σ × Option Pkt :=
  match L.inbox with
  | [] => (L, none)
  | p :: rest => ({ L with inbox := rest }, some p)

/-- `link.receive_packet(t)` with `t > 0`: the head of the queue, or `None` after the timeout -/
def Link.wait (P : Peer σ) (L : Link σ) : Link σ × Option Pkt :=
  let r := L.poll
  let a := P.onWaitDone r.1.st
  ({ r.1 with st := a.1, inbox := r.1.inbox ++ a.2 }, r.2)

/-- header byte after `pk.set_header(0xFF, 0xFF)` (`CRTPPacket._update_header`) -/
def bootHdr : Nat := Gen.C12.crtpHeader Gen.C12.bootPort Gen.C12.bootChan

/-! ### `Cloader.upload_buffer(target_id, page, address, buff)` -/

/-- `struct.pack('=BBHH', target_id, 0x14, page, <address expression>)` -/
def loadData (tid : Int) (cmd page addr : Nat) : Except PyErr (List UInt8) :=
  pack (parseFmt! Gen.C12.uploadFmt) [.int tid, .int cmd, .int page, .int addr]

/-- the `for i in range(0, len(buff))` loop; state: index `i`, `count`, the data of the packet being filled.
An exception keeps the packets already transmitted. -/
def uploadLoop (P : Peer σ) (tid : Int) (page address : Nat) :
    List UInt8 → Nat → Nat → List UInt8 → Link σ → Link σ × Except PyErr (List UInt8)
  | [], _, _, cur, L => (L, .ok cur)
  | b :: rest, i, count, cur, L =>
    let cur := cur ++ [b]                       -- pk.data.append(buff[i])
    let count := count + 1                      -- count += 1
    if Gen.C12.uploadFull count then            -- if count > 24:
      let L := L.send P ⟨bootHdr, cur⟩
      match loadData tid Gen.C12.uploadCmd1 page (Gen.C12.uploadNextAddr i address) with
      | .error e => (L, .error e)
      | .ok d => uploadLoop P tid page address rest (i + 1) 0 d L
    else uploadLoop P tid page address rest (i + 1) count cur L

def uploadBuffer (P : Peer σ) (L : Link σ) (tid : Int) (page address : Nat) (buff : List UInt8) :
    Link σ × Except PyErr Unit :=
  match loadData tid Gen.C12.uploadCmd page address with
  | .error e => (L, .error e)
  | .ok d =>
    match uploadLoop P tid page address buff 0 0 d L with
    | (L1, .error e) => (L1, .error e)
    | (L1, .ok cur) => (L1.send P ⟨bootHdr, cur⟩, .ok ())      -- the trailing (possibly empty) packet

/-! ### `Cloader.write_flash(addr, page_buffer, target_page, page_count)` -/

/-- "Flushing downlink": `pk = receive_packet(0); while pk is not None: pk = receive_packet(0)`.
Every iteration removes the head of the receive queue; the loop ends when the queue is empty. -/
def drain : List Pkt → List Pkt
  | [] => []
  | _ :: rest => drain rest

/-- first conjunct of the retry loop's test:
`not pk or pk.header != 0xFF or len(pk.data) < 2 or struct.unpack('<BB', pk.data[0:2]) != (addr, 0x18)`
(`CRTPPacket` defines neither `__bool__` nor `__len__`, so `not pk` is `pk is None`). -/
def needRetry (addr : Int) : Option Pkt → Except PyErr Bool
  | none => .ok true
  | some pk =>
    if pk.hdr ≠ Gen.C12.replyHeader then .ok true
    else if pk.data.length < Gen.C12.replyMinLen then .ok true
    else match unpack (parseFmt! Gen.C12.replyFmt) (pk.data.take 2) with
      | .ok vs => .ok (decide (vs ≠ [Val.int addr, Val.int Gen.C12.replyCmd]))   -- tuple inequality
      | .error e => .error e

/-- `struct.pack('<BBHHH', addr, 0x18, page_buffer, target_page, page_count)` -/
def writeData (addr pageBuffer targetPage pageCount : Int) : Except PyErr (List UInt8) :=
  pack (parseFmt! Gen.C12.writeFmt)
    [.int addr, .int Gen.C12.writeCmd, .int pageBuffer, .int targetPage, .int pageCount]

/-- the retry loop; the first argument is `retry_counter + 1` (number of iterations still allowed).
Returns `retry_counter + 1` and `pk` at loop exit. -/
def retryLoop (P : Peer σ) (addr pb tp pc : Int) :
    Nat → Option Pkt → Link σ → Link σ × Except PyErr (Nat × Option Pkt)
  | 0, pk, L =>
    match needRetry addr pk with
    | .error e => (L, .error e)
    | .ok _ => (L, .ok (0, pk))                          -- `retry_counter >= 0` is false
  | n + 1, pk, L =>
    match needRetry addr pk with
    | .error e => (L, .error e)
    | .ok false => (L, .ok (n + 1, pk))
    | .ok true =>
      match writeData addr pb tp pc with
      | .error e => (L, .error e)
      | .ok d =>
        let L1 := L.send P ⟨bootHdr, d⟩
        let r := L1.wait P                               -- receive_packet(2.5)
        retryLoop P addr pb tp pc n r.2 r.1              -- retry_counter -= 1

/-- returns `(result, self.error_code)` -/
def writeFlash (P : Peer σ) (L : Link σ) (addr pb tp pc : Int) : Link σ × Except PyErr (Bool × Int) :=
  let L0 : Link σ := { L with inbox := drain L.inbox }
  match retryLoop P addr pb tp pc (Gen.C12.retryInit + 1) none L0 with
  | (L1, .error e) => (L1, .error e)
  | (L1, .ok (0, _)) => (L1, .ok (false, -1))            -- if retry_counter < 0: error_code = -1; return False
  | (L1, .ok (_ + 1, none)) => (L1, .error .attributeError)
  | (L1, .ok (_ + 1, some pk)) =>
    match pk.data[3]? with                               -- self.error_code = pk.data[3]
    | none => (L1, .error .indexError)
    | some c =>
      match pk.data[2]? with                             -- return pk.data[2] == 1
      | none => (L1, .error .indexError)
      | some s => (L1, .ok (s.toNat == 1, (c.toNat : Int)))

/-! ### `Bootloader._internal_flash(artifact, page_override=...)` -/

/-- what the bootloader reported for the target (`Target` in boottypes.py, filled by `_update_info`) -/
structure Geom where
  addr : Int
  pageSize : Nat
  bufferPages : Nat
  flashPages : Nat
  startPage : Nat
  deriving Repr, DecidableEq

inductive Res
  | done
  | notEnoughSpace             -- Exception('Not enough space to flash the image file')
  | terminated                 -- Exception('Flashing terminated')
  | flashFailed (code : Int)   -- Exception() after write_flash returned False (`code` = Cloader.error_code)
  | exc (e : PyErr)            -- any other Python exception
  deriving Repr, DecidableEq

/-- `l[lo:hi]` for non-negative bounds -/
def pySlice {α} (l : List α) (lo hi : Nat) : List α := (l.take hi).drop lo

/-- `if not self._cload.write_flash(t_data.addr, 0, <page>, ctr): ... raise Exception()` -/
def flushCall (P : Peer σ) (L : Link σ) (g : Geom) (targetPage : Int) (ctr : Nat) : Link σ × Except Res Unit :=
  match writeFlash P L g.addr 0 targetPage ctr with
  | (L2, .error e) => (L2, .error (.exc e))
  | (L2, .ok (false, code)) => (L2, .error (.flashFailed code))
  | (L2, .ok (true, _)) => (L2, .ok ())

/-- the page loop `for i in range(0, n)`: first argument = pages still to do; `term` = the values
`terminate_flashing_cb()` returns on its successive calls (exhausted or callback unset: falsy). -/
def pageLoop (P : Peer σ) (g : Geom) (image : List UInt8) (start : Int) :
    Nat → Nat → Nat → List Bool → Link σ → Link σ × Except Res Nat
  | 0, _, ctr, _, L => (L, .ok ctr)
  | k + 1, i, ctr, term, L =>
    if term.headD false then (L, .error .terminated) else
    let chunk :=
      if Gen.C12.lastPartial i g.pageSize image.length then image.drop (Gen.C12.slice0Lo i g.pageSize)
      else pySlice image (Gen.C12.slice1Lo i g.pageSize) (Gen.C12.slice1Hi i g.pageSize)
    match uploadBuffer P L g.addr ctr 0 chunk with
    | (L1, .error e) => (L1, .error (.exc e))
    | (L1, .ok ()) =>
      let ctr := ctr + 1
      if Gen.C12.flushDue ctr g.bufferPages then
        match flushCall P L1 g (Gen.C12.flushPage start i ctr) ctr with
        | (L2, .error r) => (L2, .error r)
        | (L2, .ok ()) => pageLoop P g image start k (i + 1) 0 term.tail L2
      else pageLoop P g image start k (i + 1) ctr term.tail L1

/-- the effective start page -/
def effStart (g : Geom) (override : Option Int) : Int :=
  match override with
  | some o => o
  | none => g.startPage

def internalFlash (P : Peer σ) (L : Link σ) (g : Geom) (image : List UInt8) (override : Option Int)
    (term : List Bool) : Link σ × Res :=
  let start := effStart g override
  if image.length = 0 then (L, .exc .zeroDiv)            -- factor = (100.0 * page_size) / len(image)
  else if Gen.C12.guardRefuses image.length g.flashPages start g.pageSize then (L, .notEnoughSpace)
  else if g.pageSize = 0 then (L, .exc .zeroDiv)         -- int((len(image) - 1) / page_size)
  else
    match pageLoop P g image start (Gen.C12.pageCount image.length g.pageSize).toNat 0 0 term L with
    | (L1, .error r) => (L1, r)
    | (L1, .ok ctr) =>
      if Gen.C12.finalFlushDue ctr then
        match flushCall P L1 g (Gen.C12.finalFlushPage start image.length g.pageSize ctr) ctr with
        | (L2, .error r) => (L2, r)
        | (L2, .ok ()) => (L2, .done)
      else (L1, .done)

/-! ### the `Cloader` object: link + geometry cache (`self.targets`), `_update_info`, `request_info_update`,
`check_link_and_get_info`; `_internal_flash` reads the geometry from the cache of the loader it is called on -/

/-- State of one `Cloader` object.  `targets` is the dict `self.targets` (an INSTANCE attribute created in
`__init__`: see the Gen obligation `gen_loader_state`), as an association list, newest binding first. -/
structure Loader (σ : Type) where
  link : Option (Link σ)
  targets : List (Nat × Geom)
  protocolVersion : Nat

/-- `Cloader.__init__` -/
def Loader.new : Loader σ := { link := none, targets := [], protocolVersion := 0xFF }

/-- `open_bootloader_uri`: the old link (if any) is closed, the geometry cache is forgotten (`self.targets = {}`,
`self.mapping = None`; the mapping is not part of this model's state), `self.link` is a new driver -/
def Loader.openLink (ld : Loader σ) (L : Link σ) : Loader σ := { ld with link := some L, targets := [] }

/-- the code before the repair D26 (commit c1a3150): the cache survived a reconnect.  Kept for the counterexample. -/
def Loader.openLinkKeep (ld : Loader σ) (L : Link σ) : Loader σ := { ld with link := some L }

def lookupT (ts : List (Nat × Geom)) (tid : Nat) : Option Geom :=
  match ts with
  | [] => none
  | (k, g) :: r => if k = tid then some g else lookupT r tid

/-- the reply test of `_update_info` / `_update_mapping`: header and `struct.unpack('<BB', data[0:2]) == (tid, cmd)` -/
def replyIs (tid cmd : Nat) (a : Pkt) : Except PyErr Bool :=
  if a.hdr ≠ Gen.C12.replyHeader then .ok false
  else match unpack (parseFmt! Gen.C12.infoMatchFmt) (a.data.take 2) with
    | .ok vs => .ok (decide (vs = [Val.int tid, Val.int cmd]))
    | .error e => .error e

/-- the receive loop of `_update_info`; `elapsed` = virtual seconds since `ts` (time passes only while a receive
times out); `none` = the step bound `fuel` of this model was exceeded (the loop is still running). -/
def infoLoop (P : Peer σ) (tid : Nat) (req : Pkt) :
    Nat → Nat → Link σ → Link σ × Option (Except PyErr (Option Pkt))
  | 0, _, L => (L, none)
  | fuel + 1, elapsed, L =>
    if ¬ elapsed < Gen.C12.infoTimeout then (L, some (.ok none))           -- return False
    else
      let r := L.wait P                                                    -- receive_packet(2)
      match r.2 with
      | none => infoLoop P tid req fuel (elapsed + Gen.C12.infoRecvWait) (r.1.send P req)   -- resend
      | some a =>
        match replyIs tid Gen.C12.infoCmd a with
        | .error e => (r.1, some (.error e))
        | .ok true => (r.1, some (.ok (some a)))
        | .ok false => infoLoop P tid req fuel elapsed r.1

/-- `tab = struct.unpack('BBHHHH', data[0:10])`, `struct.unpack('B' * 12, data[10:22])`, the protocol byte -/
def parseInfo (tid : Nat) (a : Pkt) : Except PyErr (Geom × Option Nat) :=
  match unpack (parseFmt! Gen.C12.infoFmt) (pySlice a.data 0 10) with
  | .error e => .error e
  | .ok tab =>
    if (pySlice a.data 10 22).length ≠ 12 then .error .structError         -- 'B' * 12
    else match tab with
      | [_, _, .int ps, .int bp, .int fp, .int sp] =>
        .ok ({ addr := tid, pageSize := ps.toNat, bufferPages := bp.toNat, flashPages := fp.toNat,
               startPage := sp.toNat }, if a.data.length > 22 then (a.data[22]?).map UInt8.toNat else none)
      | _ => .error .valueError

/-- `_update_mapping`: one request, one blocking receive; only a malformed mapping raises -/
def updateMapping (P : Peer σ) (L : Link σ) (tid : Nat) : Link σ × Except PyErr Unit :=
  let L1 := L.send P ⟨bootHdr, [UInt8.ofNat tid, UInt8.ofNat Gen.C12.mappingCmd]⟩
  let r := L1.wait P
  match r.2 with
  | none => (r.1, .ok ())
  | some a =>
    if a.hdr ≠ Gen.C12.replyHeader ∨ a.data.length < 2 then (r.1, .ok ())
    else match replyIs tid Gen.C12.mappingCmd a with
      | .error e => (r.1, .error e)
      | .ok false => (r.1, .ok ())
      | .ok true => if (a.data.length - 2) % 2 ≠ 0 then (r.1, .error .other) else (r.1, .ok ())

/-- `Cloader._update_info(target_id)` (`target_id` a byte).  Result: `none` = model step bound exceeded. -/
def updateInfo (P : Peer σ) (fuel : Nat) (ld : Loader σ) (tid : Nat) : Loader σ × Option (Except PyErr Bool) :=
  match ld.link with
  | none => (ld, some (.error .attributeError))                             -- self.link is None
  | some L =>
    let req : Pkt := ⟨bootHdr, [UInt8.ofNat tid, UInt8.ofNat Gen.C12.infoCmd]⟩
    match infoLoop P tid req fuel 0 (L.send P req) with
    | (L1, none) => ({ ld with link := some L1 }, none)
    | (L1, some (.error e)) => ({ ld with link := some L1 }, some (.error e))
    | (L1, some (.ok none)) => ({ ld with link := some L1 }, some (.ok false))
    | (L1, some (.ok (some a))) =>
      match parseInfo tid a with
      | .error e => ({ ld with link := some L1 }, some (.error e))
      | .ok (g, proto) =>
        let pv := match proto with | some v => v | none => ld.protocolVersion
        let ld1 : Loader σ := { link := some L1, targets := (tid, g) :: ld.targets, protocolVersion := pv }
        if pv = Gen.C12.protoCF2 ∧ tid = Gen.C12.targetSTM32 then
          match updateMapping P L1 tid with
          | (L2, .error e) => ({ ld1 with link := some L2 }, some (.error e))
          | (L2, .ok ()) => ({ ld1 with link := some L2 }, some (.ok true))
        else (ld1, some (.ok true))

/-- `request_info_update(target_id)`: queries only when the id is not cached; `KeyError` if it still is not -/
def requestInfoUpdate (P : Peer σ) (fuel : Nat) (ld : Loader σ) (tid : Nat) :
    Loader σ × Option (Except PyErr Geom) :=
  match lookupT ld.targets tid with
  | some g => (ld, some (.ok g))
  | none =>
    match updateInfo P fuel ld tid with
    | (ld1, none) => (ld1, none)
    | (ld1, some (.error e)) => (ld1, some (.error e))
    | (ld1, some (.ok _)) =>
      match lookupT ld1.targets tid with
      | some g => (ld1, some (.ok g))
      | none => (ld1, some (.error .keyError))

/-- `Bootloader._internal_flash` on the loader: `self._cload.targets[<key>]` (KeyError), `self.link` (AttributeError) -/
def flashOn (P : Peer σ) (ld : Loader σ) (key : Nat) (image : List UInt8) (override : Option Int)
    (term : List Bool) : Loader σ × Res :=
  match lookupT ld.targets key with
  | none => (ld, .exc .keyError)
  | some g =>
    match ld.link with
    | none =>
      -- nothing is transmitted before the first use of the link; the checks before it still apply
      if image.length = 0 then (ld, .exc .zeroDiv)
      else if Gen.C12.guardRefuses image.length g.flashPages (effStart g override) g.pageSize then (ld, .notEnoughSpace)
      else if g.pageSize = 0 then (ld, .exc .zeroDiv)
      else if term.headD false then (ld, .terminated)
      else (ld, .exc .attributeError)
    | some L =>
      let r := internalFlash P L g image override term
      ({ ld with link := some r.1 }, r.2)

/-! ### packet OBJECTS: `upload_buffer` against a link that keeps the object it was handed

The radio driver puts the `CRTPPacket` object into a one-slot out-queue and its thread reads `header` / `data` later.
`ObjLink` models that: every packet object has an identity (index into `heap`), `send` only stores the identity,
the bytes go on the air when the slot is needed again (or at `flush`). -/

structure ObjLink where
  heap : List (List UInt8)     -- `data` of every CRTPPacket object created so far
  slot : Option Nat            -- the object waiting in the driver's out-queue
  air : List (List UInt8)      -- the data serialised so far, in order
  deriving Repr, DecidableEq

/-- `pk = CRTPPacket(); pk.data = d` -/
def ObjLink.alloc (o : ObjLink) (d : List UInt8) : ObjLink × Nat :=
  ({ o with heap := o.heap ++ [d] }, o.heap.length)

/-- `pk.data = d` / `pk.data.append(b)` on the object `id` -/
def ObjLink.setData (o : ObjLink) (id : Nat) (d : List UInt8) : ObjLink := { o with heap := o.heap.set id d }

/-- the driver serialises what waits in the slot: it reads the object's data NOW -/
def ObjLink.flush (o : ObjLink) : ObjLink :=
  match o.slot with
  | none => o
  | some id => { o with slot := none, air := o.air ++ [o.heap.getD id []] }

/-- `link.send_packet(pk)` -/
def ObjLink.send (o : ObjLink) (id : Nat) : ObjLink := { o.flush with slot := some id }

/-- the loop of `upload_buffer` on packet objects; `pk` = identity of the packet being filled.  Whether a new
object is created after a packet has been sent is read from the source (`Gen.C12.uploadFreshPacket`). -/
def uploadLoopObj (tid : Int) (page address : Nat) :
    List UInt8 → Nat → Nat → Nat → ObjLink → ObjLink × Except PyErr Nat
  | [], _, _, pk, o => (o, .ok pk)
  | b :: rest, i, count, pk, o =>
    let o := o.setData pk (o.heap.getD pk [] ++ [b])
    let count := count + 1
    if Gen.C12.uploadFull count then
      let o := o.send pk
      match loadData tid Gen.C12.uploadCmd1 page (Gen.C12.uploadNextAddr i address) with
      | .error e => (o, .error e)
      | .ok d =>
        if Gen.C12.uploadFreshPacket then uploadLoopObj tid page address rest (i + 1) 0 (o.alloc d).2 (o.alloc d).1
        else uploadLoopObj tid page address rest (i + 1) 0 pk (o.setData pk d)
    else uploadLoopObj tid page address rest (i + 1) count pk o

def uploadBufferObj (o : ObjLink) (tid : Int) (page address : Nat) (buff : List UInt8) : ObjLink × Except PyErr Unit :=
  match loadData tid Gen.C12.uploadCmd page address with
  | .error e => (o, .error e)
  | .ok d =>
    match uploadLoopObj tid page address buff 0 0 (o.alloc d).2 (o.alloc d).1 with
    | (o1, .error e) => (o1, .error e)
    | (o1, .ok pk) => (o1.send pk, .ok ())

end CfVerif.C12

/-
Model/C13: executable model of cflib's numeric wire codecs.
`fp16_to_float` itself is the statement-by-statement translation in Gen/C13 (Tie A).  No Mathlib.
-/
import CfVerif.Base.Struct
import CfVerif.Gen.C13
namespace CfVerif.C13
open CfVerif

/-- a Python object returned by a codec: an `int`, or a `float` holding the value of a binary32 pattern -/
inductive Num
  | int (v : Int)
  | f32 (bits : Nat)
  deriving Repr, DecidableEq

/-- `struct.pack('I', bits)` accepts exactly `0 ≤ bits < 2^32` (else `struct.error`) -/
def reinterpret : Int → Except PyErr Num
  | .ofNat n => if n < 2 ^ 32 then .ok (.f32 n) else .error .structError
  | .negSucc _ => .error .structError

def ofRet : Gen.C13.Ret → Except PyErr Num
  | .int v => .ok (.int v)
  | .f32 b => reinterpret b
  | .none => .error .other
  | .fuel => .error .other

/-- `cflib.utils.encoding.fp16_to_float(float16)` for any Python int argument -/
def fp16ToFloat (v : Int) : Except PyErr Num := ofRet (Gen.C13.fp16_to_float v)

/-- The function as it is at /repo HEAD before the repair (defect D11): the zero, infinity and NaN branches
`return int(...)`, i.e. hand the caller the binary32 *bit pattern as a Python int* instead of a float.
All other patterns take the common path.  Kept for the counterexample theorem. -/
def fp16ToFloatLive (v : Int) : Except PyErr Num :=
  let s := Gen.C13.pyAnd (Gen.C13.shr v 15) 1
  let e := Gen.C13.pyAnd (Gen.C13.shr v 10) 31
  let f := Gen.C13.pyAnd v 1023
  if e == 0 && f == 0 then .ok (.int (Gen.C13.shl s 31))
  else if e == 31 then .ok (.int (Gen.C13.pyOr (Gen.C13.pyOr (Gen.C13.shl s 31) 0x7f800000) (Gen.C13.shl f 13)))
  else fp16ToFloat v

end CfVerif.C13

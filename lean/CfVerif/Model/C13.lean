/-
Model/C13: executable model of cflib's numeric wire codecs.
`fp16_to_float` itself is the statement-by-statement translation in Gen/C13 (Tie A).  No Mathlib.
-/
import CfVerif.Base.Struct
import CfVerif.Base.Py
import CfVerif.Gen.C13
namespace CfVerif.C13
open CfVerif

/-- a Python object returned by a codec: an `int`, or a `float` holding the value of a binary32 pattern -/
inductive Num
  | int (v : Int)
  | f32 (bits : Nat)
  deriving Repr, DecidableEq

/-- `struct.pack('I', bits)` accepts exactly `0 ≤ bits < 2^32` (else `struct.error`) -/
def reinterpret : Int → Except PyErr Num
  | .ofNat n => if n < 2 ^ 32 then .ok (.f32 n) else .error .structError
  | .negSucc _ => .error .structError

def ofRet : Gen.C13.Ret → Except PyErr Num
  | .int v => .ok (.int v)
  | .f32 b => reinterpret b
  | .none => .error .other
  | .fuel => .error .other

/-- `cflib.utils.encoding.fp16_to_float(float16)` for any Python int argument -/
def fp16ToFloat (v : Int) : Except PyErr Num := ofRet (Gen.C13.fp16_to_float v)

/-- The function as it is at /repo HEAD before the repair (defect D11): the zero, infinity and NaN branches
`return int(...)`, i.e. hand the caller the binary32 *bit pattern as a Python int* instead of a float.
All other patterns take the common path.  Kept for the counterexample theorem. -/
def fp16ToFloatLive (v : Int) : Except PyErr Num :=
  let s := Gen.C13.pyAnd (Gen.C13.shr v 15) 1
  let e := Gen.C13.pyAnd (Gen.C13.shr v 10) 31
  let f := Gen.C13.pyAnd v 1023
  if e == 0 && f == 0 then .ok (.int (Gen.C13.shl s 31))
  else if e == 31 then .ok (.int (Gen.C13.pyOr (Gen.C13.pyOr (Gen.C13.shl s 31) 0x7f800000) (Gen.C13.shl f 13)))
  else fp16ToFloat v

/-! ## Quaternion compression (`compress_quaternion` / `decompress_quaternion`)

The code works on binary64 numbers (numpy).  The model separates
* the **integer part**: scan for the largest component, sign bits, and the bit packing
  `comp = (comp << 10) | (negbit << 9) | mag` / its unpacking (Gen: `cqPush`, `dqMag`, `dqNegbit`, `dqNext`,
  `dqLargest`) — shared verbatim by the executable model here and by the real-number functions
  `compressR`/`decompressR` of Proofs/C13Quat that the property theorem is about; from
* the **numeric part** `mag = int(511 * (|q_i|/‖q‖ / (1/√2)) + 0.5)`, which the executable model computes
  *exactly* for a quaternion with integer components (any float quaternion is an integer quaternion after
  scaling by a power of two, and the codec is scale invariant): `quatMag`.
`compressR_int` (Proofs/C13Quat) proves that the two agree on integer quaternions. -/

/-- `i_largest = 0; for i in range(1, 4): if abs(q[i]) > abs(q[i_largest]): i_largest = i` on the
absolute values `a` (strict `>`: ties keep the earlier index) -/
def largestIdx {α : Type} [LT α] [DecidableRel (α := α) (· < ·)] (a : Fin 4 → α) : Fin 4 :=
  let i : Fin 4 := if a 0 < a 1 then 1 else 0
  let i : Fin 4 := if a i < a 2 then 2 else i
  if a i < a 3 then 3 else i

/-- `comp = i_largest; for i in range(4): if i != i_largest: comp = (comp << 10) | (negbit << 9) | mag` -/
def assemble (iL : Fin 4) (neg : Fin 4 → Bool) (mag : Fin 4 → Nat) : Int :=
  ([0, 1, 2, 3] : List (Fin 4)).foldl
    (fun comp i => if i ≠ iL then Gen.C13.cqPush comp (if neg i then 1 else 0) (mag i) else comp) (iL.val : Int)

/-- exact value of `int(S * (sqrt(a2 / n) / (1/√2)) + 0.5)` for naturals `a2 ≤ n`, `n > 0`:
the largest `m` with `(2m-1)² · n ≤ 8·S²·a2`, i.e. `(isqrt(8·S²·a2 / n) + 1) / 2`. -/
def quatMag (S a2 n : Nat) : Nat := (Nat.sqrt (8 * S ^ 2 * a2 / n) + 1) / 2

/-- `compress_quaternion(quat)` for a quaternion with integer components.
The zero quaternion normalises to NaNs and `int(nan)` raises `ValueError`. -/
def compressInt (v : Fin 4 → Int) : Except PyErr Int :=
  let n := (v 0).natAbs ^ 2 + (v 1).natAbs ^ 2 + (v 2).natAbs ^ 2 + (v 3).natAbs ^ 2
  if n = 0 then .error .valueError
  else
    let iL := largestIdx (fun i => (v i).natAbs)
    let negate := decide (v iL < 0)
    .ok (assemble iL (fun i => (decide (v i < 0)) ^^ negate)
      (fun i => quatMag Gen.C13.cqScale.toNat ((v i).natAbs ^ 2) n))

/-- one stored component as `decompress_quaternion` reads it: index, `negbit == 1`, 9-bit magnitude -/
structure QComp where
  idx : Nat
  neg : Bool
  mag : Nat
  deriving Repr, DecidableEq

/-- the loop `for i in range(3, -1, -1): if i != i_largest: mag = comp & mask; negbit = (comp >> 9) & 1; comp >>= 10` -/
def unpackComps (iL : Nat) : List Nat → Int → List QComp
  | [], _ => []
  | i :: is, comp =>
    if i ≠ iL then
      ⟨i, Gen.C13.dqNegbit comp == 1, (Gen.C13.dqMag comp).toNat⟩ :: unpackComps iL is (Gen.C13.dqNext comp)
    else unpackComps iL is comp

/-- integer part of `decompress_quaternion(comp)` for `comp ≥ 0`: the index of the reconstructed component and the
stored components in processing order (3 → 0).  `q[i_largest] = …` raises `IndexError` when `comp >> 30 ≥ 4`.
The numeric part is `q[i] = ±mag/511/√2`, `q[i_largest] = √(1 - Σ q[i]²)` (`decompressR`). -/
def decompressParts (comp : Nat) : Except PyErr (Nat × List QComp) :=
  let iL := (Gen.C13.dqLargest comp).toNat
  if iL < 4 then .ok (iL, unpackComps iL [3, 2, 1, 0] comp) else .error .indexError

/-! ## binary64 arithmetic used by the encoders

`int(coordinate * 1000)`, `int(math.degrees(a) * 10)`, `int(c * intensity / 100)`: one correctly rounded binary64
operation on exactly known operands (IEEE-754 round-to-nearest-even of the exact rational result), then `int()`
= truncation toward zero (`OverflowError` on an infinite product). -/

structure Q where
  num : Int
  den : Nat
  deriving Repr, DecidableEq

/-- round-half-even of `a / d` (`d > 0`) to a natural number -/
def rhe (a d : Nat) : Nat :=
  let q := a / d
  let r := a % d
  if 2 * r < d then q else if d < 2 * r then q + 1 else if q % 2 = 0 then q else q + 1

/-- `⌊log2 (a/d)⌋` for `a, d > 0` -/
def floorLog2 (a d : Nat) : Int :=
  if d ≤ a then (Nat.log2 (a / d) : Int) else -((Nat.log2 ((d + a - 1) / a - 1) : Int) + 1)

/-- exponent of the binary64 grid around `a/d`: 53 significant bits, subnormal grid `2^-1074` at the bottom -/
def rn64Exp (a d : Nat) : Int := max (floorLog2 a d - 52) (-1074)

/-- `int(RN64(a/d))` for `a, d > 0` -/
def truncRnPos (a d : Nat) : Except PyErr Nat :=
  match rn64Exp a d with
  | .ofNat k =>
    let v := rhe a (d * 2 ^ k) * 2 ^ k
    if v < 2 ^ 1024 then .ok v else .error .overflow
  | .negSucc k => .ok (rhe (a * 2 ^ (k + 1)) d / 2 ^ (k + 1))

/-- `int(RN64(x))`: the value is rounded to the nearest binary64 (ties to even), then truncated toward zero -/
def truncRn (x : Q) : Except PyErr Int :=
  match x.num with
  | .ofNat 0 => .ok 0
  | .ofNat (a + 1) => (truncRnPos (a + 1) x.den).map Int.ofNat
  | .negSucc a => (truncRnPos (a + 1) x.den).map (fun n => -(n : Int))

def Q.scale (x : Q) (k : Nat) : Q := ⟨x.num * k, x.den⟩

/-! ## Compressed trajectories (`_CompressedBase`, `CompressedStart`, `CompressedSegment`)

Coordinates are rationals `num/den` (`den > 0`; every float is one). -/

/-- `int(coordinate * 1000)` -/
def encodeSpatial (x : Q) : Except PyErr Int := truncRn (x.scale Gen.C13.spatialScale)

/-- `int(math.degrees(angle_rad) * 10)`; the argument here is the value of `math.degrees(angle_rad)` -/
def encodeYawDeg (deg : Q) : Except PyErr Int := truncRn (deg.scale Gen.C13.yawScale)

/-- `CompressedStart.pack()` -/
def packStart (x y z yawDeg : Q) : Except PyErr (List UInt8) := do
  let ex ← encodeSpatial x
  let ey ← encodeSpatial y
  let ez ← encodeSpatial z
  let ew ← encodeYawDeg yawDeg
  pack (parseFmt! Gen.C13.startFmt) [.int ex, .int ey, .int ez, .int ew]

/-- `CompressedSegment._pack_element(map(enc, element))` -/
def packElement (enc : Q → Except PyErr Int) : List Q → Except PyErr (List UInt8)
  | [] => .ok []
  | p :: ps => do
    let v ← enc p
    let a ← pack (parseFmt! Gen.C13.segElemFmt) [.int v]
    let r ← packElement enc ps
    pure (a ++ r)

/-- `CompressedSegment._validate` (raises a plain `Exception`) -/
def validLen (n : Nat) : Bool := !(n != 0 && n != 1 && n != 3 && n != 7)

def encodeType (n : Nat) : Except PyErr Int :=
  match Gen.C13.segEncodeType n with
  | .int v => .ok v
  | _ => .error .typeError            -- `None << 0`

/-- `CompressedSegment(duration, x, y, z, yaw).pack()` (constructor validation included) -/
def packSegment (duration : Q) (x y z yawDeg : List Q) : Except PyErr (List UInt8) :=
  if !(validLen x.length && validLen y.length && validLen z.length && validLen yawDeg.length) then .error .other
  else do
    let tx ← encodeType x.length
    let ty ← encodeType y.length
    let tz ← encodeType z.length
    let tw ← encodeType yawDeg.length
    let dur ← truncRn (duration.scale Gen.C13.durationScale)
    let head ← pack (parseFmt! Gen.C13.segHeadFmt) [.int (Gen.C13.segTypes tx ty tz tw), .int dur]
    let ex ← packElement encodeSpatial x
    let ey ← packElement encodeSpatial y
    let ez ← packElement encodeSpatial z
    let ew ← packElement encodeYawDeg yawDeg
    pure (head ++ ex ++ ey ++ ez ++ ew)

/-! ## LED ring (`LEDDriverMemory.write_data`, `LEDTimingsDriverMemory.write_data`) -/

structure Led where
  r : Int
  g : Int
  b : Int
  intensity : Nat
  deriving Repr, DecidableEq

/-- `int(<5/6-bit component> * led.intensity / 100)`: an exact integer product, a correctly rounded true division
(a float), `int()` truncation.  (`led_scale_is_div`: on the LED range this is plain integer division.) -/
def scaleComp (c : Int) (intensity div : Nat) : Except PyErr Int := truncRn ⟨c * intensity, div⟩

def led565 (l : Led) : Except PyErr Int := do
  let r5 ← scaleComp (Gen.C13.ledR5 l.r) l.intensity Gen.C13.ledR5Divisor
  let g6 ← scaleComp (Gen.C13.ledG6 l.g) l.intensity Gen.C13.ledG6Divisor
  let b5 ← scaleComp (Gen.C13.ledB5 l.b) l.intensity Gen.C13.ledB5Divisor
  pure (Gen.C13.ledPack r5 g6 b5)

/-- `bytearray(iterable of ints)`: every item must be in `range(256)` (else `ValueError`) -/
def toBytes : List Int → Except PyErr (List UInt8)
  | [] => .ok []
  | .ofNat n :: r => if n < 256 then (toBytes r).map (UInt8.ofNat n :: ·) else .error .valueError
  | .negSucc _ :: _ => .error .valueError

/-- the body of the loop: `data += bytearray((tmp >> 8, tmp & 0xFF))` -/
def ledBytes (l : Led) : Except PyErr (List UInt8) := do
  let tmp ← led565 l
  toBytes [Gen.C13.ledHi tmp, Gen.C13.ledLo tmp]

/-- the `data` that `LEDDriverMemory.write_data` hands to the memory writer -/
def ledWriteData : List Led → Except PyErr (List UInt8)
  | [] => .ok []
  | l :: ls => do
    let a ← ledBytes l
    let r ← ledWriteData ls
    pure (a ++ r)

structure Timing where
  time : Int
  r : Int
  g : Int
  b : Int
  leds : Int
  fade : Bool
  rotate : Int
  deriving Repr, DecidableEq

def timing565 (t : Timing) : Int :=
  Gen.C13.ledtPack (Gen.C13.ledtR5 t.r) (Gen.C13.ledtG6 t.g) (Gen.C13.ledtB5 t.b)

def timingInts : List Timing → List Int
  | [] => Gen.C13.ledtTerminator
  | t :: ts =>
    let led := timing565 t
    let extra := Gen.C13.ledtExtra t.leds (if t.fade then 1 else 0) t.rotate
    (if Gen.C13.ledtKeep t.time led extra then Gen.C13.ledtEntry t.time led extra else []) ++ timingInts ts

/-- the `data` that `LEDTimingsDriverMemory.write_data` hands to the memory writer -/
def timingsWriteData (ts : List Timing) : Except PyErr (List UInt8) := toBytes (timingInts ts)

/-! ## Localization packets (`Localization._incoming`, `_decode_lh_angle`) -/

/-- a sweep angle as the decoder computes it: the base angle (a binary32 value) or
`base - fp16_to_float(raw)` (a binary64 subtraction of the two values, kept symbolic) -/
inductive Angle
  | base (bits : Nat)
  | sub (baseBits : Nat) (offset : Num)
  deriving Repr, DecidableEq

inductive Decoded
  | none
  | ranges (d : List (Nat × Nat))       -- dict anchor id ↦ binary32 distance, in insertion order
  | persist (b : Bool)
  | lhAngle (basestation : Nat) (x y : List Angle)
  deriving Repr, DecidableEq

inductive Incoming
  | dropped                              -- logged, no callback
  | packet (type : Nat) (data : List UInt8) (decoded : Decoded)     -- receivedLocationPacket.call(pk)
  deriving Repr, DecidableEq

/-- `d[k] = v` on an insertion-ordered dict -/
def dictSet (d : List (Nat × Nat)) (k v : Nat) : List (Nat × Nat) :=
  if d.any (·.1 == k) then d.map (fun e => if e.1 == k then (k, v) else e) else d ++ [(k, v)]

/-- `for i in range(len(data)/5): anchor_id, distance = struct.unpack('<Bf', raw_data[:5]); …; raw_data = raw_data[5:]` -/
def decodeRanges : Nat → List UInt8 → List (Nat × Nat) → Except PyErr (List (Nat × Nat))
  | 0, _, d => .ok d
  | n + 1, raw, d =>
    match unpack (parseFmt! (Gen.C13.incFmts.getD 1 "")) (raw.take 5) with
    | .ok [.int a, .flt dist] => decodeRanges n (raw.drop 5) (dictSet d a.toNat dist)
    | .ok _ => .error .valueError            -- tuple unpacking arity
    | .error e => .error e

def angleSub (baseBits : Nat) (raw : Int) : Except PyErr Angle :=
  (fp16ToFloat raw).map (Angle.sub baseBits)

/-- `_decode_lh_angle(data)` -/
def decodeLhAngle (data : List UInt8) : Except PyErr Decoded :=
  match unpack (parseFmt! Gen.C13.lhFmt) data with
  | .ok [.int bs, .flt bx, .int x1, .int x2, .int x3, .flt by_, .int y1, .int y2, .int y3] => do
    let ax1 ← angleSub bx x1
    let ax2 ← angleSub bx x2
    let ax3 ← angleSub bx x3
    let ay1 ← angleSub by_ y1
    let ay2 ← angleSub by_ y2
    let ay3 ← angleSub by_ y3
    pure (.lhAngle bs.toNat [.base bx, ax1, ax2, ax3] [.base by_, ay1, ay2, ay3])
  | .ok _ => .error .indexError
  | .error e => .error e

/-- `Localization._incoming(packet)` on `packet.data` -/
def incoming (pdata : List UInt8) : Except PyErr Incoming :=
  if pdata.length < 1 then .ok .dropped
  else
    match unpack (parseFmt! (Gen.C13.incFmts.getD 0 "")) (pdata.take 1) with
    | .ok [.int t] =>
      let t := t.toNat
      let data := pdata.drop 1
      if t = Gen.C13.locRangeStreamReport then
        if data.length % 5 ≠ 0 then .ok .dropped
        else (decodeRanges (data.length / 5) data []).map (fun d => .packet t data (.ranges d))
      else if t = Gen.C13.locLhPersistData then
        match data with
        | [] => .error .indexError
        | b :: _ => .ok (.packet t data (.persist (b ≠ 0)))
      else if t = Gen.C13.locLhAngleStream then
        (decodeLhAngle data).map (fun d => .packet t data d)
      else .ok (.packet t data .none)
    | .ok _ => .error .indexError
    | .error e => .error e

/-! ## Objects and repeated use

The encoders are methods on objects that are used more than once (one trajectory list uploaded to several
`TrajectoryMemory` objects, re-uploads, an LED ring written after every colour change, one `Localization` object
receiving a stream of packets).  Each object is modelled by the attributes its constructor stores (Gen pins: the raw
arguments) and every method returns the object *afterwards* together with its result, so that statements can be made
about every call in a history, not only the first. -/

/-- what `CompressedStart.__init__` keeps -/
structure StartObj where
  x : Q
  y : Q
  z : Q
  yaw : Q            -- value of `math.degrees(self.yaw)`
  deriving Repr, DecidableEq

/-- what `CompressedSegment.__init__` keeps (after `_validate`) -/
structure SegObj where
  duration : Q
  x : List Q
  y : List Q
  z : List Q
  yaw : List Q
  deriving Repr, DecidableEq

inductive TrajElem
  | start (o : StartObj)
  | seg (o : SegObj)
  deriving Repr, DecidableEq

/-- the constructors: `CompressedSegment.__init__` raises a plain `Exception` for an element of invalid length -/
def SegObj.new (duration : Q) (x y z yawDeg : List Q) : Except PyErr SegObj :=
  if !(validLen x.length && validLen y.length && validLen z.length && validLen yawDeg.length) then .error .other
  else .ok ⟨duration, x, y, z, yawDeg⟩

/-- `element.pack()`: computes from the stored attributes and stores nothing (Gen: `startPackStores`, `segPackStores`) -/
def TrajElem.pack : TrajElem → TrajElem × Except PyErr (List UInt8)
  | .start o => (.start o, packStart o.x o.y o.z o.yaw)
  | .seg o => (.seg o, packSegment o.duration o.x o.y o.z o.yaw)

/-- `n` successive `pack()` calls on one object: the object afterwards and the `n` results -/
def packN (e : TrajElem) : Nat → TrajElem × List (Except PyErr (List UInt8))
  | 0 => (e, [])
  | n + 1 =>
    let r := e.pack
    let rest := packN r.1 n
    (rest.1, r.2 :: rest.2)

/-- `TrajectoryMemory.write_data`: `for element in self.trajectory: data += element.pack()` then one memory write of
`data` (the result here); an exception leaves the loop.  Returns the elements afterwards. -/
def writeTraj : List TrajElem → List TrajElem × Except PyErr (List UInt8)
  | [] => ([], .ok [])
  | e :: es =>
    let r := e.pack
    match r.2 with
    | .error err => (r.1 :: es, .error err)
    | .ok a =>
      let rest := writeTraj es
      (r.1 :: rest.1, rest.2.map (a ++ ·))

/-- `n` uploads of the same trajectory list (to any memories / start addresses: the memory object contributes nothing
to the data) -/
def uploadN (els : List TrajElem) : Nat → List TrajElem × List (Except PyErr (List UInt8))
  | 0 => (els, [])
  | n + 1 =>
    let r := writeTraj els
    let rest := uploadN r.1 n
    (rest.1, r.2 :: rest.2)

/-- `LED.set(r, g, b, intensity=None)`: `if intensity:` — `None` and `0` leave the intensity as it was -/
def Led.set (l : Led) (r g b : Int) (intensity : Option Nat) : Led :=
  { r := r, g := g, b := b, intensity := match intensity with
                                          | some (n + 1) => n + 1
                                          | _ => l.intensity }

/-- operations on one `LEDDriverMemory` object -/
inductive LedOp
  | set (i : Nat) (r g b : Int) (intensity : Option Nat)     -- `mem.leds[i].set(r, g, b, intensity)`
  | intensity (i : Nat) (v : Nat)                            -- `mem.leds[i].intensity = v`
  | write                                                     -- `mem.write_data(cb)`
  deriving Repr, DecidableEq

def ledInit : List Led := List.replicate 12 ⟨0, 0, 0, 100⟩

def ledStep (s : List Led) : LedOp → List Led × Option (Except PyErr (List UInt8))
  | .set i r g b it => (s.modify i (fun l => l.set r g b it), none)
  | .intensity i v => (s.modify i (fun l => { l with intensity := v }), none)
  | .write => (s, some (ledWriteData s))

/-- a whole history on one object: the data of every write, in order -/
def ledRun (s : List Led) : List LedOp → List (Except PyErr (List UInt8))
  | [] => []
  | op :: ops =>
    let r := ledStep s op
    match r.2 with
    | some out => out :: ledRun r.1 ops
    | none => ledRun r.1 ops

/-- operations on one `LEDTimingsDriverMemory` object -/
inductive TimingOp
  | add (t : Timing)
  | write
  deriving Repr, DecidableEq

def timingRun (s : List Timing) : List TimingOp → List (Except PyErr (List UInt8))
  | [] => []
  | .add t :: ops => timingRun (s ++ [t]) ops
  | .write :: ops => timingsWriteData s :: timingRun s ops

/-- one `Localization` object receiving a stream of packets: `_incoming` keeps nothing between packets (Gen: `incStores`) -/
def incomingAll (ps : List (List UInt8)) : List (Except PyErr Incoming) := ps.map incoming

end CfVerif.C13

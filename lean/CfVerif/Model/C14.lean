/-
Model/C14: executable model of cflib's stored configuration images.

* `Mem`: the byte-addressed memory behind a memory element (what the fake `mem_handler` of the
  correspondence harness implements: `write` stores at an address, `read` returns the stored bytes).
* EEPROM radio configuration (`I2CElement.write_data` / `update` + `new_data`).

All formats, the token, read addresses/lengths, the checksum modulus and the address split/join
expressions come from Gen/C14 (Tie A).  No Mathlib.
-/
import CfVerif.Base.Struct
import CfVerif.Base.Py
import CfVerif.Gen.C14
namespace CfVerif.C14
open CfVerif

/-! ## memory behind a memory element -/

abbrev Mem := List UInt8

/-- `mem_handler.read(element, addr, n)`: the bytes at `addr .. addr+n` (shorter at the end of the memory) -/
def Mem.read (m : Mem) (addr n : Nat) : List UInt8 := (m.drop addr).take n

/-- `mem_handler.write(element, addr, data)`: store `data` at `addr` (a gap is zero-filled) -/
def Mem.write (m : Mem) (addr : Nat) (d : List UInt8) : Mem :=
  (m ++ List.replicate (addr - m.length) 0).take addr ++ d ++ m.drop (addr + d.length)

/-- Python slice `data[a:b]` for `0 ≤ a`, `0 ≤ b` -/
def slice (l : List UInt8) (a b : Nat) : List UInt8 := (l.take b).drop a

def natsToBytes (l : List Nat) : List UInt8 := l.map UInt8.ofNat

/-! ## EEPROM radio configuration (I2CElement) -/

def eepromToken : List UInt8 := natsToBytes Gen.C14.eepromToken

def byteSum (l : List UInt8) : Nat := (l.map UInt8.toNat).sum

/-- `I2CElement._checksum256` (the argument is never empty where it is called: see `i2cFinish`) -/
def checksum256 (l : List UInt8) : Nat := byteSum l % Gen.C14.i2cChecksumMod

/-- the `elements` dict of an `I2CElement`; `address = none` models an absent `'radio_address'` key.
Trims are float32 bit patterns. -/
structure I2CElems where
  version : Int
  channel : Int
  speed : Int
  pitch : Nat
  roll : Nat
  address : Option Int
  deriving Repr, DecidableEq

/-- `I2CElement.write_data`: the image handed to `mem_handler.write(self, 0, image)` -/
def i2cImage (e : I2CElems) : Except PyErr (List UInt8) := do
  let body ←
    if e.version = 0 then
      pack (parseFmt! Gen.C14.i2cW0Fmt) [.int 0, .int e.channel, .int e.speed, .flt e.pitch, .flt e.roll]
    else if e.version = 1 then
      match e.address with
      | none => .error .keyError
      | some (.ofNat a) =>
        pack (parseFmt! Gen.C14.i2cW1Fmt)
          [.int 1, .int e.channel, .int e.speed, .flt e.pitch, .flt e.roll,
           .int (Gen.C14.i2cAddrHi a), .int (Gen.C14.i2cAddrLo a)]
      | some (.negSucc a) =>       -- `addr >> 32` is negative: the `B` item raises struct.error
        pack (parseFmt! Gen.C14.i2cW1Fmt)
          [.int 1, .int e.channel, .int e.speed, .flt e.pitch, .flt e.roll,
           .int (pyShr (.negSucc a) 32), .int (pyAnd (.negSucc a) 4294967295)]
    else .ok []          -- neither branch taken: the image is token + checksum only
  let image := eepromToken ++ body
  let ck ← pack (parseFmt! Gen.C14.i2cWckFmt) [.int (checksum256 image)]
  pure (image ++ ck)

/-- what is observable on an `I2CElement` after `update()` on a fresh object -/
structure I2CParsed where
  /-- version, channel, speed, pitch, roll keys of `elements` (absent when the token did not match) -/
  fields : Option (Int × Int × Int × Nat × Nat)
  /-- `elements['radio_address']` (only set for version 1) -/
  address : Option Nat
  valid : Bool
  /-- whether `update_finished_cb` was invoked (it never is for a version byte ≥ 2) -/
  called : Bool
  deriving Repr, DecidableEq

/-- the `if done:` block of `new_data`.  `data` has at least 15 bytes here (the header unpack succeeded),
so `_checksum256` is never applied to an empty sequence. -/
def i2cFinish (data : List UInt8) (fields : Int × Int × Int × Nat × Nat) (address : Option Nat) : I2CParsed :=
  let n := data.length - 1
  { fields := some fields, address := address,
    valid := checksum256 (data.take n) == (data.getD n 0).toNat,
    called := true }

/-- `I2CElement.update` + `new_data` against a memory: first read `(0, 16)`, for version 1 a second read `(16, 5)` -/
def i2cUpdate (m : Mem) : Except PyErr I2CParsed :=
  let d0 := m.read (Gen.C14.i2cRead1.getD 0 0) (Gen.C14.i2cRead1.getD 1 0)
  if slice d0 0 4 = eepromToken then
    match unpack (parseFmt! Gen.C14.i2cHdrFmt) (slice d0 4 15) with
    | .error e => .error e
    | .ok [.int v, .int ch, .int sp, .flt p, .flt r] =>
      if v = 0 then .ok (i2cFinish d0 (v, ch, sp, p, r) none)
      else if v = 1 then
        let d1 := m.read (Gen.C14.i2cRead2.getD 0 0) (Gen.C14.i2cRead2.getD 1 0)
        match unpack (parseFmt! Gen.C14.i2cAddrFmt) (slice d0 15 16 ++ slice d1 0 4) with
        | .error e => .error e
        | .ok [.int up, .int lo] =>
          .ok (i2cFinish (d0 ++ d1) (v, ch, sp, p, r) (some (Gen.C14.i2cAddrJoin up.toNat lo.toNat)))
        | .ok _ => .error .valueError
      else .ok { fields := some (v, ch, sp, p, r), address := none, valid := false, called := false }
    | .ok _ => .error .valueError
  else .ok { fields := none, address := none, valid := false, called := true }

end CfVerif.C14

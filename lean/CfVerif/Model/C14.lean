/-
Model/C14: executable model of cflib's stored configuration images.

* `Mem`: the byte-addressed memory behind a memory element (what the fake `mem_handler` of the
  correspondence harness implements: `write` stores at an address, `read` returns the stored bytes).
* EEPROM radio configuration (`I2CElement.write_data` / `update` + `new_data`).

All formats, the token, read addresses/lengths, the checksum modulus and the address split/join
expressions come from Gen/C14 (Tie A).  No Mathlib.
-/
import CfVerif.Base.Struct
import CfVerif.Base.Py
import CfVerif.Gen.C14
namespace CfVerif.C14
open CfVerif

/-! ## memory behind a memory element -/

abbrev Mem := List UInt8

/-- `mem_handler.read(element, addr, n)`: the bytes at `addr .. addr+n` (shorter at the end of the memory) -/
def Mem.read (m : Mem) (addr n : Nat) : List UInt8 := (m.drop addr).take n

/-- `mem_handler.write(element, addr, data)`: store `data` at `addr` (a gap is zero-filled) -/
def Mem.write (m : Mem) (addr : Nat) (d : List UInt8) : Mem :=
  (m ++ List.replicate (addr - m.length) 0).take addr ++ d ++ m.drop (addr + d.length)

/-- Python slice `data[a:b]` for `0 ≤ a`, `0 ≤ b` -/
def slice (l : List UInt8) (a b : Nat) : List UInt8 := (l.take b).drop a

def natsToBytes (l : List Nat) : List UInt8 := l.map UInt8.ofNat

/-! ## EEPROM radio configuration (I2CElement) -/

def eepromToken : List UInt8 := natsToBytes Gen.C14.eepromToken

def byteSum (l : List UInt8) : Nat := (l.map UInt8.toNat).sum

/-- `I2CElement._checksum256` (the argument is never empty where it is called: see `i2cFinish`) -/
def checksum256 (l : List UInt8) : Nat := byteSum l % Gen.C14.i2cChecksumMod

/-- the `elements` dict of an `I2CElement`; `address = none` models an absent `'radio_address'` key.
Trims are float32 bit patterns. -/
structure I2CElems where
  version : Int
  channel : Int
  speed : Int
  pitch : Nat
  roll : Nat
  address : Option Int
  deriving Repr, DecidableEq

/-- `I2CElement.write_data`: the image handed to `mem_handler.write(self, 0, image)` -/
def i2cImage (e : I2CElems) : Except PyErr (List UInt8) := do
  let body ←
    if e.version = 0 then
      pack (parseFmt! Gen.C14.i2cW0Fmt) [.int 0, .int e.channel, .int e.speed, .flt e.pitch, .flt e.roll]
    else if e.version = 1 then
      match e.address with
      | none => .error .keyError
      | some (.ofNat a) =>
        pack (parseFmt! Gen.C14.i2cW1Fmt)
          [.int 1, .int e.channel, .int e.speed, .flt e.pitch, .flt e.roll,
           .int (Gen.C14.i2cAddrHi a), .int (Gen.C14.i2cAddrLo a)]
      | some (.negSucc a) =>       -- `addr >> 32` is negative: the `B` item raises struct.error
        pack (parseFmt! Gen.C14.i2cW1Fmt)
          [.int 1, .int e.channel, .int e.speed, .flt e.pitch, .flt e.roll,
           .int (pyShr (.negSucc a) 32), .int (pyAnd (.negSucc a) 4294967295)]
    else .ok []          -- neither branch taken: the image is token + checksum only
  let image := eepromToken ++ body
  let ck ← pack (parseFmt! Gen.C14.i2cWckFmt) [.int (checksum256 image)]
  pure (image ++ ck)

/-- what is observable on an `I2CElement` after `update()` on a fresh object -/
structure I2CParsed where
  /-- version, channel, speed, pitch, roll keys of `elements` (absent when the token did not match) -/
  fields : Option (Int × Int × Int × Nat × Nat)
  /-- `elements['radio_address']` (only set for version 1) -/
  address : Option Nat
  valid : Bool
  /-- whether `update_finished_cb` was invoked (it never is for a version byte ≥ 2) -/
  called : Bool
  deriving Repr, DecidableEq

/-- the `if done:` block of `new_data`.  `data` has at least 15 bytes here (the header unpack succeeded),
so `_checksum256` is never applied to an empty sequence. -/
def i2cFinish (data : List UInt8) (fields : Int × Int × Int × Nat × Nat) (address : Option Nat) : I2CParsed :=
  let n := data.length - 1
  { fields := some fields, address := address,
    valid := checksum256 (data.take n) == (data.getD n 0).toNat,
    called := true }

/-- the paths of `I2CElement.new_data` that end an update, named by the chain of `if` tests that leads to them (Gen
`i2cCbCalls` / `i2cCbClears` list where the callback is called and where the pending record is cleared) -/
def i2cPathUnknown : String :=
  "mem.id == self.id > addr == 0 > data[0:4] == EEPROM_TOKEN > self.elements['version'] == 0/else > self.elements['version'] == 1/else > self._update_finished_cb"
def i2cPathBadToken : String := "mem.id == self.id > addr == 0 > data[0:4] == EEPROM_TOKEN/else > self._update_finished_cb"
def i2cPathDone : String := "mem.id == self.id > done > self._update_finished_cb"

/-- `I2CElement.update` + `new_data` against a memory: first read `(0, 16)`, for version 1 a second read `(16, 5)` -/
def i2cUpdate (m : Mem) : Except PyErr I2CParsed :=
  let d0 := m.read (Gen.C14.i2cRead1.getD 0 0) (Gen.C14.i2cRead1.getD 1 0)
  if slice d0 0 4 = eepromToken then
    match unpack (parseFmt! Gen.C14.i2cHdrFmt) (slice d0 4 15) with
    | .error e => .error e
    | .ok [.int v, .int ch, .int sp, .flt p, .flt r] =>
      if v = 0 then .ok (i2cFinish d0 (v, ch, sp, p, r) none)
      else if v = 1 then
        let d1 := m.read (Gen.C14.i2cRead2.getD 0 0) (Gen.C14.i2cRead2.getD 1 0)
        match unpack (parseFmt! Gen.C14.i2cAddrFmt) (slice d0 15 16 ++ slice d1 0 4) with
        | .error e => .error e
        | .ok [.int up, .int lo] =>
          .ok (i2cFinish (d0 ++ d1) (v, ch, sp, p, r) (some (Gen.C14.i2cAddrJoin up.toNat lo.toNat)))
        | .ok _ => .error .valueError
      else .ok { fields := some (v, ch, sp, p, r), address := none, valid := false, called := Gen.C14.i2cCbCalls.contains i2cPathUnknown }
    | .ok _ => .error .valueError
  else .ok { fields := none, address := none, valid := false, called := true }

/-! ## CRC-32 (`binascii.crc32`): reflected polynomial 0xEDB88320, initial value and final xor 0xFFFFFFFF -/

def crcStep (c : Nat) : Nat := if c % 2 = 1 then (c / 2) ^^^ 0xEDB88320 else c / 2

def crcByte (c : Nat) (b : UInt8) : Nat :=
  crcStep (crcStep (crcStep (crcStep (crcStep (crcStep (crcStep (crcStep (c ^^^ b.toNat))))))))

def crc32 (bs : List UInt8) : Nat := (bs.foldl crcByte 0xFFFFFFFF) ^^^ 0xFFFFFFFF

/-! ## 1-wire deck identity (OWElement) -/

/-- a Python dict in insertion order (keys distinct) -/
abbrev Dict (α : Type) := List (Nat × α)

/-- `d[k] = v`: replace in place, or append -/
def dictSet {α} : Dict α → Nat → α → Dict α
  | [], k, v => [(k, v)]
  | (k', v') :: d, k, v => if k' = k then (k', v) :: d else (k', v') :: dictSet d k v

/-- the attributes of an `OWElement` that `write_data` uses.  `elements` maps element *ids* to strings given as
code points: the name <-> id bijection `element_mapping` (Gen.owIds/owNames) is applied by the harness; a name that
is not in the mapping is carried as id 0 (`_rev_element_mapping[name]` raises KeyError). -/
structure OWData where
  pins : Int
  vid : Int
  pid : Int
  elements : Dict (List Nat)
  deriving Repr, DecidableEq

/-- `str.encode('ISO-8859-1')`: UnicodeEncodeError (a ValueError) for a code point above 255 -/
def encodeLatin1 (s : List Nat) : Except PyErr (List UInt8) :=
  if s.all (· < 256) then .ok (s.map UInt8.ofNat) else .error .valueError

/-- the body of the `for element in reversed(list(self.elements.keys()))` loop, over the already reversed list -/
def owEncodeElems : Dict (List Nat) → Except PyErr (List UInt8)
  | [] => .ok []
  | (k, s) :: rest => do
    if ¬ Gen.C14.owIds.contains k then .error .keyError
    let kl ← pack (parseFmt! Gen.C14.owWKeyLenFmt) [.int k, .int s.length]
    let enc ← encodeLatin1 s
    let r ← owEncodeElems rest
    pure (kl ++ enc ++ r)

def maskOf (l : List Nat) (i : Nat) : Nat := l.getD i 0

/-- `OWElement.write_data`: the image handed to `mem_handler.write(self, 0, image)` -/
def owImage (o : OWData) : Except PyErr (List UInt8) := do
  let hdr ← pack (parseFmt! Gen.C14.owWHdrFmt) [.int Gen.C14.owWMagic, .int o.pins, .int o.vid, .int o.pid]
  let hcrc ← pack (parseFmt! Gen.C14.owWHdrCrcFmt) [.int (crc32 hdr &&& maskOf Gen.C14.owWCrcMasks 0 : Nat)]
  let elem ← owEncodeElems o.elements.reverse
  let area ← pack (parseFmt! Gen.C14.owWAreaFmt) [.int 0, .int elem.length]
  let acrc ← pack (parseFmt! Gen.C14.owWAreaCrcFmt) [.int (crc32 (area ++ elem) &&& maskOf Gen.C14.owWCrcMasks 1 : Nat)]
  pure (hdr ++ hcrc ++ (area ++ elem ++ acrc))

/-- what is observable on an `OWElement` after `update()` on a fresh object; element values are the Latin-1 strings
as bytes -/
structure OWParsed where
  pins : Nat
  vid : Nat
  pid : Nat
  elements : Dict (List UInt8)
  valid : Bool
  called : Bool
  deriving Repr, DecidableEq

/-- `_parse_and_check_header(data)`: the fields (always stored) and the verdict -/
def owHeader (data : List UInt8) : Except PyErr (Nat × Nat × Nat × Bool) :=
  match unpack (parseFmt! Gen.C14.owRHdrFmt) data with
  | .error e => .error e
  | .ok [.int start, .int pins, .int vid, .int pid, .int crc] =>
    let test := crc32 (data.take (data.length - 1)) &&& maskOf Gen.C14.owRHdrCrcMasks 0
    .ok (pins.toNat, vid.toNat, pid.toNat, start.toNat = Gen.C14.owMagic && crc.toNat = test)
  | .ok _ => .error .valueError

/-- the `while len(elem_data) > 0` loop; every iteration removes at least two bytes, `fuel` bounds the iterations -/
def owTlv : Nat → List UInt8 → Dict (List UInt8) → Except PyErr (Dict (List UInt8))
  | _, [], d => .ok d
  | 0, _ :: _, d => .ok d
  | fuel + 1, data, d =>
    match unpack (parseFmt! Gen.C14.owRTlvFmt) (data.take 2) with
    | .error e => .error e
    | .ok [.int eid, .int elen] =>
      if Gen.C14.owIds.contains eid.toNat then
        owTlv fuel (data.drop (2 + elen.toNat)) (dictSet d eid.toNat (slice data 2 (2 + elen.toNat)))
      else .error .keyError
    | .ok _ => .error .valueError

/-- `_parse_and_check_elements(data)` on an element dict `d`: `none` = CRC mismatch (returns False) -/
def owElements (data : List UInt8) (d : Dict (List UInt8)) : Except PyErr (Option (Dict (List UInt8))) :=
  match data.getLast? with
  | none => .error .indexError                    -- `data[-1]` of an empty buffer
  | some crc =>
    let body := data.take (data.length - 1)         -- data[:-1]
    let test := crc32 body &&& maskOf Gen.C14.owRElemCrcMasks 0
    let elemData := body.drop 2                     -- data[2:-1]
    if test = crc.toNat then
      match owTlv elemData.length elemData d with
      | .ok d' => .ok (some d')
      | .error e => .error e
    else .ok none

/-- the second stage: `new_data(addr = 8)` -/
def owStage2 (m : Mem) (pins vid pid elemLen : Nat) : Except PyErr OWParsed :=
  let d2 := m.read Gen.C14.owRead2Addr (Gen.C14.owRead2Len elemLen)
  match owElements d2 [] with
  | .error e => .error e
  | .ok (some d) => .ok { pins, vid, pid, elements := d, valid := true, called := true }
  | .ok none => .ok { pins, vid, pid, elements := [], valid := false, called := true }

/-- `OWElement.update` + `new_data` (REPAIRED code, fixes/D12-c14.patch): read `(0, 11)`; the header; the element
section length; an empty section is checked in place (`data[8:11]`), anything else is fetched with `(8, len + 3)`. -/
def owUpdate (m : Mem) : Except PyErr OWParsed :=
  let d0 := m.read (Gen.C14.owRead1.getD 0 0) (Gen.C14.owRead1.getD 1 0)
  match owHeader (slice d0 0 8) with
  | .error e => .error e
  | .ok (pins, vid, pid, false) => .ok { pins, vid, pid, elements := [], valid := false, called := true }
  | .ok (pins, vid, pid, true) =>
    match unpack (parseFmt! Gen.C14.owLenFmt) (slice d0 8 10) with
    | .error e => .error e
    | .ok [.int _, .int elemLen] =>
      if elemLen = 0 then
        match owElements (slice d0 8 11) [] with
        | .error e => .error e
        | .ok (some d) => .ok { pins, vid, pid, elements := d, valid := true, called := true }
        | .ok none => owStage2 m pins vid pid elemLen.toNat
      else owStage2 m pins vid pid elemLen.toNat
    | .ok _ => .error .valueError

/-- the code as it is in /repo today (D12): the in-place check is applied to `data[9:11]` (length byte and first
element id) for every length -/
def owUpdateLive (m : Mem) : Except PyErr OWParsed :=
  let d0 := m.read (Gen.C14.owRead1.getD 0 0) (Gen.C14.owRead1.getD 1 0)
  match owHeader (slice d0 0 8) with
  | .error e => .error e
  | .ok (pins, vid, pid, false) => .ok { pins, vid, pid, elements := [], valid := false, called := true }
  | .ok (pins, vid, pid, true) =>
    match owElements (slice d0 9 11) [] with
    | .error e => .error e
    | .ok (some d) => .ok { pins, vid, pid, elements := d, valid := true, called := true }
    | .ok none =>
      match unpack (parseFmt! Gen.C14.owLenFmt) (slice d0 8 10) with
      | .error e => .error e
      | .ok [.int _, .int elemLen] => owStage2 m pins vid pid elemLen.toNat
      | .ok _ => .error .valueError

/-! ## Lighthouse geometry and calibration in memory layout (lighthouse_memory.py) -/

/-- three float32 bit patterns (`vector[0]`, `vector[1]`, `vector[2]`) -/
structure V3 where
  x : Nat
  y : Nat
  z : Nat
  deriving Repr, DecidableEq

/-- `LighthouseBsGeometry` -/
structure Geo where
  origin : V3
  r0 : V3
  r1 : V3
  r2 : V3
  valid : Bool
  deriving Repr, DecidableEq

/-- `_add_vector` -/
def packV3 (v : V3) : Except PyErr (List UInt8) :=
  pack (parseFmt! Gen.C14.lhVecWFmt) [.flt v.x, .flt v.y, .flt v.z]

/-- `_read_vector` -/
def unpackV3 (d : List UInt8) : Except PyErr V3 :=
  match unpack (parseFmt! Gen.C14.lhVecRFmt) d with
  | .error e => .error e
  | .ok [.flt x, .flt y, .flt z] => .ok ⟨x, y, z⟩
  | .ok _ => .error .valueError

/-- `LighthouseBsGeometry.add_mem_data` -/
def geoImage (g : Geo) : Except PyErr (List UInt8) := do
  let a ← packV3 g.origin
  let b ← packV3 g.r0
  let c ← packV3 g.r1
  let d ← packV3 g.r2
  let e ← pack (parseFmt! Gen.C14.lhGeoValidWFmt) [.bool g.valid]
  pure (a ++ b ++ c ++ d ++ e)

/-- `LighthouseBsGeometry.set_from_mem_data` -/
def geoParse (data : List UInt8) : Except PyErr Geo := do
  let sv := Gen.C14.lhSizeVector
  let o ← unpackV3 (slice data (0 * sv) (1 * sv))
  let r0 ← unpackV3 (slice data (1 * sv) (2 * sv))
  let r1 ← unpackV3 (slice data (2 * sv) (3 * sv))
  let r2 ← unpackV3 (slice data (3 * sv) (4 * sv))
  match unpack (parseFmt! Gen.C14.lhGeoValidRFmt) (data.drop (4 * sv)) with
  | .error e => .error e
  | .ok [.bool v] => pure ⟨o, r0, r1, r2, v⟩
  | .ok _ => .error .valueError

/-- `LighthouseCalibrationSweep`: phase, tilt, curve, gibmag, gibphase, ogeemag, ogeephase (float32 bit patterns) -/
structure Sweep where
  phase : Nat
  tilt : Nat
  curve : Nat
  gibmag : Nat
  gibphase : Nat
  ogeemag : Nat
  ogeephase : Nat
  deriving Repr, DecidableEq

/-- `LighthouseBsCalibration` -/
structure Calib where
  s0 : Sweep
  s1 : Sweep
  uid : Int
  valid : Bool
  deriving Repr, DecidableEq

def packSweep (s : Sweep) : Except PyErr (List UInt8) :=
  pack (parseFmt! Gen.C14.lhSweepWFmt)
    [.flt s.phase, .flt s.tilt, .flt s.curve, .flt s.gibmag, .flt s.gibphase, .flt s.ogeemag, .flt s.ogeephase]

def unpackSweep (d : List UInt8) : Except PyErr Sweep :=
  match unpack (parseFmt! Gen.C14.lhSweepRFmt) d with
  | .error e => .error e
  | .ok [.flt a, .flt b, .flt c, .flt d, .flt e, .flt f, .flt g] => .ok ⟨a, b, c, d, e, f, g⟩
  | .ok _ => .error .valueError

/-- `LighthouseBsCalibration.add_mem_data` -/
def calibImage (c : Calib) : Except PyErr (List UInt8) := do
  let a ← packSweep c.s0
  let b ← packSweep c.s1
  let t ← pack (parseFmt! Gen.C14.lhCalibTailWFmt) [.int c.uid, .bool c.valid]
  pure (a ++ b ++ t)

/-- `LighthouseBsCalibration.set_from_mem_data` -/
def calibParse (data : List UInt8) : Except PyErr Calib := do
  let ss := Gen.C14.lhSizeSweep
  let s0 ← unpackSweep (slice data 0 ss)
  let s1 ← unpackSweep (slice data ss (ss * 2))
  match unpack (parseFmt! Gen.C14.lhCalibTailRFmt) (data.drop (ss * 2)) with
  | .error e => .error e
  | .ok [.int uid, .bool v] => pure ⟨s0, s1, uid, v⟩
  | .ok _ => .error .valueError

/-- what `LighthouseMemory.new_data` hands to the update callback -/
inductive LhObj
  | geo (g : Geo)
  | calib (c : Calib)
  deriving Repr, DecidableEq

/-- `LighthouseMemory.new_data(mem, addr, data)`: the address decides which container parses the data -/
def lhNewData (addr : Nat) (data : List UInt8) : Except PyErr LhObj :=
  if addr < Gen.C14.lhCalibStart then (geoParse data).map .geo else (calibParse data).map .calib

/-- `write_geo_data(bs_id, geo)` / `write_calib_data(bs_id, calib)` on the memory -/
def lhWriteGeo (m : Mem) (bs : Nat) (g : Geo) : Except PyErr Mem :=
  (geoImage g).map (m.write (Gen.C14.lhGeoWriteAddr bs))
def lhWriteCalib (m : Mem) (bs : Nat) (c : Calib) : Except PyErr Mem :=
  (calibImage c).map (m.write (Gen.C14.lhCalibWriteAddr bs))

/-- `read_geo_data(bs_id)` / `read_calib_data(bs_id)` followed by `new_data` -/
def lhReadGeo (m : Mem) (bs : Nat) : Except PyErr LhObj :=
  lhNewData (Gen.C14.lhGeoReadAddr bs) (m.read (Gen.C14.lhGeoReadAddr bs) Gen.C14.lhSizeGeometry)
def lhReadCalib (m : Mem) (bs : Nat) : Except PyErr LhObj :=
  lhNewData (Gen.C14.lhCalibReadAddr bs) (m.read (Gen.C14.lhCalibReadAddr bs) Gen.C14.lhSizeCalibration)

/-- `LighthouseMemHelper.write_geos(dict)`: the objects are written one after the other, in dict order;
the first exception aborts -/
def lhWriteGeos : Mem → List (Nat × Geo) → Except PyErr Mem
  | m, [] => .ok m
  | m, (bs, g) :: rest => do
    let m' ← lhWriteGeo m bs g
    lhWriteGeos m' rest
def lhWriteCalibs : Mem → List (Nat × Calib) → Except PyErr Mem
  | m, [] => .ok m
  | m, (bs, c) :: rest => do
    let m' ← lhWriteCalib m bs c
    lhWriteCalibs m' rest

/-! ## Deck memory info section (deck_memory.py) -/

def isCont (b : UInt8) : Bool := 0x80 ≤ b.toNat && b.toNat ≤ 0xBF

/-- `bytes.decode()` (UTF-8, strict): the code points, or `none` for UnicodeDecodeError.
Shortest form only, no surrogates, nothing above U+10FFFF (as CPython). -/
def utf8Decode : List UInt8 → Option (List Nat)
  | [] => some []
  | b0 :: rest =>
    let n0 := b0.toNat
    if n0 < 0x80 then (utf8Decode rest).map (n0 :: ·)
    else if 0xC2 ≤ n0 ∧ n0 ≤ 0xDF then
      match rest with
      | b1 :: r =>
        if isCont b1 then (utf8Decode r).map (((n0 - 0xC0) * 64 + (b1.toNat - 0x80)) :: ·) else none
      | _ => none
    else if 0xE0 ≤ n0 ∧ n0 ≤ 0xEF then
      match rest with
      | b1 :: b2 :: r =>
        let lo := if n0 = 0xE0 then 0xA0 else 0x80
        let hi := if n0 = 0xED then 0x9F else 0xBF
        if lo ≤ b1.toNat ∧ b1.toNat ≤ hi ∧ isCont b2 then
          (utf8Decode r).map (((n0 - 0xE0) * 4096 + (b1.toNat - 0x80) * 64 + (b2.toNat - 0x80)) :: ·)
        else none
      | _ => none
    else if 0xF0 ≤ n0 ∧ n0 ≤ 0xF4 then
      match rest with
      | b1 :: b2 :: b3 :: r =>
        let lo := if n0 = 0xF0 then 0x90 else 0x80
        let hi := if n0 = 0xF4 then 0x8F else 0xBF
        if lo ≤ b1.toNat ∧ b1.toNat ≤ hi ∧ isCont b2 ∧ isCont b3 then
          (utf8Decode r).map (((n0 - 0xF0) * 262144 + (b1.toNat - 0x80) * 4096 + (b2.toNat - 0x80) * 64 + (b3.toNat - 0x80)) :: ·)
        else none
      | _ => none
    else none

/-- the observable attributes of one `DeckMemory` -/
structure DeckInfo where
  bf1 : Nat
  bf2 : Nat
  requiredHash : Nat
  requiredLength : Nat
  baseAddress : Nat
  name : List Nat            -- code points
  cmdBase : Nat
  deriving Repr, DecidableEq

/-- the nine boolean properties, in the order of `Gen.C14.deckProps` -/
def DeckInfo.flags (d : DeckInfo) : List Bool :=
  [d.bf1 &&& Gen.C14.deckMaskIsValid != 0, d.bf1 &&& Gen.C14.deckMaskIsStarted != 0,
   d.bf1 &&& Gen.C14.deckMaskSupportsRead != 0, d.bf1 &&& Gen.C14.deckMaskSupportsWrite != 0,
   d.bf1 &&& Gen.C14.deckMaskSupportsUpgrade != 0, d.bf1 &&& Gen.C14.deckMaskUpgradeRequired != 0,
   d.bf1 &&& Gen.C14.deckMaskBootloaderActive != 0,
   d.bf2 &&& Gen.C14.deckMaskSupportsResetToFw != 0, d.bf2 &&& Gen.C14.deckMaskSupportsResetToBootloader != 0]

/-- `DeckMemory._parse(data)` followed by the caller's `if deck_memory.is_valid`: `none` = not listed.
Any exception while decoding the record of a deck that claims to be valid is swallowed and the deck dropped. -/
def deckParseOne (data : List UInt8) (cmdBase : Nat) : Except PyErr (Option DeckInfo) :=
  match unpack (parseFmt! Gen.C14.deckBitsFmt) (slice data 0 2) with
  | .error e => .error e
  | .ok [.int bf1, .int bf2] =>
    if bf1.toNat &&& Gen.C14.deckMaskIsValid != 0 then
      match unpack (parseFmt! Gen.C14.deckRecFmt) (data.drop 2) with
      | .ok [.int h, .int l, .int b, .bytes nm] =>
        match utf8Decode (nm.takeWhile (· != 0)) with            -- _name.split(b'\x00')[0].decode()
        | some cps => .ok (some ⟨bf1.toNat, bf2.toNat, h.toNat, l.toNat, b.toNat, cps, cmdBase⟩)
        | none => .ok none
      | _ => .ok none
    else .ok none
  | .ok _ => .error .valueError

/-- the `for i in range(MAX_NR_OF_DECK_MEM_INFOS)` loop from index `i`, `k` iterations to go -/
def deckLoop (data : List UInt8) : Nat → Nat → Except PyErr (List (Nat × DeckInfo))
  | _, 0 => .ok []
  | i, k + 1 => do
    let start := Gen.C14.deckStart i
    let r ← deckParseOne (slice data start (Gen.C14.deckEnd start)) (Gen.C14.deckCmdBase i)
    let rest ← deckLoop data (i + 1) k
    pure (match r with
      | some d => (i, d) :: rest
      | none => rest)

inductive DeckResult
  | decks (l : List (Nat × DeckInfo))     -- query_complete_cb(deck_memories)
  | unsupported (version : Nat)           -- RuntimeError -> query_failed_cb
  deriving Repr, DecidableEq

/-- `DeckMemoryManager._parse_info_section(data)` as used by `_new_data` -/
def deckParseInfo (data : List UInt8) : Except PyErr DeckResult :=
  match unpack (parseFmt! Gen.C14.deckVersionFmt) (slice data 0 1) with
  | .error e => .error e
  | .ok [.int v] =>
    if v.toNat ≠ Gen.C14.deckSupportedVersion then .ok (.unsupported v.toNat)
    else (deckLoop data 0 Gen.C14.deckMaxNrOfDeckMemInfos).map .decks
  | .ok _ => .error .valueError

/-- `query_decks`: read `(INFO_SECTION_ADDRESS, SIZE_OF_INFO_SECTION)` then `_new_data` -/
def deckQuery (m : Mem) : Except PyErr DeckResult :=
  deckParseInfo (m.read Gen.C14.deckInfoSectionAddress Gen.C14.deckSizeOfInfoSection)

/-! ## Loco positioning anchor lists (loco_memory.py, loco_memory_2.py) -/

/-- `AnchorData` / `AnchorData2`: position (three float32 bit patterns) and valid flag -/
structure Anchor where
  pos : V3
  valid : Bool
  deriving Repr, DecidableEq

/-- `AnchorData.set_from_mem_data` -/
def anchorParse (fmt : String) (d : List UInt8) : Except PyErr Anchor :=
  match unpack (parseFmt! fmt) d with
  | .error e => .error e
  | .ok [.flt x, .flt y, .flt z, .bool v] => .ok ⟨⟨x, y, z⟩, v⟩
  | .ok _ => .error .valueError

/-- `AnchorData()`: the default entry of a freshly allocated `anchor_data` list (position (0.0, 0.0, 0.0)) -/
def Anchor.default : Anchor := ⟨⟨0, 0, 0⟩, false⟩

/-- `LocoMemory.new_data` for a page read at `addr`, repeated while `next_page < nr_of_anchors`:
the page index is recomputed from the address, the entry of `anchor_data` replaced. -/
def locoRun (m : Mem) (nr : Nat) : Nat → Nat → List Anchor → Except PyErr (List Anchor)
  | 0, _, _ => .error .other                       -- fuel exhausted (never: `nr` iterations suffice)
  | fuel + 1, addr, acc =>
    let data := m.read addr Gen.C14.locoPageLen
    let page := Gen.C14.locoPageOf addr
    match anchorParse Gen.C14.locoAnchorFmt data with
    | .error e => .error e
    | .ok a =>
      if page < acc.length then
        let acc' := acc.set page a
        let next := page + 1
        if next < nr then locoRun m nr fuel (Gen.C14.locoPageAddr next) acc' else .ok acc'
      else .error .indexError

/-- what is observable on a `LocoMemory` after `update()` -/
structure LocoParsed where
  nr : Nat
  anchors : List Anchor
  valid : Bool
  deriving Repr, DecidableEq

/-- `LocoMemory.update` + `new_data`: the info byte, then one page per anchor -/
def locoUpdate (m : Mem) : Except PyErr LocoParsed :=
  match m.read Gen.C14.locoInfo Gen.C14.locoInfoLen with
  | [] => .error .indexError                        -- data[0]
  | n :: _ =>
    if n.toNat = 0 then .ok ⟨0, [], true⟩
    else
      match locoRun m n.toNat n.toNat (Gen.C14.locoPageAddr 0) (List.replicate n.toNat Anchor.default) with
      | .ok l => .ok ⟨n.toNat, l, true⟩
      | .error e => .error e

/-- `_handle_id_list_data` / `_handle_active_id_list_data`: `data[0]` ids follow the count (IndexError when the
count exceeds what was read) -/
def loco2Ids (data : List UInt8) : Except PyErr (List Nat) :=
  match data with
  | [] => .error .indexError
  | n :: rest => if n.toNat ≤ rest.length then .ok ((rest.take n.toNat).map UInt8.toNat) else .error .indexError

def loco2IdList (m : Mem) : Except PyErr (List Nat) :=
  loco2Ids (m.read Gen.C14.loco2AdrIdList Gen.C14.loco2IdListLen)
def loco2ActiveIdList (m : Mem) : Except PyErr (List Nat) :=
  loco2Ids (m.read Gen.C14.loco2AdrActiveIdList Gen.C14.loco2IdListLen)

/-- `update_data`: the pages of `anchor_ids`, in that order; `anchor_data[id] = anchor` with the id recomputed
from the address -/
def loco2Fetch (m : Mem) : List Nat → Dict Anchor → Except PyErr (Dict Anchor)
  | [], d => .ok d
  | id :: rest, d =>
    let addr := Gen.C14.loco2PageAddr id
    match anchorParse Gen.C14.loco2AnchorFmt (m.read addr Gen.C14.loco2PageLen) with
    | .error e => .error e
    | .ok a => loco2Fetch m rest (dictSet d (Gen.C14.loco2IdOf addr) a)

/-- `update_id_list` then `update_data` (which does nothing when there are no anchors) -/
def loco2Update (m : Mem) : Except PyErr (List Nat × Dict Anchor) :=
  match loco2IdList m with
  | .error e => .error e
  | .ok ids => (loco2Fetch m ids []).map (ids, ·)

/-! ## Write-only images: polynomial trajectory pieces, LED timing sequences -/

/-- `Poly4D.pack`: x, y, z, yaw coefficient lists (any length: struct.error unless 8) and the duration -/
def poly4dPack (x y z yaw : List Nat) (duration : Nat) : Except PyErr (List UInt8) := do
  let a ← pack (parseFmt! (Gen.C14.polyFmts.getD 0 "")) (x.map .flt)
  let b ← pack (parseFmt! (Gen.C14.polyFmts.getD 1 "")) (y.map .flt)
  let c ← pack (parseFmt! (Gen.C14.polyFmts.getD 2 "")) (z.map .flt)
  let d ← pack (parseFmt! (Gen.C14.polyFmts.getD 3 "")) (yaw.map .flt)
  let e ← pack (parseFmt! (Gen.C14.polyFmts.getD 4 "")) [.flt duration]
  pure (a ++ b ++ c ++ d ++ e)

/-- `TrajectoryMemory.write_data`: the packed elements, concatenated -/
def trajImage : List (List Nat × List Nat × List Nat × List Nat × Nat) → Except PyErr (List UInt8)
  | [] => .ok []
  | (x, y, z, yaw, dur) :: rest => do
    let a ← poly4dPack x y z yaw dur
    let r ← trajImage rest
    pure (a ++ r)

/-- one entry of `LEDTimingsDriverMemory.timings` (non-negative integers; `fade` False/True = 0/1) -/
structure LedTiming where
  time : Nat
  r : Nat
  g : Nat
  b : Nat
  leds : Nat
  fade : Nat
  rotate : Nat
  deriving Repr, DecidableEq

def LedTiming.word (t : LedTiming) : Nat :=
  Gen.C14.ledWord (Gen.C14.ledR5 (t.r &&& 255)) (Gen.C14.ledG6 (t.g &&& 255)) (Gen.C14.ledB5 (t.b &&& 255))
def LedTiming.extra (t : LedTiming) : Nat := Gen.C14.ledExtra t.leds t.fade t.rotate

/-- the four values appended for one timing (nothing for an all-zero record) -/
def LedTiming.record (t : LedTiming) : List Nat :=
  if (t.time &&& 255) ≠ 0 ∨ t.word ≠ 0 ∨ t.extra ≠ 0 then [t.time &&& 255, t.word >>> 8, t.word &&& 255, t.extra] else []

/-- `LEDTimingsDriverMemory.write_data`: the records, the terminator; `bytearray(data)` raises ValueError for a value
outside 0..255 -/
def ledImage (ts : List LedTiming) : Except PyErr (List UInt8) :=
  let data := (ts.map LedTiming.record).flatten ++ [0, 0, 0, 0]
  if data.all (· < 256) then .ok (data.map UInt8.ofNat) else .error .valueError

/-! ## YAML files (lighthouse_config_manager.py, param_io.py): the envelope logic over abstract YAML values -/

/-- scalar dict keys -/
inductive Key
  | null
  | bool (b : Bool)
  | int (i : Int)
  | flt (bits : Nat)
  | str (s : String)
  deriving Repr, DecidableEq, Inhabited

/-- the plain values `yaml.dump` / `yaml.safe_load` exchange (floats as binary64 bit patterns) -/
inductive Y
  | null
  | bool (b : Bool)
  | int (i : Int)
  | flt (bits : Nat)
  | str (s : String)
  | list (l : List Y)
  | dict (l : List (Key × Y))
  deriving Repr, Inhabited

/-- an exception out of a file manager: a Python exception class or `Exception('<message>')` -/
inductive FileErr
  | py (e : PyErr)
  | msg (m : String)
  deriving Repr, DecidableEq

def dlookup (l : List (Key × Y)) (k : Key) : Option Y :=
  match l with
  | [] => none
  | (k', v) :: r => if k' = k then some v else dlookup r k

def isInfixOf (p s : List Char) : Bool :=
  match s with
  | [] => p.isEmpty
  | c :: r => p.isPrefixOf (c :: r) || isInfixOf p r

def Y.isStr (v : Y) (s : String) : Bool :=
  match v with
  | .str t => t == s
  | _ => false

/-- `<str> in c` -/
def Y.containsStr (c : Y) (s : String) : Except FileErr Bool :=
  match c with
  | .dict l => .ok (dlookup l (.str s)).isSome
  | .list l => .ok (l.any (·.isStr s))
  | .str t => .ok (isInfixOf s.toList t.toList)
  | _ => .error (.py .typeError)              -- argument of type 'NoneType' / 'int' / ... is not iterable

/-- `c[<str>]` -/
def Y.getStr (c : Y) (s : String) : Except FileErr Y :=
  match c with
  | .dict l => match dlookup l (.str s) with
    | some v => .ok v
    | none => .error (.py .keyError)
  | _ => .error (.py .typeError)              -- list/str indices must be integers; None/int/float not subscriptable

/-- `c[<int>]` for a non-negative literal index -/
def Y.getIdx (c : Y) (i : Nat) : Except FileErr Y :=
  match c with
  | .dict l => match dlookup l (.int i) with
    | some v => .ok v
    | none => .error (.py .keyError)
  | .list l => match l[i]? with
    | some v => .ok v
    | none => .error (.py .indexError)
  | .str t => match t.toList[i]? with
    | some ch => .ok (.str (String.ofList [ch]))
    | none => .error (.py .indexError)
  | _ => .error (.py .typeError)

/-- `c.items()` -/
def Y.items (c : Y) : Except FileErr (List (Key × Y)) :=
  match c with
  | .dict l => .ok l
  | _ => .error (.py .attributeError)

/-- the four checks both `read()` functions start with -/
def checkEnvelope (data : Y) (typeId type versionId version : String) (msgs : List String) : Except FileErr Unit := do
  if ¬ (← data.containsStr typeId) then .error (.msg (msgs.getD 0 ""))
  if ¬ (← data.getStr typeId).isStr type then .error (.msg (msgs.getD 1 ""))
  if ¬ (← data.containsStr versionId) then .error (.msg (msgs.getD 2 ""))
  if ¬ (← data.getStr versionId).isStr version then .error (.msg (msgs.getD 3 ""))
  pure ()

/-- a `LighthouseBsGeometry` as the file manager sees it: whatever `origin` / `rotation_matrix` hold, and `valid` -/
structure FGeo where
  origin : Y
  rotation : Y
  valid : Bool
  deriving Repr

structure FSweep where
  f : List Y             -- phase, tilt, curve, gibmag, gibphase, ogeemag, ogeephase
  deriving Repr

structure FCalib where
  s0 : FSweep
  s1 : FSweep
  uid : Y
  valid : Bool
  deriving Repr

def FGeo.asFile (g : FGeo) : Y :=
  .dict [(.str (Gen.C14.lhfGeoIds.getD 0 ""), g.origin), (.str (Gen.C14.lhfGeoIds.getD 1 ""), g.rotation)]

def FSweep.asFile (s : FSweep) : Y := .dict ((Gen.C14.lhfSweepIds.zip s.f).map fun (k, v) => (.str k, v))

def FCalib.asFile (c : FCalib) : Y :=
  .dict [(.str (Gen.C14.lhfCalibIds.getD 0 ""), .list [c.s0.asFile, c.s1.asFile]), (.str (Gen.C14.lhfCalibIds.getD 1 ""), c.uid)]

/-- `LighthouseConfigFileManager.write`: the object handed to `yaml.dump` (only valid objects are written) -/
def lhFileDoc (geos : List (Int × FGeo)) (calibs : List (Int × FCalib)) (systemType : Y) : Y :=
  .dict [(.str Gen.C14.lhfTypeId, .str Gen.C14.lhfType), (.str Gen.C14.lhfVersionId, .str Gen.C14.lhfVersion),
         (.str Gen.C14.lhfSystemTypeId, systemType),
         (.str Gen.C14.lhfGeosId, .dict ((geos.filter (·.2.valid)).map fun (i, g) => (.int i, g.asFile))),
         (.str Gen.C14.lhfCalibsId, .dict ((calibs.filter (·.2.valid)).map fun (i, c) => (.int i, c.asFile)))]

def FGeo.fromFile (o : Y) : Except FileErr FGeo := do
  let a ← o.getStr (Gen.C14.lhfGeoIds.getD 0 "")
  let b ← o.getStr (Gen.C14.lhfGeoIds.getD 1 "")
  pure ⟨a, b, true⟩

def FSweep.fromFile (o : Y) : Except FileErr FSweep := do
  let l ← Gen.C14.lhfSweepIds.mapM o.getStr
  pure ⟨l⟩

def FCalib.fromFile (o : Y) : Except FileErr FCalib := do
  let sw ← o.getStr (Gen.C14.lhfCalibIds.getD 0 "")
  let s0 ← FSweep.fromFile (← sw.getIdx 0)
  let s1 ← FSweep.fromFile (← sw.getIdx 1)
  let uid ← o.getStr (Gen.C14.lhfCalibIds.getD 1 "")
  pure ⟨s0, s1, uid, true⟩

def mapItems {α} (f : Y → Except FileErr α) : List (Key × Y) → Except FileErr (List (Key × α))
  | [] => .ok []
  | (k, v) :: r => do
    let a ← f v
    let rest ← mapItems f r
    pure ((k, a) :: rest)

/-- `LighthouseConfigFileManager.read` on the loaded value -/
def lhFileRead (data : Y) : Except FileErr (List (Key × FGeo) × List (Key × FCalib) × Y) := do
  checkEnvelope data Gen.C14.lhfTypeId Gen.C14.lhfType Gen.C14.lhfVersionId Gen.C14.lhfVersion Gen.C14.lhfReadMessages
  let st ← if (← data.containsStr Gen.C14.lhfSystemTypeId) then data.getStr Gen.C14.lhfSystemTypeId
           else pure (.int Gen.C14.lhfSystemTypeV2)
  let geos ← if (← data.containsStr Gen.C14.lhfGeosId) then do
               mapItems FGeo.fromFile (← (← data.getStr Gen.C14.lhfGeosId).items)
             else pure []
  let calibs ← if (← data.containsStr Gen.C14.lhfCalibsId) then do
                 mapItems FCalib.fromFile (← (← data.getStr Gen.C14.lhfCalibsId).items)
               else pure []
  pure (geos, calibs, st)

/-- `PersistentParamState` -/
structure PState where
  isStored : Y
  defaultValue : Y
  storedValue : Y
  deriving Repr

def PState.asFile (p : PState) : Y :=
  .dict [(.str "is_stored", p.isStored), (.str "default_value", p.defaultValue), (.str "stored_value", p.storedValue)]

/-- `ParamFileManager.write`: the object handed to `yaml.dump` -/
def paramFileDoc (params : List (String × PState)) : Y :=
  .dict [(.str Gen.C14.pfTypeId, .str Gen.C14.pfType), (.str Gen.C14.pfVersionId, .str Gen.C14.pfVersion),
         (.str Gen.C14.pfParamsId, .dict (params.map fun (n, p) => (.str n, p.asFile)))]

def PState.fromFile (o : Y) : Except FileErr PState := do
  let a ← o.getStr "is_stored"
  let b ← o.getStr "default_value"
  let c ← o.getStr "stored_value"
  pure ⟨a, b, c⟩

/-- `ParamFileManager.read` on the loaded value (`None` when the YAML could not be parsed) -/
def paramFileRead (data : Y) : Except FileErr (List (Key × PState)) := do
  checkEnvelope data Gen.C14.pfTypeId Gen.C14.pfType Gen.C14.pfVersionId Gen.C14.pfVersion Gen.C14.pfReadMessages
  if (← data.containsStr Gen.C14.pfParamsId) then do
    mapItems PState.fromFile (← (← data.getStr Gen.C14.pfParamsId).items)
  else pure []

/-! ### what PyYAML does to a plain value (TRUSTED, cross-checked against the real library in the correspondence):
`safe_load(dump(v))` returns `v` with the entries of every dict sorted by key (`sort_keys=True`; the keys of a dict
written by these file managers are all strings or all ints) -/

def Key.lt : Key → Key → Bool
  | .int a, .int b => a < b
  | .str a, .str b => a < b
  | _, _ => false

def insEntry {α} (e : Key × α) : List (Key × α) → List (Key × α)
  | [] => [e]
  | f :: r => if f.1.lt e.1 then f :: insEntry e r else e :: f :: r

/-- entries sorted by key (insertion sort; stable) -/
def sortEntries {α} : List (Key × α) → List (Key × α)
  | [] => []
  | e :: r => insEntry e (sortEntries r)

mutual
def Y.canon : Y → Y
  | .dict l => .dict (sortEntries (canonEntries l))
  | .list l => .list (canonList l)
  | y => y
def canonEntries : List (Key × Y) → List (Key × Y)
  | [] => []
  | (k, v) :: r => (k, Y.canon v) :: canonEntries r
def canonList : List Y → List Y
  | [] => []
  | v :: r => Y.canon v :: canonList r
end

/-! ## Long-lived element objects: the attributes as state, the methods as operations

The library keeps ONE element object per memory for the whole connection; `update()` may be called again and again
while the memory content changes.  State = the object's attributes; operations = `update()`, `new_data(addr, data)`
(the reply to a read, with whatever the memory holds at that time), `write_data()`, `disconnect()`.
What `update()` re-initialises is read from the source (Gen `*UpdateInit`). -/

/-- what an operation emits: a read / write request to the memory handler, or the `update_finished_cb` call -/
inductive MemOut
  | read (addr n : Nat)
  | write (addr : Nat) (data : List UInt8)
  | done
  deriving Repr, DecidableEq

/-- attributes of an `I2CElement` -/
structure I2CObj where
  fields : Option (Int × Int × Int × Nat × Nat)    -- version, channel, speed, pitch, roll keys of `elements`
  address : Option Int                              -- `elements['radio_address']`
  valid : Bool
  pending : Bool                                    -- `_update_finished_cb` is set
  datav0 : Option (List UInt8)
  deriving Repr, DecidableEq

/-- `I2CElement.__init__` -/
def I2CObj.fresh : I2CObj := ⟨none, none, false, false, none⟩

inductive I2COp
  | update
  | newData (addr : Nat) (data : List UInt8)
  | writeData
  | disconnect
  deriving Repr, DecidableEq

def I2CObj.elems? (s : I2CObj) : Option I2CElems :=
  s.fields.map fun (v, ch, sp, p, r) => ⟨v, ch, sp, p, r, s.address⟩

/-- the callback block `if self._update_finished_cb: cb(self); self._update_finished_cb = None` on the path `path`:
whether the callback is called there and whether the pending record is cleared there is read from the source -/
def I2CObj.callback (s : I2CObj) (path : String) : I2CObj × List MemOut :=
  if s.pending then
    ({ s with pending := !Gen.C14.i2cCbClears.contains path }, if Gen.C14.i2cCbCalls.contains path then [.done] else [])
  else (s, [])

/-- one method call on the object -/
def i2cStep (s : I2CObj) : I2COp → Except PyErr (I2CObj × List MemOut)
  | .update =>
    if ¬ s.pending then        -- `if not self._update_finished_cb:`
      .ok ({ s with pending := Gen.C14.i2cUpdateInit.contains "self._update_finished_cb = update_finished_cb" || s.pending,
                    valid := if Gen.C14.i2cUpdateInit.contains "self.valid = False" then false else s.valid },
           [.read (Gen.C14.i2cRead1.getD 0 0) (Gen.C14.i2cRead1.getD 1 0)])
    else .ok (s, [])
  | .disconnect => .ok ({ s with pending := false }, [])
  | .writeData =>
    match s.elems? with
    | none => .error .keyError
    | some e => (i2cImage e).map fun img => (s, [.write 0 img])
  | .newData addr data =>
    if addr = 0 then
      if slice data 0 4 = eepromToken then
        match unpack (parseFmt! Gen.C14.i2cHdrFmt) (slice data 4 15) with
        | .error e => .error e
        | .ok [.int v, .int ch, .int sp, .flt p, .flt r] =>
          let s1 := { s with fields := some (v, ch, sp, p, r) }
          if v = 0 then
            let s2 := if (i2cFinish data (v, ch, sp, p, r) none).valid then { s1 with valid := true } else s1
            .ok (s2.callback i2cPathDone)
          else if v = 1 then
            .ok ({ s1 with datav0 := some data }, [.read (Gen.C14.i2cRead2.getD 0 0) (Gen.C14.i2cRead2.getD 1 0)])
          else if Gen.C14.i2cCbCalls.contains i2cPathUnknown then .ok (({ s1 with valid := false }).callback i2cPathUnknown)
          else .ok (s1, [])                 -- no branch for another version: nothing is reported, the update stays pending
        | .ok _ => .error .valueError
      else .ok (({ s with valid := false }).callback i2cPathBadToken)
    else if addr = 16 then
      match s.datav0 with
      | none => .error .attributeError
      | some d0 =>
        match unpack (parseFmt! Gen.C14.i2cAddrFmt) (slice d0 15 16 ++ slice data 0 4) with
        | .error e => .error e
        | .ok [.int up, .int lo] =>
          let s1 := { s with address := some (Gen.C14.i2cAddrJoin up.toNat lo.toNat : Nat) }
          let full := d0 ++ data
          let n := full.length - 1
          let s2 := if checksum256 (full.take n) == (full.getD n 0).toNat then { s1 with valid := true } else s1
          .ok (s2.callback i2cPathDone)
        | .ok _ => .error .valueError
    else .error .other        -- `done` is unbound for any other address (UnboundLocalError)

/-- serve the read requests of `outs` from the memory, one after the other (the second read of a version-1 block may
see a memory that changed in between: `mems` gives the content at each successive read) -/
def i2cServe : Nat → I2CObj → List MemOut → List Mem → Bool → Except PyErr (I2CObj × Bool)
  | 0, s, _, _, called => .ok (s, called)
  | _, s, [], _, called => .ok (s, called)
  | fuel + 1, s, .read a n :: rest, m :: ms, called =>
    match i2cStep s (.newData a (m.read a n)) with
    | .error e => .error e
    | .ok (s', outs) => i2cServe fuel s' (rest ++ outs) ms called
  | fuel + 1, s, .read _ _ :: rest, [], called => i2cServe fuel s rest [] called
  | fuel + 1, s, .done :: rest, ms, _ => i2cServe fuel s rest ms true
  | fuel + 1, s, .write _ _ :: rest, ms, called => i2cServe fuel s rest ms called

/-- `update()` on the object `s`, the replies taken from `m0` (first read) and `m1` (second read, if any):
the object afterwards and whether the callback was called -/
def i2cRunUpdate (s : I2CObj) (m0 m1 : Mem) : Except PyErr (I2CObj × Bool) :=
  match i2cStep s .update with
  | .error e => .error e
  | .ok (s', outs) => i2cServe 4 s' outs [m0, m1] false

/-- what an observer sees when the callback fires: validity, and (for a valid image) the fields of its version -/
def I2CObj.report (r : I2CObj × Bool) : Bool × Bool × Option ((Int × Int × Int × Nat × Nat) × Option Int) :=
  (r.2, r.1.valid,
    if r.1.valid then r.1.fields.map fun f => (f, if f.1 = 1 then r.1.address else none) else none)

/-- attributes of an `OWElement` (element values as Latin-1 bytes) -/
structure OWObj where
  pins : Option Nat
  vid : Option Nat
  pid : Option Nat
  elements : Dict (List UInt8)
  valid : Bool
  pending : Bool
  deriving Repr, DecidableEq

def OWObj.fresh : OWObj := ⟨none, none, none, [], false, false⟩

inductive OWOp
  | update
  | newData (addr : Nat) (data : List UInt8)
  | disconnect
  deriving Repr, DecidableEq

def owPathShortcut : String :=
  "mem.id == self.id > addr == 0 > self._parse_and_check_header(data[0:8]) > elem_len == 0 and self._parse_and_check_elements(data[8:11])"
def owPathBadHeader : String := "mem.id == self.id > addr == 0 > self._parse_and_check_header(data[0:8])/else > self._update_finished_cb"
def owPathSection : String := "mem.id == self.id > addr == 0/else > addr == 8 > self._update_finished_cb"

def OWObj.callback (s : OWObj) (path : String) : OWObj × List MemOut :=
  if s.pending then
    ({ s with pending := !Gen.C14.owCbClears.contains path }, if Gen.C14.owCbCalls.contains path then [.done] else [])
  else (s, [])

/-- one method call on the object (REPAIRED `update`: fixes/D121-c14.patch re-initialises `elements`) -/
def owStep (s : OWObj) : OWOp → Except PyErr (OWObj × List MemOut)
  | .update =>
    if ¬ s.pending then
      .ok ({ s with pending := Gen.C14.owUpdateInit.contains "self._update_finished_cb = update_finished_cb" || s.pending,
                    valid := if Gen.C14.owUpdateInit.contains "self.valid = False" then false else s.valid,
                    elements := if Gen.C14.owUpdateInit.contains "self.elements = {}" then [] else s.elements },
           [.read (Gen.C14.owRead1.getD 0 0) (Gen.C14.owRead1.getD 1 0)])
    else .ok (s, [])
  | .disconnect => .ok ({ s with pending := false }, [])
  | .newData addr data =>
    if addr = 0 then
      match owHeader (slice data 0 8) with
      | .error e => .error e
      | .ok (pins, vid, pid, ok) =>
        let s1 := { s with pins := some pins, vid := some vid, pid := some pid }
        if ok then
          match unpack (parseFmt! Gen.C14.owLenFmt) (slice data 8 10) with
          | .error e => .error e
          | .ok [.int _, .int elemLen] =>
            let fetch : Except PyErr (OWObj × List MemOut) :=
              .ok (s1, [.read Gen.C14.owRead2Addr (Gen.C14.owRead2Len elemLen.toNat)])
            if elemLen = 0 then
              match owElements (slice data 8 11) s1.elements with
              | .error e => .error e
              | .ok (some d) =>
                -- `self._update_finished_cb(self)` without a test: TypeError when no update is pending
                if s1.pending then .ok (({ s1 with elements := d, valid := true }).callback owPathShortcut)
                else .error .typeError
              | .ok none => fetch
            else fetch
          | .ok _ => .error .valueError
        else .ok (s1.callback owPathBadHeader)
    else if addr = 8 then
      match owElements data s.elements with
      | .error e => .error e
      | .ok (some d) => .ok (({ s with elements := d, valid := true }).callback owPathSection)
      | .ok none => .ok (s.callback owPathSection)
    else .ok (s, [])

def owServe : Nat → OWObj → List MemOut → List Mem → Bool → Except PyErr (OWObj × Bool)
  | 0, s, _, _, called => .ok (s, called)
  | _, s, [], _, called => .ok (s, called)
  | fuel + 1, s, .read a n :: rest, m :: ms, called =>
    match owStep s (.newData a (m.read a n)) with
    | .error e => .error e
    | .ok (s', outs) => owServe fuel s' (rest ++ outs) ms called
  | fuel + 1, s, .read _ _ :: rest, [], called => owServe fuel s rest [] called
  | fuel + 1, s, .done :: rest, ms, _ => owServe fuel s rest ms true
  | fuel + 1, s, .write _ _ :: rest, ms, called => owServe fuel s rest ms called

def owRunUpdate (s : OWObj) (m0 m1 : Mem) : Except PyErr (OWObj × Bool) :=
  match owStep s .update with
  | .error e => .error e
  | .ok (s', outs) => owServe 4 s' outs [m0, m1] false


def i2cRunOps : I2CObj → List I2COp → Except PyErr I2CObj
  | s, [] => .ok s
  | s, op :: rest =>
    match i2cStep s op with
    | .error e => .error e
    | .ok (s', _) => i2cRunOps s' rest

def owRunOps : OWObj → List OWOp → Except PyErr OWObj
  | s, [] => .ok s
  | s, op :: rest =>
    match owStep s op with
    | .error e => .error e
    | .ok (s', _) => owRunOps s' rest

/-! ## LighthouseMemHelper: the `_ObjectWriter` / `_ObjectReader` objects working through the queue of base stations

State = the attributes of one writer (or reader) and of the `LighthouseMemory` it drives, plus the caller's dict object;
operations = `write(dict)` / `read_all()` and the per-object replies of the memory handler (done or failed).
Whether the writer works on a COPY of the caller's dict is read from the source (`Gen.lhWriterQueueSrc`). -/

inductive LhKind
  | geo
  | calib
  deriving Repr, DecidableEq

def LhKind.writeAddr : LhKind → Nat → Nat
  | .geo, bs => Gen.C14.lhGeoWriteAddr bs
  | .calib, bs => Gen.C14.lhCalibWriteAddr bs
def LhKind.readAddr : LhKind → Nat → Nat
  | .geo, bs => Gen.C14.lhGeoReadAddr bs
  | .calib, bs => Gen.C14.lhCalibReadAddr bs
def LhKind.readLen : LhKind → Nat
  | .geo => Gen.C14.lhSizeGeometry
  | .calib => Gen.C14.lhSizeCalibration

/-- `obj.add_mem_data(data)` of whatever object sits in the dict -/
def objImage : LhObj → Except PyErr (List UInt8)
  | .geo g => geoImage g
  | .calib c => calibImage c

/-- `self._objects_to_write = dict(object_dict)`: a copy, unless the source says otherwise (then the queue IS the caller's dict) -/
def lhWriterAliases : Bool := Gen.C14.lhWriterQueueSrc != "dict(object_dict)"

/-- one `_ObjectWriter`, the `LighthouseMemory` behind it and the caller's dict object -/
structure LhW where
  queue : Option (Dict LhObj)      -- `_objects_to_write`
  failed : Bool                    -- `_write_failed_for_one_or_more_objects`
  lhBusy : Bool                    -- `LighthouseMemory._write_finished_cb` is set
  caller : Dict LhObj              -- the dict the caller handed to the last `write`
  deriving Repr, DecidableEq

def LhW.fresh : LhW := ⟨none, false, false, []⟩

inductive LhWOut
  | write (addr : Nat) (data : List UInt8)
  | done (success : Bool)
  deriving Repr, DecidableEq

inductive LhWOp
  | write (d : Dict LhObj)
  | writeDone
  | writeFailed
  deriving Repr, DecidableEq

/-- `_write_next_object` -/
def lhwNext (k : LhKind) (s : LhW) : Except PyErr (LhW × LhWOut) :=
  match s.queue with
  | none => .error .typeError                      -- len(None)
  | some [] => .ok ({ s with queue := none, failed := false }, .done (!s.failed))
  | some ((bs, o) :: rest) =>
    -- id = first key; data = pop(id); write_fcn(id, data, ...)
    let s1 := { s with queue := some rest, caller := if lhWriterAliases then rest else s.caller }
    if s1.lhBusy then .error .other                -- 'Write operation already ongoing.'
    else
      match objImage o with
      | .error e => .error e
      | .ok img => .ok ({ s1 with lhBusy := true }, .write (k.writeAddr bs) img)

def lhwStep (k : LhKind) (s : LhW) : LhWOp → Except PyErr (LhW × Option LhWOut)
  | .write d =>
    if s.queue.isSome then .error .other           -- 'Write operation not finished'
    else (lhwNext k { s with queue := some d, failed := false, caller := d }).map fun (s', o) => (s', some o)
  | .writeDone =>                                  -- LighthouseMemory.write_done -> _data_written
    if s.lhBusy then (lhwNext k { s with lhBusy := false }).map fun (s', o) => (s', some o) else .ok (s, none)
  | .writeFailed =>                                -- LighthouseMemory.write_failed -> _write_failed
    if s.lhBusy then (lhwNext k { s with lhBusy := false, failed := true }).map fun (s', o) => (s', some o) else .ok (s, none)

/-- the memory handler serves the write requests one by one: `acks` says for each whether the device accepts it
(then the bytes are stored and `write_done` is called) or refuses it (`write_failed`); missing entries = accepted -/
def lhwServe (k : LhKind) : Nat → LhW → LhWOut → Mem → List Bool → Except PyErr (LhW × Mem × Option Bool)
  | _, s, .done b, m, _ => .ok (s, m, some b)
  | 0, s, .write _ _, m, _ => .ok (s, m, none)
  | fuel + 1, s, .write a d, m, acks =>
    let ack := acks.headD true
    match lhwStep k s (if ack then .writeDone else .writeFailed) with
    | .error e => .error e
    | .ok (s', some o) => lhwServe k fuel s' o (if ack then m.write a d else m) acks.tail
    | .ok (s', none) => .ok (s', if ack then m.write a d else m, none)

/-- `write_geos(d, cb)` / `write_calibs(d, cb)` run to completion: the helper afterwards, the memory, the reported success -/
def lhRunWrite (k : LhKind) (s : LhW) (d : Dict LhObj) (m : Mem) (acks : List Bool) : Except PyErr (LhW × Mem × Option Bool) :=
  match lhwStep k s (.write d) with
  | .error e => .error e
  | .ok (s', some o) => lhwServe k (d.length + 1) s' o m acks
  | .ok (s', none) => .ok (s', m, none)

/-- what the upload has to leave in the memory, object after object: the layout of `d` (refused objects are not stored);
the flag is the reported success -/
def lhWriteSpec (k : LhKind) : Mem → Dict LhObj → List Bool → Bool → Except PyErr (Mem × Bool)
  | m, [], _, f => .ok (m, !f)
  | m, (bs, o) :: rest, acks, f =>
    match objImage o with
    | .error e => .error e
    | .ok img =>
      let ack := acks.headD true
      lhWriteSpec k (if ack then m.write (k.writeAddr bs) img else m) rest acks.tail (f || !ack)

/-- one `_ObjectReader` and the `LighthouseMemory` behind it -/
structure LhR where
  next : Option Nat                -- `_next_id` (none: no read_all in progress, `_read_done_cb` is None)
  result : Dict LhObj              -- `_result`
  lhBusy : Bool                    -- `LighthouseMemory._update_finished_cb` is set
  deriving Repr, DecidableEq

def LhR.fresh : LhR := ⟨none, [], false⟩

inductive LhROut
  | read (addr n : Nat)
  | done (result : Dict LhObj)
  deriving Repr, DecidableEq

inductive LhROp
  | readAll
  | newData (addr : Nat) (data : List UInt8)
  | readFailed
  deriving Repr, DecidableEq

/-- `_get_object(channel)` -/
def lhrGet (k : LhKind) (s : LhR) (ch : Nat) : Except PyErr (LhR × LhROut) :=
  if ch < Gen.C14.lhReaderNrOfChannels then
    if s.lhBusy then .error .other                  -- 'Read operation already ongoing'
    else .ok ({ s with next := some ch, lhBusy := true }, .read (k.readAddr ch) k.readLen)
  else .ok ({ s with next := none, result := [] }, .done s.result)

def lhrStep (k : LhKind) (s : LhR) : LhROp → Except PyErr (LhR × Option LhROut)
  | .readAll =>
    if s.next.isSome then .error .other             -- 'Read operation not finished'
    else (lhrGet k { s with result := [] } 0).map fun (s', o) => (s', some o)
  | .newData addr data =>                           -- LighthouseMemory.new_data: callbacks cleared, data parsed, then _data_updated
    match lhNewData addr data with
    | .error e => .error e
    | .ok obj =>
      if s.lhBusy then
        match s.next with
        | none => .error .typeError
        | some n => (lhrGet k { s with lhBusy := false, result := dictSet s.result n obj } (n + 1)).map fun (s', o) => (s', some o)
      else .ok (s, none)
  | .readFailed =>                                  -- new_data_failed -> _update_failed
    if s.lhBusy then
      match s.next with
      | none => .error .typeError
      | some n => (lhrGet k { s with lhBusy := false } (n + 1)).map fun (s', o) => (s', some o)
    else .ok (s, none)

/-- the reads are served from the memory `m`; the base stations in `fails` are refused by the device -/
def lhrServe (k : LhKind) (m : Mem) (fails : List Nat) : Nat → LhR → LhROut → Except PyErr (LhR × Option (Dict LhObj))
  | _, s, .done r => .ok (s, some r)
  | 0, s, .read _ _ => .ok (s, none)
  | fuel + 1, s, .read a n =>
    let op := if fails.contains (s.next.getD 0) then LhROp.readFailed else .newData a (m.read a n)
    match lhrStep k s op with
    | .error e => .error e
    | .ok (s', some o) => lhrServe k m fails fuel s' o
    | .ok (s', none) => .ok (s', none)

/-- `read_all_geos(cb)` / `read_all_calibs(cb)` run to completion -/
def lhRunRead (k : LhKind) (s : LhR) (m : Mem) (fails : List Nat) : Except PyErr (LhR × Option (Dict LhObj)) :=
  match lhrStep k s .readAll with
  | .error e => .error e
  | .ok (s', some o) => lhrServe k m fails (Gen.C14.lhReaderNrOfChannels + 1) s' o
  | .ok (s', none) => .ok (s', none)

/-- what `read_all` has to deliver: for each channel from `ch` on that the device serves, the parsed page -/
def lhReadSpec (k : LhKind) (m : Mem) (fails : List Nat) : Nat → Nat → Dict LhObj → Except PyErr (Dict LhObj)
  | _, 0, acc => .ok acc
  | ch, n + 1, acc =>
    if fails.contains ch then lhReadSpec k m fails (ch + 1) n acc
    else
      match lhNewData (k.readAddr ch) (m.read (k.readAddr ch) k.readLen) with
      | .error e => .error e
      | .ok obj => lhReadSpec k m fails (ch + 1) n (acc ++ [(ch, obj)])

/-- `LighthouseConfigWriter._prepare_geos/_prepare_calibs`: a COPY of the caller's dict, padded with `empty` for every base
station below `nr` that has no entry -/
def lhPrepare (d : Dict LhObj) (empty : LhObj) (nr : Nat) : Dict LhObj :=
  d ++ ((List.range nr).filter fun i => !(d.any (·.1 == i))).map fun i => (i, empty)

end CfVerif.C14

/-
Model/C15: executable model of cflib's lighthouse conversions
  * `LighthouseBsVector` (V1 sweep angles <-> V2 sweep angles <-> cartesian direction <-> image-plane projection),
  * `Pose` (rotation matrix + translation: point transforms, composition, inverses),
  * the geometry solver's vectorised Rodrigues rotation `_rotate_translate` and projection `_calc_angle_pairs`
    (one row of the arrays: the numpy code treats every row independently),
  * `IppeCf`'s CF <-> IPPE/OpenCV axis permutation,
written ONCE, generically over the number type (Spec/C15.lean: `RealOps`).  Every arithmetic expression is the
translation of the current source text in Gen/C15.lean (Tie A); this file only sequences them as the Python
statements do.  Python exceptions (`math.asin` domain error, ...) are explicit `Except` results.
Also contains the *specification* of the two scipy conversions the code delegates to
(`Rotation.from_rotvec(r).as_matrix()`, `Rotation.from_quat(q).as_matrix()`); these are not cflib code, they are
validated against scipy by the correspondence.  No Mathlib, no `Float`.
-/
import CfVerif.Spec.C15
import CfVerif.Gen.C15
namespace CfVerif.C15
open CfVerif

section
variable {α : Type} [Add α] [Sub α] [Mul α] [Div α] [Neg α] [RealOps α]

/-! ## LighthouseBsVector -/

/-- a `LighthouseBsVector`: its two attributes `_lh_v1_horiz_angle`, `_lh_v1_vert_angle` -/
@[ext] structure BsVec (α : Type) where
  h : α
  v : α

/-- `LighthouseBsVector.T` -/
def tilt : α := Gen.C15.tilt

/-- `LighthouseBsVector.from_lh2(a1, a2)` -/
def BsVec.fromLh2 (a1 a2 : α) : BsVec α :=
  ⟨Gen.C15.fromLh2Horiz a1 a2, Gen.C15.fromLh2Vert a1 a2 tilt⟩

/-- `LighthouseBsVector.from_cart(c)` -/
def BsVec.fromCart (c : V3 α) : BsVec α := ⟨Gen.C15.fromCartHoriz c, Gen.C15.fromCartVert c⟩

/-- `LighthouseBsVector.from_projection((p0, p1))` -/
def BsVec.fromProjection (p0 p1 : α) : BsVec α := ⟨Gen.C15.fromProjHoriz p0 p1, Gen.C15.fromProjVert p0 p1⟩

/-- `LighthouseBsVector._q()` -/
def BsVec.q (b : BsVec α) : Except PyErr α := Gen.C15.qExpr b.h b.v

/-- property `lh_v2_angle_1` -/
def BsVec.v2Angle1 (b : BsVec α) : Except PyErr α := do
  let q ← b.q
  Gen.C15.v2Angle1Expr b.h q tilt

/-- property `lh_v2_angle_2` -/
def BsVec.v2Angle2 (b : BsVec α) : Except PyErr α := do
  let q ← b.q
  Gen.C15.v2Angle2Expr b.h q tilt

/-- both V2 sweep angles (first, second); the first error raised is the one of `lh_v2_angle_1` -/
def BsVec.v2 (b : BsVec α) : Except PyErr (α × α) := do
  let a1 ← b.v2Angle1
  let a2 ← b.v2Angle2
  pure (a1, a2)

/-- `v = np.float32((1, tan h, tan v))` of property `cart` -/
def BsVec.cartPre (b : BsVec α) : V3 α :=
  ⟨f32 (Gen.C15.cartPre0 b.h b.v), f32 (Gen.C15.cartPre1 b.h b.v), f32 (Gen.C15.cartPre2 b.h b.v)⟩

/-- property `cart`: `v / np.linalg.norm(v)` on a float32 array (numpy division: never raises) -/
def BsVec.cart (b : BsVec α) : V3 α :=
  let v := b.cartPre
  let n := f32 (V3.norm v)
  ⟨f32 (v.x / n), f32 (v.y / n), f32 (v.z / n)⟩

/-- property `projection`: `np.float32((tan h, tan v))` -/
def BsVec.projection (b : BsVec α) : α × α :=
  (f32 (Gen.C15.projExpr0 b.h b.v), f32 (Gen.C15.projExpr1 b.h b.v))

/-! ## Pose -/

/-- a `Pose`: `_R_matrix`, `_t_vec` -/
@[ext] structure Pose (α : Type) where
  R : M3 α
  t : V3 α

/-- `Pose()`: identity rotation, origin -/
def Pose.identity : Pose α := ⟨M3.one, V3.zero⟩

/-- `Pose.scale(scale)`: the only mutator of a `Pose` (the object's new state) -/
def Pose.scale (P : Pose α) (k : α) : Pose α := ⟨P.R, Gen.C15.poseScaleT P.t k⟩

/-- `Pose.rotate_translate(point)` -/
def Pose.rotateTranslate (P : Pose α) (p : V3 α) : V3 α := Gen.C15.poseRt P.R P.t p

/-- `Pose.inv_rotate_translate(point)` -/
def Pose.invRotateTranslate (P : Pose α) (p : V3 α) : V3 α := Gen.C15.poseIrt P.R P.t p

/-- `Pose.rotate_translate_pose(pose)` -/
def Pose.rotateTranslatePose (P Q : Pose α) : Pose α :=
  let t := Gen.C15.poseRtpT P.R P.t Q.R Q.t
  let R := Gen.C15.poseRtpR P.R P.t Q.R Q.t
  ⟨R, t⟩

/-- `Pose.inv_rotate_translate_pose(pose)` -/
def Pose.invRotateTranslatePose (P Q : Pose α) : Pose α :=
  let Ri := Gen.C15.poseIrtpInv P.R P.t
  let t := Gen.C15.poseIrtpT Ri P.t Q.R Q.t
  let R := Gen.C15.poseIrtpR Ri P.t Q.R Q.t
  ⟨R, t⟩

/-! ## Geometry solver: Rodrigues rotation on one row, vectorised projection -/

/-- `LighthouseGeometrySolver._rotate_translate(points, rot_vecs, translations)`, one row -/
def rodrigues (points rot_vecs translations : V3 α) : V3 α :=
  let theta := Gen.C15.rtTheta rot_vecs
  let v := Gen.C15.rtAxis rot_vecs theta
  let dot := Gen.C15.rtDot points v
  let cos_theta := Gen.C15.rtCos theta
  let sin_theta := Gen.C15.rtSin theta
  Gen.C15.rtResult points v translations cos_theta sin_theta dot

/-- a pose in the solver's parameter format: rotation vector (first `len_rot_vec` entries), then translation -/
structure Params (α : Type) where
  rotVec : V3 α
  trans : V3 α

/-- `LighthouseGeometrySolver._calc_angle_pairs(bs_p_a, cf_p_a, sens_pos_p_a, defs)`, one row:
returns `(horizontal, vertical)` -/
def calcAnglePair (bs cf : Params α) (sens : V3 α) : α × α :=
  let sensor_points := rodrigues sens cf.rotVec cf.trans
  let points_bs_ref := rodrigues (V3.sub sensor_points bs.trans) (V3.neg bs.rotVec) V3.zero
  (atan2 points_bs_ref.y points_bs_ref.x, atan2 points_bs_ref.z points_bs_ref.x)

/-! ## IppeCf -/

/-- `IppeCf._rotate_vector_to_ippe` -/
def ippeVecToIppe (v : V3 α) : V3 α := Gen.C15.ippeVecToIppe v
/-- `IppeCf._rotate_vector_to_cf` -/
def ippeVecToCf (v : V3 α) : V3 α := Gen.C15.ippeVecToCf v
/-- `IppeCf._rotate_rot_mat_to_cf` -/
def ippeRotToCf (R : M3 α) : M3 α := Gen.C15.ippeRotToCf R
/-- image point conversion in `IppeCf._cf_to_ippe`: `(-Q_cf[i][0], -Q_cf[i][1])` -/
def ippeImgToIppe (q : α × α) : α × α := (-q.1, -q.2)


/-! ## Object level: which ndarray objects a `Pose` holds (heap / aliasing view)

The value-level model above treats a `Pose` as a value.  In Python a `Pose` OBJECT has two attributes referring to ndarray
objects, callers hold references to their own ndarrays (and may write to them in place), `copy.copy(pose)` shares both
references, and the `rot_matrix` / `translation` properties hand out the internal references.  What keeps pose VALUES
independent of each other and of the caller's arrays is the code's copy discipline:
  * `Pose.__init__` stores `np.array(arg)` — a NEW array — for both attributes,
  * `Pose.scale` evaluates `self._t_vec * scale` into a NEW array and REBINDS the attribute,
  * no Pose method writes into an existing array (no in-place operator, no subscript store), every other method only reads.
The heap below makes that explicit: one address space of cells, each tagged with who may write to it. -/

inductive Arr (α : Type) where
  | mat (m : M3 α)
  | vec (v : V3 α)

/-- who holds the (only) write access to an ndarray: the caller (arrays it created, results returned to it) or nobody
(arrays created by `Pose` for its own attributes: the library never writes into them) -/
inductive Owner where
  | caller
  | pose
  deriving DecidableEq, Repr

/-- a Pose object: the addresses of its `_R_matrix` and `_t_vec` arrays -/
structure PoseObj where
  r : Nat
  t : Nat
  deriving DecidableEq, Repr

structure Heap (α : Type) where
  cells : List (Owner × Arr α)
  objs : List PoseObj

def Heap.empty : Heap α := ⟨[], []⟩

def Heap.mat? (h : Heap α) (a : Nat) : Option (M3 α) :=
  match h.cells[a]? with
  | some (_, .mat m) => some m
  | _ => none

def Heap.vec? (h : Heap α) (a : Nat) : Option (V3 α) :=
  match h.cells[a]? with
  | some (_, .vec v) => some v
  | _ => none

/-- the observable value of Pose object `p` (`p.rot_matrix`, `p.translation`) -/
def Heap.deref (h : Heap α) (p : Nat) : Option (Pose α) :=
  match h.objs[p]? with
  | some o =>
    match h.mat? o.r, h.vec? o.t with
    | some m, some v => some ⟨m, v⟩
    | _, _ => none
  | none => none

/-- `Pose.__init__(R_matrix, t_vec)`: `np.array(R_matrix)`, `np.array(t_vec)` are two NEW arrays holding copies -/
def Heap.newPose (h : Heap α) (m : M3 α) (v : V3 α) : Heap α :=
  { cells := h.cells ++ [(.pose, .mat m), (.pose, .vec v)],
    objs := h.objs ++ [⟨h.cells.length, h.cells.length + 1⟩] }

/-- the events of a history: what callers do with ndarrays and Pose objects -/
inductive HOp (α : Type) where
  /-- the caller creates an ndarray -/
  | newArr (a : Arr α)
  /-- the caller overwrites one of ITS OWN arrays in place (`a[...] = ...`, `a *= 2`) -/
  | callerWrite (addr : Nat) (a : Arr α)
  /-- `Pose(R_matrix=<cell r>, t_vec=<cell t>)`: the arguments may be caller arrays or another pose's `rot_matrix` /
  `translation` (the only way to clone a Pose) -/
  | construct (r t : Nat)
  /-- `copy.copy(pose)` (what LighthouseSystemScaler does): a new object sharing both arrays -/
  | copyObj (p : Nat)
  /-- `pose.scale(k)` -/
  | scale (p : Nat) (k : α)
  /-- `p.rotate_translate_pose(q)` -/
  | compose (p q : Nat)
  /-- `p.inv_rotate_translate_pose(q)` -/
  | invCompose (p q : Nat)
  /-- `p.rotate_translate(<cell a>)`: the result is a new array handed to the caller -/
  | transform (p a : Nat)
  /-- `p.inv_rotate_translate(<cell a>)` -/
  | invTransform (p a : Nat)

/-- one event; `.error .other` = an ill-formed event (dangling address, wrong kind of array, writing to an array the caller
does not own) -/
def Heap.step (h : Heap α) : HOp α → Except PyErr (Heap α)
  | .newArr a => .ok { h with cells := h.cells ++ [(.caller, a)] }
  | .callerWrite i a =>
    match h.cells[i]?, a with
    | some (.caller, .mat _), .mat m => .ok { h with cells := h.cells.set i (.caller, .mat m) }
    | some (.caller, .vec _), .vec v => .ok { h with cells := h.cells.set i (.caller, .vec v) }
    | _, _ => .error .other
  | .construct r t =>
    match h.mat? r, h.vec? t with
    | some m, some v => .ok (h.newPose m v)
    | _, _ => .error .other
  | .copyObj p =>
    match h.objs[p]? with
    | some o => .ok { h with objs := h.objs ++ [o] }
    | none => .error .other
  | .scale p k =>
    match h.objs[p]? with
    | some o =>
      match h.vec? o.t with
      | some v =>
        -- `self._t_vec = self._t_vec * scale`: the product is a new array, the attribute is rebound to it
        .ok { cells := h.cells ++ [(.pose, .vec (Gen.C15.poseScaleT v k))], objs := h.objs.set p { o with t := h.cells.length } }
      | none => .error .other
    | none => .error .other
  | .compose p q =>
    match h.deref p, h.deref q with
    | some P, some Q => let N := P.rotateTranslatePose Q; .ok (h.newPose N.R N.t)
    | _, _ => .error .other
  | .invCompose p q =>
    match h.deref p, h.deref q with
    | some P, some Q => let N := P.invRotateTranslatePose Q; .ok (h.newPose N.R N.t)
    | _, _ => .error .other
  | .transform p a =>
    match h.deref p, h.vec? a with
    | some P, some x => .ok { h with cells := h.cells ++ [(.caller, .vec (P.rotateTranslate x))] }
    | _, _ => .error .other
  | .invTransform p a =>
    match h.deref p, h.vec? a with
    | some P, some x => .ok { h with cells := h.cells ++ [(.caller, .vec (P.invRotateTranslate x))] }
    | _, _ => .error .other

/-- a history -/
def Heap.run (h : Heap α) : List (HOp α) → Except PyErr (Heap α)
  | [] => .ok h
  | op :: ops =>
    match h.step op with
    | .ok h' => h'.run ops
    | .error e => .error e

/-! ### what the same events would do WITHOUT the copy discipline (not the code: used for a counterexample only) -/

/-- a constructor that keeps the caller's arrays (`np.asarray` on float arrays) -/
def Heap.constructNoCopy (h : Heap α) (r t : Nat) : Heap α := { h with objs := h.objs ++ [⟨r, t⟩] }

/-- `self._t_vec *= scale`: writes into the existing array -/
def Heap.scaleInPlace (h : Heap α) (p : Nat) (k : α) : Heap α :=
  match h.objs[p]? with
  | some o =>
    match h.cells[o.t]? with
    | some (w, .vec v) => { h with cells := h.cells.set o.t (w, .vec (Gen.C15.poseScaleT v k)) }
    | _ => h
  | none => h

/-! ## Specification of the scipy conversions used by `Pose.from_rot_vec` / `Pose.from_quat` (NOT cflib code) -/

/-- rotation matrix of a rotation vector (Rodrigues): what `Rotation.from_rotvec(r).as_matrix()` computes
(axis = r/|r|, and the zero vector when |r| = 0) -/
def rotVecMatrix (r : V3 α) : M3 α :=
  let theta := V3.norm r
  let v := V3.divNanToNum (nat 0) (nat 0) r theta
  let c := cos theta
  let s := sin theta
  let k := nat 1 - c
  ⟨⟨c + k * v.x * v.x, k * v.x * v.y - s * v.z, k * v.x * v.z + s * v.y⟩,
   ⟨k * v.y * v.x + s * v.z, c + k * v.y * v.y, k * v.y * v.z - s * v.x⟩,
   ⟨k * v.z * v.x - s * v.y, k * v.z * v.y + s * v.x, c + k * v.z * v.z⟩⟩

/-- `Pose.from_rot_vec(R_vec, t_vec)` with scipy's conversion replaced by its specification -/
def Pose.fromRotVec (r t : V3 α) : Pose α := ⟨rotVecMatrix r, t⟩

/-- scalar-last quaternion `(x, y, z, w)` -/
structure Quat (α : Type) where
  x : α
  y : α
  z : α
  w : α

/-- rotation matrix of a quaternion, normalised first: what `Rotation.from_quat(q).as_matrix()` computes -/
def quatMatrix (q0 : Quat α) : M3 α :=
  let n := sqrt (q0.x * q0.x + q0.y * q0.y + q0.z * q0.z + q0.w * q0.w)
  let x := q0.x / n
  let y := q0.y / n
  let z := q0.z / n
  let w := q0.w / n
  let two : α := nat 2
  ⟨⟨x * x - y * y - z * z + w * w, two * (x * y - z * w), two * (x * z + y * w)⟩,
   ⟨two * (x * y + z * w), -(x * x) + y * y - z * z + w * w, two * (y * z - x * w)⟩,
   ⟨two * (x * z - y * w), two * (y * z + x * w), -(x * x) - y * y + z * z + w * w⟩⟩

/-- quaternion of a rotation vector, `(axis·sin(θ/2), cos(θ/2))`: what `Rotation.from_rotvec(r).as_quat()` computes and
what `Pose.from_rot_vec(r).rot_quat` returns up to sign -/
def rotVecQuat (r : V3 α) : Quat α :=
  let theta := V3.norm r
  let v := V3.divNanToNum (nat 0) (nat 0) r theta
  let s := sin (theta / nat 2)
  ⟨s * v.x, s * v.y, s * v.z, cos (theta / nat 2)⟩

end
end CfVerif.C15

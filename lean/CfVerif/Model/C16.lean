/-
Model/C16 — executable model of `LighthouseSystemAligner`, `LighthouseSystemScaler` and the `Pose`
methods they use (cflib/localization/lighthouse_system_aligner.py, lighthouse_system_scaler.py,
lighthouse_types.py).

The definitions are written ONCE, generically over a carrier `α` with the arithmetic notation
classes of core Lean (+ `HasSqrt`, `HasTrig` below).  They are instantiated with
* `Float`  in Driver/C16.lean (correspondence against numpy/scipy only; no theorem is about Float),
* `ℝ`      in Proofs/C16*.lean (all theorems).
The ℝ / binary64 gap is a named trusted assumption (docs/C16.md).

What is NOT modelled but taken as a parameter: `scipy.optimize.least_squares`.  `findTransformation`
takes the optimiser as an argument `lsq` (residual function → start vector → answer); every theorem
about `align` quantifies over ALL such functions, and the clauses that need a zero residual have
that as an explicit hypothesis.  `scipy.spatial.transform.Rotation.from_rotvec(v).as_matrix()` is
modelled by the exact Rodrigues formula in its quaternion form (`rotVecToMat`, library stand-in).

Python containers: `dict[int, Pose]` is an association list in insertion order, the `ArrayLike`
points are `Vec3`, `LhCfPoseSample.angles_calibrated` is an association list bs-id ↦ list of the
sensors' `cart` vectors.  Exceptions the code can raise on these inputs are explicit `Except` results.
-/
import CfVerif.Base.Struct
import CfVerif.Gen.C16
namespace CfVerif.C16
open CfVerif

class HasSqrt (α : Type) where
  sqrt : α → α

class HasTrig (α : Type) where
  sin : α → α
  cos : α → α
  pi : α

structure Vec3 (α : Type) where
  x : α
  y : α
  z : α
  deriving Repr, DecidableEq

structure Mat3 (α : Type) where
  a11 : α
  a12 : α
  a13 : α
  a21 : α
  a22 : α
  a23 : α
  a31 : α
  a32 : α
  a33 : α
  deriving Repr, DecidableEq

/-- `Pose`: `_R_matrix`, `_t_vec` -/
structure Pose (α : Type) where
  R : Mat3 α
  t : Vec3 α
  deriving Repr, DecidableEq

/-- `[f(x) for x in l]` where `f` may raise: the first exception wins -/
def mapE {β γ : Type} (f : β → Except PyErr γ) : List β → Except PyErr (List γ)
  | [] => .ok []
  | b :: bs =>
    match f b with
    | .error e => .error e
    | .ok c =>
      match mapE f bs with
      | .error e => .error e
      | .ok cs => .ok (c :: cs)

/-! ## numpy on 3-vectors and 3×3 matrices -/
section Lin
variable {α : Type} [Add α] [Sub α] [Mul α] [OfNat α 0] [OfNat α 1]

def Vec3.zero : Vec3 α := ⟨0, 0, 0⟩
def Vec3.add (a b : Vec3 α) : Vec3 α := ⟨a.x + b.x, a.y + b.y, a.z + b.z⟩
def Vec3.sub (a b : Vec3 α) : Vec3 α := ⟨a.x - b.x, a.y - b.y, a.z - b.z⟩
/-- `v * s` (array times scalar) -/
def Vec3.smul (v : Vec3 α) (s : α) : Vec3 α := ⟨v.x * s, v.y * s, v.z * s⟩
/-- `np.dot(a, b)` on vectors -/
def Vec3.dot (a b : Vec3 α) : α := a.x * b.x + a.y * b.y + a.z * b.z
def Vec3.toList (v : Vec3 α) : List α := [v.x, v.y, v.z]

def Mat3.one : Mat3 α := ⟨1, 0, 0, 0, 1, 0, 0, 0, 1⟩
/-- `np.dot(M, v)` -/
def Mat3.mulVec (m : Mat3 α) (v : Vec3 α) : Vec3 α :=
  ⟨m.a11 * v.x + m.a12 * v.y + m.a13 * v.z,
   m.a21 * v.x + m.a22 * v.y + m.a23 * v.z,
   m.a31 * v.x + m.a32 * v.y + m.a33 * v.z⟩
/-- `np.dot(A, B)` -/
def Mat3.mul (a b : Mat3 α) : Mat3 α :=
  ⟨a.a11 * b.a11 + a.a12 * b.a21 + a.a13 * b.a31, a.a11 * b.a12 + a.a12 * b.a22 + a.a13 * b.a32, a.a11 * b.a13 + a.a12 * b.a23 + a.a13 * b.a33,
   a.a21 * b.a11 + a.a22 * b.a21 + a.a23 * b.a31, a.a21 * b.a12 + a.a22 * b.a22 + a.a23 * b.a32, a.a21 * b.a13 + a.a22 * b.a23 + a.a23 * b.a33,
   a.a31 * b.a11 + a.a32 * b.a21 + a.a33 * b.a31, a.a31 * b.a12 + a.a32 * b.a22 + a.a33 * b.a32, a.a31 * b.a13 + a.a32 * b.a23 + a.a33 * b.a33⟩

/-- small natural numbers as array entries (`0.0`, `1.0`, `len(...)`) -/
def natCast : Nat → α
  | 0 => 0
  | n + 1 => natCast n + 1

/-- `Pose.rotate_translate`: `np.dot(self.rot_matrix, point) + self.translation` -/
def Pose.rotateTranslate (p : Pose α) (pt : Vec3 α) : Vec3 α := (p.R.mulVec pt).add p.t

/-- `Pose.rotate_translate_pose`: `Pose(R_matrix=np.dot(R, pose.R), t_vec=np.dot(R, pose.t) + t)` -/
def Pose.rotateTranslatePose (p q : Pose α) : Pose α := ⟨p.R.mul q.R, (p.R.mulVec q.t).add p.t⟩

/-- `Pose.scale`: `self._t_vec = self._t_vec * scale` (value level; the object level is in the heap model below) -/
def Pose.scale (p : Pose α) (f : α) : Pose α := ⟨p.R, p.t.smul f⟩

/-- Python `l[i]` on a list/array of known length: IndexError when out of range -/
def pyIndex (l : List α) (i : Nat) : Except PyErr α :=
  match l[i]? with
  | some a => .ok a
  | none => .error .indexError

/-- Python `l[lo:hi]` for literal `0 ≤ lo, hi` (never raises) -/
def pySlice (l : List α) (lo hi : Nat) : List α := (l.take hi).drop lo

/-- `np.sum(l, axis=0)` over a list of 3-vectors -/
def vsum (l : List (Vec3 α)) : Vec3 α := l.foldl Vec3.add Vec3.zero

def lsum (l : List α) : α := l.foldl (· + ·) 0

end Lin

section Norm
variable {α : Type} [Add α] [Mul α] [HasSqrt α]
/-- `np.linalg.norm(v)` = `sqrt(dot(v, v))` -/
def Vec3.norm (v : Vec3 α) : α := HasSqrt.sqrt (v.dot v)
end Norm

/-! ## `_calc_residual` (given the transform) -/
section Residual
variable {α : Type} [Add α] [Sub α] [Mul α] [OfNat α 0] [OfNat α 1]

/-- `_calc_residual` after `transform = cls._Pose_from_params(params)`:
origin residual = all three components, x-axis samples contribute `x[lo:hi]`, plane samples `x[idx]`,
concatenated in the order of `np.concatenate((ravel origin, ravel x, ravel plane))`. -/
def calcResidualOf (T : Pose α) (origin : Vec3 α) (xAxis xyPlane : List (Vec3 α)) : Except PyErr (List α) := do
  let originDiff := T.rotateTranslate origin
  let xAxisDiff := xAxis.map T.rotateTranslate
  let xyPlaneDiff := xyPlane.map T.rotateTranslate
  let residualOrigin := originDiff
  let xAxisResidual := xAxisDiff.map fun x => pySlice x.toList Gen.C16.xSliceLo Gen.C16.xSliceHi
  let xyPlaneResidual ← mapE (fun x => pyIndex x.toList Gen.C16.planeIdx) xyPlaneDiff
  pure (residualOrigin.toList ++ xAxisResidual.flatten ++ xyPlaneResidual)

end Residual

/-! ## `Pose.from_rot_vec` (scipy stand-in), `_Pose_from_params`, `_find_transformation`, de-flip, `align` -/
section Align
variable {α : Type} [Add α] [Sub α] [Mul α] [Div α] [Neg α] [OfNat α 0] [OfNat α 1] [LT α] [DecidableLT α]
  [HasSqrt α] [HasTrig α]

/-- componentwise `v / s` -/
def Vec3.divS (v : Vec3 α) (s : α) : Vec3 α := ⟨v.x / s, v.y / s, v.z / s⟩

/-- `np.mean(l, axis=0)` for a non-empty list of 3-vectors: sum, then divide by the count -/
def meanVec (l : List (Vec3 α)) : Vec3 α := (vsum l).divS (natCast l.length)

/-- `Rotation.as_matrix()` of the quaternion (x, y, z, w) (scipy's formula; a rotation when the quaternion is unit) -/
def quatToMat (x y z w : α) : Mat3 α :=
  let two : α := 1 + 1
  ⟨x * x - y * y - z * z + w * w, two * (x * y - z * w), two * (x * z + y * w),
   two * (x * y + z * w), (-(x * x)) + y * y - z * z + w * w, two * (y * z - x * w),
   two * (x * z - y * w), two * (y * z + x * w), (-(x * x)) - y * y + z * z + w * w⟩

/-- LIBRARY STAND-IN for `Rotation.from_rotvec(v).as_matrix()`: Rodrigues' rotation by `|v|` about `v/|v|`,
through the quaternion `(sin(θ/2)/θ · v, cos(θ/2))`; identity for `v = 0` (scipy uses a Taylor series of
`sin(θ/2)/θ` below 1e-3 rad, equal to this up to rounding). -/
def rotVecToMat (v : Vec3 α) : Mat3 α :=
  let θ := v.norm
  let two : α := 1 + 1
  let s : α := if 0 < θ then HasTrig.sin (θ / two) / θ else 1 / two
  quatToMat (s * v.x) (s * v.y) (s * v.z) (HasTrig.cos (θ / two))

/-- `Pose.from_rot_vec(R_vec, t_vec)` -/
def Pose.fromRotVec (rv t : Vec3 α) : Pose α := ⟨rotVecToMat rv, t⟩

def vec3OfList : List α → Option (Vec3 α)
  | [a, b, c] => some ⟨a, b, c⟩
  | _ => none

/-- `_Pose_from_params`: `Pose.from_rot_vec(R_vec=params[:3], t_vec=params[3:])`.  A rotation-vector slice that is not of
length 3 is a ValueError in scipy; a translation that is not of length 3 is a ValueError (broadcast) at the first use of
the pose — both are reported here. -/
def poseFromParams (params : List α) : Except PyErr (Pose α) :=
  match vec3OfList (params.take Gen.C16.rotHi), vec3OfList (params.drop Gen.C16.transLo) with
  | some rv, some t => .ok (Pose.fromRotVec rv t)
  | _, _ => .error .valueError

/-- `_calc_residual(params, origin, x_axis, xy_plane)` -/
def calcResidual (params : List α) (origin : Vec3 α) (xAxis xyPlane : List (Vec3 α)) : Except PyErr (List α) := do
  let transform ← poseFromParams params
  calcResidualOf transform origin xAxis xyPlane

/-- the type of the optimiser: objective, start vector ↦ answer `result.x` -/
abbrev Lsq (α : Type) := (List α → Except PyErr (List α)) → List α → List α

/-- `_find_transformation`: `least_squares(cls._calc_residual, np.zeros(6), ..., args=(origin, x_axis, xy_plane))`,
then `_Pose_from_params(result.x)`.  The optimiser is a parameter. -/
def findTransformation (lsq : Lsq α) (origin : Vec3 α) (xAxis xyPlane : List (Vec3 α)) : Except PyErr (Pose α) :=
  poseFromParams (lsq (fun p => calcResidual p origin xAxis xyPlane) (List.replicate Gen.C16.nParams 0))

/-- rotation vector `(0,0,π)` etc.: π on coordinate `axis`, 0 elsewhere -/
def flipVec (axis : Nat) : Vec3 α :=
  ⟨if axis = 0 then HasTrig.pi else 0, if axis = 1 then HasTrig.pi else 0, if axis = 2 then HasTrig.pi else 0⟩

/-- `Pose.from_rot_vec(R_vec=<π about axis>)` (default `t_vec` = origin) -/
def flipPose (axis : Nat) : Pose α := Pose.fromRotVec (flipVec axis) Vec3.zero

/-- `_de_flip_transformation`.  `np.mean([], axis=0)` is nan, `R·nan + t` a 3×3 array, its row `< 0.0` an array whose
truth value is a ValueError; `list({}.values())[0]` is an IndexError.  Both tests look at the RAW transformation. -/
def deFlip (raw : Pose α) (xAxis : List (Vec3 α)) (bsPoses : List (Nat × Pose α)) : Except PyErr (Pose α) := do
  let transformation := raw
  if xAxis.isEmpty then throw .valueError
  let xAxisMean := meanVec xAxis
  let c1 ← pyIndex (raw.rotateTranslate xAxisMean).toList Gen.C16.deflip1Idx
  let transformation := if c1 < 0 then (flipPose Gen.C16.flip1Axis).rotateTranslatePose transformation else transformation
  match bsPoses with
  | [] => throw .indexError
  | (_, bsPose) :: _ =>
    let c2 ← pyIndex (raw.rotateTranslate bsPose.t).toList Gen.C16.deflip2Idx
    let transformation := if c2 < 0 then (flipPose Gen.C16.flip2Axis).rotateTranslatePose transformation else transformation
    pure transformation

/-- the part of `align` after `_find_transformation` -/
def alignWith (raw : Pose α) (xAxis : List (Vec3 α)) (bsPoses : List (Nat × Pose α)) :
    Except PyErr (List (Nat × Pose α) × Pose α) := do
  let transformation ← deFlip raw xAxis bsPoses
  pure (bsPoses.map (fun kv => (kv.1, transformation.rotateTranslatePose kv.2)), transformation)

/-- `LighthouseSystemAligner.align` -/
def align (lsq : Lsq α) (origin : Vec3 α) (xAxis xyPlane : List (Vec3 α)) (bsPoses : List (Nat × Pose α)) :
    Except PyErr (List (Nat × Pose α) × Pose α) := do
  let raw ← findTransformation lsq origin xAxis xyPlane
  alignWith raw xAxis bsPoses

end Align

/-! ## `LighthouseSystemScaler` (value level) -/
section Scale
variable {α : Type} [Add α] [Sub α] [Mul α] [Div α] [OfNat α 0] [OfNat α 1] [HasSqrt α]

/-- `_scale_system`: copy every pose, scale the copy; returns the factor too -/
def scaleSystem (bsPoses : List (Nat × Pose α)) (cfPoses : List (Pose α)) (f : α) :
    List (Nat × Pose α) × List (Pose α) × α :=
  (bsPoses.map (fun kv => (kv.1, kv.2.scale f)), cfPoses.map (·.scale f), f)

/-- `scale_fixed_point`.  A zero `actual` distance is a float division: inf/nan, no exception. -/
def scaleFixedPoint (bsPoses : List (Nat × Pose α)) (cfPoses : List (Pose α)) (expected : Vec3 α) (actual : Pose α) :
    List (Nat × Pose α) × List (Pose α) × α :=
  let expectedDistance := expected.norm
  let actualDistance := actual.t.norm
  let scaleFactor := expectedDistance / actualDistance
  scaleSystem bsPoses cfPoses scaleFactor

/-- the vector literal `(0.0, 0.0, 1.0)` of `calc_intersection_point`, from the source -/
def deckNormalVec : Except PyErr (Vec3 α) :=
  match Gen.C16.deckNormal with
  | [a, b, c] => .ok ⟨natCast a, natCast b, natCast c⟩
  | _ => .error .valueError

/-- `calc_intersection_point(vector, bs_pose, cf_pose)` with `cart = vector.cart` -/
def calcIntersectionPoint (cart : Vec3 α) (bsPose cfPose : Pose α) : Except PyErr (Vec3 α) := do
  let planeBase := cfPose.t
  let planeNormal := cfPose.R.mulVec (← deckNormalVec)
  let lineBase := bsPose.t
  let lineVector := bsPose.R.mulVec cart
  let distOnLine := (planeBase.sub lineBase).dot planeNormal / lineVector.dot planeNormal
  pure (lineBase.add (lineVector.smul distOnLine))

/-- `calc_intersection_distance` -/
def calcIntersectionDistance (c1 c2 : Vec3 α) (bsPose cfPose : Pose α) : Except PyErr α := do
  let i1 ← calcIntersectionPoint c1 bsPose cfPose
  let i2 ← calcIntersectionPoint c2 bsPose cfPose
  pure ((i1.sub i2).norm)

def lookupBs (bsPoses : List (Nat × Pose α)) (k : Nat) : Except PyErr (Pose α) :=
  match bsPoses.find? (·.1 == k) with
  | some kv => .ok kv.2
  | none => .error .keyError

/-- one `diagonals.append(cls.calc_intersection_distance(vectors[i], vectors[j], bs_poses[bs_id], cf_pose))`:
arguments are evaluated left to right, so a short `vectors` (IndexError) wins over an unknown id (KeyError) -/
def oneDiagonal (bsPoses : List (Nat × Pose α)) (cfPose : Pose α) (bsId : Nat) (vectors : List (Vec3 α)) (ij : Nat × Nat) :
    Except PyErr α := do
  let v1 ← match vectors[ij.1]? with | some v => pure v | none => throw .indexError
  let v2 ← match vectors[ij.2]? with | some v => pure v | none => throw .indexError
  let bs ← lookupBs bsPoses bsId
  calcIntersectionDistance v1 v2 bs cfPose

/-- the `diagonals` list of `_calculate_mean_diagonal`: `zip(cf_poses, matched_samples)`, per base station the sensor pairs
of the source (`Gen.diagPairs`) in order -/
def diagonals (bsPoses : List (Nat × Pose α)) (cfPoses : List (Pose α)) (samples : List (List (Nat × List (Vec3 α)))) :
    Except PyErr (List α) := do
  let per ← mapE (fun cs => mapE (fun bv => mapE (fun ij => oneDiagonal bsPoses cs.1 bv.1 bv.2 ij) Gen.C16.diagPairs) cs.2)
    (cfPoses.zip samples)
  pure per.flatten.flatten

/-- `np.mean(diagonals)` (nan for an empty list: 0/0) -/
def meanList (l : List α) : α := lsum l / natCast l.length

def calculateMeanDiagonal (bsPoses : List (Nat × Pose α)) (cfPoses : List (Pose α))
    (samples : List (List (Nat × List (Vec3 α)))) : Except PyErr α := do
  pure (meanList (← diagonals bsPoses cfPoses samples))

/-- `scale_diagonals` -/
def scaleDiagonals (bsPoses : List (Nat × Pose α)) (cfPoses : List (Pose α))
    (samples : List (List (Nat × List (Vec3 α)))) (expectedDiagonal : α) :
    Except PyErr (List (Nat × Pose α) × List (Pose α) × α) := do
  let estimatedDiagonal ← calculateMeanDiagonal bsPoses cfPoses samples
  let scaleFactor := expectedDiagonal / estimatedDiagonal
  pure (scaleSystem bsPoses cfPoses scaleFactor)

end Scale

/-! ## Object level: `_scale_system` on a heap (who shares which array with whom)

A `Pose` object has two attributes referring to ndarray objects.  `copy.copy(pose)` makes a new object with the SAME two
references; `pose.scale(f)` evaluates `self._t_vec * scale` into a NEW array and rebinds the attribute of that object.
Arrays are never written in place.  The heap only ever grows, and the only object attribute writes are to objects
allocated by `_scale_system` itself — that is `inputs_unmodified`. -/
section Heap
variable {α : Type}

inductive Arr (α : Type)
  | mat (m : Mat3 α)
  | vec (v : Vec3 α)
  deriving Repr, DecidableEq

/-- a Pose object: addresses of its `_R_matrix` and `_t_vec` arrays -/
structure PoseObj where
  r : Nat
  t : Nat
  deriving Repr, DecidableEq

structure Heap (α : Type) where
  arrays : List (Arr α)
  objs : List PoseObj
  deriving Repr

/-- `copy.copy(pose)`: new object, same attribute references -/
def Heap.copyPose (h : Heap α) (p : Nat) : Except PyErr (Heap α × Nat) :=
  match h.objs[p]? with
  | some o => .ok ({ h with objs := h.objs ++ [o] }, h.objs.length)
  | none => .error .other

/-- `pose.scale(f)`: `self._t_vec = self._t_vec * scale` — new array, attribute rebound -/
def Heap.scalePose [Mul α] (h : Heap α) (p : Nat) (f : α) : Except PyErr (Heap α) :=
  match h.objs[p]? with
  | some o =>
    match h.arrays[o.t]? with
    | some (.vec v) => .ok { arrays := h.arrays ++ [.vec ⟨v.x * f, v.y * f, v.z * f⟩], objs := h.objs.set p { o with t := h.arrays.length } }
    | _ => .error .other
  | none => .error .other

def Heap.copyAll (h : Heap α) : List Nat → Except PyErr (Heap α × List Nat)
  | [] => .ok (h, [])
  | p :: ps => do
    let (h1, q) ← h.copyPose p
    let (h2, qs) ← h1.copyAll ps
    pure (h2, q :: qs)

def Heap.scaleAll [Mul α] (h : Heap α) (f : α) : List Nat → Except PyErr (Heap α)
  | [] => .ok h
  | p :: ps => do
    let h1 ← h.scalePose p f
    h1.scaleAll f ps

/-- `_scale_system` on object references: the dict comprehension copies all base-station poses, the loop scales the copies,
then the same for the Crazyflie poses. -/
def scaleSystemH [Mul α] (h : Heap α) (bs : List (Nat × Nat)) (cf : List Nat) (f : α) :
    Except PyErr (Heap α × List (Nat × Nat) × List Nat) := do
  let (h1, bsCopies) ← h.copyAll (bs.map (·.2))
  let h2 ← h1.scaleAll f bsCopies
  let (h3, cfCopies) ← h2.copyAll cf
  let h4 ← h3.scaleAll f cfCopies
  pure (h4, (bs.map (·.1)).zip bsCopies, cfCopies)

/-- the value of a Pose object -/
def Heap.deref (h : Heap α) (p : Nat) : Option (Pose α) :=
  match h.objs[p]? with
  | some o =>
    match h.arrays[o.r]?, h.arrays[o.t]? with
    | some (.mat m), some (.vec v) => some ⟨m, v⟩
    | _, _ => none
  | none => none

end Heap

/-! ## Several `align` calls in flight

`least_squares` is an interactive routine: it repeatedly asks for the residual at a point of its choosing and finally answers.
An `Optimiser` is any such strategy (its state type, how it starts from `x0`, which point it wants next or that it is done,
how it digests a residual — or the exception the residual raised —, and its answer).  `runFrom` is the sequential run with an
evaluation budget (`max_nfev`); `Optimiser.lsq` turns it into the `Lsq` parameter of `findTransformation`.

A `Flight` is one `align` call somewhere inside its optimisation: its OWN arguments (as the code passes them:
`least_squares(cls._calc_residual, x0, ..., args=(origin, x_axis, xy_plane))`, no class or module state — Gen pins) and the
optimiser state.  A `World` is a value of arbitrary shared state (class attributes, module globals: whatever there may be)
plus the calls in flight; a schedule picks which call performs its next residual evaluation.  The code's step neither reads
nor writes the shared component. -/
section Flights
variable {α : Type} [Add α] [Sub α] [Mul α] [Div α] [Neg α] [OfNat α 0] [OfNat α 1] [LT α] [DecidableLT α]
  [HasSqrt α] [HasTrig α]

structure Optimiser (α : Type) where
  S : Type
  init : List α → S
  next : S → Option (List α)
  feed : S → Except PyErr (List α) → S
  answer : S → List α

/-- sequential run: at most `fuel` residual evaluations, then the answer -/
def Optimiser.runFrom (o : Optimiser α) (f : List α → Except PyErr (List α)) : Nat → o.S → List α
  | 0, s => o.answer s
  | n + 1, s =>
    match o.next s with
    | none => o.answer s
    | some q => o.runFrom f n (o.feed s (f q))

/-- the optimiser as the `lsq` parameter of `findTransformation` -/
def Optimiser.lsq (o : Optimiser α) (fuel : Nat) : Lsq α := fun f x0 => o.runFrom f fuel (o.init x0)

structure Flight (α : Type) (o : Optimiser α) where
  origin : Vec3 α
  xAxis : List (Vec3 α)
  xyPlane : List (Vec3 α)
  bsPoses : List (Nat × Pose α)
  s : o.S
  fuel : Nat

/-- a call that has just entered `least_squares` -/
def Flight.start (o : Optimiser α) (fuel : Nat) (origin : Vec3 α) (xAxis xyPlane : List (Vec3 α))
    (bsPoses : List (Nat × Pose α)) : Flight α o :=
  ⟨origin, xAxis, xyPlane, bsPoses, o.init (List.replicate Gen.C16.nParams 0), fuel⟩

/-- one residual evaluation of this call — with ITS OWN reference points; nothing happens once the optimiser is done -/
def Flight.step {o : Optimiser α} (fl : Flight α o) : Flight α o :=
  match fl.fuel, o.next fl.s with
  | n + 1, some q => { fl with s := o.feed fl.s (calcResidual q fl.origin fl.xAxis fl.xyPlane), fuel := n }
  | _, _ => fl

def Flight.done {o : Optimiser α} (fl : Flight α o) : Bool :=
  match fl.fuel, o.next fl.s with
  | _ + 1, some _ => false
  | _, _ => true

/-- what the call returns once its optimiser is done: `_Pose_from_params(result.x)`, de-flip, transform the base stations -/
def Flight.result {o : Optimiser α} (fl : Flight α o) : Except PyErr (List (Nat × Pose α) × Pose α) := do
  let raw ← poseFromParams (o.answer fl.s)
  alignWith raw fl.xAxis fl.bsPoses

structure World (α : Type) (o : Optimiser α) (G : Type) where
  shared : G
  flights : List (Flight α o)

def modifyAt {β : Type} (f : β → β) : Nat → List β → List β
  | _, [] => []
  | 0, b :: bs => f b :: bs
  | i + 1, b :: bs => b :: modifyAt f i bs

/-- the scheduler lets call `i` perform its next step; the shared state is neither read nor written -/
def World.step {o : Optimiser α} {G : Type} (w : World α o G) (i : Nat) : World α o G :=
  { w with flights := modifyAt Flight.step i w.flights }

def World.run {o : Optimiser α} {G : Type} (w : World α o G) (schedule : List Nat) : World α o G :=
  schedule.foldl World.step w

end Flights

end CfVerif.C16

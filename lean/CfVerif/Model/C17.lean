/-
Model/C17: executable model of cflib's flight helpers.

* `MotionCommander` + its `_SetPointThread` as a two-thread machine in virtual time (`Base/Sched`): the commanding
  ("main") thread executes micro-instructions obtained by expanding the primitives exactly as the Python methods do
  (including their ZeroDivisionError / ValueError / "not flying" branches and the exception flow through
  `__enter__` / `__exit__` / `try..finally`), the set-point thread is an event processor
  (`queue.get(timeout=period)` -> new set-point or periodic resend; height `z_base + v_z * (now - t_base)`),
  a third "clock" choice lets virtual time jump to the next deadline when nothing can run.
  Every interleaving is a schedule `List Nat` (0 = main, 1 = set-point thread, 2 = clock).
* `PositionHlCommander` as a sequential interpreter (dead-reckoned x, y, z).

Numbers are exact rationals (`Rat`); `math.sqrt` and `math.pi` are parameters (`Static.sqrt`, `Static.pi`): the
theorems hold for every choice of them (under named hypotheses where needed).
Constants, direction tables, the height formula and the distance expressions come from Gen/C17 (Tie A).
Whether `land` protects its descent with try/finally (and `take_off` its ascent with try/except) is a parameter
(`Static.landFinally`, `Static.takeoffGuarded`) that `Static.ofGen` reads from the current source.
No Mathlib.
-/
import CfVerif.Base.Sched
import CfVerif.Gen.C17
namespace CfVerif.C17
open CfVerif

abbrev Q := Rat

/-- Python exceptions that the modelled code can raise -/
inductive Err
  | zeroDiv          -- ZeroDivisionError (float division by zero)
  | valueError       -- time.sleep(negative)
  | notFlying        -- Exception('Can not move on the ground. Take off first!')
  | alreadyFlying    -- Exception('Already flying')
  | notConnected     -- Exception('Crazyflie is not connected')
  | injected         -- an exception raised by the body of the `with` block
  deriving Repr, DecidableEq

/-- a velocity set-point `(velocity_x, velocity_y, velocity_z, rate_yaw)` as put on the thread's queue -/
structure SP where
  vx : Q
  vy : Q
  vz : Q
  yaw : Q
  deriving Repr, DecidableEq

def SP.ofTuple (t : Q × Q × Q × Q) : SP := ⟨t.1, t.2.1, t.2.2.1, t.2.2.2⟩

/-- `self.stop()` : `_set_vel_setpoint(0.0, 0.0, 0.0, 0.0)` -/
def stopSP : SP := SP.ofTuple Gen.C17.mcStopSP

inductive Dir | left | right | forward | back | up | down
  deriving Repr, DecidableEq
inductive Side | left | right
  deriving Repr, DecidableEq

/-- argument tables of `left/right/forward/back/up/down` (translated from the source) -/
def goVec : Dir → Q → Q × Q × Q
  | .left, d => Gen.C17.mcGo_left d
  | .right, d => Gen.C17.mcGo_right d
  | .forward, d => Gen.C17.mcGo_forward d
  | .back, d => Gen.C17.mcGo_back d
  | .up, d => Gen.C17.mcGo_up d
  | .down, d => Gen.C17.mcGo_down d

/-- argument tables of `start_left/...` -/
def startVec : Dir → Q → Q × Q × Q
  | .left, v => Gen.C17.mcStart_left v
  | .right, v => Gen.C17.mcStart_right v
  | .forward, v => Gen.C17.mcStart_forward v
  | .back, v => Gen.C17.mcStart_back v
  | .up, v => Gen.C17.mcStart_up v
  | .down, v => Gen.C17.mcStart_down v

def startTurnSP : Side → Q → SP
  | .left, r => SP.ofTuple (Gen.C17.mcStartTurn_left r)
  | .right, r => SP.ofTuple (Gen.C17.mcStartTurn_right r)

def circumference : Side → Q → Q → Q
  | .left, r, pi => Gen.C17.mcCircumference_left r pi
  | .right, r, pi => Gen.C17.mcCircumference_right r pi

def circleRateNum : Side → Q → Q
  | .left, v => Gen.C17.mcCircleRateNum_left v
  | .right, v => Gen.C17.mcCircleRateNum_right v

def startCircleSP : Side → Q → Q → SP
  | .left, v, rate => SP.ofTuple (Gen.C17.mcStartCircle_left v rate)
  | .right, v, rate => SP.ofTuple (Gen.C17.mcStartCircle_right v rate)

def circleDistance : Side → Q → Q → Q → Q
  | .left, r, pi, a => Gen.C17.mcCircleDistance_left r pi a
  | .right, r, pi, a => Gen.C17.mcCircleDistance_right r pi a

def circleDefaultAngle : Side → Q
  | .left => Gen.C17.circleDefaultAngle
  | .right => Gen.C17.circleDefaultAngleR

/-- the motion primitives of `MotionCommander` (an omitted velocity / rate / angle is `none`) -/
inductive Prim
  | go (dir : Dir) (d : Q) (v : Option Q)                      -- left/right/forward/back/up/down
  | move (dx dy dz : Q) (v : Option Q)                         -- move_distance
  | turn (s : Side) (angle : Q) (rate : Option Q)              -- turn_left / turn_right
  | circle (s : Side) (r : Q) (v : Option Q) (angle : Option Q) -- circle_left / circle_right
  | start (dir : Dir) (v : Option Q)                           -- start_left/...
  | startLinear (vx vy vz : Q) (yaw : Option Q)                -- start_linear_motion
  | startTurn (s : Side) (rate : Option Q)
  | startCircle (s : Side) (r : Q) (v : Option Q)
  | stop
  | wait (d : Q)                                               -- the body's own time.sleep
  | takeOff (h : Option Q) (v : Option Q)
  | land (v : Option Q)
  | raise                                                      -- the body raises here
  deriving Repr, DecidableEq

/-- the five statements that end a flight, in source order:
`self._thread.stop()` (= `queue.put(TERMINATE)` ; `join()`), `send_stop_setpoint()`, `send_notify_setpoint_stop()`,
`self._is_flying = False` -/
inductive Stage | putTerm | join | stop | notify | clear
  deriving Repr, DecidableEq

/-- micro-instructions of the commanding thread -/
inductive Instr
  | prim (p : Prim)            -- a call that is expanded when reached
  | setVel (s : SP)            -- `_set_vel_setpoint`: raises when not flying, else `queue.put`
  | sleep (d : Q)              -- `time.sleep(d)`: raises ValueError when negative
  | param (v : Nat)            -- `param.set_value('kalman.resetEstimation', str v)`
  | setFlying                  -- `self._is_flying = True`
  | startThread                -- `_SetPointThread(cf)` ; `.start()`
  | readHeight (v : Q)         -- `self.down(self._thread.get_height(), v)`: the unsynchronised read
  | cleanup (s : Stage)        -- the rest of `land` from stage `s` on
  | raise (e : Err)
  | enterEnd                   -- end of `__enter__`: an exception before this point escapes the `with` statement
  | exitCtx                    -- `__exit__`: `self.land()` (also reached by an exception in the body)
  | landFinally                -- the `finally:` of `land` (repaired code)
  | takeoffExcept              -- the `except Exception: self.land(); raise` of `take_off` (repaired code)
  deriving Repr, DecidableEq

structure Static where
  sqrt : Q → Q                 -- math.sqrt
  pi : Q                       -- math.pi
  period : Q                   -- _SetPointThread.update_period
  defaultHeight : Q            -- MotionCommander(default_height=...)
  connected : Bool             -- cf.is_connected()
  landFinally : Bool           -- land() runs its cleanup in a `finally`
  takeoffGuarded : Bool        -- take_off() lands when the ascent raises

/-- the configuration described by the current source -/
def Static.ofGen (sqrt : Q → Q) (pi : Q) (defaultHeight : Q := Gen.C17.mcDefaultHeight) (connected : Bool := true) : Static :=
  { sqrt, pi, period := Gen.C17.UPDATE_PERIOD, defaultHeight, connected,
    landFinally := Gen.C17.mcLandFinally, takeoffGuarded := Gen.C17.mcTakeoffGuarded }

/-- `move_distance`: `distance = sqrt(..)`, `flight_time = distance / velocity`,
`velocity_i = velocity * distance_i / distance`, `start_linear_motion`, `sleep`, `stop` -/
def moveInstrs (st : Static) (dx dy dz v : Q) : Except Err (List Instr) :=
  let distance := st.sqrt (Gen.C17.mcMoveNorm2 dx dy dz)
  if v = 0 then .error .zeroDiv                 -- flight_time = distance / velocity
  else if distance = 0 then .error .zeroDiv     -- velocity_x = velocity * distance_x_m / distance
  else .ok [.setVel ⟨v * dx / distance, v * dy / distance, v * dz / distance, 0⟩, .sleep (distance / v), .setVel stopSP]

/-- `turn_left/right`: `flight_time = angle_degrees / rate` -/
def turnInstrs (s : Side) (angle rate : Q) : Except Err (List Instr) :=
  if rate = 0 then .error .zeroDiv
  else .ok [.setVel (startTurnSP s rate), .sleep (angle / rate), .setVel stopSP]

/-- `start_circle_left/right`: `rate = 360.0 * velocity / circumference` -/
def startCircleInstrs (st : Static) (s : Side) (r v : Q) : Except Err (List Instr) :=
  let c := circumference s r st.pi
  if c = 0 then .error .zeroDiv
  else .ok [.setVel (startCircleSP s v (circleRateNum s v / c))]

/-- `circle_left/right`: `flight_time = distance / velocity`, then `start_circle_x`, `sleep`, `stop` -/
def circleInstrs (st : Static) (s : Side) (r v angle : Q) : Except Err (List Instr) :=
  if v = 0 then .error .zeroDiv
  else match startCircleInstrs st s r v with
    | .error e => .error e
    | .ok is => .ok (is ++ [.sleep (circleDistance s r st.pi angle / v), .setVel stopSP])

def velOf (v : Option Q) : Q := v.getD Gen.C17.VELOCITY
def rateOf (r : Option Q) : Q := r.getD Gen.C17.RATE

/-- expansion of a primitive into micro-instructions, or the exception it raises before doing anything -/
def expand (st : Static) (flying : Bool) : Prim → Except Err (List Instr)
  | .go dir d v => let t := goVec dir d; moveInstrs st t.1 t.2.1 t.2.2 (velOf v)
  | .move dx dy dz v => moveInstrs st dx dy dz (velOf v)
  | .turn s a r => turnInstrs s a (rateOf r)
  | .circle s r v a => circleInstrs st s r (velOf v) (a.getD (circleDefaultAngle s))
  | .start dir v => let t := startVec dir (velOf v); .ok [.setVel ⟨t.1, t.2.1, t.2.2, 0⟩]
  | .startLinear vx vy vz yaw => .ok [.setVel ⟨vx, vy, vz, yaw.getD 0⟩]
  | .startTurn s r => .ok [.setVel (startTurnSP s (rateOf r))]
  | .startCircle s r v => startCircleInstrs st s r (velOf v)
  | .stop => .ok [.setVel stopSP]
  | .wait d => .ok [.sleep d]
  | .takeOff h v =>
    if flying then .error .alreadyFlying
    else if !st.connected then .error .notConnected
    else .ok ([.setFlying, .param 1, .sleep Gen.C17.mcResetSleep1, .param 0, .sleep Gen.C17.mcResetSleep2, .startThread,
               .prim (.go .up (h.getD st.defaultHeight) (some (velOf v)))]
              ++ (if st.takeoffGuarded then [.takeoffExcept] else []))
  | .land v =>
    if flying then .ok [.readHeight (velOf v), if st.landFinally then .landFinally else .cleanup .putTerm]
    else .ok []
  | .raise => .error .injected

/-! ### configurations -/

inductive Ev | sp (s : SP) | term
  deriving Repr, DecidableEq

/-- calls received by the commander -/
inductive Cmd
  | hover (vx vy yaw z : Q)    -- send_hover_setpoint(vx, vy, yawrate, zdistance)
  | stop                       -- send_stop_setpoint()
  | notify                     -- send_notify_setpoint_stop()
  deriving Repr, DecidableEq

structure Thr where
  alive : Bool
  queue : List Ev
  hvx : Q                      -- _hover_setpoint[0..3]
  hvy : Q
  hyaw : Q
  hz : Q
  zBase : Q
  zVel : Q
  zT : Q
  deadline : Q                 -- when the pending `queue.get(timeout=period)` times out
  deriving Repr, DecidableEq

def Thr.fresh (alive : Bool) (deadline : Q) : Thr :=
  { alive, queue := [], hvx := 0, hvy := 0, hyaw := 0, hz := 0, zBase := 0, zVel := 0, zT := 0, deadline }

structure Cfg where
  now : Q
  tMain : Q                    -- when the commanding thread executed its previous instruction
  code : List Instr            -- what the commanding thread still has to do (`[]` = finished)
  exc : Option Err             -- the exception that ended the commanding thread, if any
  flying : Bool                -- `_is_flying`
  thr : Thr
  trace : List (Q × Cmd)       -- time-stamped commander calls, NEWEST FIRST
  params : List (Q × Nat)      -- time-stamped `param.set_value` calls, newest first
  deriving Repr, DecidableEq

/-- `_current_z` -/
def curZ (t : Thr) (now : Q) : Q := Gen.C17.spCurrentZ t.zBase t.zVel t.zT now

/-- exception propagation: skip to the innermost enclosing handler -/
def unwind (e : Err) : List Instr → List Instr × Option Err
  | [] => ([], some e)
  | .exitCtx :: rest => (.prim (.land none) :: .raise e :: rest, none)
  | .landFinally :: rest => (.cleanup .putTerm :: .raise e :: rest, none)
  | .takeoffExcept :: rest => (.prim (.land none) :: .raise e :: rest, none)
  | .enterEnd :: _ => ([], some e)
  | _ :: rest => unwind e rest

def raiseAt (c : Cfg) (e : Err) (rest : List Instr) : Cfg :=
  { c with code := (unwind e rest).1, exc := (unwind e rest).2, tMain := c.now }

/-- one instruction of the commanding thread; `none` = blocked (sleeping, or joining a live thread) or finished -/
def stepMain (st : Static) (c : Cfg) : Option Cfg :=
  match c.code with
  | [] => none
  | .prim p :: rest =>
    match expand st c.flying p with
    | .ok is => some { c with code := is ++ rest, tMain := c.now }
    | .error e => some (raiseAt c e rest)
  | .setVel s :: rest =>
    if c.flying then some { c with code := rest, tMain := c.now, thr := { c.thr with queue := c.thr.queue ++ [.sp s] } }
    else some (raiseAt c .notFlying rest)
  | .sleep d :: rest =>
    if d < 0 then some (raiseAt c .valueError rest)
    else if c.tMain + d ≤ c.now then some { c with code := rest, tMain := c.now }
    else none
  | .param v :: rest => some { c with code := rest, tMain := c.now, params := (c.now, v) :: c.params }
  | .setFlying :: rest => some { c with code := rest, tMain := c.now, flying := true }
  | .startThread :: rest => some { c with code := rest, tMain := c.now, thr := Thr.fresh true (c.now + st.period) }
  | .readHeight v :: rest => some { c with code := .prim (.go .down c.thr.hz (some v)) :: rest, tMain := c.now }
  | .cleanup .putTerm :: rest =>
    some { c with code := .cleanup .join :: rest, tMain := c.now, thr := { c.thr with queue := c.thr.queue ++ [.term] } }
  | .cleanup .join :: rest =>
    if c.thr.alive then none else some { c with code := .cleanup .stop :: rest, tMain := c.now }
  | .cleanup .stop :: rest => some { c with code := .cleanup .notify :: rest, tMain := c.now, trace := (c.now, .stop) :: c.trace }
  | .cleanup .notify :: rest => some { c with code := .cleanup .clear :: rest, tMain := c.now, trace := (c.now, .notify) :: c.trace }
  | .cleanup .clear :: rest => some { c with code := rest, tMain := c.now, flying := false }
  | .raise e :: rest => some (raiseAt c e rest)
  | .enterEnd :: rest => some { c with code := rest, tMain := c.now }
  | .takeoffExcept :: rest => some { c with code := rest, tMain := c.now }
  | .exitCtx :: rest => some { c with code := .prim (.land none) :: rest, tMain := c.now }
  | .landFinally :: rest => some { c with code := .cleanup .putTerm :: rest, tMain := c.now }

/-- one iteration of `_SetPointThread.run`; `none` = blocked in `queue.get` (or not running) -/
def stepThr (st : Static) (c : Cfg) : Option Cfg :=
  if c.thr.alive then
    match c.thr.queue with
    | .term :: q => some { c with thr := { c.thr with alive := false, queue := q } }
    | .sp s :: q =>
      -- _new_setpoint ; _update_z_in_setpoint ; send_hover_setpoint
      let zb := curZ c.thr c.now
      let t1 : Thr := { c.thr with queue := q, zBase := zb, zVel := s.vz, zT := c.now, hvx := s.vx, hvy := s.vy, hyaw := s.yaw, hz := zb }
      let z := curZ t1 c.now
      some { c with thr := { t1 with hz := z, deadline := c.now + st.period },
                    trace := (c.now, .hover s.vx s.vy s.yaw z) :: c.trace }
    | [] =>
      if c.thr.deadline ≤ c.now then
        -- queue.Empty: _update_z_in_setpoint ; send_hover_setpoint
        let z := curZ c.thr c.now
        some { c with thr := { c.thr with hz := z, deadline := c.now + st.period },
                      trace := (c.now, .hover c.thr.hvx c.thr.hvy c.thr.hyaw z) :: c.trace }
      else none
  else none

def mainEnabled (c : Cfg) : Bool :=
  match c.code with
  | [] => false
  | .sleep d :: _ => decide (d < 0) || decide (c.tMain + d ≤ c.now)
  | .cleanup .join :: _ => !c.thr.alive
  | _ => true

def thrEnabled (c : Cfg) : Bool :=
  c.thr.alive && (!c.thr.queue.isEmpty || decide (c.thr.deadline ≤ c.now))

/-- when the commanding thread's sleep ends -/
def mainWake (c : Cfg) : Option Q :=
  match c.code with
  | .sleep d :: _ => some (c.tMain + d)
  | _ => none

def qmin (a b : Q) : Q := if a ≤ b then a else b

/-- virtual time passes only when nothing can run: it jumps to the earliest deadline -/
def stepClock (c : Cfg) : Option Cfg :=
  if mainEnabled c || thrEnabled c then none
  else match mainWake c, c.thr.alive with
    | some a, true => some { c with now := qmin a c.thr.deadline }
    | some a, false => some { c with now := a }
    | none, true => some { c with now := c.thr.deadline }
    | none, false => none

/-- schedule letters: 0 = commanding thread, 1 = set-point thread, 2 = clock -/
def machine (st : Static) : Sched.Machine Cfg :=
  ⟨fun c t => match t with
    | 0 => stepMain st c
    | 1 => stepThr st c
    | 2 => stepClock c
    | _ => none⟩

def Cfg.start (code : List Instr) : Cfg :=
  { now := 0, tMain := 0, code, exc := none, flying := false, thr := Thr.fresh false 0, trace := [], params := [] }

/-- `with MotionCommander(cf, default_height) as mc: body` -/
def withCode (body : List Prim) : List Instr :=
  .prim (.takeOff none none) :: .enterEnd :: (body.map .prim ++ [.exitCtx])

def initWith (body : List Prim) : Cfg := Cfg.start (withCode body)

/-- a script that calls the primitives directly (no context manager) -/
def initBare (body : List Prim) : Cfg := Cfg.start (body.map .prim)

/-! ### PositionHlCommander -/

inductive HCmd
  | takeoff (h dur : Q)
  | land (h dur : Q)
  | goTo (x y z yaw dur : Q)
  | stop
  | controller (v : Nat)       -- param.set_value('stabilizer.controller', str v)
  deriving Repr, DecidableEq

inductive HPrim
  | go (dir : Dir) (d : Q) (v : Option Q)
  | move (dx dy dz : Q) (v : Option Q)
  | goTo (x y : Q) (z : Option Q) (v : Option Q)
  | setDefaultVelocity (v : Q)
  | setDefaultHeight (h : Q)
  | setLandingHeight (h : Q)
  | takeOff (h : Option Q) (v : Option Q)
  | land (v : Option Q) (lh : Option Q)
  | wait (d : Q)
  | raise
  deriving Repr, DecidableEq

structure HStatic where
  sqrt : Q → Q
  connected : Bool
  landFinally : Bool           -- land() stops the motors in a `finally`
  landNumer : Q → Q → Q        -- numerator of the landing duration as a function of (z, landing_height)

/-- the configuration described by the current source -/
def HStatic.ofGen (sqrt : Q → Q) (connected : Bool := true) : HStatic :=
  { sqrt, connected, landFinally := Gen.C17.hlLandFinally, landNumer := Gen.C17.hlLandNumer }

structure HL where
  x : Q
  y : Q
  z : Q
  defVel : Q
  defHeight : Q
  defLanding : Q
  flying : Bool
  now : Q
  initTime : Q
  trace : List (Q × HCmd)      -- newest first
  deriving Repr, DecidableEq

def hlGoVec : Dir → Q → Q × Q × Q
  | .left, d => Gen.C17.hlGo_left d
  | .right, d => Gen.C17.hlGo_right d
  | .forward, d => Gen.C17.hlGo_forward d
  | .back, d => Gen.C17.hlGo_back d
  | .up, d => Gen.C17.hlGo_up d
  | .down, d => Gen.C17.hlGo_down d

def HL.emit (s : HL) (c : HCmd) : HL := { s with trace := (s.now, c) :: s.trace }

/-- `PositionHlCommander(cf, x, y, z, default_velocity, default_height, controller, default_landing_height)` at time `now` -/
def HL.new (now x y z dv dh dl : Q) (controller : Option Nat) : HL :=
  let s : HL := { x, y, z, defVel := dv, defHeight := dh, defLanding := dl, flying := false, now, initTime := now, trace := [] }
  match controller with
  | some v => s.emit (.controller v)
  | none => s

/-- `go_to(x, y, z, velocity)` -/
def hlGoTo (st : HStatic) (s : HL) (x y : Q) (z : Option Q) (v : Option Q) : HL × Option Err :=
  let z := z.getD s.defHeight
  let d := Gen.C17.hlDelta s.x s.y s.z x y z
  let distance := st.sqrt (Gen.C17.hlNorm2 d.1 d.2.1 d.2.2)
  if 0 < distance then
    let vel := v.getD s.defVel
    if vel = 0 then (s, some .zeroDiv)
    else
      let dur := distance / vel
      let s1 := s.emit (.goTo x y z 0 dur)
      if dur < 0 then (s1, some .valueError)
      else ({ s1 with now := s1.now + dur, x := x, y := y, z := z }, none)
  else (s, none)

/-- `move_distance` -/
def hlMove (st : HStatic) (s : HL) (dx dy dz : Q) (v : Option Q) : HL × Option Err :=
  let t := Gen.C17.hlMoveTarget s.x s.y s.z dx dy dz
  hlGoTo st s t.1 t.2.1 (some t.2.2) v

/-- `take_off`: wait until one second after construction ("let the HL commander record the current position") -/
def hlHold (s : HL) : HL :=
  let hb := Gen.C17.hlHoldBack s.initTime s.now
  if 0 < hb then { s with now := s.now + hb } else s

/-- `take_off` from `height = self._height(height)` on -/
def hlAscend (s : HL) (h v : Option Q) : HL × Option Err :=
  let height := h.getD s.defHeight
  let vel := v.getD s.defVel
  if vel = 0 then (s, some .zeroDiv)
  else
    let dur := height / vel
    let s1 := s.emit (.takeoff height dur)
    if dur < 0 then (s1, some .valueError)
    else ({ s1 with now := s1.now + dur, z := height }, none)

/-- `take_off(height, velocity)` -/
def hlTakeOff (st : HStatic) (s : HL) (h v : Option Q) : HL × Option Err :=
  if s.flying then (s, some .alreadyFlying)
  else if !st.connected then (s, some .notConnected)
  else hlAscend { hlHold s with flying := true } h v

/-- `land(velocity, landing_height)`; with `landFinally` the last two statements run in a `finally` -/
def hlLand (st : HStatic) (s : HL) (v lh : Option Q) : HL × Option Err :=
  if s.flying then
    let fin (s : HL) (e : Err) : HL × Option Err :=
      if st.landFinally then ({ s.emit .stop with flying := false }, some e) else (s, some e)
    let lh := lh.getD s.defLanding
    let vel := v.getD s.defVel
    if vel = 0 then fin s .zeroDiv
    else
      let dur := st.landNumer s.z lh / vel
      let s1 := s.emit (.land lh dur)
      if dur < 0 then fin s1 .valueError
      else
        let s2 : HL := { s1 with now := s1.now + dur, z := lh }
        ({ s2.emit .stop with flying := false }, none)
  else (s, none)

def hlPrim (st : HStatic) (s : HL) : HPrim → HL × Option Err
  | .go dir d v => let t := hlGoVec dir d; hlMove st s t.1 t.2.1 t.2.2 v
  | .move dx dy dz v => hlMove st s dx dy dz v
  | .goTo x y z v => hlGoTo st s x y z v
  | .setDefaultVelocity v => ({ s with defVel := v }, none)
  | .setDefaultHeight h => ({ s with defHeight := h }, none)
  | .setLandingHeight h => ({ s with defLanding := h }, none)
  | .takeOff h v => hlTakeOff st s h v
  | .land v lh => hlLand st s v lh
  | .wait d => if d < 0 then (s, some .valueError) else ({ s with now := s.now + d }, none)
  | .raise => (s, some .injected)

/-- run the body until it ends or raises -/
def hlBody (st : HStatic) (s : HL) : List HPrim → HL × Option Err
  | [] => (s, none)
  | p :: ps =>
    match hlPrim st s p with
    | (s', none) => hlBody st s' ps
    | (s', some e) => (s', some e)

/-- `with PositionHlCommander(...) as pc: body` : the final state and the exception that leaves the statement -/
def hlWith (st : HStatic) (s : HL) (body : List HPrim) : HL × Option Err :=
  match hlTakeOff st s none none with
  | (s1, some e) => (s1, some e)                 -- __enter__ failed: __exit__ is not called
  | (s1, none) =>
    match hlBody st s1 body with
    | (s2, eb) =>
      match hlLand st s2 none none with          -- __exit__
      | (s3, some e) => (s3, some e)
      | (s3, none) => (s3, eb)

end CfVerif.C17

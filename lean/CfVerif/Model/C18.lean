/-
Model/C18: executable model of cflib's CPX packet codec, the TCP socket transport's framing and
re-assembly loop, the per-function router and the CRTP-over-CPX tunnel of TcpDriver.
The header bit expressions, enum value lists and struct formats come from Gen/C18 (Tie A).
No Mathlib.
-/
import CfVerif.Base.Struct
import CfVerif.Gen.C18
namespace CfVerif.C18
open CfVerif

/-- a decoded CPX packet (enum members are carried by their integer values) -/
structure Packet where
  src : Nat
  dst : Nat
  fn : Nat
  last : Bool
  data : List UInt8
  deriving Repr, DecidableEq

inductive Err
  | py (e : PyErr)      -- a Python exception class
  | version             -- RuntimeError('Unsupported CPX version')
  | blocked             -- the socket has no more data: the real call blocks
  deriving Repr, DecidableEq

/-- header part of `CPXPacket._get_wire_data` (version is an attribute, 0 unless poked) -/
def wireHdr (src dst fn : Nat) (last : Bool) (ver : Nat) : Except Err (List UInt8) :=
  let tf0 := Gen.C18.tfExpr src dst
  let tf := if last then tf0 ||| Gen.C18.lastFlag else tf0
  let fv := Gen.C18.fvExpr fn ver
  match pack (parseFmt! Gen.C18.wireFmt) [.int tf, .int fv] with
  | .ok hdr => .ok hdr
  | .error e => .error (.py e)

/-- `CPXPacket._get_wire_data` -/
def wire (p : Packet) (ver : Nat) : Except Err (List UInt8) :=
  match wireHdr p.src p.dst p.fn p.last ver with
  | .ok hdr => .ok (hdr ++ p.data)
  | .error e => .error e

/-- header part of `CPXPacket._set_wire_data`: `struct.unpack('<BB', data[0:2])`, version check,
enum constructors (`CPXTarget(v)` / `CPXFunction(v)` raise ValueError for a value that is no member) -/
def unwireHdr (h : List UInt8) : Except Err (Nat × Nat × Nat × Bool) :=
  match unpack (parseFmt! Gen.C18.unwireFmt) h with
  | .ok [.int tf, .int fv] =>
    let tf := tf.toNat
    let fv := fv.toNat
    if Gen.C18.verExpr fv ≠ Gen.C18.cpxVersion then .error .version
    else if ¬ Gen.C18.targetValues.contains (Gen.C18.srcExpr tf) then .error (.py .valueError)
    else if ¬ Gen.C18.targetValues.contains (Gen.C18.dstExpr tf) then .error (.py .valueError)
    else if ¬ Gen.C18.functionValues.contains (Gen.C18.fnExpr fv) then .error (.py .valueError)
    else .ok (Gen.C18.srcExpr tf, Gen.C18.dstExpr tf, Gen.C18.fnExpr fv, Gen.C18.lastExpr tf ≠ 0)
  | .ok _ => .error (.py .structError)
  | .error e => .error (.py e)

/-- `CPXPacket._set_wire_data` -/
def unwire (raw : List UInt8) : Except Err Packet :=
  match unwireHdr (raw.take 2) with
  | .ok (s, d, f, l) => .ok { src := s, dst := d, fn := f, last := l, data := raw.drop 2 }
  | .error e => .error e

/-- `SocketTransport.writePacket`: u16 length prefix (`packet.length + 2`) then the wire data -/
def frame (p : Packet) : Except Err (List UInt8) :=
  match pack (parseFmt! Gen.C18.sockWriteFmt) [.int (p.data.length + 2 : Nat)] with
  | .error e => .error (.py e)
  | .ok pre =>
    match wire p Gen.C18.cpxVersion with
    | .ok w => .ok (pre ++ w)
    | .error e => .error e

/-- The receive side of a TCP socket: the sequence of segments still to be delivered.
`recv(n)` returns at most `n` bytes from the head segment. -/
abbrev Sock := List (List UInt8)

/-- `SocketTransport._readData(size)`: `while len(data) < size: data.extend(recv(size - len(data)))`.
Structural recursion on the segment list: every iteration either consumes a whole segment or finishes. -/
def readData : Nat → Sock → Except Err (List UInt8 × Sock)
  | 0, s => .ok ([], s)
  | _ + 1, [] => .error .blocked
  | n + 1, c :: s =>
    if c.length ≤ n + 1 then
      match readData (n + 1 - c.length) s with
      | .ok (d, s') => .ok (c ++ d, s')
      | .error e => .error e
    else .ok (c.take (n + 1), c.drop (n + 1) :: s)

/-- `SocketTransport.readPacket` -/
def readPacket (s : Sock) : Except Err (Packet × Sock) × Sock :=
  match readData 2 s with
  | .error e => (.error e, s)
  | .ok (hdr, s1) =>
    match unpack (parseFmt! Gen.C18.sockReadFmt) hdr with
    | .ok [.int size] =>
      match readData size.toNat s1 with
      | .error e => (.error e, s1)
      | .ok (body, s2) =>
        match unwire body with
        | .ok p => (.ok (p, s2), s2)
        | .error e => (.error e, s2)     -- the bytes were consumed; the exception propagates
    | _ => (.error (.py .structError), s1)

/-- read `n` packets, all must succeed -/
def readPackets : Nat → Sock → Except Err (List Packet × Sock)
  | 0, s => .ok ([], s)
  | n + 1, s =>
    match readPacket s with
    | (.ok (p, s'), _) =>
      match readPackets n s' with
      | .ok (ps, s'') => .ok (p :: ps, s'')
      | .error e => .error e
    | (.error e, _) => .error e

/-! ### router -/

inductive ROp
  | reg (fn : Nat)              -- `receivePacket(function)` creates the queue if missing
  | pkt (fn : Nat) (tag : Nat)  -- the router thread read a packet for `fn`
  deriving Repr, DecidableEq

/-- queues: association list function ↦ queued tags (oldest first), in creation order -/
abbrev Queues := List (Nat × List Nat)

def Queues.has : Queues → Nat → Bool
  | [], _ => false
  | e :: q, fn => e.1 == fn || Queues.has q fn

def Queues.put : Queues → Nat → Nat → Queues
  | [], _, _ => []
  | e :: q, fn, tag => (if e.1 == fn then (e.1, e.2 ++ [tag]) else e) :: Queues.put q fn tag

def Queues.get : Queues → Nat → List Nat
  | [], _ => []
  | e :: q, fn => if e.1 == fn then e.2 else Queues.get q fn

def routerStep (q : Queues) : ROp → Queues
  | .reg fn => if q.has fn then q else q ++ [(fn, [])]
  | .pkt fn tag => if q.has fn then q.put fn tag else q     -- no queue: packet dropped

def routerRun (ops : List ROp) : Queues := ops.foldl routerStep []

/-! ### the router thread's read loop (`CPXRouter.run`): exceptions raised by `readPacket` -/

/-- Python class name of what `readPacket` raised -/
def errClassName : Err → String
  | .version => "RuntimeError"
  | .py .valueError => "ValueError"
  | .py .structError => "struct.error"
  | .py e => toString e
  | .blocked => "blocked"

/-- does the `except` clause of `CPXRouter.run` (handler class names from Gen) catch this error?
(`Exception` catches every class `readPacket` can raise.) -/
def handlerCatches (handlers : List String) (e : Err) : Bool :=
  handlers.contains "Exception" || handlers.contains (errClassName e)

def pktTag (p : Packet) : Nat :=
  match p.data with
  | [] => 256
  | b :: _ => b.toNat

/-- one loop iteration per read result; an uncaught exception kills the thread (nothing after it is routed).
Returns the queues and whether the thread is still alive. -/
def routerReads (handlers : List String) : List (Except Err Packet) → Queues → Queues × Bool
  | [], q => (q, true)
  | .ok p :: rest, q => routerReads handlers rest (routerStep q (.pkt p.fn (pktTag p)))
  | .error e :: rest, q =>
    if handlerCatches handlers e then routerReads handlers rest q else (q, false)

/-- the successive results of `readPacket` on a socket, until it would block (fuel = a bound on the reads) -/
def sockReads : Nat → Sock → List (Except Err Packet)
  | 0, _ => []
  | fuel + 1, s =>
    match readPacket s with
    | (.ok (p, s'), _) => .ok p :: sockReads fuel s'
    | (.error .blocked, _) => []
    | (.error e, s') => .error e :: sockReads fuel s'

/-- `CPXRouter.run` on a byte stream with the queues of `regs` already created -/
def routerStream (regs : List Nat) (s : Sock) : Queues × Bool :=
  routerReads Gen.C18.routerHandlers (sockReads (s.flatten.length + 1) s) (routerRun (regs.map ROp.reg))

/-! ### several CPX links in one process

Each `CPXRouter` object owns its queue table (`__init__` creates a fresh dict; Gen pins that).  A world maps a link
number to that link's table; an operation is tagged with the link whose router thread / receiver performs it. -/

abbrev World := Nat → Queues

def worldStep (w : World) (op : Nat × ROp) : World :=
  fun j => if j = op.1 then routerStep (w j) op.2 else w j

def worldRun (ops : List (Nat × ROp)) : World := ops.foldl worldStep (fun _ => [])

/-- the operations of link `i` in a multi-link schedule -/
def opsOf (i : Nat) (ops : List (Nat × ROp)) : List ROp := (ops.filter (fun o => o.1 == i)).map (·.2)

/-- the faulty alternative (what a queue table shared between router objects would do): every operation of every
link acts on ONE table -/
def sharedRun (ops : List (Nat × ROp)) : Queues := routerRun (ops.map (·.2))

/-! ### CRTP over CPX (TcpDriver) -/

def cpxTargetSTM32 : Nat := 1
def cpxTargetHOST : Nat := 3
def cpxFunctionCRTP : Nat := 3

/-- `TcpDriver.send_packet`: CPX payload is the CRTP header byte followed by the data -/
def tunnelUp (header : Nat) (data : List UInt8) : Packet :=
  { src := cpxTargetHOST, dst := cpxTargetSTM32, fn := cpxFunctionCRTP, last := false,
    data := UInt8.ofNat header :: data }

structure Crtp where
  header : Nat
  port : Nat
  chan : Nat
  data : List UInt8
  deriving Repr, DecidableEq

/-- `_CPXReceiveThread.run` body for one CPX packet: empty payloads are skipped -/
def tunnelDown (payload : List UInt8) : Option Crtp :=
  match payload with
  | [] => none
  | h :: d => some { header := Gen.C18.crtpHeaderExpr h.toNat, port := Gen.C18.crtpPortExpr h.toNat,
                     chan := Gen.C18.crtpChanExpr h.toNat, data := d }

end CfVerif.C18

/-
Model/C19: executable model of cflib/crazyflie/swarm.py (Swarm.__init__, _process_args_dict, sequential,
parallel, parallel_safe with its per-member threads, _thread_function_wrapper, Reporter, open_links,
close_links) and of the open/close guards of SyncCrazyflie, on the generic thread semantics of Base/Sched.

Thread 0 is the caller ("main"), thread `i+1` is the thread started for the `i`-th entry of `Swarm._cfs`.
One model step = one atomic statement-level action of the Python code:
  main    `starting k`  : `_process_args_dict` for member k (KeyError is an explicit result), Thread(...).start()
          `joining k`   : `threads[k].join()` (enabled only when that thread has finished)
          `checking`    : `if reporter.is_error_reported(): raise Exception(..) from reporter.errors[0]`
          `psDone r`    : what the caller of parallel_safe does with the result (parallel: swallow; open_links:
                          set `_is_open` / run `close_links` and re-raise)
          `closing k x` : `cf.close_link()` for member k inside `close_links`
  member  `ready a`     : the wrapper calls `func(scf, *a)`                     (event `call`)
          `running a`   : the action finishes: returns or raises                (event `ret` / `raised`)
          `failed e`    : `reporter.error_reported = True`   (first statement of report_error)
          `flagged e`   : `reporter._errors.append(e)`       (second statement of report_error)
Constants (index of the chained error, the booleans the flags are set to) come from Gen/C19 (Tie A).  No Mathlib.
-/
import CfVerif.Base.Sched
import CfVerif.Gen.C19
namespace CfVerif.C19
open CfVerif

abbrev Uri := Nat
/-- identity of the object returned by `factory.construct` (ordinal of the construct call) -/
abbrev Member := Nat
abbrev Arg := Int

/-- identity of an exception object raised inside an action -/
inductive Err
  | user (n : Nat)                -- raised by a user action
  | linkAlreadyOpen (u : Uri)     -- SyncCrazyflie.open_link: Exception('Link already open')
  | connFailed (u : Uri)          -- SyncCrazyflie.open_link: Exception(self._error_message)
  deriving DecidableEq, Repr

/-- exceptions that leave a swarm-wide call (all are instances of Python's `Exception`) -/
inductive Exc
  | user (e : Err)                -- propagated unchanged by `sequential`
  | chained (cause : Err)         -- Exception('One or more threads raised ...') from cause
  | keyError (u : Uri)            -- `args_dict[uri]` for a URI the dictionary lacks
  | indexError                    -- `reporter.errors[0]` on an empty list
  | alreadyOpened                 -- Exception('Already opened')
  deriving DecidableEq, Repr

inductive Ev
  | call (u : Uri) (m : Member) (args : List Arg)   -- func(scf, *args) entered
  | ret (u : Uri)                                   -- the action returned
  | raised (u : Uri) (e : Err)                      -- the action raised e
  | closeCall (u : Uri) (wasOpen : Bool)            -- cf.close_link(); wasOpen: it really closed a link
  deriving DecidableEq, Repr

def Ev.uri : Ev → Uri
  | .call u _ _ => u | .ret u => u | .raised u _ => u | .closeCall u _ => u

/-- events produced by the member's action (not by close_links) -/
def Ev.isAction : Ev → Bool
  | .closeCall _ _ => false
  | _ => true

/-- the per-URI argument dictionary: `None`, or key/value pairs (Python dict: keys unique) -/
abbrev ArgsDict := Option (List (Uri × List Arg))

/-- `Swarm._process_args_dict` (the extra arguments; `scf` itself is the `m` of the `call` event):
`if args_dict:` is false for `None` and `{}`; `args_dict[uri]` raises KeyError for a missing key. -/
def processArgs (d : ArgsDict) (u : Uri) : Except Exc (List Arg) :=
  match d with
  | none => .ok []
  | some [] => .ok []
  | some kvs =>
    match kvs.lookup u with
    | some a => .ok a
    | none => .error (.keyError u)

/-- what the action does.  `user f`: an arbitrary function whose outcome for (member, args) is `f u args`
(`none` = returns, `some e` = raises e).  `openLink conn`: `lambda scf: scf.open_link()` where the connection
attempt of member u succeeds iff `conn u`. -/
inductive Action
  | user (f : Uri → List Arg → Option Err)
  | openLink (conn : Uri → Bool)

/-- outcome of the action body and new `_is_link_open` of the member.  SyncCrazyflie.open_link:
`if self.is_link_open(): raise Exception('Link already open')`; connect; `_connected` / `_connection_failed`
set the flag; `if not self._is_link_open: raise Exception(self._error_message)`. -/
def Action.finish (a : Action) (u : Uri) (args : List Arg) (isOpen : Bool) : Option Err × Bool :=
  match a with
  | .user f => (f u args, isOpen)
  | .openLink conn =>
    if isOpen then (some (.linkAlreadyOpen u), isOpen)
    else if conn u then (none, Gen.C19.scfConnectedSets)
    else (some (.connFailed u), Gen.C19.scfFailedSets)

inductive ThrPc
  | idle                          -- no thread started for this member (yet)
  | ready (a : List Arg)
  | running (a : List Arg)
  | failed (e : Err)
  | flagged (e : Err)
  | done (r : Option Err)
  deriving DecidableEq, Repr

inductive MainPc
  | starting (k : Nat)
  | joining (k : Nat)
  | checking
  | psDone (r : Option Exc)
  | closing (k : Nat) (x : Exc)
  | finished (r : Option Exc)
  deriving DecidableEq, Repr

inductive Kind | parallelSafe | parallel | openLinks
  deriving DecidableEq, Repr

structure Params where
  cfs : List (Uri × Member)       -- Swarm._cfs in iteration order
  kind : Kind
  args : ArgsDict
  act : Action

structure Cfg where
  main : MainPc
  thr : Nat → ThrPc
  flag : Bool                     -- Reporter.error_reported
  errors : List Err               -- Reporter._errors
  mem : Nat → Bool                -- SyncCrazyflie._is_link_open per member index
  swarmOpen : Bool                -- Swarm._is_open
  trace : List Ev

def upd {α} (f : Nat → α) (i : Nat) (x : α) : Nat → α := fun j => if j = i then x else f j

def stepMain (p : Params) (c : Cfg) : Option Cfg :=
  match c.main with
  | .starting k =>
    match p.cfs[k]? with
    | none => some { c with main := .joining 0 }
    | some (u, _) =>
      match processArgs p.args u with
      | .error x => some { c with main := .psDone (some x) }
      | .ok a => some { c with thr := upd c.thr k (.ready a), main := .starting (k + 1) }
  | .joining k =>
    match p.cfs[k]? with
    | none => some { c with main := .checking }
    | some _ =>
      match c.thr k with
      | .done _ => some { c with main := .joining (k + 1) }
      | _ => none
  | .checking =>
    if c.flag then
      match c.errors[Gen.C19.errIndex]? with
      | some e => some { c with main := .psDone (some (.chained e)) }
      | none => some { c with main := .psDone (some .indexError) }
    else some { c with main := .psDone none }
  | .psDone r =>
    match p.kind with
    | .parallelSafe => some { c with main := .finished r }
    | .parallel => some { c with main := .finished none }      -- `except Exception: pass` (every `Exc` is an Exception)
    | .openLinks =>
      match r with
      | none => some { c with swarmOpen := Gen.C19.openSetsFlag, main := .finished none }
      | some x => some { c with main := .closing 0 x }
  | .closing k x =>
    match p.cfs[k]? with
    | none => some { c with swarmOpen := Gen.C19.closeSetsFlag, main := .finished (some x) }
    | some (u, _) =>
      -- SyncCrazyflie.close_link: `if self.is_link_open(): cf.close_link(); ...` (`_disconnected` clears the flag)
      some { c with mem := upd c.mem k (if c.mem k then Gen.C19.scfDisconnectedSets else c.mem k),
                    trace := c.trace ++ [.closeCall u (c.mem k)], main := .closing (k + 1) x }
  | .finished _ => none

def stepThr (p : Params) (c : Cfg) (i : Nat) : Option Cfg :=
  match p.cfs[i]? with
  | none => none
  | some (u, m) =>
    match c.thr i with
    | .ready a => some { c with thr := upd c.thr i (.running a), trace := c.trace ++ [.call u m a] }
    | .running a =>
      match p.act.finish u a (c.mem i) with
      | (none, o) => some { c with thr := upd c.thr i (.done none), mem := upd c.mem i o, trace := c.trace ++ [.ret u] }
      | (some e, o) => some { c with thr := upd c.thr i (.failed e), mem := upd c.mem i o, trace := c.trace ++ [.raised u e] }
    | .failed e => some { c with thr := upd c.thr i (.flagged e), flag := Gen.C19.reportFlagValue }
    | .flagged e => some { c with thr := upd c.thr i (.done (some e)), errors := c.errors ++ [e] }
    | _ => none

def step (p : Params) (c : Cfg) : Nat → Option Cfg
  | 0 => stepMain p c
  | i + 1 => stepThr p c i

def machine (p : Params) : Sched.Machine Cfg := ⟨step p⟩

/-- persistent state of a Swarm object between swarm-wide calls -/
structure SwarmState where
  isOpen : Bool
  mem : Nat → Bool

/-- state at the start of parallel_safe: `threads = []`, `reporter = self.Reporter()` -/
def init (st : SwarmState) : Cfg :=
  { main := .starting 0, thr := fun _ => .idle, flag := Gen.C19.reporterInitFlag, errors := [], mem := st.mem,
    swarmOpen := st.isOpen, trace := [] }

/-- run a schedule from the initial configuration -/
def exec (p : Params) (st : SwarmState) (sch : List Nat) : Option Cfg := Sched.run (machine p) (init st) sch

/-! ## Thread-free swarm operations -/

/-- `Swarm.sequential` -/
def sequentialGo (args : ArgsDict) (f : Uri → List Arg → Option Err) : List (Uri × Member) → List Ev → List Ev × Option Exc
  | [], tr => (tr, none)
  | (u, m) :: rest, tr =>
    match processArgs args u with
    | .error x => (tr, some x)
    | .ok a =>
      match f u a with
      | none => sequentialGo args f rest (tr ++ [.call u m a, .ret u])
      | some e => (tr ++ [.call u m a, .raised u e], some (.user e))

def sequential (cfs : List (Uri × Member)) (args : ArgsDict) (f : Uri → List Arg → Option Err) : List Ev × Option Exc :=
  sequentialGo args f cfs []

/-- `Swarm.close_links` -/
def closeLinksGo : List (Uri × Member) → Nat → (Nat → Bool) → List Ev → (Nat → Bool) × List Ev
  | [], _, mem, tr => (mem, tr)
  | (u, _) :: rest, k, mem, tr =>
    closeLinksGo rest (k + 1) (upd mem k (if mem k then Gen.C19.scfDisconnectedSets else mem k)) (tr ++ [.closeCall u (mem k)])

def closeLinks (cfs : List (Uri × Member)) (st : SwarmState) : SwarmState × List Ev :=
  let (mem, tr) := closeLinksGo cfs 0 st.mem []
  ({ isOpen := Gen.C19.closeSetsFlag, mem := mem }, tr)

/-- `Swarm.__init__`: `self._cfs[uri] = factory.construct(uri)` for each given uri, in order (a repeated uri
replaces the object but keeps its first position, as a Python dict does) -/
def dictSet (d : List (Uri × Member)) (u : Uri) (m : Member) : List (Uri × Member) :=
  if d.any (fun kv => kv.1 == u) then d.map (fun kv => if kv.1 == u then (u, m) else kv) else d ++ [(u, m)]

def mkSwarmGo : List Uri → Nat → List (Uri × Member) → List (Uri × Member)
  | [], _, d => d
  | u :: us, k, d => mkSwarmGo us (k + 1) (dictSet d u k)

def mkSwarm (uris : List Uri) : List (Uri × Member) := mkSwarmGo uris 0 []

/-! ## Swarm-wide calls as one operation on the Swarm state -/

inductive Op
  | parallelSafe (args : ArgsDict) (f : Uri → List Arg → Option Err)
  | parallel (args : ArgsDict) (f : Uri → List Arg → Option Err)
  | openLinks (conn : Uri → Bool)
  | closeLinks
  | sequential (args : ArgsDict) (f : Uri → List Arg → Option Err)

def Op.params (cfs : List (Uri × Member)) : Op → Option Params
  | .parallelSafe a f => some ⟨cfs, .parallelSafe, a, .user f⟩
  | .parallel a f => some ⟨cfs, .parallel, a, .user f⟩
  | .openLinks conn => some ⟨cfs, .openLinks, none, .openLink conn⟩
  | _ => none

/-- result of one swarm-wide call under schedule `sch`: `none` = the schedule is not an execution of the model
that ends with the call finished (a picked thread was not enabled, or main has not finished). -/
def runOp (cfs : List (Uri × Member)) (st : SwarmState) (op : Op) (sch : List Nat) : Option (SwarmState × List Ev × Option Exc) :=
  match op with
  | .closeLinks => let (st', tr) := closeLinks cfs st; some (st', tr, none)
  | .sequential a f => let (tr, r) := sequential cfs a f; some (st, tr, r)
  | .openLinks conn =>
    -- `if self._is_open: raise Exception('Already opened')`.  Where this guard sits is regenerated from the source: before
    -- the `try` its raise leaves the swarm untouched; inside the `try` the raise would run the handler (close_links, re-raise)
    if st.isOpen then
      if Gen.C19.openGuardInTry then
        let (st', tr) := closeLinks cfs st
        some (st', tr, some .alreadyOpened)
      else some (st, [], some .alreadyOpened)
    else
      match exec ⟨cfs, .openLinks, none, .openLink conn⟩ st sch with
      | some c => match c.main with
        | .finished r => some ({ isOpen := c.swarmOpen, mem := c.mem }, c.trace, r)
        | _ => none
      | none => none
  | .parallelSafe a f =>
    match exec ⟨cfs, .parallelSafe, a, .user f⟩ st sch with
    | some c => match c.main with
      | .finished r => some ({ isOpen := c.swarmOpen, mem := c.mem }, c.trace, r)
      | _ => none
    | none => none
  | .parallel a f =>
    match exec ⟨cfs, .parallel, a, .user f⟩ st sch with
    | some c => match c.main with
      | .finished r => some ({ isOpen := c.swarmOpen, mem := c.mem }, c.trace, r)
      | _ => none
    | none => none

/-- a history of swarm-wide calls on ONE Swarm object, each with its own schedule; returns the final state and the
result of every call (`none` as soon as one schedule is not a finished execution of its call) -/
def runHist (cfs : List (Uri × Member)) : SwarmState → List (Op × List Nat) → Option (SwarmState × List (Option Exc))
  | st, [] => some (st, [])
  | st, (op, sch) :: rest =>
    match runOp cfs st op sch with
    | none => none
    | some (st', _, r) =>
      match runHist cfs st' rest with
      | none => none
      | some (st'', rs) => some (st'', r :: rs)

/-! ## The caller's argument dictionary as an object that outlives the call -/

/-- The dictionary object after a swarm-wide action has used it.  `_process_args_dict` builds each argument list by
in-place list operations; Tie A regenerates WHICH objects those operations change (`Gen.procMutated`) and which of them
belong to the caller (`Gen.procMutatedCaller`: the dictionary, one of its lists, or a name bound to them without a copy).
When only its own fresh lists are changed the caller's dictionary is what it was; otherwise the model makes no
statement about it (`none`). -/
def dictAfterCall (d : ArgsDict) : Option ArgsDict :=
  if Gen.C19.procMutatedCaller.isEmpty then some d else none

inductive ActKind | parallelSafe | parallel | sequential
  deriving DecidableEq, Repr

def actOp (d : ArgsDict) (f : Uri → List Arg → Option Err) : ActKind → Op
  | .parallelSafe => .parallelSafe d f
  | .parallel => .parallel d f
  | .sequential => .sequential d f

/-- a history of actions (any mix of sequential / parallel / parallel_safe, any outcomes, any schedules) for which the
caller passes ONE dictionary object: each call receives the object as the previous call left it -/
def runActs (cfs : List (Uri × Member)) : SwarmState → ArgsDict →
    List (ActKind × (Uri → List Arg → Option Err) × List Nat) → Option (ArgsDict × List (List Ev × Option Exc))
  | _, d, [] => some (d, [])
  | st, d, (k, f, sch) :: rest =>
    match runOp cfs st (actOp d f k) sch, dictAfterCall d with
    | some (st', tr, r), some d' =>
      match runActs cfs st' d' rest with
      | some (dd, outs) => some (dd, (tr, r) :: outs)
      | none => none
    | _, _ => none

/-- a freshly constructed Swarm: `_is_open = False`, every SyncCrazyflie with `_is_link_open = False` -/
def fresh : SwarmState := { isOpen := Gen.C19.initIsOpen, mem := fun _ => Gen.C19.scfInitIsOpen }

end CfVerif.C19

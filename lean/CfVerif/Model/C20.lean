/-
Model/C20: executable model of cflib's link-URI handling.

* the fragment of `urllib.parse.urlparse` / `parse_qs` that `RadioDriver.parse_uri` relies on, at character level
  (unsafe-character removal, netloc up to `/ ? #`, bracket check, fragment, query, `k=v&...` with `+` and `%xx`);
* Python `int()` on ASCII strings (whitespace, sign, underscores, 4300-digit limit), `str.format` for the
  format strings that occur (`{}`, `{:X}`, `{:0>10}`, `{:0>10X}`), `binascii.unhexlify`, `struct.unpack`;
* `RadioDriver.parse_uri` (REPAIRED code, see fixes/D16-c20.patch; the code as it is in the unrepaired tree is
  `parseUriLive`), `scan_interface` result formatting, `scan_selected`;
* every driver's `WrongUriType` guard, through a small regex matcher run on the regex text extracted from the source;
  `init_drivers`, `get_link_driver`, `Crazyflie.open_link`, `uri_helper`.
Strings are `List Char`.  Inputs with a non-ASCII character are `Err.outOfModel` (explicit, never a default).
Everything the code reads as a constant comes from Gen/C20 (Tie A).  No Mathlib.
-/
import CfVerif.Base.Struct
import CfVerif.Gen.C20
namespace CfVerif.C20
open CfVerif

abbrev Str := List Char

inductive Err
  | wrongUriType      -- cflib.crtp.exceptions.WrongUriType
  | valueError        -- ValueError (also binascii.Error, a subclass)
  | structError       -- struct.error
  | typeError
  | attributeError
  | exception         -- a plain `Exception(...)` raised by the driver itself
  | outOfModel        -- the input is outside the modelled fragment (no prediction)
  deriving Repr, DecidableEq, Inhabited

/-! ## Python string helpers (ASCII) -/

def isDigit (c : Char) : Bool := '0' ≤ c && c ≤ '9'
def digitVal (c : Char) : Nat := c.toNat - '0'.toNat
def isAscii (c : Char) : Bool := c.toNat < 128

def upperAscii (c : Char) : Char :=
  if 'a' ≤ c && c ≤ 'z' then Char.ofNat (c.toNat - 32) else c

/-- value of a string of decimal digits (most significant first) -/
def decVal (s : Str) : Nat := s.foldl (fun a c => 10 * a + digitVal c) 0

/-- value of a list of digit values in `base` (most significant first) -/
def digitsVal (base : Nat) (ds : List Nat) : Nat := ds.foldl (fun a d => base * a + d) 0

/-- `str(n)` for a natural number: least significant digit first, with fuel -/
def decDigitsRev : Nat → Nat → Str
  | 0, _ => []
  | fuel + 1, n => Nat.digitChar (n % 10) :: (if n / 10 = 0 then [] else decDigitsRev fuel (n / 10))

def natStr (n : Nat) : Str := (decDigitsRev (n + 1) n).reverse

def intStr : Int → Str
  | .ofNat n => natStr n
  | .negSucc n => '-' :: natStr (n + 1)

def hexDigitsRev (upper : Bool) : Nat → Nat → Str
  | 0, _ => []
  | fuel + 1, n =>
    let d := n % 16
    let c := if d < 10 then Nat.digitChar d else Char.ofNat ((if upper then 'A'.toNat else 'a'.toNat) + d - 10)
    c :: (if n / 16 = 0 then [] else hexDigitsRev upper fuel (n / 16))

def natHex (upper : Bool) (n : Nat) : Str := (hexDigitsRev upper (n + 1) n).reverse

/-- `s.split(sep)` for a one-character separator: always at least one element -/
def splitOn (sep : Char) : Str → List Str
  | [] => [[]]
  | c :: s =>
    if c = sep then [] :: splitOn sep s
    else match splitOn sep s with
      | [] => [[c]]
      | h :: t => (c :: h) :: t

/-- `s.split(sep, 1)`: the part before the first `sep` and, if there is one, the part after it -/
def splitFirst (sep : Char) : Str → Str × Option Str
  | [] => ([], none)
  | c :: s =>
    if c = sep then ([], some s)
    else let r := splitFirst sep s; (c :: r.1, r.2)

/-- `s.strip(ch)` -/
def stripChar (ch : Char) (s : Str) : Str :=
  ((s.dropWhile (· = ch)).reverse.dropWhile (· = ch)).reverse

def isPrefix : Str → Str → Bool
  | [], _ => true
  | _ :: _, [] => false
  | a :: p, b :: s => a = b && isPrefix p s

/-! ## `int()` on ASCII strings -/

/-- C `isspace` -/
def pySpace (c : Char) : Bool := c = ' ' || (9 ≤ c.toNat && c.toNat ≤ 13)

def stripSpace (s : Str) : Str := ((s.dropWhile pySpace).reverse.dropWhile pySpace).reverse

def decDigit? (c : Char) : Option Nat := if isDigit c then some (digitVal c) else none

/-- digits separated by at most one underscore, no leading/trailing underscore, at least one digit.
`prev` = the previous character was a digit. -/
def scanDigits (dig : Char → Option Nat) : Bool → Str → Option (List Nat)
  | prev, [] => if prev then some [] else none
  | prev, c :: s =>
    if c = '_' then (if prev then scanDigits dig false s else none)
    else match dig c with
      | some d => (scanDigits dig true s).map (d :: ·)
      | none => none

def splitSign : Str → Bool × Str
  | '+' :: r => (false, r)
  | '-' :: r => (true, r)
  | r => (false, r)

def maxStrDigits : Nat := 4300

/-- `int(s)` (base 10) -/
def pyInt (s : Str) : Except Err Int :=
  let (neg, body) := splitSign (stripSpace s)
  match scanDigits decDigit? false body with
  | none => .error .valueError
  | some ds =>
    if ds.length > maxStrDigits then .error .valueError
    else .ok (if neg then - (digitsVal 10 ds : Int) else (digitsVal 10 ds : Int))

/-- `int(s, 16)`: optional `0x`/`0X` prefix (which may be followed by one underscore); no digit limit for base 16 -/
def pyIntHex (s : Str) : Except Err Int :=
  let (neg, body) := splitSign (stripSpace s)
  let body' : Str × Bool := match body with
    | '0' :: x :: r => if x = 'x' || x = 'X' then (r, true) else (body, false)
    | _ => (body, false)
  -- after a prefix one underscore is allowed before the first digit
  let digits := match body' with
    | ('_' :: r, true) => r
    | (r, _) => r
  match scanDigits hexVal? false digits with
  | none => .error .valueError
  | some ds => .ok (if neg then - (digitsVal 16 ds : Int) else (digitsVal 16 ds : Int))

/-! ## `str.format` for the format strings that occur -/

inductive FArg
  | str (s : Str)
  | int (n : Int)
  deriving Repr, DecidableEq

structure Spec where
  fill : Char := ' '
  align : Option Char := none
  width : Nat := 0
  ty : Option Char := none
  deriving Repr, DecidableEq

def isAlign (c : Char) : Bool := c = '<' || c = '>'

/-- `[[fill]align][width][type]` with align `<`/`>`, type one of `s d x X`; anything else is unsupported -/
def parseSpec (s : Str) : Option Spec :=
  let (fill, align, rest) : Char × Option Char × Str :=
    match s with
    | f :: a :: r => if isAlign a then (f, some a, r) else if isAlign f then (' ', some f, a :: r) else (' ', none, s)
    | [a] => if isAlign a then (' ', some a, []) else (' ', none, s)
    | [] => (' ', none, [])
  let w := rest.takeWhile isDigit
  let rest := rest.dropWhile isDigit
  -- a width starting with `0` is the zero-padding flag: not supported here
  if w.head? = some '0' then none else
  match rest with
  | [] => some { fill, align, width := decVal w }
  | [t] => if t = 's' || t = 'd' || t = 'x' || t = 'X' then some { fill, align, width := decVal w, ty := some t } else none
  | _ => none

def padTo (sp : Spec) (defaultAlign : Char) (content : Str) : Str :=
  let pad := List.replicate (sp.width - content.length) sp.fill
  if sp.align.getD defaultAlign = '<' then content ++ pad else pad ++ content

def formatField (sp : Spec) : FArg → Except Err Str
  | .str s => match sp.ty with
    | none | some 's' => .ok (padTo sp '<' s)
    | _ => .error .valueError
  | .int n => match sp.ty with
    | none | some 'd' => .ok (padTo sp '>' (intStr n))
    | some 'X' => .ok (padTo sp '>' ((if n < 0 then ['-'] else []) ++ natHex true n.natAbs))
    | some 'x' => .ok (padTo sp '>' ((if n < 0 then ['-'] else []) ++ natHex false n.natAbs))
    | _ => .error .valueError

inductive Seg
  | lit (c : Char)
  | field (sp : Spec)
  deriving Repr, DecidableEq

def specOfField (inner : Str) : Option Spec :=
  match inner with
  | [] => some {}
  | ':' :: sp => parseSpec sp
  | _ => none

/-- parse a format string with auto-numbered fields `{}` / `{:spec}` (no `{{` escapes); `acc` = the field being read -/
def parseFormatAux : Str → Option Str → Option (List Seg)
  | [], none => some []
  | [], some _ => none
  | c :: r, none =>
    if c = '{' then parseFormatAux r (some [])
    else if c = '}' then none
    else (parseFormatAux r none).map (Seg.lit c :: ·)
  | c :: r, some acc =>
    if c = '}' then
      match specOfField acc.reverse with
      | none => none
      | some sp => (parseFormatAux r none).map (Seg.field sp :: ·)
    else if c = '{' then none
    else parseFormatAux r (some (c :: acc))

def parseFormat (s : String) : Option (List Seg) := parseFormatAux s.toList none
def parseFormat! (s : String) : List Seg := (parseFormat s).getD []

/-- `fmt.format(*args)`; a missing argument is Python's IndexError (reported as `exception`; unreachable for the
pinned formats), surplus arguments are ignored as in Python -/
def renderSegs : List Seg → List FArg → Except Err Str
  | [], _ => .ok []
  | .lit c :: r, args => (renderSegs r args).map (c :: ·)
  | .field _ :: _, [] => .error .exception
  | .field sp :: r, a :: args =>
    match formatField sp a with
    | .error e => .error e
    | .ok s => (renderSegs r args).map (s ++ ·)

def pyFormat (fmt : String) (args : List FArg) : Except Err Str := renderSegs (parseFormat! fmt) args

/-! ## `urllib.parse` fragment -/

def unsafeChar (c : Char) : Bool := c = '\t' || c = '\r' || c = '\n'
def netlocDelim (c : Char) : Bool := c = '/' || c = '?' || c = '#'

structure Url where
  netloc : Str
  path : Str
  query : Str
  fragment : Str
  deriving Repr, DecidableEq

/-- `urlparse(uri)` for a `uri` that starts with `radio://` (so the scheme is found and `//` follows):
tab/CR/LF are removed everywhere, the netloc runs up to the first of `/ ? #`, then the fragment is split off at
the first `#` and the query at the first `?`.  One of `[`/`]` without the other in the netloc is a ValueError; a
netloc with both is validated as an IP literal by `ipaddress`, which is outside the model. -/
def urlsplitRadio (uri : Str) : Except Err Url :=
  let url := uri.filter (fun c => !unsafeChar c)
  let rest := url.drop 8
  let netloc := rest.takeWhile (fun c => !netlocDelim c)
  let rest := rest.dropWhile (fun c => !netlocDelim c)
  let lb := netloc.contains '['
  let rb := netloc.contains ']'
  if lb != rb then .error .valueError
  else if lb then .error .outOfModel
  else
    let (rest, frag) := splitFirst '#' rest
    let (path, query) := splitFirst '?' rest
    .ok { netloc, path, query := query.getD [], fragment := frag.getD [] }

/-- `unquote` on an ASCII string: `%xx` with two hex digits becomes that byte, any other `%` stays.
A byte ≥ 0x80 would be UTF-8-decoded by Python: outside the model. -/
def unquote : Str → Except Err Str
  | [] => .ok []
  | [c] => .ok [c]
  | [c, d] => .ok [c, d]
  | c :: a :: b :: rest =>
    if c = '%' then
      match hexVal? a, hexVal? b with
      | some x, some y =>
        if 16 * x + y < 128 then (unquote rest).map (Char.ofNat (16 * x + y) :: ·) else .error .outOfModel
      | _, _ => (unquote (a :: b :: rest)).map ('%' :: ·)
    else (unquote (a :: b :: rest)).map (c :: ·)

def plusToSpace (s : Str) : Str := s.map (fun c => if c = '+' then ' ' else c)

/-- one `name=value` field of `parse_qsl` (default options): fields without `=` or with an empty value are dropped -/
def qslField (nv : Str) : Except Err (Option (Str × Str)) :=
  match splitFirst '=' nv with
  | (_, none) => .ok none
  | (n, some v) =>
    if v = [] then .ok none
    else match unquote (plusToSpace n), unquote (plusToSpace v) with
      | .ok n', .ok v' => .ok (some (n', v'))
      | _, _ => .error .outOfModel

def qslFields : List Str → Except Err (List (Str × Str))
  | [] => .ok []
  | nv :: r =>
    match qslField nv, qslFields r with
    | .ok none, .ok l => .ok l
    | .ok (some p), .ok l => .ok (p :: l)
    | _, _ => .error .outOfModel

/-- `parse_qsl(qs)` -/
def parseQsl (qs : Str) : Except Err (List (Str × Str)) :=
  if qs = [] then .ok [] else qslFields (splitOn '&' qs)

/-- `parse_qs(qs)[key][0]` if `key in parse_qs(qs)`: the value of the first field with that name -/
def qsFirst (key : Str) : List (Str × Str) → Option Str
  | [] => none
  | (n, v) :: r => if n = key then some v else qsFirst key r

/-! ## `RadioDriver.parse_uri` -/

/-- what `parse_uri` returns -/
structure Radio where
  devid : Nat
  channel : Int
  rate : Nat              -- Crazyradio.DR_* value
  addr : List Nat         -- 5 bytes, in the order given to `Crazyradio.set_address`
  limit : Option Int
  deriving Repr, DecidableEq

def radioPrefix : Str :=
  match Gen.C20.driverGuards.lookup "RadioDriver" with
  | some [(_, p)] => p.toList
  | _ => []

def indexOf? (x : Str) : List Str → Option Nat
  | [] => none
  | y :: r => if x = y then some 0 else (indexOf? x r).map (· + 1)

/-- the dongle: a netloc of fewer than 10 characters, all digits, is the device index; anything else is looked up
(upper-cased) among the serial numbers of the attached dongles -/
def dongleOf (serials : List Str) (netloc : Str) : Except Err Nat :=
  if netloc.length < Gen.C20.netlocLenBound && (!netloc.isEmpty && netloc.all isDigit) then .ok (decVal netloc)
  else match indexOf? (netloc.map upperAscii) serials with
    | some i => .ok i
    | none => .error .exception

def lookupStr (k : Str) : List (String × Nat) → Option Nat
  | [] => none
  | (s, v) :: r => if s.toList = k then some v else lookupStr k r

/-- three independent `if parsed_path[1] == ...` statements: the last match wins (the strings are distinct) -/
def rateOf (s : Str) : Nat :=
  Gen.C20.rateTable.foldl (fun acc e => if e.1.toList = s then e.2 else acc) Gen.C20.datarateDefault

def unhexlify (s : Str) : Except Err (List UInt8) :=
  match ofHexChars s with
  | some b => .ok b
  | none => .error .valueError

def valsToNats : List Val → Option (List Nat)
  | [] => some []
  | .int v :: r => (valsToNats r).map (v.toNat :: ·)
  | _ :: _ => none

/-- pad (format), `binascii.unhexlify`, `struct.unpack` -/
def addrFrom (padFmt unpackFmt : String) (a : FArg) : Except Err (List Nat) :=
  match pyFormat padFmt [a] with
  | .error e => .error e
  | .ok padded =>
    match unhexlify padded with
    | .error e => .error e
    | .ok bytes =>
      match unpack (parseFmt! unpackFmt) bytes with
      | .error _ => .error .structError
      | .ok vals => match valsToNats vals with
        | some l => .ok l
        | none => .error .structError

def addrOf (s : Str) : Except Err (List Nat) :=
  addrFrom Gen.C20.addrPadFmt Gen.C20.addrUnpackFmt (.str s)

def rateLimitOf (query : Str) : Except Err (Option Int) :=
  match parseQsl query with
  | .error e => .error e
  | .ok fields =>
    match qsFirst Gen.C20.rateLimitKey.toList fields with
    | none => .ok none
    | some v => (pyInt v).map some

/-- the body of `parse_uri` after `urlparse`, given the list `parsed_path` -/
def interpret (serials : List Str) (netloc : Str) (segs : List Str) (query : Str) : Except Err Radio := do
  -- `parse_qs` runs first; it never raises, but it may leave the modelled fragment
  let _ ← parseQsl query
  let devid ← dongleOf serials netloc
  let channel ← match segs with
    | [] => pure Gen.C20.channelDefault
    | c :: _ => pyInt c
  let rate := match segs with
    | _ :: r :: _ => rateOf r
    | _ => Gen.C20.datarateDefault
  let addr ← match segs with
    | _ :: _ :: a :: _ => addrOf a
    | _ => pure Gen.C20.addressDefault
  let limit ← rateLimitOf query
  pure { devid, channel, rate, addr, limit }

/-- REPAIRED: `[part for part in parsed_uri.path.split('/') if part]` -/
def pathSegments (path : Str) : List Str := (splitOn '/' path).filter (fun s => !s.isEmpty)

/-- as in the unrepaired tree: `parsed_uri.path.strip('/').split('/')` -/
def pathSegmentsLive (path : Str) : List Str := splitOn '/' (stripChar '/' path)

def parseUriWith (segsOf : Str → List Str) (serials : List Str) (uri : Str) : Except Err Radio :=
  if !isPrefix radioPrefix uri then .error .wrongUriType
  else if !uri.all isAscii then .error .outOfModel
  else match urlsplitRadio uri with
    | .error e => .error e
    | .ok u => interpret serials u.netloc (segsOf u.path) u.query

/-- `RadioDriver.parse_uri` (repaired code) -/
def parseUri (serials : List Str) (uri : Str) : Except Err Radio := parseUriWith pathSegments serials uri

/-- `RadioDriver.parse_uri` as it is in the unrepaired tree (defect D16) -/
def parseUriLive (serials : List Str) (uri : Str) : Except Err Radio := parseUriWith pathSegmentsLive serials uri

/-! ## scanning -/

/-- the address `scan_interface(address)` programs into the radio (`None`: the radio's address is left alone) -/
def scanSetAddress (address : Int) : Except Err (List Nat) :=
  addrFrom Gen.C20.scanAddrPadFmt Gen.C20.scanAddrUnpackFmt (.int address)

def scanArg (chan : Int) (address : Int) (name : String) : FArg :=
  if name = "chan" then .int chan else .int address     -- the only other argument text is `address` (pinned in Props)

def mapExcept {α β} (f : α → Except Err β) : List α → Except Err (List β)
  | [] => .ok []
  | a :: r => match f a, mapExcept f r with
    | .ok b, .ok l => .ok (b :: l)
    | .error e, _ => .error e
    | _, .error e => .error e

/-- the URIs reported by one pass (one data rate) of `scan_interface` -/
def scanPass (entry : Nat × String × List String) (address : Int) (chans : List Int) : Except Err (List Str) :=
  mapExcept (fun c => pyFormat entry.2.1 (entry.2.2.map (scanArg c address))) chans

def scanPasses (address : Int) : List (Nat × String × List String) → List (List Int) → Except Err (List (Nat × List Str))
  | [], _ => .ok []
  | e :: r, found =>
    match scanPass e address (found.headD []), scanPasses address r found.tail with
    | .ok l, .ok rest => .ok ((e.1, l) :: rest)
    | .error err, _ => .error err
    | _, .error err => .error err

/-- `scan_interface(address)`: the i-th element of `found` are the channels that answered in the i-th pass.
Returns the data rate in force in each pass with the URIs reported for it. -/
def scanInterface (address : Option Int) (found : List (List Int)) : Except Err (List (Nat × List Str)) :=
  let plain := match address with
    | none => true
    | some a => a = (Gen.C20.defaultAddrInt : Int)
  let table := if plain then Gen.C20.scanPlain else Gen.C20.scanAddressed
  let pre : Except Err Unit := match address with
    | none => .ok ()
    | some a => (scanSetAddress a).map (fun _ => ())
  match pre with
  | .error e => .error e
  | .ok _ => scanPasses (address.getD 0) table found

/-! ### `scan_selected` -/

def dropPrefix? : Str → Str → Option Str
  | [], s => some s
  | _ :: _, [] => none
  | a :: p, b :: s => if a = b then dropPrefix? p s else none

/-- hand translation of `re.search('^radio://([0-9]+)((/([0-9]+))(/(250K|1M|2M))?)?', link)` (the text is pinned in
Props): returns groups 4 and 6.  Everything after `([0-9]+)` is optional, so the greedy first attempt of every
quantifier succeeds and no backtracking changes a group.  No match: `uri_data` is None, `.group` is an AttributeError. -/
def scanSelGroups (link : Str) : Except Err (Option Str × Option Str) :=
  match dropPrefix? "radio://".toList link with
  | none => .error .attributeError
  | some r =>
    let d1 := r.takeWhile isDigit
    if d1.isEmpty then .error .attributeError
    else match r.dropWhile isDigit with
      | [] => .ok (none, none)
      | s :: r2 =>
        let d4 := r2.takeWhile isDigit
        if s ≠ '/' || d4.isEmpty then .ok (none, none)
        else
          let r3 := r2.dropWhile isDigit
          let g6 := if isPrefix "/250K".toList r3 then some "250K".toList
            else if isPrefix "/1M".toList r3 then some "1M".toList
            else if isPrefix "/2M".toList r3 then some "2M".toList
            else none
          .ok (some d4, g6)

/-- first loop of `scan_selected`: the `{'channel', 'datarate'}` entry for one link -/
def scanSelEntry (link : Str) : Except Err (Int × Nat) :=
  match scanSelGroups link with
  | .error e => .error e
  | .ok (g4, g6) =>
    match g4 with
    | none => .error .typeError            -- int(None)
    | some d =>
      match pyInt d with
      | .error e => .error e
      | .ok ch =>
        let rate := Gen.C20.scanSelRateTable.foldl
          (fun acc e => if g6 = some e.2.1.toList then e.2.2 else acc) Gen.C20.scanSelRateDefault
        .ok (ch, rate)

/-- second loop of `scan_selected`: the URI reported for a found entry -/
def scanSelReport (e : Int × Nat) : Except Err Str :=
  let name := Gen.C20.scanSelNameTable.foldl (fun acc t => if e.2 = t.1 then t.2 else acc) Gen.C20.scanSelNameDefault
  pyFormat Gen.C20.scanSelFmt [.int e.1, .str name.toList]

/-- `scan_selected(links)` against a radio on which exactly the entries with `acks[i] = true` answer -/
def scanSelected (links : List Str) (acks : List Bool) : Except Err (List Str) :=
  match mapExcept scanSelEntry links with
  | .error e => .error e
  | .ok entries =>
    mapExcept scanSelReport ((entries.zip acks).filterMap (fun p => if p.2 then some p.1 else none))

/-! ## scheme guards: a small regex matcher -/

/-- set of characters as inclusive ranges -/
abbrev CharSet := List (Char × Char)
def CharSet.mem (cs : CharSet) (c : Char) : Bool := cs.any (fun r => r.1 ≤ c && c ≤ r.2)

inductive Item
  | eol                      -- `$`: at the end, or before a newline that ends the string
  | one (cs : CharSet)       -- a literal character or `[...]`
  | plus (cs : CharSet)      -- `[...]+` / `([...]+)`
  deriving Repr, DecidableEq

def reMeta (c : Char) : Bool := ".^$*+?{}[]\\|()".toList.contains c

/-- body of `[...]` up to the closing bracket: literals and `a-z` ranges; a leading or trailing `-` is a literal;
no negation, no escapes.  Returns the set and the rest after `]`. -/
def parseClass : Str → CharSet → Option (CharSet × Str)
  | [], _ => none
  | [c], acc => if c = ']' && !acc.isEmpty then some (acc.reverse, []) else none
  | [c, d], acc =>
    if c = ']' then (if acc.isEmpty then none else some (acc.reverse, [d]))
    else if c = '\\' || c = '^' || c = '[' then none
    else if d = ']' then some (((c, c) :: acc).reverse, [])
    else none
  | c :: d :: e :: r, acc =>
    if c = ']' then (if acc.isEmpty then none else some (acc.reverse, d :: e :: r))
    else if c = '\\' || c = '^' || c = '[' then none
    else if d = '-' && e ≠ ']' then
      (if e = '\\' || e = '[' || e < c then none else parseClass r ((c, e) :: acc))
    else parseClass (d :: e :: r) ((c, c) :: acc)

/-- items after the leading `^`.  Supported: literals, `$`, `[...]`, `[...]+`, `([...]+)`; anything else: `none`. -/
def parseItems : Nat → Str → Option (List Item)
  | 0, _ => none
  | _ + 1, [] => some []
  | fuel + 1, c :: r =>
    if c = '$' then (parseItems fuel r).map (Item.eol :: ·)
    else if c = '[' then
      match parseClass r [] with
      | none => none
      | some (cs, '+' :: r') => (parseItems fuel r').map (Item.plus cs :: ·)
      | some (cs, r') => (parseItems fuel r').map (Item.one cs :: ·)
    else if c = '(' then
      match r with
      | '[' :: r1 =>
        match parseClass r1 [] with
        | some (cs, '+' :: ')' :: r') => (parseItems fuel r').map (Item.plus cs :: ·)
        | _ => none
      | _ => none
    else if reMeta c then none
    else (parseItems fuel r).map (Item.one [(c, c)] :: ·)

/-- a regex of the supported shape: `^` followed by items (no MULTILINE, so `^` anchors at position 0) -/
def parseRe (s : String) : Option (List Item) :=
  match s.toList with
  | '^' :: r => parseItems (r.length + 1) r
  | _ => none

/-- one or more characters of `p`, then the continuation `k` -/
def plusK (p : Char → Bool) (k : Str → Bool) : Str → Bool
  | [] => false
  | c :: s => p c && (k s || plusK p k s)

/-- does the anchored pattern match a prefix of `s` (`re.search` with a leading `^`)? -/
def matchItems : List Item → Str → Bool
  | [], _ => true
  | .eol :: r, s => (s.isEmpty || s = ['\n']) && matchItems r s
  | .one cs :: r, s => match s with
    | c :: s' => cs.mem c && matchItems r s'
    | [] => false
  | .plus cs :: r, s => plusK cs.mem (matchItems r) s

inductive Guard
  | startswith (p : Str)
  | search (re : List Item)
  | unsupported
  deriving Repr, DecidableEq

def guardOf (g : String × String) : Guard :=
  if g.1 = "startswith" then .startswith g.2.toList
  else if g.1 = "search" then
    match parseRe g.2 with
    | some items => .search items
    | none => .unsupported
  else .unsupported

/-- the URI passes the guard, i.e. `raise WrongUriType` is NOT executed -/
def Guard.passes : Guard → Str → Bool
  | .startswith p, uri => isPrefix p uri
  | .search re, uri => matchItems re uri
  | .unsupported, _ => false

/-! ## drivers, `init_drivers`, `get_link_driver` -/

inductive Drv
  | radio | usb | serial | udp | prrt | tcp
  deriving Repr, DecidableEq

def Drv.className : Drv → String
  | .radio => "RadioDriver" | .usb => "UsbDriver" | .serial => "SerialDriver"
  | .udp => "UdpDriver" | .prrt => "PrrtDriver" | .tcp => "TcpDriver"

def Drv.all : List Drv := [.radio, .usb, .serial, .udp, .prrt, .tcp]

def drvOfName? (n : String) : Option Drv := Drv.all.find? (fun d => d.className = n)

def Drv.guards (d : Drv) : List Guard := ((Gen.C20.driverGuards.lookup d.className).getD [("", "")]).map guardOf

/-- the driver's `connect` does not raise `WrongUriType` for this URI -/
def claims (d : Drv) (uri : Str) : Bool := d.guards.all (fun g => g.passes uri)

/-- `init_drivers(enable_serial_driver=serial)` with `USE_CFLINK` unset or not `cpp` -/
def initDrivers (serial : Bool) : Option (List Drv) :=
  let cond (c : String) : Option Bool :=
    if c = "" then some true
    else if c = "enable_serial_driver" then some serial
    else if c = "env is not None and env == 'cpp'" then some false
    else if c = "not (env is not None and env == 'cpp')" then some true
    else none
  Gen.C20.classSteps.foldlM (fun acc st => do
    let b ← cond st.1
    if b then (st.2.mapM drvOfName?).map (acc ++ ·) else pure acc) []

/-- what the outside world does once a driver has accepted the URI's scheme -/
structure Env where
  serials : List Str               -- crazyradio.get_serials()
  radioPresent : Nat → Bool        -- a Crazyradio with that index can be opened
  usbPresent : Nat → Bool          -- a Crazyflie on USB with that index can be opened
  serialDevices : List Str         -- names of the serial ports
  otherOk : Drv → Str → Bool       -- udp / tcp / prrt: the socket-level connect succeeds (not modelled further)

inductive Conn
  | radio (r : Radio)      -- settings applied to the shared radio
  | other
  deriving Repr, DecidableEq

def serialRe : List Item := (parseRe Gen.C20.serialUriRegex).getD [.one []]

/-- `Driver().connect(uri, ...)` -/
def connect (env : Env) (d : Drv) (uri : Str) : Except Err Conn :=
  if !claims d uri then .error .wrongUriType else
  match d with
  | .radio =>
    match parseUri env.serials uri with
    | .error e => .error e
    | .ok r => if env.radioPresent r.devid then .ok (.radio r) else .error .exception
  | .usb =>
    -- `int(uri_data.group(1))`: the digits after `usb://` (a final newline is not part of the group)
    match pyInt ((uri.drop 6).filter (· ≠ '\n')) with
    | .error e => .error e
    | .ok n => if env.usbPresent n.toNat then .ok .other else .error .exception
  | .serial =>
    if !matchItems serialRe uri then .error .exception
    else if env.serialDevices.contains ((uri.drop 9).filter (· ≠ '\n')) then (if env.otherOk d uri then .ok .other else .error .exception)
    else .error .exception
  | _ => if env.otherOk d uri then .ok .other else .error .exception

/-- `cflib.crtp.get_link_driver(uri)` over the class list `cls` -/
def getLinkDriver (env : Env) : List Drv → Str → Except Err (Option (Drv × Conn))
  | [], _ => .ok none
  | d :: r, uri =>
    match connect env d uri with
    | .ok c => .ok (some (d, c))
    | .error .wrongUriType => getLinkDriver env r uri
    | .error e => .error e

/-! ## `Crazyflie.open_link` -/

inductive Event
  | requested (uri : Str)          -- connection_requested.call(uri)
  | failedNoDriver (uri : Str)     -- connection_failed.call(uri, 'No driver found or malformed URI: ...')
  | failedException (uri : Str)    -- connection_failed.call(uri, "Couldn't load link driver: ...")
  | closed                         -- self.link.close() in the handler
  | setupStarted                   -- _start_connection_setup()
  deriving Repr, DecidableEq

/-- `self.link` after the call -/
inductive LinkAfter
  | none
  | opened (d : Drv)       -- the link opened by this call
  | previous               -- the link that was open before the call
  deriving Repr, DecidableEq

structure OpenResult where
  events : List Event
  escaped : Option Err             -- an exception leaving open_link
  link : LinkAfter
  deriving Repr, DecidableEq

/-- `open_link(uri)`.  `prev` = `self.link` is an open link before the call (None on a fresh or closed Crazyflie);
`setupRaises` = starting the connection setup (first packets through the new link) raises;
`closeRaises` = `link.close()` raises. -/
def openLink (env : Env) (cls : List Drv) (prev : Bool) (setupRaises closeRaises : Bool) (uri : Str) : OpenResult :=
  -- `except Exception:` ... `if self.link: self.link.close(); self.link = None` ... `connection_failed.call(...)`
  let handler (link : LinkAfter) (evs : List Event) : OpenResult :=
    match link with
    | .none => { events := evs ++ [.failedException uri], escaped := none, link := .none }
    | l =>
      if closeRaises then { events := evs ++ [.closed], escaped := some .exception, link := l }
      else { events := evs ++ [.closed, .failedException uri], escaped := none, link := .none }
  match getLinkDriver env cls uri with
  | .error _ => handler (if prev then .previous else .none) [.requested uri]
  | .ok none => { events := [.requested uri, .failedNoDriver uri], escaped := none, link := .none }
  | .ok (some (d, _)) =>
    if setupRaises then handler (.opened d) [.requested uri, .setupStarted]
    else { events := [.requested uri, .setupStarted], escaped := none, link := .opened d }

/-! ## `cflib.utils.uri_helper` -/

def uriFromEnv (env : Option Str) : Str := env.getD Gen.C20.helperDefaultUri.toList

/-- `address_from_env()`: `int(uri.rsplit('/', 1)[-1], 16)`; `none` = the function printed an error and returned None -/
def addressFromEnv (env : Option Str) : Option Int :=
  match env with
  | none => some Gen.C20.helperDefaultAddr
  | some uri =>
    match pyIntHex ((splitOn '/' uri).getLastD []) with
    | .ok v => some v
    | .error _ => none

end CfVerif.C20

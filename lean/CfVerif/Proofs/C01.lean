/-
Proofs/C01: helper lemmas for Props/C01 (host-level invariants of the radio loop model).
-/
import CfVerif.Model.C01
namespace CfVerif.C01
open CfVerif

/-! ### field lemmas: which parts of the state each piece of the loop body touches -/

section fields
variable (h : Host)

@[simp] theorem fetch_negLeft : h.fetch.1.negLeft = h.negLeft := by unfold Host.fetch; cases h.slot <;> rfl
@[simp] theorem fetch_safelink : h.fetch.1.safelink = h.safelink := by unfold Host.fetch; cases h.slot <;> rfl
@[simp] theorem fetch_curUp : h.fetch.1.curUp = h.curUp := by unfold Host.fetch; cases h.slot <;> rfl
@[simp] theorem fetch_curDown : h.fetch.1.curDown = h.curDown := by unfold Host.fetch; cases h.slot <;> rfl
@[simp] theorem fetch_needsResending : h.fetch.1.needsResending = h.needsResending := by
  unfold Host.fetch; cases h.slot <;> rfl
@[simp] theorem fetch_nRetries : h.fetch.1.nRetries = h.nRetries := by unfold Host.fetch; cases h.slot <;> rfl
@[simp] theorem fetch_retry : h.fetch.1.retry = h.retry := by unfold Host.fetch; cases h.slot <;> rfl
@[simp] theorem fetch_dead : h.fetch.1.dead = h.dead := by unfold Host.fetch; cases h.slot <;> rfl
@[simp] theorem fetch_last : h.fetch.1.last = h.last := by unfold Host.fetch; cases h.slot <;> rfl
theorem fetch_out_ne : h.fetch.1.out ≠ [] := by unfold Host.fetch; cases h.slot <;> simp [Pkt.frame]

@[simp] theorem process_negLeft : h.process.1.negLeft = h.negLeft := by
  unfold Host.process; split <;> (try split) <;> simp
@[simp] theorem process_safelink : h.process.1.safelink = h.safelink := by
  unfold Host.process; split <;> (try split) <;> simp
@[simp] theorem process_curUp : h.process.1.curUp = h.curUp := by
  unfold Host.process; split <;> (try split) <;> simp
@[simp] theorem process_curDown : h.process.1.curDown = h.curDown := by
  unfold Host.process; split <;> (try split) <;> simp
@[simp] theorem process_needsResending : h.process.1.needsResending = h.needsResending := by
  unfold Host.process; split <;> (try split) <;> simp
@[simp] theorem process_nRetries : h.process.1.nRetries = h.nRetries := by
  unfold Host.process; split <;> (try split) <;> simp
@[simp] theorem process_dead : h.process.1.dead = h.dead := by
  unfold Host.process; split <;> (try split) <;> simp
@[simp] theorem process_last : h.process.1.last = h.last := by
  unfold Host.process; split <;> (try split) <;> simp
theorem process_out_ne (ho : h.out ≠ []) : h.process.1.out ≠ [] := by
  unfold Host.process; split <;> (try split) <;> first | exact ho | exact fetch_out_ne _

end fields

theorem flip_le (x : Nat) : flip x ≤ 1 := by unfold flip; omega

theorem newDown_le {d : Nat} (hd : d ≤ 1) (a : RadioAck) : newDown d a ≤ 1 := by
  unfold newDown; split
  · split
    · exact flip_le _
    · exact hd
  · exact hd

theorem stamp_ne_nil {f : Bytes} (hf : f ≠ []) (u d : Nat) : stamp f u d ≠ [] := by
  cases f with
  | nil => exact absurd rfl hf
  | cons a t => simp [stamp]

theorem frameOut_ne_nil {h : Host} (hf : h.out ≠ []) : h.frameOut ≠ [] := by
  unfold Host.frameOut; split
  · exact stamp_ne_nil hf _ _
  · exact hf

/-- facts about the driver thread alone, whatever the radio answers -/
structure HostInv (h : Host) : Prop where
  neg : h.negLeft ≠ 0 → h.safelink = false ∧ h.needsResending = true
  done : h.negLeft = 0 → h.needsResending = !h.safelink
  out : h.out ≠ []
  up : h.curUp ≤ 1
  down : h.curDown ≤ 1

theorem hostInv_init (n : Nat) (h0 : bytesOfNats Gen.C01.initFrame ≠ [])
    (hu : Gen.C01.initUp ≤ 1) (hd : Gen.C01.initDown ≤ 1) : HostInv (Host.init n) := by
  refine ⟨?_, ?_, h0, hu, hd⟩
  · intro _; exact ⟨rfl, rfl⟩
  · intro _; rfl

theorem hostInv_process {h : Host} (hi : HostInv h) : HostInv h.process.1 := by
  obtain ⟨h1, h2, h3, h4, h5⟩ := hi
  exact ⟨by simpa using h1, by simpa using h2, process_out_ne h h3, by simpa using h4, by simpa using h5⟩

theorem hostInv_negStep {h : Host} (hi : HostInv h) (hn : h.negLeft ≠ 0)
    (hcu : Gen.C01.confirmUp ≤ 1) (hcd : Gen.C01.confirmDown ≤ 1) (a : Ans) : HostInv (h.negStep a).1 := by
  obtain ⟨h1, h2, h3, h4, h5⟩ := hi
  obtain ⟨hs, hr⟩ := h1 hn
  unfold Host.negStep
  cases a with
  | exc => exact ⟨h1, h2, h3, h4, h5⟩
  | none =>
    refine ⟨?_, ?_, h3, h4, h5⟩
    · intro hl; simp only at hl ⊢; simp [hl, hs, hr]
    · intro hl; simp only at hl ⊢; simp [hl]
  | resp a =>
    simp only
    split
    · refine ⟨?_, ?_, h3, hcu, hcd⟩
      · intro hl; exact absurd rfl hl
      · intro _; rfl
    · refine ⟨?_, ?_, h3, h4, h5⟩
      · intro hl; simp only at hl ⊢; simp [hl, hs, hr]
      · intro hl; simp only at hl ⊢; simp [hl]

theorem hostInv_flips {h : Host} (hi : HostInv h) (a : RadioAck) : HostInv (h.flips a) := by
  obtain ⟨h1, h2, h3, h4, h5⟩ := hi
  unfold Host.flips; split
  · refine ⟨h1, h2, h3, ?_, newDown_le h5 a⟩
    simp only; split
    · exact flip_le _
    · exact h4
  · exact ⟨h1, h2, h3, h4, h5⟩

theorem hostInv_iter {h : Host} (hi : HostInv h) (a : Ans) : HostInv (h.iter a).1 := by
  have hi1 : HostInv { h with out := h.frameOut } :=
    ⟨hi.neg, hi.done, frameOut_ne_nil hi.out, hi.up, hi.down⟩
  unfold Host.iter
  cases a with
  | exc => exact hostInv_process hi1
  | none =>
    apply hostInv_process
    exact ⟨hi1.neg, hi1.done, hi1.out, hi1.up, hi1.down⟩
  | resp a =>
    apply hostInv_process
    have := hostInv_flips hi1 a
    exact ⟨this.neg, this.done, this.out, this.up, this.down⟩

theorem hostInv_apply {h : Host} (hi : HostInv h)
    (hcu : Gen.C01.confirmUp ≤ 1) (hcd : Gen.C01.confirmDown ≤ 1) (op : Op) : HostInv (h.apply op).1 := by
  cases op with
  | tx a =>
    simp only [Host.apply, Host.tx]
    split
    · exact hi
    · split
      · exact hostInv_negStep hi (by assumption) hcu hcd a
      · exact hostInv_iter hi a
  | sub p =>
    simp only [Host.apply, Host.submit]
    obtain ⟨h1, h2, h3, h4, h5⟩ := hi
    split <;> exact ⟨h1, h2, h3, h4, h5⟩
  | timeout =>
    simp only [Host.apply, Host.timeout]
    obtain ⟨h1, h2, h3, h4, h5⟩ := hi
    split <;> exact ⟨h1, h2, h3, h4, h5⟩

theorem hostInv_run {h : Host} (hi : HostInv h)
    (hcu : Gen.C01.confirmUp ≤ 1) (hcd : Gen.C01.confirmDown ≤ 1) (ops : List Op) : HostInv (h.run ops).1 := by
  induction ops generalizing h with
  | nil => exact hi
  | cons op ops ih =>
    simp only [Host.run]
    exact ih (hostInv_apply hi hcu hcd op)

end CfVerif.C01

/-
Proofs/C01Bits: the finite bit-level facts about the safelink header rewrite (`Gen.C01.safeMask`, `Gen.C01.safeBits`,
`Gen.C01.downTag`, `Gen.C01.downExpect`), the peer's tagging, the CRTPPacket header expression and the USB status
byte (`Gen.C01.ackBit`), each checked for all 256 header bytes by kernel evaluation and lifted to `UInt8`.
-/
import CfVerif.Spec.C01
namespace CfVerif.C01
open CfVerif

theorem u8_eq (h : UInt8) : h = UInt8.ofNat h.toNat := by simp

/-- all header bytes, all counter values: what the host's rewrite does to the bits the peer looks at -/
theorem setBits_all : ∀ n : Fin 256, ∀ u : Fin 2, ∀ d : Fin 2,
    (setBits (UInt8.ofNat n.val) u.val d.val).toNat &&& 0x08 = u.val <<< 3 ∧
    (setBits (UInt8.ofNat n.val) u.val d.val).toNat &&& 0x04 = d.val <<< 2 ∧
    (setBits (UInt8.ofNat n.val) u.val d.val).toNat &&& 0xF3 = n.val &&& 0xF3 := by decide +kernel

theorem setBits_spec (h : UInt8) {u d : Nat} (hu : u ≤ 1) (hd : d ≤ 1) :
    (setBits h u d).toNat &&& 0x08 = u <<< 3 ∧ (setBits h u d).toNat &&& 0x04 = d <<< 2 ∧
    (setBits h u d).toNat &&& 0xF3 = h.toNat &&& 0xF3 := by
  have := setBits_all ⟨h.toNat, h.toNat_lt⟩ ⟨u, by omega⟩ ⟨d, by omega⟩
  simpa using this

theorem shl3_inj {a b : Nat} (ha : a ≤ 1) (hb : b ≤ 1) : (a <<< 3 = b <<< 3) ↔ a = b := by
  have : ∀ a : Fin 2, ∀ b : Fin 2, (a.val <<< 3 = b.val <<< 3) ↔ a.val = b.val := by decide
  exact this ⟨a, by omega⟩ ⟨b, by omega⟩

theorem shl2_inj {a b : Nat} (ha : a ≤ 1) (hb : b ≤ 1) : (a <<< 2 = b <<< 2) ↔ a = b := by
  have : ∀ a : Fin 2, ∀ b : Fin 2, (a.val <<< 2 = b.val <<< 2) ↔ a.val = b.val := by decide
  exact this ⟨a, by omega⟩ ⟨b, by omega⟩

theorem flip_ne {x : Nat} (hx : x ≤ 1) : flip x ≠ x := by unfold flip; omega
theorem flip_flip {x : Nat} (hx : x ≤ 1) : flip (flip x) = x := by unfold flip; omega
theorem eq_flip_of_ne {x y : Nat} (hx : x ≤ 1) (hy : y ≤ 1) (h : x ≠ y) : flip x = y := by unfold flip; omega
theorem flip_le' (x : Nat) : flip x ≤ 1 := by unfold flip; omega

/-- the peer's tag and the host's test of it (`Gen.C01.downTag`, `Gen.C01.downExpect`) -/
theorem tag_all : ∀ n : Fin 256, ∀ d : Fin 2,
    Gen.C01.downTag ((UInt8.ofNat ((n.val &&& 0xF3) ||| (d.val <<< 2))).toNat) = Gen.C01.downExpect d.val ∧
    (UInt8.ofNat ((n.val &&& 0xF3) ||| (d.val <<< 2))).toNat &&& 0xF3 = n.val &&& 0xF3 := by decide +kernel

theorem downExpect_inj : ∀ a : Fin 2, ∀ b : Fin 2, (Gen.C01.downExpect a.val = Gen.C01.downExpect b.val) ↔ a.val = b.val := by
  decide

theorem idle_all : ∀ d : Fin 2,
    Gen.C01.downTag ((UInt8.ofNat (0xF3 ||| (d.val <<< 2))).toNat) = Gen.C01.downExpect d.val ∧
    (UInt8.ofNat (0xF3 ||| (d.val <<< 2))).toNat &&& 0xF3 = 0xF3 := by decide

/-- `CRTPPacket(data[0], ...)` keeps everything but bits 3..2 of the header -/
theorem crtp_hdr_all : ∀ n : Fin 256,
    (UInt8.ofNat (Gen.C01.crtpHeaderExpr n.val)).toNat &&& 0xF3 = n.val &&& 0xF3 ∧
    Gen.C01.crtpHeaderExpr n.val = (n.val ||| 0x0C) ∧ Gen.C01.crtpPortExpr n.val = n.val / 16 ∧
    Gen.C01.crtpChanExpr n.val = n.val % 4 := by decide +kernel

/-- the dongle's status byte as `Crazyradio.send_packet` reads it -/
theorem status_all : ∀ n : Fin 256,
    ((UInt8.ofNat n.val ||| 1).toNat ≠ 0 ∧ Gen.C01.ackBit (UInt8.ofNat n.val ||| 1).toNat ≠ 0) ∧
    ((UInt8.ofNat n.val &&& 0xFE).toNat ≠ 0 → Gen.C01.ackBit (UInt8.ofNat n.val &&& 0xFE).toNat = 0) := by decide +kernel

theorem status_fields : ∀ n : Fin 256,
    (Gen.C01.ackBit n.val ≠ 0) = (n.val % 2 = 1) ∧ (Gen.C01.powerDetBit n.val ≠ 0) = (n.val / 2 % 2 = 1) ∧
    Gen.C01.retryField n.val = n.val / 16 := by decide +kernel

/-! ### lifted to frames -/

theorem norm_stamp (f : Bytes) {u d : Nat} (hu : u ≤ 1) (hd : d ≤ 1) : norm (stamp f u d) = norm f := by
  cases f with
  | nil => rfl
  | cons h t => simp only [stamp, norm]; rw [(setBits_spec h hu hd).2.2]

theorem isCtl_stamp (f : Bytes) {u d : Nat} (hu : u ≤ 1) (hd : d ≤ 1) : isCtl (stamp f u d) = isCtl f := by
  match f with
  | [] => rfl
  | [_] => rfl
  | [_, _] => rfl
  | [a, b, c] => simp only [stamp, isCtl]; rw [(setBits_spec a hu hd).2.2]
  | _ :: _ :: _ :: _ :: _ => rfl

theorem norm_tagDown (f : Bytes) {d : Nat} (hd : d ≤ 1) : norm (tagDown f d) = norm f := by
  cases f with
  | nil => rfl
  | cons h t =>
    simp only [tagDown, norm]
    have := (tag_all ⟨h.toNat, h.toNat_lt⟩ ⟨d, by omega⟩).2
    simp only at this
    rw [this]

theorem norm_rx (d0 : UInt8) (rest : Bytes) :
    norm (UInt8.ofNat (Gen.C01.crtpHeaderExpr d0.toNat) :: rest) = norm (d0 :: rest) := by
  simp only [norm]
  rw [(crtp_hdr_all ⟨d0.toNat, d0.toNat_lt⟩).1]

theorem isNull_norm_init : isNull (norm (bytesOfNats Gen.C01.initFrame)) = true := by decide
theorem isNull_norm_null : isNull (norm [UInt8.ofNat Gen.C01.nullByte]) = true := by decide

theorem decode_ok (st : UInt8) (payload : Bytes) :
    ∃ a, decodeUsb (some (usbReply st .ok payload)) 0 = .ok (.resp a) ∧ a.ack = true ∧ a.data = payload := by
  have h := (status_all ⟨st.toNat, st.toNat_lt⟩).1
  simp only [UInt8.ofNat_toNat] at h
  refine ⟨{ ack := Gen.C01.ackBit (st ||| 1).toNat ≠ 0, powerDet := Gen.C01.powerDetBit (st ||| 1).toNat ≠ 0,
             retry := Gen.C01.retryField (st ||| 1).toNat, data := payload }, ?_, ?_, rfl⟩
  · simp only [usbReply, decodeUsb]; rw [if_pos h.1]
  · simpa using h.2

theorem decode_lost (st : UInt8) (o : Outcome) (ho : o ≠ .ok) (payload : Bytes) :
    ∃ a, decodeUsb (some (usbReply st o payload)) 0 = .ok (.resp a) ∧ a.ack = false ∧ a.data = [] := by
  have h := (status_all ⟨st.toNat, st.toNat_lt⟩).2
  simp only [UInt8.ofNat_toNat] at h
  have hr : usbReply st o payload = [st &&& 0xFE] := by cases o <;> first | rfl | exact absurd rfl ho
  rw [hr]
  simp only [decodeUsb]
  by_cases hz : (st &&& 0xFE).toNat ≠ 0
  · rw [if_pos hz]; exact ⟨_, rfl, by simpa using h hz, rfl⟩
  · rw [if_neg hz]; exact ⟨_, rfl, rfl, rfl⟩

end CfVerif.C01

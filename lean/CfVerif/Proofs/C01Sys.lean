/-
Proofs/C01Sys: the alternating-bit invariant of the closed system host ∥ channel ∥ peer (Spec/C01).
-/
import CfVerif.Proofs.C01
import CfVerif.Proofs.C01Bits
namespace CfVerif.C01
open CfVerif

/-! ### observables distribute over concatenation -/

@[simp] theorem accepted_append (a b : List Ev) : accepted (a ++ b) = accepted a ++ accepted b := by
  induction a with
  | nil => rfl
  | cons e a ih => cases e <;> simp [accepted, ih]

@[simp] theorem received_append (a b : List Ev) : received (a ++ b) = received a ++ received b := by
  induction a with
  | nil => rfl
  | cons e a ih => cases e <;> simp [received, ih]

@[simp] theorem transmitted_append (a b : List Ev) : transmitted (a ++ b) = transmitted a ++ transmitted b := by
  induction a with
  | nil => rfl
  | cons e a ih => cases e <;> simp [transmitted, ih]

@[simp] theorem upView_append (a b : List Bytes) : upView (a ++ b) = upView a ++ upView b := by simp [upView]
@[simp] theorem downView_append (a b : List Bytes) : downView (a ++ b) = downView a ++ downView b := by simp [downView]
@[simp] theorem upView_nil : upView [] = [] := rfl
@[simp] theorem downView_nil : downView [] = [] := rfl

theorem upView_congr {f g : Bytes} (h : norm f = norm g) : upView [f] = upView [g] := by simp [upView, h]
theorem downView_congr {f g : Bytes} (h : norm f = norm g) : downView [f] = downView [g] := by simp [downView, h]

/-! ### the host in the data phase -/

theorem fetch_some {h : Host} {p : Pkt} (hs : h.slot = some p) :
    h.fetch = ({ h with out := p.frame, slot := h.waiter, waiter := none }, accEv h.waiter) := by
  simp only [Host.fetch, hs]

theorem fetch_none {h : Host} (hs : h.slot = none) :
    h.fetch = ({ h with out := [UInt8.ofNat Gen.C01.nullByte] }, []) := by
  simp only [Host.fetch, hs]

theorem newDown_nack (d : Nat) (a : RadioAck) (ha : a.ack = false) : newDown d a = d := by
  unfold newDown; split <;> simp [ha]

/-- data phase, safelink on, transmission not acknowledged -/
theorem tx_nack {h : Host} (hn : h.negLeft = 0) (hd : h.dead = false) (hs : h.safelink = true)
    (a : RadioAck) (ha : a.ack = false) :
    h.tx (.resp a) = ({ h with out := stamp h.out h.curUp h.curDown, last := some a, retry := h.retry - 1 },
                      .tx (stamp h.out h.curUp h.curDown) :: (if h.retry - 1 = 0 then [.err .tooManyLost] else [])) := by
  simp [Host.tx, hn, hd, Host.iter, Host.frameOut, Host.flips, hs, Host.process, ha, newDown_nack]

/-- data phase, safelink on, transmission acknowledged -/
theorem tx_ack {h : Host} (hn : h.negLeft = 0) (hd : h.dead = false) (hs : h.safelink = true)
    (a : RadioAck) (ha : a.ack = true) :
    h.tx (.resp a) =
      ({ h with out := stamp h.out h.curUp h.curDown, curUp := flip h.curUp, curDown := newDown h.curDown a,
                last := some a, retry := h.nRetries }.fetch.1,
       .tx (stamp h.out h.curUp h.curDown) :: (rxEvs a.data ++
       { h with out := stamp h.out h.curUp h.curDown, curUp := flip h.curUp, curDown := newDown h.curDown a,
                last := some a, retry := h.nRetries }.fetch.2)) := by
  simp [Host.tx, hn, hd, Host.iter, Host.frameOut, Host.flips, hs, Host.process, ha]

/-! ### the peer on data frames -/

theorem recv_ctl {p : Peer} {f : Bytes} (h : isCtl f = true) (rssi : UInt8) :
    p.recv f rssi = ({ p with safelink := ctlFlag f ≠ 0, up := 1, down := 1, last := f }, f) := by
  simp [Peer.recv, h]

theorem recv_data {p : Peer} {f : Bytes} (h : isCtl f = false) (rssi : UInt8) :
    p.recv f rssi = (p.recvUp f).recvDown f rssi := by
  simp [Peer.recv, h]

theorem stamp_cons (x : UInt8) (t : Bytes) (u d : Nat) : stamp (x :: t) u d = setBits x u d :: t := rfl

theorem recvUp_stamp {p : Peer} (hs : p.safelink = true) {out : Bytes} (ho : out ≠ []) {u d : Nat}
    (hu : u ≤ 1) (hd : d ≤ 1) (hp : p.up ≤ 1) :
    p.recvUp (stamp out u d) =
      if u = p.up then p else { p with rxq := p.rxq ++ [stamp out u d], up := flip p.up } := by
  cases out with
  | nil => exact absurd rfl ho
  | cons x t =>
    have hb := (setBits_spec x hu hd).1
    have hiff := shl3_inj hu hp
    simp only [stamp_cons, Peer.recvUp, hs, hb]
    by_cases h : u = p.up
    · simp [h]
    · have : ¬ (u <<< 3 = p.up <<< 3) := fun h' => h (hiff.1 h')
      simp [h, this]

theorem recvDown_stamp {p : Peer} (hs : p.safelink = true) {out : Bytes} (ho : out ≠ []) {u d : Nat}
    (hu : u ≤ 1) (hd : d ≤ 1) (hp : p.down ≤ 1) (rssi : UInt8) :
    p.recvDown (stamp out u d) rssi =
      if d = p.down then (p, p.last) else
      match p.txq with
      | pk :: rest => ({ p with down := flip p.down, txq := rest, deq := p.deq ++ [pk], last := tagDown pk (flip p.down) },
                       tagDown pk (flip p.down))
      | [] => ({ p with down := flip p.down, last := idleAck (flip p.down) rssi }, idleAck (flip p.down) rssi) := by
  cases out with
  | nil => exact absurd rfl ho
  | cons x t =>
    have hb := (setBits_spec x hu hd).2.1
    have hiff := shl2_inj hd hp
    simp only [stamp_cons, Peer.recvDown, hs, hb]
    by_cases h : d = p.down
    · simp [h]
    · have : ¬ (d <<< 2 = p.down <<< 2) := fun h' => h (hiff.1 h')
      cases p.txq <;> simp [h, this]

/-! ### one transmission of the closed system -/

theorem step_upLost {s : Sys} (hd : s.host.dead = false) (st rssi : UInt8) :
    ∃ a : RadioAck, a.ack = false ∧ a.data = [] ∧
      s.step (.xmit .upLost st rssi) =
        { host := (s.host.tx (.resp a)).1, peer := s.peer, evs := s.evs ++ (s.host.tx (.resp a)).2 } := by
  obtain ⟨a, h1, h2, h3⟩ := decode_lost st .upLost (by decide) []
  exact ⟨a, h2, h3, by simp [Sys.step, hd, h1]⟩

theorem step_ackLost {s : Sys} (hd : s.host.dead = false) (st rssi : UInt8) :
    ∃ a : RadioAck, a.ack = false ∧ a.data = [] ∧
      s.step (.xmit .ackLost st rssi) =
        { host := (s.host.tx (.resp a)).1, peer := (s.peer.recv s.host.txFrame rssi).1,
          evs := s.evs ++ (s.host.tx (.resp a)).2 } := by
  obtain ⟨a, h1, h2, h3⟩ := decode_lost st .ackLost (by decide) (s.peer.recv s.host.txFrame rssi).2
  exact ⟨a, h2, h3, by simp [Sys.step, hd, h1]⟩

theorem step_ok {s : Sys} (hd : s.host.dead = false) (st rssi : UInt8) :
    ∃ a : RadioAck, a.ack = true ∧ a.data = (s.peer.recv s.host.txFrame rssi).2 ∧
      s.step (.xmit .ok st rssi) =
        { host := (s.host.tx (.resp a)).1, peer := (s.peer.recv s.host.txFrame rssi).1,
          evs := s.evs ++ (s.host.tx (.resp a)).2 } := by
  obtain ⟨a, h1, h2, h3⟩ := decode_ok st (s.peer.recv s.host.txFrame rssi).2
  exact ⟨a, h2, h3, by simp [Sys.step, hd, h1]⟩

/-! ### the invariant -/

def slotFrames (h : Host) : List Bytes := h.slot.toList.map Pkt.frame
def accFrames (evs : List Ev) : List Bytes := (accepted evs).map Pkt.frame

/-- the ack payload `f` carries down-bit `d` (so the host will take it as fresh when its `_curr_down` is `d`) -/
def TagOk (f : Bytes) (d : Nat) : Prop :=
  match f with
  | [] => False
  | x :: _ => Gen.C01.downTag x.toNat = Gen.C01.downExpect d

/-- facts that hold whenever the host is in safelink mode -/
structure DataInv (s : Sys) : Prop where
  hs : s.host.safelink = true
  hn : s.host.negLeft = 0
  hd : s.host.dead = false
  ps : s.peer.safelink = true
  hu : s.host.curUp ≤ 1
  hdn : s.host.curDown ≤ 1
  pu : s.peer.up ≤ 1
  pd : s.peer.down ≤ 1
  wt : s.host.slot = none → s.host.waiter = none
  c1 : isCtl s.host.out = false
  c2 : ∀ p, s.host.slot = some p → isCtl p.frame = false
  c3 : ∀ p, s.host.waiter = some p → isCtl p.frame = false
  out : s.host.out ≠ []
  tq : ∀ f ∈ s.peer.txq, f ≠ []
  up : upView s.peer.rxq ++ (if s.host.curUp = s.peer.up then [] else upView [s.host.out]) ++ upView (slotFrames s.host)
        = upView (accFrames s.evs)
  dn : if s.host.curDown = s.peer.down then
         downView (received s.evs) ++ downView [s.peer.last] = downView s.peer.deq ∧ TagOk s.peer.last s.peer.down
       else downView (received s.evs) = downView s.peer.deq

theorem txFrame_data {h : Host} (hn : h.negLeft = 0) (hs : h.safelink = true) :
    h.txFrame = stamp h.out h.curUp h.curDown := by
  simp [Host.txFrame, hn, Host.frameOut, hs]

@[simp] theorem accepted_nackEvs (f : Bytes) (c : Prop) [Decidable c] :
    accepted (Ev.tx f :: (if c then [Ev.err .tooManyLost] else [])) = [] := by
  split <;> rfl
@[simp] theorem received_nackEvs (f : Bytes) (c : Prop) [Decidable c] :
    received (Ev.tx f :: (if c then [Ev.err .tooManyLost] else [])) = [] := by
  split <;> rfl

theorem tagOk_tagDown {pk : Bytes} (hpk : pk ≠ []) {d : Nat} (hd : d ≤ 1) : TagOk (tagDown pk d) d := by
  cases pk with
  | nil => exact absurd rfl hpk
  | cons x t =>
    have := (tag_all ⟨x.toNat, x.toNat_lt⟩ ⟨d, by omega⟩).1
    simpa [TagOk, tagDown] using this

theorem tagOk_idle {d : Nat} (hd : d ≤ 1) (rssi : UInt8) : TagOk (idleAck d rssi) d := by
  have := (idle_all ⟨d, by omega⟩).1
  simpa [TagOk, idleAck] using this

theorem downView_idle {d : Nat} (hd : d ≤ 1) (rssi : UInt8) : downView [idleAck d rssi] = [] := by
  have : d = 0 ∨ d = 1 := by omega
  rcases this with rfl | rfl <;> rfl

theorem downView_tagDown (pk : Bytes) {d : Nat} (hd : d ≤ 1) : downView [tagDown pk d] = downView [pk] :=
  downView_congr (norm_tagDown pk hd)

/-- a lost uplink frame or a lost ack: the host only re-stamps the frame in flight -/
theorem inv_upLost {s : Sys} (inv : DataInv s) (st rssi : UInt8) : DataInv (s.step (.xmit .upLost st rssi)) := by
  obtain ⟨a, ha, _, hstep⟩ := step_upLost inv.hd st rssi
  rw [hstep, tx_nack inv.hn inv.hd inv.hs a ha]
  have hnorm := norm_stamp s.host.out inv.hu inv.hdn
  exact {
    hs := inv.hs, hn := inv.hn, hd := inv.hd, ps := inv.ps, hu := inv.hu, hdn := inv.hdn, pu := inv.pu, pd := inv.pd,
    wt := inv.wt, c1 := by simpa [isCtl_stamp _ inv.hu inv.hdn] using inv.c1, c2 := inv.c2, c3 := inv.c3,
    out := stamp_ne_nil inv.out _ _, tq := inv.tq,
    up := by
      have := inv.up
      simp only [accFrames, accepted_append, accepted_nackEvs, List.append_nil, slotFrames] at this ⊢
      rw [upView_congr hnorm]; exact this
    dn := by
      have := inv.dn
      simp only [received_append, received_nackEvs, List.append_nil] at this ⊢
      exact this }

/-! the two halves of the peer's handler touch disjoint parts of its state -/
section peerFields
variable (p : Peer) (f : Bytes) (r : UInt8)
@[simp] theorem recvDown_up : (p.recvDown f r).1.up = p.up := by
  unfold Peer.recvDown; split <;> (try split) <;> (try split) <;> rfl
@[simp] theorem recvDown_rxq : (p.recvDown f r).1.rxq = p.rxq := by
  unfold Peer.recvDown; split <;> (try split) <;> (try split) <;> rfl
@[simp] theorem recvDown_safelink : (p.recvDown f r).1.safelink = p.safelink := by
  unfold Peer.recvDown; split <;> (try split) <;> (try split) <;> rfl
@[simp] theorem recvUp_down : (p.recvUp f).down = p.down := by
  unfold Peer.recvUp; split <;> (try split) <;> rfl
@[simp] theorem recvUp_txq : (p.recvUp f).txq = p.txq := by
  unfold Peer.recvUp; split <;> (try split) <;> rfl
@[simp] theorem recvUp_deq : (p.recvUp f).deq = p.deq := by
  unfold Peer.recvUp; split <;> (try split) <;> rfl
@[simp] theorem recvUp_last : (p.recvUp f).last = p.last := by
  unfold Peer.recvUp; split <;> (try split) <;> rfl
@[simp] theorem recvUp_safelink : (p.recvUp f).safelink = p.safelink := by
  unfold Peer.recvUp; split <;> (try split) <;> rfl
end peerFields

/-- downlink half on a stamped frame, as a function of the parts of the peer it reads -/
theorem recvDown_stamp' {p : Peer} (hs : p.safelink = true) {out : Bytes} (ho : out ≠ []) {u d : Nat}
    (hu : u ≤ 1) (hd : d ≤ 1) (hp : p.down ≤ 1) (rssi : UInt8) :
    let r := p.recvDown (stamp out u d) rssi
    (d = p.down → r.1.down = p.down ∧ r.1.txq = p.txq ∧ r.1.deq = p.deq ∧ r.1.last = p.last ∧ r.2 = p.last) ∧
    (d ≠ p.down → r.1.down = flip p.down ∧ r.2 = r.1.last ∧
      ((p.txq = [] ∧ r.1.txq = [] ∧ r.1.deq = p.deq ∧ r.1.last = idleAck (flip p.down) rssi) ∨
       (∃ pk rest, p.txq = pk :: rest ∧ r.1.txq = rest ∧ r.1.deq = p.deq ++ [pk] ∧ r.1.last = tagDown pk (flip p.down)))) := by
  rw [recvDown_stamp hs ho hu hd hp]
  refine ⟨fun h => by simp [h], fun h => ?_⟩
  rw [if_neg h]
  cases htx : p.txq with
  | nil => simp
  | cons pk rest => exact ⟨rfl, rfl, Or.inr ⟨pk, rest, rfl, rfl, rfl, rfl⟩⟩

/-- what one pass of the peer's handler on the host's (stamped, non-control) frame does -/
structure PeerStep (s : Sys) (p' : Peer) (payload : Bytes) : Prop where
  sl : p'.safelink = true
  up : p'.up = if s.host.curUp = s.peer.up then s.peer.up else flip s.peer.up
  rxq : p'.rxq = if s.host.curUp = s.peer.up then s.peer.rxq
          else s.peer.rxq ++ [stamp s.host.out s.host.curUp s.host.curDown]
  same : s.host.curDown = s.peer.down →
    p'.down = s.peer.down ∧ p'.txq = s.peer.txq ∧ p'.deq = s.peer.deq ∧ p'.last = s.peer.last ∧ payload = s.peer.last
  fresh : s.host.curDown ≠ s.peer.down → p'.down = flip s.peer.down ∧ payload = p'.last ∧
    ((s.peer.txq = [] ∧ p'.txq = [] ∧ p'.deq = s.peer.deq ∧ ∃ rssi, p'.last = idleAck (flip s.peer.down) rssi) ∨
     (∃ pk rest, s.peer.txq = pk :: rest ∧ p'.txq = rest ∧ p'.deq = s.peer.deq ++ [pk] ∧
        p'.last = tagDown pk (flip s.peer.down)))

theorem peerStep {s : Sys} (inv : DataInv s) (rssi : UInt8) :
    PeerStep s (s.peer.recv s.host.txFrame rssi).1 (s.peer.recv s.host.txFrame rssi).2 := by
  have hctl : isCtl (stamp s.host.out s.host.curUp s.host.curDown) = false := by
    simpa [isCtl_stamp _ inv.hu inv.hdn] using inv.c1
  rw [txFrame_data inv.hn inv.hs, recv_data hctl]
  have hUp := recvUp_stamp inv.ps inv.out inv.hu inv.hdn inv.pu (d := s.host.curDown) (u := s.host.curUp)
  have hps1 : (s.peer.recvUp (stamp s.host.out s.host.curUp s.host.curDown)).safelink = true := by simp [inv.ps]
  have hDn := recvDown_stamp' hps1 inv.out inv.hu inv.hdn (by simpa using inv.pd) rssi
    (u := s.host.curUp) (d := s.host.curDown)
  simp only [recvUp_down, recvUp_txq, recvUp_deq, recvUp_last] at hDn
  refine ⟨by simp [inv.ps], ?_, ?_, hDn.1, fun h => ?_⟩
  · rw [recvDown_up, hUp]; split <;> rfl
  · rw [recvDown_rxq, hUp]; split <;> rfl
  · obtain ⟨h1, h2, h3⟩ := hDn.2 h
    refine ⟨h1, h2, ?_⟩
    rcases h3 with ⟨a, b, c, d⟩ | h3
    · exact Or.inl ⟨a, b, c, rssi, d⟩
    · exact Or.inr h3

/-- uplink half of the invariant after the peer has processed the frame and the host has NOT seen the ack -/
theorem up_after_peer {s : Sys} (inv : DataInv s) {p' : Peer} {pl : Bytes} (ps : PeerStep s p' pl) :
    p'.up ≤ 1 ∧
    upView p'.rxq ++ (if s.host.curUp = p'.up then [] else upView [stamp s.host.out s.host.curUp s.host.curDown]) ++
      upView (slotFrames s.host) = upView (accFrames s.evs) ∧ s.host.curUp = p'.up := by
  have hnorm := norm_stamp s.host.out inv.hu inv.hdn
  have hup := inv.up
  rw [ps.up, ps.rxq]
  by_cases hU : s.host.curUp = s.peer.up
  · simp only [hU, if_true] at hup ⊢
    exact ⟨inv.pu, hup, trivial⟩
  · have hfl : flip s.peer.up = s.host.curUp := eq_flip_of_ne inv.pu inv.hu (Ne.symm hU)
    simp only [hU, if_false, hfl, if_true] at hup ⊢
    refine ⟨inv.hu, ?_, trivial⟩
    rw [← hup, upView_append, upView_congr hnorm]; simp

/-- downlink half of the invariant after the peer has processed the frame and the host has NOT seen the ack -/
theorem dn_after_peer {s : Sys} (inv : DataInv s) {p' : Peer} {pl : Bytes} (ps : PeerStep s p' pl) :
    p'.down ≤ 1 ∧ s.host.curDown = p'.down ∧ (∀ f ∈ p'.txq, f ≠ []) ∧ pl = p'.last ∧
    downView (received s.evs) ++ downView [p'.last] = downView p'.deq ∧ TagOk p'.last p'.down := by
  have hdn := inv.dn
  by_cases hD : s.host.curDown = s.peer.down
  · obtain ⟨h1, h2, h3, h4, h5⟩ := ps.same hD
    rw [if_pos hD] at hdn
    rw [h1, h2, h3, h4, h5]
    exact ⟨inv.pd, hD, inv.tq, rfl, hdn.1, hdn.2⟩
  · obtain ⟨h1, h2, h3⟩ := ps.fresh hD
    have hfl : flip s.peer.down = s.host.curDown := eq_flip_of_ne inv.pd inv.hdn (Ne.symm hD)
    rw [if_neg hD] at hdn
    rw [h1, hfl]
    refine ⟨inv.hdn, rfl, ?_⟩
    rcases h3 with ⟨htx, t1, t2, rssi, t3⟩ | ⟨pk, rest, htx, t1, t2, t3⟩
    · rw [t1, t2, t3, hfl]
      exact ⟨by simp, by rw [h2, t3, hfl], by rw [downView_idle inv.hdn, hdn]; simp, tagOk_idle inv.hdn _⟩
    · have hpk : pk ≠ [] := inv.tq pk (by rw [htx]; simp)
      rw [t1, t2, t3, hfl]
      refine ⟨fun f hf => inv.tq f (by rw [htx]; exact List.mem_cons_of_mem _ hf), by rw [h2, t3, hfl], ?_,
        tagOk_tagDown hpk inv.hdn⟩
      rw [downView_tagDown pk inv.hdn, hdn, downView_append]

theorem inv_ackLost {s : Sys} (inv : DataInv s) (st rssi : UInt8) : DataInv (s.step (.xmit .ackLost st rssi)) := by
  obtain ⟨a, ha, _, hstep⟩ := step_ackLost inv.hd st rssi
  have ps := peerStep inv rssi
  obtain ⟨u1, u2, u3⟩ := up_after_peer inv ps
  obtain ⟨d1, d2, d3, _, d5, d6⟩ := dn_after_peer inv ps
  rw [hstep, tx_nack inv.hn inv.hd inv.hs a ha]
  exact {
    hs := inv.hs, hn := inv.hn, hd := inv.hd, ps := ps.sl, hu := inv.hu, hdn := inv.hdn, pu := u1, pd := d1,
    wt := inv.wt, c1 := by simpa [isCtl_stamp _ inv.hu inv.hdn] using inv.c1, c2 := inv.c2, c3 := inv.c3,
    out := stamp_ne_nil inv.out _ _, tq := d3,
    up := by simpa [accFrames, slotFrames] using u2
    dn := by
      simp only [received_append, received_nackEvs, List.append_nil]
      rw [if_pos d2]; exact ⟨d5, d6⟩ }

theorem newDown_fresh {d : Nat} {a : RadioAck} (ha : a.ack = true) (ht : TagOk a.data d) : newDown d a = flip d := by
  unfold newDown
  cases hdat : a.data with
  | nil => rw [hdat] at ht; exact absurd ht (by simp [TagOk])
  | cons x t => rw [hdat] at ht; simp only [TagOk] at ht; simp [ha, ht]

theorem received_rxEvs {f : Bytes} (hf : f ≠ []) : downView (received (rxEvs f)) = downView [f] := by
  cases f with
  | nil => exact absurd rfl hf
  | cons d0 rest =>
    simp only [rxEvs, rxEvent, received]
    exact downView_congr (norm_rx d0 rest)

theorem accepted_rxEvs (f : Bytes) : accepted (rxEvs f) = [] := by
  cases f <;> rfl

theorem tagOk_ne_nil {f : Bytes} {d : Nat} (h : TagOk f d) : f ≠ [] := by
  cases f with
  | nil => exact absurd h (by simp [TagOk])
  | cons _ _ => simp

theorem upView_null : upView [[UInt8.ofNat Gen.C01.nullByte]] = [] := by decide

theorem isCtl_null : isCtl [UInt8.ofNat Gen.C01.nullByte] = false := rfl

theorem inv_ok {s : Sys} (inv : DataInv s) (st rssi : UInt8) : DataInv (s.step (.xmit .ok st rssi)) := by
  obtain ⟨a, ha, hdat, hstep⟩ := step_ok inv.hd st rssi
  have ps := peerStep inv rssi
  obtain ⟨u1, u2, u3⟩ := up_after_peer inv ps
  obtain ⟨d1, d2, d3, d4, d5, d6⟩ := dn_after_peer inv ps
  rw [d4] at hdat
  have hnd : newDown s.host.curDown a = flip s.host.curDown := newDown_fresh ha (by rw [hdat, d2]; exact d6)
  have hrx : downView (received (rxEvs a.data)) = downView [(s.peer.recv s.host.txFrame rssi).1.last] := by
    rw [hdat]; exact received_rxEvs (tagOk_ne_nil d6)
  rw [if_pos u3] at u2
  simp only [List.append_nil, slotFrames, accFrames] at u2
  rw [hstep, tx_ack inv.hn inv.hd inv.hs a ha, hnd]
  have hneU : ¬ flip s.host.curUp = (s.peer.recv s.host.txFrame rssi).1.up := by rw [← u3]; exact flip_ne inv.hu
  have hneD : ¬ flip s.host.curDown = (s.peer.recv s.host.txFrame rssi).1.down := by rw [← d2]; exact flip_ne inv.hdn
  cases hslot : s.host.slot with
  | none =>
    have hw := inv.wt hslot
    simp only [Host.fetch]
    simp only [hslot, Option.toList, List.map_nil, upView_nil, List.append_nil] at u2
    exact {
      hs := inv.hs, hn := inv.hn, hd := inv.hd, ps := ps.sl, hu := flip_le' _, hdn := flip_le' _, pu := u1, pd := d1,
      wt := fun _ => hw, c1 := isCtl_null, c2 := by simp [hslot], c3 := by simp [hw],
      out := by simp, tq := d3,
      up := by
        simp only [if_neg hneU, accFrames, slotFrames, hslot, accepted_append, accepted, accepted_rxEvs,
          Option.toList, List.map_nil, upView_nil, List.append_nil, upView_null]
        exact u2
      dn := by
        simp only [if_neg hneD, received_append, received, downView_append, hrx, List.append_nil, downView_nil]
        exact d5 }
  | some p =>
    simp only [Host.fetch]
    simp only [hslot, Option.toList, List.map_cons, List.map_nil] at u2
    exact {
      hs := inv.hs, hn := inv.hn, hd := inv.hd, ps := ps.sl, hu := flip_le' _, hdn := flip_le' _, pu := u1, pd := d1,
      wt := fun _ => rfl, c1 := inv.c2 p hslot, c2 := fun q hq => inv.c3 q hq, c3 := by simp,
      out := by simp [Pkt.frame], tq := d3,
      up := by
        simp only [if_neg hneU, accFrames, slotFrames, accepted_append, accepted, accepted_rxEvs, List.nil_append,
          List.map_append, upView_append]
        rw [← u2]
        cases s.host.waiter <;> simp [accEv, accepted]
      dn := by
        simp only [if_neg hneD, received_append, received, downView_append, hrx, List.append_nil, downView_nil]
        cases s.host.waiter <;> simp [accEv, received, d5] }

theorem inv_sub {s : Sys} (inv : DataInv s) (p : Pkt) (hp : isCtl p.frame = false) : DataInv (s.step (.sub p)) := by
  have hup := inv.up
  simp only [Sys.step, Host.apply, Host.submit]
  cases hslot : s.host.slot with
  | none =>
    have hw := inv.wt hslot
    simp only [hslot, slotFrames, Option.toList, List.map_nil, upView_nil, List.append_nil] at hup
    simp only [Option.getD]
    exact {
      hs := inv.hs, hn := inv.hn, hd := inv.hd, ps := inv.ps, hu := inv.hu, hdn := inv.hdn, pu := inv.pu, pd := inv.pd,
      wt := by simp, c1 := inv.c1, c2 := by simpa using hp, c3 := inv.c3, out := inv.out, tq := inv.tq,
      up := by
        simp only [slotFrames, accFrames, accepted_append, accepted, Option.toList, List.map_cons, List.map_nil,
          List.map_append, upView_append]
        exact congrArg (· ++ upView [p.frame]) hup
      dn := by simpa [received] using inv.dn }
  | some q =>
    cases hw : s.host.waiter with
    | none =>
      simp only [Option.getD]
      exact {
        hs := inv.hs, hn := inv.hn, hd := inv.hd, ps := inv.ps, hu := inv.hu, hdn := inv.hdn, pu := inv.pu, pd := inv.pd,
        wt := by simp, c1 := inv.c1, c2 := by intro r hr; exact inv.c2 r (by rw [hslot]; exact hr),
        c3 := by simpa using hp, out := inv.out, tq := inv.tq,
        up := by simpa [slotFrames, accFrames, accepted, hslot] using hup
        dn := by simpa [received] using inv.dn }
    | some w =>
      simp only [Option.getD, List.append_nil]
      exact inv

theorem inv_timeout {s : Sys} (inv : DataInv s) : DataInv (s.step .timeout) := by
  have hup := inv.up
  simp only [Sys.step, Host.apply, Host.timeout]
  cases hw : s.host.waiter with
  | none => simp only [Option.getD, List.append_nil]; exact inv
  | some w =>
    simp only [Option.getD]
    exact {
      hs := inv.hs, hn := inv.hn, hd := inv.hd, ps := inv.ps, hu := inv.hu, hdn := inv.hdn, pu := inv.pu, pd := inv.pd,
      wt := by simp, c1 := inv.c1, c2 := inv.c2, c3 := by simp, out := inv.out, tq := inv.tq,
      up := by simpa [slotFrames, accFrames, accepted] using hup
      dn := by simpa [received] using inv.dn }

theorem inv_queue {s : Sys} (inv : DataInv s) (f : Bytes) (hf : f ≠ []) : DataInv (s.step (.queue f)) := by
  simp only [Sys.step]
  exact {
    hs := inv.hs, hn := inv.hn, hd := inv.hd, ps := inv.ps, hu := inv.hu, hdn := inv.hdn, pu := inv.pu, pd := inv.pd,
    wt := inv.wt, c1 := inv.c1, c2 := inv.c2, c3 := inv.c3, out := inv.out,
    tq := by intro g hg; simp only [List.mem_append, List.mem_singleton] at hg; rcases hg with h | h
             · exact inv.tq g h
             · exact h ▸ hf
    up := inv.up, dn := inv.dn }

theorem inv_step {s : Sys} (inv : DataInv s) (op : SysOp) (wf : op.WF) : DataInv (s.step op) := by
  cases op with
  | sub p => exact inv_sub inv p wf
  | timeout => exact inv_timeout inv
  | queue f => exact inv_queue inv f wf
  | xmit o st rssi =>
    cases o with
    | ok => exact inv_ok inv st rssi
    | upLost => exact inv_upLost inv st rssi
    | ackLost => exact inv_ackLost inv st rssi

/-! ### negotiation phase -/

/-- what the theorems need from the extracted negotiation constants -/
structure GenOk : Prop where
  echo : Gen.C01.safelinkEcho = Gen.C01.safelinkReq
  ctl : isCtl (bytesOfNats Gen.C01.safelinkReq) = true
  flag : ctlFlag (bytesOfNats Gen.C01.safelinkReq) ≠ 0
  cu : Gen.C01.confirmUp = 0
  cd : Gen.C01.confirmDown = 0
  init : isCtl (bytesOfNats Gen.C01.initFrame) = false ∧ bytesOfNats Gen.C01.initFrame ≠ [] ∧
    upView [bytesOfNats Gen.C01.initFrame] = []

theorem genOk : GenOk := by
  refine ⟨by decide, by decide, by decide, by decide, by decide, by decide, by decide, by decide⟩

structure NegInv (s : Sys) : Prop where
  hn : s.host.negLeft ≠ 0
  hs : s.host.safelink = false
  hd : s.host.dead = false
  rxq : s.peer.rxq = []
  deq : s.peer.deq = []
  rcv : received s.evs = []
  acc : accFrames s.evs = slotFrames s.host
  out : s.host.out = bytesOfNats Gen.C01.initFrame
  wt : s.host.slot = none → s.host.waiter = none
  c2 : ∀ p, s.host.slot = some p → isCtl p.frame = false
  c3 : ∀ p, s.host.waiter = some p → isCtl p.frame = false
  tq : ∀ f ∈ s.peer.txq, f ≠ []

/-- negotiation over without confirmation: the host is not in safelink mode and never will be -/
def Failed (s : Sys) : Prop := s.host.safelink = false ∧ s.host.negLeft = 0

def Reach (s : Sys) : Prop := NegInv s ∨ DataInv s ∨ Failed s

theorem tx_neg_fail {h : Host} (hn : h.negLeft ≠ 0) (hd : h.dead = false) (a : RadioAck) (ha : a.data = []) :
    h.tx (.resp a) = ({ h with negLeft := h.negLeft - 1,
                               needsResending := if h.negLeft - 1 = 0 then !h.safelink else h.needsResending },
                      [.tx (bytesOfNats Gen.C01.safelinkReq)]) := by
  simp [Host.tx, hn, hd, Host.negStep, ha]

theorem tx_neg_ok {h : Host} (hn : h.negLeft ≠ 0) (hd : h.dead = false) (a : RadioAck)
    (ha : a.data = bytesOfNats Gen.C01.safelinkEcho) (hne : bytesOfNats Gen.C01.safelinkEcho ≠ []) :
    h.tx (.resp a) = ({ h with safelink := true, curUp := Gen.C01.confirmUp, curDown := Gen.C01.confirmDown,
                               negLeft := 0, needsResending := false },
                      [.tx (bytesOfNats Gen.C01.safelinkReq)]) := by
  simp [Host.tx, hn, hd, Host.negStep, ha, hne]

theorem txFrame_neg {h : Host} (hn : h.negLeft ≠ 0) : h.txFrame = bytesOfNats Gen.C01.safelinkReq := by
  simp [Host.txFrame, hn]

theorem neg_sub {s : Sys} (inv : NegInv s) (p : Pkt) (hp : isCtl p.frame = false) : NegInv (s.step (.sub p)) := by
  have hacc := inv.acc
  simp only [Sys.step, Host.apply, Host.submit]
  cases hslot : s.host.slot with
  | none =>
    simp only [hslot, slotFrames, Option.toList, List.map_nil, accFrames] at hacc
    simp only [Option.getD]
    exact { hn := inv.hn, hs := inv.hs, hd := inv.hd, rxq := inv.rxq, deq := inv.deq,
            rcv := by simpa [received] using inv.rcv,
            acc := by simp [accFrames, slotFrames, accepted, hacc],
            out := inv.out, wt := by simp, c2 := by simpa using hp, c3 := inv.c3, tq := inv.tq }
  | some q =>
    cases hw : s.host.waiter with
    | none =>
      simp only [Option.getD]
      exact { hn := inv.hn, hs := inv.hs, hd := inv.hd, rxq := inv.rxq, deq := inv.deq,
              rcv := by simpa [received] using inv.rcv,
              acc := by simpa [accFrames, slotFrames, accepted, hslot] using hacc,
              out := inv.out, wt := by simp, c2 := by intro r hr; exact inv.c2 r (by rw [hslot]; exact hr),
              c3 := by simpa using hp, tq := inv.tq }
    | some w => simp only [Option.getD, List.append_nil]; exact inv

theorem neg_timeout {s : Sys} (inv : NegInv s) : NegInv (s.step .timeout) := by
  have hacc := inv.acc
  simp only [Sys.step, Host.apply, Host.timeout]
  cases hw : s.host.waiter with
  | none => simp only [Option.getD, List.append_nil]; exact inv
  | some w =>
    simp only [Option.getD]
    exact { hn := inv.hn, hs := inv.hs, hd := inv.hd, rxq := inv.rxq, deq := inv.deq,
            rcv := by simpa [received] using inv.rcv,
            acc := by simpa [accFrames, slotFrames, accepted] using hacc,
            out := inv.out, wt := by simp, c2 := inv.c2, c3 := by simp, tq := inv.tq }

theorem neg_queue {s : Sys} (inv : NegInv s) (f : Bytes) (hf : f ≠ []) : NegInv (s.step (.queue f)) := by
  simp only [Sys.step]
  exact { hn := inv.hn, hs := inv.hs, hd := inv.hd, rxq := inv.rxq, deq := inv.deq, rcv := inv.rcv, acc := inv.acc,
          out := inv.out, wt := inv.wt, c2 := inv.c2, c3 := inv.c3,
          tq := by intro g hg; simp only [List.mem_append, List.mem_singleton] at hg; rcases hg with h | h
                   · exact inv.tq g h
                   · exact h ▸ hf }

/-- an unconfirmed negotiation attempt: either still negotiating or given up -/
theorem neg_unconfirmed {s : Sys} (inv : NegInv s) (a : RadioAck) (ha : a.data = []) (p' : Peer)
    (h1 : p'.rxq = []) (h2 : p'.deq = []) (h3 : ∀ f ∈ p'.txq, f ≠ []) :
    Reach { host := (s.host.tx (.resp a)).1, peer := p', evs := s.evs ++ (s.host.tx (.resp a)).2 } := by
  rw [tx_neg_fail inv.hn inv.hd a ha]
  by_cases hl : s.host.negLeft - 1 = 0
  · exact Or.inr (Or.inr ⟨inv.hs, hl⟩)
  · exact Or.inl { hn := hl, hs := inv.hs, hd := inv.hd, rxq := h1, deq := h2,
                   rcv := by simpa [received] using inv.rcv,
                   acc := by simpa [accFrames, slotFrames, accepted] using inv.acc,
                   out := inv.out, wt := inv.wt, c2 := inv.c2, c3 := inv.c3, tq := h3 }

theorem neg_xmit {s : Sys} (g : GenOk) (inv : NegInv s) (o : Outcome) (st rssi : UInt8) :
    Reach (s.step (.xmit o st rssi)) := by
  have hf := txFrame_neg inv.hn
  have hrecv := recv_ctl (p := s.peer) g.ctl rssi
  cases o with
  | upLost =>
    obtain ⟨a, _, ha, hstep⟩ := step_upLost inv.hd st rssi
    rw [hstep]
    exact neg_unconfirmed inv a ha s.peer inv.rxq inv.deq inv.tq
  | ackLost =>
    obtain ⟨a, _, ha, hstep⟩ := step_ackLost inv.hd st rssi
    rw [hstep, hf, hrecv]
    exact neg_unconfirmed inv a ha _ inv.rxq inv.deq inv.tq
  | ok =>
    obtain ⟨a, _, ha, hstep⟩ := step_ok inv.hd st rssi
    rw [hf, hrecv] at ha hstep
    have hecho : bytesOfNats Gen.C01.safelinkEcho = bytesOfNats Gen.C01.safelinkReq := by rw [g.echo]
    have hne : bytesOfNats Gen.C01.safelinkEcho ≠ [] := by
      rw [hecho]; intro h; have := g.ctl; rw [h] at this; exact absurd this (by decide)
    rw [hstep, tx_neg_ok inv.hn inv.hd a (by rw [ha, hecho]) hne]
    refine Or.inr (Or.inl ?_)
    have hacc := inv.acc
    exact {
      hs := rfl, hn := rfl, hd := inv.hd, ps := by simpa using g.flag,
      hu := by simp [g.cu], hdn := by simp [g.cd], pu := by simp, pd := by simp,
      wt := inv.wt, c1 := by simp only [inv.out]; exact g.init.1, c2 := inv.c2, c3 := inv.c3,
      out := by simp only [inv.out]; exact g.init.2.1, tq := inv.tq,
      up := by
        simp only [g.cu, inv.rxq, inv.out, g.init.2.2, accFrames, accepted_append, accepted, List.append_nil]
        have := congrArg upView hacc.symm
        simpa [accFrames, slotFrames] using this
      dn := by
        simp only [g.cd, inv.deq, received_append, received, inv.rcv]
        rw [if_neg (by decide)]; rfl }

theorem neg_step {s : Sys} (g : GenOk) (inv : NegInv s) (op : SysOp) (wf : op.WF) : Reach (s.step op) := by
  cases op with
  | sub p => exact Or.inl (neg_sub inv p wf)
  | timeout => exact Or.inl (neg_timeout inv)
  | queue f => exact Or.inl (neg_queue inv f wf)
  | xmit o st rssi => exact neg_xmit g inv o st rssi

/-! ### after a failed negotiation nothing turns safelink on -/

theorem flips_safelink (h : Host) (a : RadioAck) : (h.flips a).safelink = h.safelink ∧ (h.flips a).negLeft = h.negLeft := by
  unfold Host.flips; split <;> exact ⟨rfl, rfl⟩

theorem tx_data_keeps (h : Host) (hn : h.negLeft = 0) (ans : Ans) :
    (h.tx ans).1.safelink = h.safelink ∧ (h.tx ans).1.negLeft = 0 := by
  unfold Host.tx
  split
  · exact ⟨rfl, hn⟩
  · rw [if_neg (by simpa using hn)]
    unfold Host.iter
    cases ans with
    | exc => simp [hn]
    | none => simp [hn]
    | resp a =>
      have := flips_safelink { h with out := h.frameOut } a
      simp only [process_safelink, process_negLeft]
      exact ⟨this.1, by rw [this.2]; exact hn⟩

theorem apply_app_keeps (h : Host) (op : Op) (hop : ∀ a, op ≠ .tx a) :
    (h.apply op).1.safelink = h.safelink ∧ (h.apply op).1.negLeft = h.negLeft := by
  cases op with
  | tx a => exact absurd rfl (hop a)
  | sub p => simp only [Host.apply, Host.submit]; split <;> exact ⟨rfl, rfl⟩
  | timeout => simp only [Host.apply, Host.timeout]; split <;> exact ⟨rfl, rfl⟩

theorem failed_step {s : Sys} (hf : Failed s) (op : SysOp) : Failed (s.step op) := by
  obtain ⟨h1, h2⟩ := hf
  cases op with
  | sub p =>
    have := apply_app_keeps s.host (.sub p) (by intro a h; cases h)
    exact ⟨by simp only [Sys.step]; rw [this.1]; exact h1, by simp only [Sys.step]; rw [this.2]; exact h2⟩
  | timeout =>
    have := apply_app_keeps s.host .timeout (by intro a h; cases h)
    exact ⟨by simp only [Sys.step]; rw [this.1]; exact h1, by simp only [Sys.step]; rw [this.2]; exact h2⟩
  | queue f => exact ⟨h1, h2⟩
  | xmit o st rssi =>
    simp only [Sys.step]
    split
    · exact ⟨h1, h2⟩
    · have := tx_data_keeps s.host h2
      exact ⟨by simp only [Failed]; rw [(this _).1]; exact h1, (this _).2⟩

theorem reach_step {s : Sys} (g : GenOk) (r : Reach s) (op : SysOp) (wf : op.WF) : Reach (s.step op) := by
  rcases r with r | r | r
  · exact neg_step g r op wf
  · exact Or.inr (Or.inl (inv_step r op wf))
  · exact Or.inr (Or.inr (failed_step r op))

theorem reach_run {s : Sys} (g : GenOk) (r : Reach s) (ops : List SysOp) (wf : ∀ op ∈ ops, op.WF) :
    Reach (s.run ops) := by
  induction ops generalizing s with
  | nil => exact r
  | cons op ops ih =>
    simp only [Sys.run, List.foldl_cons]
    exact ih (reach_step g r op (wf op (by simp))) (fun o ho => wf o (by simp [ho]))

/-- a peer with empty logs and no empty packet queued (any counters, any safelink state, anything "last sent") -/
def Peer.Fresh (p : Peer) : Prop := p.rxq = [] ∧ p.deq = [] ∧ ∀ f ∈ p.txq, f ≠ []

theorem reach_init (n : Nat) (p : Peer) (hp : p.Fresh) : Reach (Sys.init n p) := by
  by_cases h0 : Gen.C01.safelinkAttempts = 0
  · exact Or.inr (Or.inr ⟨rfl, h0⟩)
  · exact Or.inl { hn := h0, hs := rfl, hd := rfl, rxq := hp.1, deq := hp.2.1, rcv := rfl, acc := rfl, out := rfl,
                   wt := fun _ => rfl, c2 := (by intro q hq; cases hq), c3 := (by intro q hq; cases hq), tq := hp.2.2 }

/-- the invariant holds whenever the host is in safelink mode -/
theorem dataInv_of_safelink (n : Nat) (p : Peer) (hp : p.Fresh) (ops : List SysOp) (wf : ∀ op ∈ ops, op.WF)
    (hs : ((Sys.init n p).run ops).host.safelink = true) : DataInv ((Sys.init n p).run ops) := by
  rcases reach_run genOk (reach_init n p hp) ops wf with r | r | r
  · rw [r.hs] at hs; cases hs
  · exact r
  · rw [r.1] at hs; cases hs

end CfVerif.C01

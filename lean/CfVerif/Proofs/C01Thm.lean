/-
Proofs/C01Thm: consequences of the invariant used by Props/C01 (prefix and drain statements, the peer's queue
bookkeeping, the link-error trace, confirmation of safelink).
-/
import CfVerif.Proofs.C01Sys
namespace CfVerif.C01
open CfVerif

/-! ### what an acknowledged transmission does to the pending work -/

theorem ok_facts {s : Sys} (inv : DataInv s) (st rssi : UInt8) :
    let s' := s.step (.xmit .ok st rssi)
    s'.host.waiter = none ∧ s'.host.slot = (if s.host.slot = none then none else s.host.waiter) ∧
    (s.host.slot = none → s'.host.out = [UInt8.ofNat Gen.C01.nullByte]) ∧
    s'.host.curUp ≠ s'.peer.up ∧ s'.host.curDown ≠ s'.peer.down ∧
    s'.peer.txq.length ≤ s.peer.txq.length ∧
    (s.host.curDown ≠ s.peer.down → s'.peer.txq.length = s.peer.txq.length - 1) := by
  obtain ⟨a, ha, hdat, hstep⟩ := step_ok inv.hd st rssi
  have ps := peerStep inv rssi
  obtain ⟨u1, u2, u3⟩ := up_after_peer inv ps
  obtain ⟨d1, d2, d3, d4, d5, d6⟩ := dn_after_peer inv ps
  rw [d4] at hdat
  have hnd : newDown s.host.curDown a = flip s.host.curDown := newDown_fresh ha (by rw [hdat, d2]; exact d6)
  have hneU : ¬ flip s.host.curUp = (s.peer.recv s.host.txFrame rssi).1.up := by rw [← u3]; exact flip_ne inv.hu
  have hneD : ¬ flip s.host.curDown = (s.peer.recv s.host.txFrame rssi).1.down := by rw [← d2]; exact flip_ne inv.hdn
  have htx : (s.peer.recv s.host.txFrame rssi).1.txq.length ≤ s.peer.txq.length ∧
      (s.host.curDown ≠ s.peer.down → (s.peer.recv s.host.txFrame rssi).1.txq.length = s.peer.txq.length - 1) := by
    by_cases hD : s.host.curDown = s.peer.down
    · rw [(ps.same hD).2.1]; exact ⟨Nat.le_refl _, fun h => absurd hD h⟩
    · rcases (ps.fresh hD).2.2 with ⟨h1, h2, _⟩ | ⟨pk, rest, h1, h2, _⟩
      · rw [h1, h2]; exact ⟨Nat.le_refl _, fun _ => rfl⟩
      · rw [h1, h2]; exact ⟨by simp, fun _ => by simp⟩
  simp only
  rw [hstep, tx_ack inv.hn inv.hd inv.hs a ha, hnd]
  cases hslot : s.host.slot with
  | none =>
    have hw := inv.wt hslot
    exact ⟨hw, rfl, fun _ => rfl, hneU, hneD, htx.1, htx.2⟩
  | some p =>
    exact ⟨rfl, rfl, (fun h => by cases h), hneU, hneD, htx.1, htx.2⟩

/-- acknowledged transmissions with nothing else happening in between -/
def okRun (l : List (UInt8 × UInt8)) : List SysOp := l.map fun x => .xmit .ok x.1 x.2

theorem run_cons (s : Sys) (op : SysOp) (ops : List SysOp) : s.run (op :: ops) = (s.step op).run ops := rfl
theorem run_append (s : Sys) (a b : List SysOp) : s.run (a ++ b) = (s.run a).run b := by
  simp [Sys.run, List.foldl_append]

theorem inv_okRun {s : Sys} (inv : DataInv s) (l : List (UInt8 × UInt8)) : DataInv (s.run (okRun l)) := by
  induction l generalizing s with
  | nil => exact inv
  | cons x l ih => exact ih (inv_ok inv x.1 x.2)

/-- three acknowledged idle transmissions flush the frame in flight, the queue slot and a blocked submission -/
theorem up_drained {s : Sys} (inv : DataInv s) (x y z : UInt8 × UInt8) :
    let s' := s.run (okRun [x, y, z])
    upView s'.peer.rxq = upView (accFrames s'.evs) := by
  have i1 := inv_ok inv x.1 x.2
  have f1 := ok_facts inv x.1 x.2
  have i2 := inv_ok i1 y.1 y.2
  have f2 := ok_facts i1 y.1 y.2
  have i3 := inv_ok i2 z.1 z.2
  have f3 := ok_facts i2 z.1 z.2
  simp only at f1 f2 f3
  -- after the first: no waiter; after the second: no slot either; after the third: the null packet is in flight
  have hs2 : ((s.step (.xmit .ok x.1 x.2)).step (.xmit .ok y.1 y.2)).host.slot = none := by
    rw [f2.2.1]; split
    · rfl
    · exact f1.1
  have hs3 : (((s.step (.xmit .ok x.1 x.2)).step (.xmit .ok y.1 y.2)).step (.xmit .ok z.1 z.2)).host.slot = none := by
    rw [f3.2.1, if_pos hs2]
  have ho3 := f3.2.2.1 hs2
  have hup := i3.up
  rw [if_neg f3.2.2.2.1, ho3] at hup
  simp only [slotFrames, hs3, Option.toList, List.map_nil, upView_nil, List.append_nil, upView_null] at hup
  exact hup

theorem txq_after_okRun {s : Sys} (inv : DataInv s) (hD : s.host.curDown ≠ s.peer.down) (l : List (UInt8 × UInt8)) :
    let s' := s.run (okRun l)
    s'.host.curDown ≠ s'.peer.down ∧ s'.peer.txq.length = s.peer.txq.length - l.length := by
  induction l generalizing s with
  | nil => exact ⟨hD, by simp [okRun, Sys.run]⟩
  | cons x l ih =>
    have i1 := inv_ok inv x.1 x.2
    have f1 := ok_facts inv x.1 x.2
    simp only at f1
    have := ih i1 f1.2.2.2.2.1
    simp only [okRun, List.map_cons, run_cons] at this ⊢
    refine ⟨this.1, ?_⟩
    rw [this.2, f1.2.2.2.2.2.2 hD, List.length_cons]; omega

/-- one acknowledged transmission (to pick up a re-sent ack) plus one per pending packet empties the peer's queue -/
theorem dn_drained {s : Sys} (inv : DataInv s) (l : List (UInt8 × UInt8)) (hl : s.peer.txq.length + 1 ≤ l.length) :
    let s' := s.run (okRun l)
    downView (received s'.evs) = downView s'.peer.queued := by
  cases l with
  | nil => simp at hl
  | cons x l =>
    have i1 := inv_ok inv x.1 x.2
    have f1 := ok_facts inv x.1 x.2
    simp only at f1
    have h := txq_after_okRun i1 f1.2.2.2.2.1 l
    simp only at h
    have i2 := inv_okRun i1 l
    simp only [okRun, List.map_cons, run_cons] at h i2 ⊢
    have hz : ((s.step (.xmit .ok x.1 x.2)).run (List.map (fun x => SysOp.xmit .ok x.1 x.2) l)).peer.txq = [] := by
      apply List.eq_nil_of_length_eq_zero
      rw [h.2]; simp only [List.length_cons] at hl; omega
    have hdn := i2.dn
    rw [if_neg h.1] at hdn
    rw [hdn, Peer.queued, hz, List.append_nil]

/-! ### prefix statements -/

theorem up_prefix {s : Sys} (inv : DataInv s) : upView s.peer.rxq <+: upView (accFrames s.evs) := by
  rw [← inv.up, List.append_assoc]; exact List.prefix_append _ _

theorem dn_prefix {s : Sys} (inv : DataInv s) : downView (received s.evs) <+: downView s.peer.queued := by
  have h := inv.dn
  simp only [Peer.queued, downView_append]
  split at h
  · rw [← h.1, List.append_assoc]; exact List.prefix_append _ _
  · rw [h]; exact List.prefix_append _ _

/-! ### the peer's queue bookkeeping (no invariant needed) -/

/-- packets queued by the Crazyflie during `ops`, in order -/
def queuedBy : List SysOp → List Bytes
  | [] => []
  | .queue f :: r => f :: queuedBy r
  | _ :: r => queuedBy r

theorem recvDown_queued (p : Peer) (f : Bytes) (r : UInt8) : (p.recvDown f r).1.queued = p.queued := by
  unfold Peer.recvDown Peer.queued
  split
  · rfl
  · split
    · split
      · rename_i h; simp [h]
      · rfl
    · rfl

theorem recv_queued (p : Peer) (f : Bytes) (r : UInt8) : (p.recv f r).1.queued = p.queued := by
  unfold Peer.recv
  split
  · rfl
  · rw [recvDown_queued]; simp [Peer.queued]

theorem step_queued (s : Sys) (op : SysOp) : (s.step op).peer.queued = s.peer.queued ++ queuedBy [op] := by
  cases op with
  | sub p => simp [Sys.step, queuedBy]
  | timeout => simp [Sys.step, queuedBy]
  | queue f => simp [Sys.step, queuedBy, Peer.queued]
  | xmit o st rssi =>
    simp only [Sys.step, queuedBy, List.append_nil]
    split
    · rfl
    · cases o <;> simp [recv_queued]

theorem queuedBy_cons (op : SysOp) (ops : List SysOp) : queuedBy (op :: ops) = queuedBy [op] ++ queuedBy ops := by
  cases op <;> simp [queuedBy]

theorem run_queued (s : Sys) (ops : List SysOp) : (s.run ops).peer.queued = s.peer.queued ++ queuedBy ops := by
  induction ops generalizing s with
  | nil => simp [Sys.run, queuedBy]
  | cons op ops ih => rw [run_cons, ih, step_queued, queuedBy_cons op ops, List.append_assoc]

theorem queuedBy_okRun (l : List (UInt8 × UInt8)) : queuedBy (okRun l) = [] := by
  induction l with
  | nil => rfl
  | cons x l ih => simpa [okRun, queuedBy] using ih

/-! ### the link-error trace -/

theorem flips_retry (h : Host) (a : RadioAck) :
    (h.flips a).retry = h.retry ∧ (h.flips a).nRetries = h.nRetries ∧ (h.flips a).dead = h.dead ∧
    (h.flips a).slot = h.slot ∧ (h.flips a).waiter = h.waiter := by
  unfold Host.flips; split <;> exact ⟨rfl, rfl, rfl, rfl, rfl⟩

theorem mem_rxEvs (d : Bytes) (e : ErrKind) : Ev.err e ∉ rxEvs d := by
  cases d <;> simp [rxEvs, rxEvent]

theorem mem_fetch (h : Host) (e : ErrKind) : Ev.err e ∉ h.fetch.2 := by
  unfold Host.fetch; split
  · cases h.waiter <;> simp [accEv]
  · simp

theorem negStep_fields (h : Host) (a : RadioAck) :
    (h.negStep (.resp a)).1.retry = h.retry ∧ (h.negStep (.resp a)).1.nRetries = h.nRetries ∧
    (h.negStep (.resp a)).1.dead = h.dead := by
  unfold Host.negStep; simp only; split <;> exact ⟨rfl, rfl, rfl⟩

theorem tx_neg {h : Host} (hn : h.negLeft ≠ 0) (hd : h.dead = false) (ans : Ans) : h.tx ans = h.negStep ans := by
  simp [Host.tx, hn, hd]

theorem process_resp {g : Host} {a : RadioAck} (hl : g.last = some a) :
    g.process.1.retry = (if a.ack then (g.nRetries : Int) else g.retry - 1) ∧
    g.process.2.contains (.err .tooManyLost) = (!a.ack && decide (g.retry - 1 = 0)) := by
  unfold Host.process
  rw [hl]
  cases ha : a.ack
  · simp only [ha, if_true, Bool.false_eq_true, if_false, Bool.not_false, Bool.true_and]
    refine ⟨trivial, ?_⟩
    by_cases hz : g.retry - 1 = 0 <;> simp [hz]
  · simp only [ha, Bool.true_eq_false, if_false, if_true, Bool.not_true, Bool.false_and, fetch_retry]
    refine ⟨trivial, ?_⟩
    simp [mem_rxEvs, mem_fetch]

theorem tx_data_resp {h : Host} (hn : h.negLeft = 0) (hd : h.dead = false) (a : RadioAck) :
    (h.tx (.resp a)).1.retry = (if a.ack then (h.nRetries : Int) else h.retry - 1) ∧
    (h.tx (.resp a)).1.nRetries = h.nRetries ∧ (h.tx (.resp a)).1.dead = false ∧ (h.tx (.resp a)).1.negLeft = 0 ∧
    (h.tx (.resp a)).2.contains (.err .tooManyLost) = (!a.ack && decide (h.retry - 1 = 0)) := by
  have hf := flips_retry { h with out := h.frameOut } a
  have hk := (tx_data_keeps h hn (.resp a)).2
  have e : h.tx (.resp a) =
      ({ { h with out := h.frameOut }.flips a with last := some a }.process.1,
       .tx h.frameOut :: { { h with out := h.frameOut }.flips a with last := some a }.process.2) := by
    simp [Host.tx, hd, hn, Host.iter]
  rw [e] at hk ⊢
  have hp := process_resp (g := { { h with out := h.frameOut }.flips a with last := some a }) (a := a) rfl
  refine ⟨?_, ?_, ?_, hk, ?_⟩
  · rw [hp.1]; simp only [hf.1, hf.2.1]
  · rw [process_nRetries]; exact hf.2.1
  · rw [process_dead]; simp only [hf.2.2.1]; exact hd
  · rw [List.contains_cons, hp.2]; simp only [hf.1]
    simp

theorem apply_nRetries (h : Host) (op : Op) (hop : op.Answered) :
    (h.apply op).1.nRetries = h.nRetries ∧ (h.dead = false → (h.apply op).1.dead = false) := by
  cases op with
  | sub p => simp only [Host.apply, Host.submit]; split <;> exact ⟨rfl, id⟩
  | timeout => simp only [Host.apply, Host.timeout]; split <;> exact ⟨rfl, id⟩
  | tx a =>
    cases a with
    | none => exact absurd hop (by simp [Op.Answered])
    | exc => exact absurd hop (by simp [Op.Answered])
    | resp a =>
      simp only [Host.apply]
      by_cases hd : h.dead = true
      · simp [Host.tx, hd]
      · have hd' : h.dead = false := by simpa using hd
        by_cases hn : h.negLeft = 0
        · have := tx_data_resp hn hd' a
          exact ⟨this.2.1, fun _ => this.2.2.1⟩
        · rw [tx_neg hn hd']
          have := negStep_fields h a
          exact ⟨this.2.1, fun hd0 => by rw [this.2.2]; exact hd0⟩

theorem neg_retry {h : Host} (hn : h.negLeft ≠ 0) (hd : h.dead = false) (a : RadioAck) :
    (h.tx (.resp a)).1.retry = h.retry := by
  rw [tx_neg hn hd]; exact (negStep_fields h a).1

theorem app_retry (h : Host) (op : Op) (hop : ∀ a, op ≠ .tx a) :
    (h.apply op).1.retry = h.retry := by
  cases op with
  | tx a => exact absurd rfl (hop a)
  | sub p => simp only [Host.apply, Host.submit]; split <;> rfl
  | timeout => simp only [Host.apply, Host.timeout]; split <;> rfl

/-- the retry counter is `n - run`; hence the reports follow the rule -/
theorem trace_spec (h : Host) (run : Nat) (hd : h.dead = false) (hr : h.retry = (h.nRetries : Int) - run)
    (ops : List Op) (hops : ∀ op ∈ ops, op.Answered) :
    (dataTrace h ops).map (·.2) = specErrs h.nRetries run ((dataTrace h ops).map (·.1)) := by
  induction ops generalizing h run with
  | nil => rfl
  | cons op ops ih =>
    have hop := hops op (by simp)
    have hrest : ∀ o ∈ ops, o.Answered := fun o ho => hops o (by simp [ho])
    have hnr := apply_nRetries h op hop
    cases op with
    | sub p =>
      simp only [dataTrace, List.nil_append]
      have := ih (h.apply (.sub p)).1 run (hnr.2 hd) (by rw [app_retry h _ (by intro a e; cases e), hnr.1]; exact hr) hrest
      rw [hnr.1] at this; exact this
    | timeout =>
      simp only [dataTrace, List.nil_append]
      have := ih (h.apply .timeout).1 run (hnr.2 hd) (by rw [app_retry h _ (by intro a e; cases e), hnr.1]; exact hr) hrest
      rw [hnr.1] at this; exact this
    | tx a =>
      cases a with
      | none => exact absurd hop (by simp [Op.Answered])
      | exc => exact absurd hop (by simp [Op.Answered])
      | resp a =>
        by_cases hn : h.negLeft = 0
        · have ht := tx_data_resp hn hd a
          simp only [dataTrace, hn, hd, and_self, if_true, List.cons_append, List.nil_append, List.map_cons, Host.apply]
          cases ha : a.ack
          · -- not acknowledged: the run grows by one
            simp only [ha, if_false, Bool.not_false, Bool.true_and, Bool.false_eq_true] at ht
            have := ih (h.tx (.resp a)).1 (run + 1) ht.2.2.1 (by rw [ht.1, ht.2.1, hr]; push_cast; omega) hrest
            rw [ht.2.1] at this
            simp only [specErrs, ht.2.2.2.2, this]
            congr 1
            rw [hr]
            by_cases hz : run + 1 = h.nRetries
            · have hz' : (h.nRetries : Int) - (run : Int) - 1 = 0 := by omega
              simp [hz, hz']
            · have hz' : ¬ ((h.nRetries : Int) - (run : Int) - 1 = 0) := by omega
              simp [hz, hz']
          · simp only [ha, if_true, Bool.not_true, Bool.false_and] at ht
            have := ih (h.tx (.resp a)).1 0 ht.2.2.1 (by rw [ht.1, ht.2.1]; simp) hrest
            rw [ht.2.1] at this
            simp only [specErrs, ht.2.2.2.2, this]
        · simp only [dataTrace, hn, false_and, if_false, List.nil_append, Host.apply]
          have := ih (h.tx (.resp a)).1 run (hnr.2 hd) (by rw [neg_retry hn hd a]; simp only [Host.apply] at hnr; rw [hnr.1]; exact hr) hrest
          simp only [Host.apply] at hnr
          rw [hnr.1] at this; exact this

/-! ### safelink is enabled exactly by an exact echo during the negotiation loop -/

theorem negStep_safelink {h : Host} (hs : h.safelink = false) (he : bytesOfNats Gen.C01.safelinkEcho ≠ []) (a : Ans) :
    (h.negStep a).1.safelink = isEcho a ∧ ((h.negStep a).1.safelink = true → (h.negStep a).1.negLeft = 0) ∧
    ((h.negStep a).1.negLeft ≤ h.negLeft - 1 ∨ (h.negStep a).1.dead = true) := by
  unfold Host.negStep
  cases a with
  | exc => simp [hs, isEcho]
  | none => simp [hs, isEcho]
  | resp a =>
    simp only [isEcho]
    by_cases hc : a.data = bytesOfNats Gen.C01.safelinkEcho
    · have : a.data ≠ [] := by rw [hc]; exact he
      simp [hc, he]
    · simp [hc, hs]

theorem negAnswers_dead {h : Host} (hd : h.dead = true) (ops : List Op) : negAnswers h ops = [] := by
  induction ops generalizing h with
  | nil => rfl
  | cons op ops ih =>
    have hd' : (h.apply op).1.dead = true := by
      cases op with
      | tx a => simp [Host.apply, Host.tx, hd]
      | sub p => simp only [Host.apply, Host.submit]; split <;> exact hd
      | timeout => simp only [Host.apply, Host.timeout]; split <;> exact hd
    simp only [negAnswers, ih hd']
    cases op <;> simp [hd]

theorem safelink_run {h : Host} (hi : HostInv h) (he : bytesOfNats Gen.C01.safelinkEcho ≠ [])
    (hcu : Gen.C01.confirmUp ≤ 1) (hcd : Gen.C01.confirmDown ≤ 1) (ops : List Op) :
    (h.run ops).1.safelink = (h.safelink || (negAnswers h ops).any isEcho) ∧
    (negAnswers h ops).length ≤ h.negLeft := by
  induction ops generalizing h with
  | nil => simp [Host.run, negAnswers]
  | cons op ops ih =>
    have hi' := hostInv_apply hi hcu hcd op
    have := ih hi'
    simp only [Host.run, negAnswers, List.any_append, List.length_append]
    rw [this.1]
    cases op with
    | sub p =>
      have hk := apply_app_keeps h (.sub p) (by intro a e; cases e)
      rw [hk.1]; rw [hk.2] at this
      exact ⟨by simp, by simpa using this.2⟩
    | timeout =>
      have hk := apply_app_keeps h .timeout (by intro a e; cases e)
      rw [hk.1]; rw [hk.2] at this
      exact ⟨by simp, by simpa using this.2⟩
    | tx a =>
      simp only [Host.apply] at this ⊢
      by_cases hd : h.dead = true
      · have e : h.tx a = (h, []) := by simp [Host.tx, hd]
        rw [e] at this ⊢
        simp only [hd, Bool.true_eq_false, and_false, if_false, List.any_nil, Bool.false_or, List.length_nil, Nat.zero_add]
        exact ⟨trivial, this.2⟩
      · have hd' : h.dead = false := by simpa using hd
        by_cases hn : h.negLeft = 0
        · have hk := tx_data_keeps h hn a
          rw [hk.1]; rw [hk.2] at this
          simp only [hn, ne_eq, not_true_eq_false, false_and, if_false, List.any_nil, Bool.false_or, List.length_nil]
          exact ⟨trivial, by simpa using this.2⟩
        · have hs := (hi.neg hn).1
          have hk := negStep_safelink hs he a
          rw [tx_neg hn hd'] at this ⊢
          simp only [hn, hd', ne_eq, not_false_eq_true, and_self, if_true, List.any_cons, List.any_nil, Bool.or_false,
            List.length_cons, List.length_nil]
          rw [hk.1, hs]
          refine ⟨by simp, ?_⟩
          rcases hk.2.2 with hle | hdead
          · have := this.2
            omega
          · rw [negAnswers_dead hdead]; simp; omega

/-! ### several links on one dongle -/

/-- every live link's id is below the counter and maps to the link's own queue -/
def LinksInv (l : Links) : Prop := ∀ p ∈ l.live, p.2 < l.sh.next ∧ l.sh.table p.2 = some p.1

theorem linksInv_step {l : Links} (h : LinksInv l) (op : ShOp) : LinksInv (l.step op) := by
  cases op with
  | «open» q =>
    simp only [Links.step]
    split
    · exact h
    · intro p hp
      simp only [List.mem_cons] at hp
      rcases hp with rfl | hp
      · simp [Shared.open]
      · have := h p hp
        simp only [Shared.open]
        exact ⟨by omega, by rw [if_neg (by omega)]; exact this.2⟩
  | close q =>
    simp only [Links.step]
    split
    · rename_i p0 hf
      have hp0 := List.find?_some hf
      have hm0 := List.mem_of_find?_eq_some hf
      intro p hp
      simp only [List.mem_filter] at hp
      have := h p hp.1
      refine ⟨this.1, ?_⟩
      simp only [Shared.stop]
      have hne : p.2 ≠ p0.2 := by
        intro e
        have h0 := (h p0 hm0).2
        rw [← e, this.2] at h0
        have : p.1 = p0.1 := by simpa using h0
        have hq : p0.1 = q := by simpa using hp0
        have : p.1 = q := by rw [this, hq]
        simp [this] at hp
      rw [if_neg hne]; exact this.2
    · exact h

theorem linksInv_run {l : Links} (h : LinksInv l) (ops : List ShOp) : LinksInv (l.run ops) := by
  induction ops generalizing l with
  | nil => exact h
  | cons op ops ih => exact ih (linksInv_step h op)

end CfVerif.C01

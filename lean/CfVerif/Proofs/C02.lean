/- Proofs/C02: helper lemmas for Props/C02 (core Lean only). -/
import CfVerif.Spec.C02
namespace CfVerif.C02

/-! ### the regenerated fan-out table, as the model reads it -/
theorem errCallers_init : errCallers St.init.code = ["connection_failed"] := by decide
theorem errCallers_conn : errCallers St.conn.code = ["disconnected", "connection_lost"] := by decide
theorem errCallers_disc : errCallers St.disc.code = ["disconnected_link_error"] := by decide

end CfVerif.C02

/-
Proofs/C02: helper lemmas for Props/C02 (core Lean only).

Part A  the core invariant `CInv` of the `Crazyflie` object closed with a conformant device, and for every core
        operation the finite list `shapes` of possible (outputs, next phase) together with the facts about
        `connected` / `fully_connected`;
Part B  the blocking wrapper and the specification automaton: one exhaustive evaluation (`check_all`, by `decide`)
        over all wrapper states × phases × operations × output shapes;
Part C  the two glued together: `step_sound`, `run_sound`.
-/
import CfVerif.Spec.C02
namespace CfVerif.C02

theorem errCallers_init : errCallers St.init.code = ["connection_failed"] := by decide
theorem errCallers_conn : errCallers St.conn.code = ["disconnected", "connection_lost"] := by decide
theorem errCallers_disc : errCallers St.disc.code = ["disconnected_link_error"] := by decide

theorem callAll_init (s : S) : callAll (errCallers St.init.code) s = emit .failed s := by
  simp [errCallers_init, callAll, callByName, andThen, pureS]
theorem callAll_conn (s : S) : callAll (errCallers St.conn.code) s = (disconnectedCall s >>> emit .lost) := by
  simp [errCallers_conn, callAll, callByName, andThen, pureS]
theorem callAll_disc (s : S) : callAll (errCallers St.disc.code) s = emit .discLinkError s := by
  simp [errCallers_disc, callAll, callByName, andThen, pureS]

/-- `_link_error_cb`, with the regenerated table evaluated -/
theorem linkErrorCb_eq (s : S) : linkErrorCb s =
    match s.st with
    | .init => ({ s with link := false, dead := false, inq := [], stage := .idle, st := .disc }, [.linkFailed, .cb .failed])
    | .conn => ({ s with link := false, dead := false, inq := [], stage := .idle, st := .disc,
                         upd := { s.upd with q := [], locked := false }, parToc := 0, vals := [], connTs := false, exts := if s.fixD21 then [] else s.exts },
                [.linkFailed, .cb .disconnected, .cb .lost])
    | .disc => ({ s with link := false, dead := false, inq := [], stage := .idle, st := .disc }, [.linkFailed, .cb .discLinkError]) := by
  cases h : s.st <;>
    simp [linkErrorCb, h, callAll_init, callAll_conn, callAll_disc, emit, disconnectedCall, andThen]

def updOk (s : S) : Prop :=
  (s.upd.locked = true → ∃ id, s.upd.pat = some id ∧ s.inq = [.val id]) ∧ (s.upd.locked = false → s.inq = [])

def extOk (d : Dev) (s : S) (e : ExtF) : Prop :=
  1 ≤ e.count ∧ e.count = e.q.length + (if e.locked then 1 else 0) ∧ s.extGot + e.count = d.extIds.length ∧
  (e.locked = true → ∃ id, e.req = some id ∧ s.inq = [.ext id]) ∧ (e.locked = false → e.req = none ∧ s.inq = [])

def stageOk (d : Dev) (s : S) : Prop :=
  match s.stage with
  | .idle => False
  | .src => s.inq = [.src] ∧ s.parToc = 0
  | .ver => s.inq = [.ver] ∧ s.parToc = 0
  | .logReset => s.inq = [.logReset] ∧ s.parToc = 0
  | .logInfo => s.inq = [.logInfo] ∧ s.logGot = 0 ∧ s.parToc = 0
  | .logItem i => s.inq = [.logItem i] ∧ i < d.nLog ∧ s.logGot = i ∧ s.parToc = 0
  | .memCount => s.inq = [.memCount] ∧ s.logGot = d.nLog ∧ s.parToc = 0
  | .memInfo j => s.inq = [.memInfo j] ∧ j < d.nMem ∧ s.logGot = d.nLog ∧ s.parToc = 0
  | .parInfo => s.inq = [.parInfo] ∧ s.logGot = d.nLog ∧ s.parToc = 0
  | .parItem i => s.inq = [.parItem i] ∧ i < d.nPar ∧ s.parToc = i ∧ s.logGot = d.nLog
  | .ext => s.logGot = d.nLog ∧ s.parToc = d.nPar ∧ ∃ e, s.exts = [e] ∧ extOk d s e
  | .up => s.logGot = d.nLog ∧ s.parToc = d.nPar ∧ s.extGot = d.extIds.length ∧ updOk s

structure CInv (d : Dev) (s : S) : Prop where
  linkDown : s.link = false → s.stage = .idle ∧ s.exts = [] ∧ s.upd.q = [] ∧ s.upd.locked = false ∧ s.inq = []
  linkSt : s.link = true → s.dead = false → (s.st = .init ∧ s.initCb = true ∧ s.stage = .src) ∨ (s.st = .conn ∧ s.initCb = false)
  linkStage : s.link = true → s.dead = false → stageOk d s
  extsNil : s.stage ≠ .ext → s.exts = []
  updIdle : s.stage ≠ .up → s.upd.q = [] ∧ s.upd.locked = false
  fresh : s.link = true → s.stage ≠ .up → s.isUpdated = false
  extGot0 : s.link = true → (s.stage ≠ .ext ∧ s.stage ≠ .up) → s.extGot = 0
  ts : s.connTs = true → s.link = true ∧ s.stage = .up
  fixed : s.fixD21 = true
  deadSt : s.dead = true → s.link = true ∧ s.st = .disc ∧ s.stage = .src ∧ s.inq = []
  fixedAbort : s.fixAbort = true
  fixedFirst : s.fixFirst = true
  fixedUpd : s.fixUpd = true
  fixedExtCmd : s.fixExtCmd = true
  tsUp : s.link = true → s.stage = .up → s.connTs = true


/-- closes a `CInv` goal for an explicitly computed state -/
macro "cinv_tac" : tactic =>
  `(tactic| (constructor <;> first
      | (simp; done)
      | (simp <;> grind [stageOk, updOk, extOk, List.isEmpty_iff])
      | grind [stageOk, updOk, extOk]))

theorem cinv_init (d : Dev) : CInv d S.init := by
  constructor <;> first | decide | simp [S.init]

def E : List Out := [.linkFailed, .cb .failed]
def L : List Out := [.linkFailed, .cb .disconnected, .cb .lost]

theorem err_core (d : Dev) (s : S) (h : CInv d s) (hl : s.link = true) (hd : s.dead = false) :
    CInv d (linkErrorCb s).1 ∧ phase (linkErrorCb s).1 = .idle ∧
    ((phase s = .req ∧ (linkErrorCb s).2 = E) ∨ (phase s ≠ .req ∧ phase s ≠ .idle ∧ (linkErrorCb s).2 = L)) := by
  obtain ⟨h1, h2, h3, h4, h5, h6, h7, h8, h9, h10, h11, h12, h13, h15, h14⟩ := h
  have h2' := h2 hl hd
  rw [linkErrorCb_eq]
  cases hs : s.st
  · simp [hs] at h2'
  · simp only [hs] at h2'
    refine ⟨?_, ?_, ?_⟩
    · constructor <;> grind
    · simp [phase]
    · simp [phase, hl, hs, E]
  · refine ⟨?_, ?_, ?_⟩
    · constructor <;> grind
    · simp [phase]
    · right; simp only [phase, hl, hs, L]; grind

/-- core operation kinds -/
inductive CK | openOk | openNo | openFail | deliver | work | err | close | inject
  deriving DecidableEq, Repr

def coreRun (d : Dev) (s : S) : CK → R
  | .openOk => openLink .ok s
  | .openNo => openLink .missing s
  | .openFail => openLink .failing s
  | .deliver => deliver d s
  | .work => work s
  | .err => linkErrorCb s
  | .close => closeLink s
  | .inject => injectPkt d (.upd 0) s

/-- every possible (outputs, next phase) of a core operation, by the phase it starts in -/
def shapes : CK → Ph → List (List Out × Ph)
  | .openNo, _ => [([.cb .requested, .cb .failed], .idle)]
  | .openOk, _ => [([.cb .requested], .req), (.cb .requested :: E, .idle)]
  | .openFail, _ => [(.cb .requested :: E, .idle)]
  | .deliver, .idle => [([], .idle)]
  | .deliver, .req => [([.cb .established], .est), (.cb .established :: L, .idle)]
  | .deliver, .est => [([], .est), (L, .idle), ([.cb .connected], .con)]
  | .deliver, .con => [([], .con), ([.cb .fully], .ful)]
  | .deliver, .ful => [([], .ful)]
  | .work, .idle => [([], .idle)]
  | .work, .req => [([], .req)]
  | .work, ph => [([], ph), (L, .idle)]
  | .err, .req => [(E, .idle)]
  | .err, _ => [(L, .idle)]
  | .close, .idle => [([.cb .disconnected], .idle)]
  | .close, .req => [([.cb .disconnected], .idle), (E ++ [.cb .disconnected], .idle)]
  | .close, _ => [([.cb .disconnected], .idle), (L ++ [.cb .disconnected], .idle)]
  | .inject, .idle => [([], .idle)]
  | .inject, .req => [([.cb .established], .est)]
  | .inject, .con => [([], .con), ([.cb .fully], .ful)]
  | .inject, ph => [([], ph)]

theorem send_ok (r : Option Pkt) (s : S) (hl : s.link = true) (hd : s.dead = false) (ha : s.armed = false) :
    send r s = ({ s with inq := s.inq ++ r.toList }, []) := by
  simp [send, hl, hd, ha, pureS]

theorem send_fail (r : Option Pkt) (s : S) (hl : s.link = true) (hd : s.dead = false) (ha : s.armed = true) :
    send r s = linkErrorCb { s with armed := false } := by
  simp [send, hl, hd, ha]

theorem deliver_init (d : Dev) (s : S) (h : CInv d s) (hl : s.link = true) (hd : s.dead = false) (hs : s.st = .init) :
    CInv d (deliver d s).1 ∧ ((deliver d s).2, phase (deliver d s).1) ∈ shapes .deliver .req := by
  obtain ⟨h1, h2, h3, h4, h5, h6, h7, h8, h9, h10, h11, h12, h13, h15, h14⟩ := h
  have h2' := h2 hl hd
  have h3' := h3 hl hd
  simp only [hs, true_and, reduceCtorEq, false_and, or_false] at h2'
  obtain ⟨hcb, hstage⟩ := h2'
  simp only [stageOk, hstage] at h3'
  obtain ⟨hinq, hpar⟩ := h3'
  obtain ⟨st, link, initCb, inq, armed, stage, upd, exts, parToc, vals, isUpdated, connTs, logGot, extGot, dead, fa, ff, fu, fe, cl, fx⟩ := s
  simp only at *
  subst hl hd hs hcb hstage hinq hpar
  cases armed <;> cases hm : d.magic <;>
    simp [deliver, chainPacket, startLog, send, linkErrorCb_eq, emit, andThen, pureS, hm, shapes, phase, E, L] <;>
    constructor <;> grind [stageOk]

theorem extIdsFrom_length_le (i : Nat) (bs : List Bool) : (extIdsFrom i bs).length ≤ bs.length := by
  induction bs generalizing i with
  | nil => simp [extIdsFrom]
  | cons b bs ih =>
    simp only [extIdsFrom]
    split
    · simp only [List.length_cons]; have := ih (i + 1); omega
    · simp only [List.length_cons]; have := ih (i + 1); omega

theorem extIds_length_le (d : Dev) : d.extIds.length ≤ d.nPar := extIdsFrom_length_le 0 d.ext

theorem deliver_chain (d : Dev) (s : S) (h : CInv d s) (hl : s.link = true) (hd : s.dead = false) (hs : s.st = .conn)
    (hne : s.stage ≠ .ext) (hnu : s.stage ≠ .up) :
    CInv d (deliver d s).1 ∧ ((deliver d s).2, phase (deliver d s).1) ∈ shapes .deliver .est ∧
    (.cb .connected ∈ (deliver d s).2 → complete d (deliver d s).1) ∧ .cb .fully ∉ (deliver d s).2 := by
  obtain ⟨h1, h2, h3, h4, h5, h6, h7, h8, h9, h10, h11, h12, h13, h15, h14⟩ := h
  have h2' := h2 hl hd
  have h3' := h3 hl hd
  have h4' := h4 hne
  have h5' := h5 hnu
  have h7' := h7 hl ⟨hne, hnu⟩
  simp only [hs, true_and, reduceCtorEq, false_and, false_or] at h2'
  obtain ⟨st, link, initCb, inq, armed, stage, upd, exts, parToc, vals, isUpdated, connTs, logGot, extGot, dead, fa, ff, fu, fe, cl, fx⟩ := s
  obtain ⟨q, locked, pat⟩ := upd
  simp only at *
  subst hl hd hs h2' h4' h7'
  obtain ⟨hq, hlk⟩ := h5'
  subst hq hlk
  have hext := extIds_length_le d
  have hext0 : d.nPar = 0 → d.extIds = [] := fun h => List.length_eq_zero_iff.mp (by omega)
  have hpos : d.extIds ≠ [] → 1 ≤ d.extIds.length := fun h => List.length_pos_iff.mpr h
  cases stage <;> simp only [stageOk] at h3' <;> try contradiction
  all_goals (
    obtain ⟨hinq, hrest⟩ := h3'
    subst hinq
    cases armed <;>
    simp only [deliver, chainPacket, startLog, startMems, startParamToc, paramTocDone, paramTocUpdated, send,
      linkErrorCb_eq, emit, andThen, pureS, Bool.false_eq_true, if_false, if_true, not_true_eq_false, not_false_eq_true,
      List.append_nil, List.nil_append, Option.toList, ne_eq, not_true, decide_true, decide_false] <;>
    (repeat' split) <;>
    (refine ⟨?_, ?_, ?_, ?_⟩ <;> first
      | (constructor <;> simp <;> grind [stageOk, updOk, extOk, List.isEmpty_iff])
      | (simp [shapes, phase, E, L, complete] <;> omega)
      | (simp [shapes, phase, E, L, complete]; done)
      | (simp [shapes, phase, E, L, complete, List.isEmpty_iff] at * <;> grind)))

theorem deliver_ext (d : Dev) (s : S) (h : CInv d s) (hl : s.link = true) (hd : s.dead = false) (hs : s.st = .conn) (hst : s.stage = .ext) :
    CInv d (deliver d s).1 ∧ ((deliver d s).2, phase (deliver d s).1) ∈ shapes .deliver .est ∧
    (.cb .connected ∈ (deliver d s).2 → complete d (deliver d s).1) ∧ .cb .fully ∉ (deliver d s).2 := by
  obtain ⟨h1, h2, h3, h4, h5, h6, h7, h8, h9, h10, h11, h12, h13, h15, h14⟩ := h
  have h2' := h2 hl hd
  have h3' := h3 hl hd
  have h5' := h5 (by simp [hst])
  have h6' := h6 hl (by simp [hst])
  simp only [hs, true_and, reduceCtorEq, false_and, false_or] at h2'
  obtain ⟨st, link, initCb, inq, armed, stage, upd, exts, parToc, vals, isUpdated, connTs, logGot, extGot, dead, fa, ff, fu, fe, cl, fx⟩ := s
  obtain ⟨q, locked, pat⟩ := upd
  simp only at *
  subst hl hd hs h2' hst h6'
  obtain ⟨hq, hlk⟩ := h5'
  subst hq hlk
  simp only [stageOk] at h3'
  obtain ⟨hlog, hpar, e, he, hc1, hc2, hc3, hc4, hc5⟩ := h3'
  obtain ⟨eq, elocked, ereq, ecount⟩ := e
  simp only at *
  subst he
  cases elocked
  · -- nothing received
    obtain ⟨hr, hi⟩ := hc5 rfl
    subst hr hi
    simp only [deliver, pureS]
    refine ⟨?_, by simp [shapes, phase], by simp, by simp⟩
    constructor <;> simp <;> grind [stageOk, extOk]
  · obtain ⟨id, hr, hi⟩ := hc4 rfl
    subst hr hi
    by_cases hlast : ecount = 1
    · subst hlast
      simp [deliver, extPacket, extAll, extOne, paramTocUpdated, emit, andThen, pureS, shapes, phase, complete]
      refine ⟨?_, by omega⟩
      constructor <;> simp <;> grind [stageOk, updOk]
    · simp [deliver, extPacket, extAll, extOne, emit, andThen, pureS, shapes, phase, hlast]
      constructor <;> simp <;> grind [stageOk, extOk]

theorem deliver_up (d : Dev) (s : S) (h : CInv d s) (hl : s.link = true) (hd : s.dead = false) (hs : s.st = .conn) (hst : s.stage = .up) :
    CInv d (deliver d s).1 ∧ ((deliver d s).2, phase (deliver d s).1) ∈ shapes .deliver (phase s) ∧
    .cb .connected ∉ (deliver d s).2 ∧ (.cb .fully ∈ (deliver d s).2 → allVals d (deliver d s).1) := by
  obtain ⟨h1, h2, h3, h4, h5, h6, h7, h8, h9, h10, h11, h12, h13, h15, h14⟩ := h
  have h2' := h2 hl hd
  have h3' := h3 hl hd
  have h4' := h4 (by simp [hst])
  simp only [hs, true_and, reduceCtorEq, false_and, false_or] at h2'
  obtain ⟨st, link, initCb, inq, armed, stage, upd, exts, parToc, vals, isUpdated, connTs, logGot, extGot, dead, fa, ff, fu, fe, cl, fx⟩ := s
  obtain ⟨q, locked, pat⟩ := upd
  simp only at *
  subst hl hd hs h2' hst h4'
  have hts : connTs = true := h14 rfl rfl
  subst hts h13
  simp only [stageOk, updOk] at h3'
  obtain ⟨hlog, hpar, hext, hu1, hu2⟩ := h3'
  cases locked
  · have hi := hu2 rfl
    subst hi
    simp only [deliver, pureS]
    refine ⟨?_, ?_, by simp, by simp⟩
    · constructor <;> simp <;> grind [stageOk, updOk]
    · cases isUpdated <;> simp [shapes, phase]
  · obtain ⟨id, hp, hi⟩ := hu1 rfl
    subst hp hi
    simp only [deliver, valPacket, paramUpdated, emit, andThen, pureS]
    by_cases hid : id < parToc <;> cases isUpdated <;> simp [hid, shapes, phase]
    all_goals (try split)
    all_goals (first
      | (refine ⟨?_, ?_⟩ <;> first
          | (constructor <;> simp <;> grind [stageOk, updOk])
          | (simp [shapes, phase, allVals, List.all_eq_true] at * <;> grind))
      | (constructor <;> simp <;> grind [stageOk, updOk]))

theorem phase_down (s : S) (h : s.link = false) : phase s = .idle := by simp [phase, h]
theorem phase_init (s : S) (h : s.link = true) (hs : s.st = .init) : phase s = .req := by simp [phase, h, hs]
theorem phase_est (s : S) (h : s.link = true) (hs : s.st = .conn) (hu : s.stage ≠ .up) : phase s = .est := by
  simp [phase, h, hs, hu]

theorem deliver_core (d : Dev) (s : S) (h : CInv d s) :
    CInv d (deliver d s).1 ∧ ((deliver d s).2, phase (deliver d s).1) ∈ shapes .deliver (phase s) ∧
    (.cb .connected ∈ (deliver d s).2 → complete d (deliver d s).1) ∧
    (.cb .fully ∈ (deliver d s).2 → allVals d (deliver d s).1) := by
  cases hl : s.link
  · have : deliver d s = (s, []) := by simp [deliver, hl, pureS]
    rw [this, phase_down s hl]
    exact ⟨h, by simp [shapes], by simp, by simp⟩
  · cases hd : s.dead
    case true =>
      obtain ⟨_, hst, _, hinq⟩ := h.deadSt hd
      have : deliver d s = (s, []) := by simp [deliver, hl, hinq, pureS]
      have hp : phase s = .idle := by simp [phase, hl, hst]
      rw [this, hp]
      exact ⟨h, by simp [shapes], by simp, by simp⟩
    cases hs : s.st
    · have := h.linkSt hl hd; simp [hs] at this
    · have := deliver_init d s h hl hd hs
      rw [phase_init s hl hs]
      refine ⟨this.1, this.2, ?_, ?_⟩ <;> intro hm <;> have h2 := this.2 <;>
        simp only [shapes, List.mem_cons, Prod.mk.injEq, List.not_mem_nil, or_false] at h2 <;>
        rcases h2 with ⟨h2, _⟩ | ⟨h2, _⟩ <;> rw [h2] at hm <;> simp [L] at hm
    · by_cases hu : s.stage = .up
      · have := deliver_up d s h hl hd hs hu
        exact ⟨this.1, this.2.1, fun hm => absurd hm this.2.2.1, this.2.2.2⟩
      · rw [phase_est s hl hs hu]
        by_cases he : s.stage = .ext
        · have := deliver_ext d s h hl hd hs he
          exact ⟨this.1, this.2.1, this.2.2.1, fun hm => absurd hm this.2.2.2⟩
        · have := deliver_chain d s h hl hd hs he hu
          exact ⟨this.1, this.2.1, this.2.2.1, fun hm => absurd hm this.2.2.2⟩

theorem work_core (d : Dev) (s : S) (h : CInv d s) :
    CInv d (work s).1 ∧ ((work s).2, phase (work s).1) ∈ shapes .work (phase s) ∧
    .cb .connected ∉ (work s).2 ∧ .cb .fully ∉ (work s).2 := by
  obtain ⟨h1, h2, h3, h4, h5, h6, h7, h8, h9, h10, h11, h12, h13, h15, h14⟩ := h
  obtain ⟨st, link, initCb, inq, armed, stage, upd, exts, parToc, vals, isUpdated, connTs, logGot, extGot, dead, fa, ff, fu, fe, cl, fx⟩ := s
  obtain ⟨q, locked, pat⟩ := upd
  simp only at *
  cases link
  · obtain ⟨a, b, c, e, f⟩ := h1 rfl
    subst a b c e f
    simp [work, workExt, pureS, shapes, phase]
    cinv_tac
  · cases dead
    case true =>
      obtain ⟨_, hst, hsg, hinq⟩ := h10 rfl
      subst hst hsg hinq
      obtain ⟨hq, hlk⟩ := h5 (by simp)
      have hex := h4 (by simp)
      subst hq hlk hex
      simp [work, workExt, pureS, shapes, phase]
      cinv_tac
    have h2' := h2 rfl rfl
    have h3' := h3 rfl rfl
    by_cases hu : stage = .up
    · subst hu
      have h4' := h4 (by simp)
      subst h4'
      simp only [reduceCtorEq, and_false, false_or] at h2'
      obtain ⟨hst, hcb⟩ := h2'
      subst hst hcb
      simp only [stageOk, updOk] at h3'
      obtain ⟨hlog, hpar, hext, hu1, hu2⟩ := h3'
      cases locked
      · have := hu2 rfl
        subst this
        cases q with
        | nil =>
          simp [work, workExt, pureS, shapes, phase]
          refine ⟨?_, by cases isUpdated <;> simp⟩
          constructor <;> simp <;> grind [stageOk, updOk]
        | cons id q =>
          cases armed <;> cases isUpdated <;>
            simp [work, workUpdater, send, linkErrorCb_eq, pureS, shapes, phase, L] <;>
            constructor <;> simp <;> grind [stageOk, updOk]
      · simp [work, workExt, pureS, shapes, phase]
        refine ⟨?_, by cases isUpdated <;> simp⟩
        constructor <;> simp <;> grind [stageOk, updOk]
    · obtain ⟨hq, hlk⟩ := h5 hu
      subst hq hlk
      by_cases he : stage = .ext
      · subst he
        simp only [reduceCtorEq, and_false, false_or] at h2'
        obtain ⟨hst, hcb⟩ := h2'
        subst hst hcb
        simp only [stageOk] at h3'
        obtain ⟨hlog, hpar, e, hee, hc1, hc2, hc3, hc4, hc5⟩ := h3'
        obtain ⟨eq, elocked, ereq, ecount⟩ := e
        simp only at *
        subst hee
        cases elocked
        · obtain ⟨hr, hi⟩ := hc5 rfl
          subst hr hi
          cases eq with
          | nil => simp at hc2; omega
          | cons id eq =>
            cases armed <;>
              simp [work, workExt, send, linkErrorCb_eq, pureS, shapes, phase, L] <;>
              constructor <;> simp <;> grind [stageOk, extOk]
        · simp [work, workExt, pureS, shapes, phase]
          constructor <;> simp <;> grind [stageOk, extOk]
      · have h4' := h4 he
        subst h4'
        simp only [work, workExt, pureS, ne_eq, not_true_eq_false, false_and, if_false, List.not_mem_nil,
          not_false_eq_true, and_self, and_true]
        refine ⟨?_, ?_⟩
        · constructor <;> simp <;> grind
        · rcases h2' with ⟨a, b, c⟩ | ⟨a, b⟩
          · subst a b c; simp [shapes, phase]
          · subst a b; simp [shapes, phase, hu]

def ckOf : Drv → CK
  | .ok => .openOk
  | .missing => .openNo
  | .failing => .openFail

theorem open_core (d : Dev) (s : S) (f : Drv) (h : CInv d s) (hl : s.link = false ∨ s.dead = true) :
    CInv d (openLink f s).1 ∧
    ((openLink f s).2, phase (openLink f s).1) ∈ shapes (ckOf f) (phase s) := by
  obtain ⟨h1, h2, h3, h4, h5, h6, h7, h8, h9, h10, h11, h12, h13, h15, h14⟩ := h
  obtain ⟨st, link, initCb, inq, armed, stage, upd, exts, parToc, vals, isUpdated, connTs, logGot, extGot, dead, fa, ff, fu, fe, cl, fx⟩ := s
  obtain ⟨q, locked, pat⟩ := upd
  simp only at *
  cases dead
  · have hl' : link = false := by rcases hl with h | h <;> simp_all
    subst hl'
    obtain ⟨a, b, c, e, g⟩ := h1 rfl
    subst a b c e g
    cases f <;> cases armed <;>
      simp [openLink, send, linkErrorCb_eq, emit, andThen, pureS, shapes, phase, E, ckOf] <;>
      cinv_tac
  · obtain ⟨hlk, hst, hsg, hinq⟩ := h10 rfl
    subst hlk hst hsg hinq
    obtain ⟨hq, hlk2⟩ := h5 (by simp)
    have hex := h4 (by simp)
    subst hq hlk2 hex
    cases f <;> cases armed <;>
      simp [openLink, send, linkErrorCb_eq, emit, andThen, pureS, shapes, phase, E, ckOf] <;>
      cinv_tac

theorem close_core (d : Dev) (s : S) (h : CInv d s) :
    CInv d (closeLink s).1 ∧ ((closeLink s).2, phase (closeLink s).1) ∈ shapes .close (phase s) := by
  obtain ⟨h1, h2, h3, h4, h5, h6, h7, h8, h9, h10, h11, h12, h13, h15, h14⟩ := h
  obtain ⟨st, link, initCb, inq, armed, stage, upd, exts, parToc, vals, isUpdated, connTs, logGot, extGot, dead, fa, ff, fu, fe, cl, fx⟩ := s
  obtain ⟨q, locked, pat⟩ := upd
  simp only at *
  cases link
  · simp [closeLink, send, disconnectedCall, emit, andThen, pureS, shapes, phase]
    cinv_tac
  · cases dead
    case true =>
      obtain ⟨_, hst, hsg, hinq⟩ := h10 rfl
      subst hst hsg hinq
      obtain ⟨hq, hlk⟩ := h5 (by simp)
      have hex := h4 (by simp)
      subst hq hlk hex
      simp [closeLink, send, disconnectedCall, emit, andThen, pureS, shapes, phase]
      cinv_tac
    have h2' := h2 rfl rfl
    rcases h2' with ⟨a, b, c⟩ | ⟨a, b⟩
    · subst a b c
      cases armed <;>
        simp [closeLink, send, linkErrorCb_eq, disconnectedCall, emit, andThen, pureS, shapes, phase, E] <;>
        cinv_tac
    · subst a b
      by_cases hu : stage = .up <;> cases isUpdated <;> cases armed <;>
        simp [closeLink, send, linkErrorCb_eq, disconnectedCall, emit, andThen, pureS, shapes, phase, L, hu] <;>
        cinv_tac

theorem phase_linked_aux (d : Dev) (c : S) (h : CInv d c) : (phase c).linked = (c.link && !c.dead) := by
  cases hl : c.link
  · simp [phase, hl, Ph.linked]
  · cases hd : c.dead
    · rcases h.linkSt hl hd with ⟨a, _, _⟩ | ⟨a, _⟩ <;> simp only [phase, hl, a, if_true]
      · rfl
      · split
        · split <;> rfl
        · rfl
    · obtain ⟨_, hst, _, _⟩ := h.deadSt hd
      simp [phase, hl, hst, Ph.linked]

/-! ### extra packets: unsolicited value-updated notifications, duplicated / late read replies -/

theorem inject_core (d : Dev) (inj : Inj) (s : S) (h : CInv d s)
    (hdup : ∀ id, inj = .dupVal id → s.upd.pat ≠ some id) :
    CInv d (injectPkt d inj s).1 ∧ ((injectPkt d inj s).2, phase (injectPkt d inj s).1) ∈ shapes .inject (phase s) ∧
    .cb .connected ∉ (injectPkt d inj s).2 ∧ (.cb .fully ∈ (injectPkt d inj s).2 → allVals d (injectPkt d inj s).1) := by
  obtain ⟨h1, h2, h3, h4, h5, h6, h7, h8, h9, h10, h11, h12, h13, h15, h14⟩ := h
  obtain ⟨st, link, initCb, inq, armed, stage, upd, exts, parToc, vals, isUpdated, connTs, logGot, extGot, dead, fa, ff, fu, fe, cl, fx⟩ := s
  obtain ⟨q, locked, pat⟩ := upd
  simp only at *
  subst h9 h11 h12 h13 h15
  cases link
  · simp [injectPkt, pureS, shapes, phase]
    cinv_tac
  cases dead
  case true =>
    obtain ⟨_, hst, hsg, hinq⟩ := h10 rfl
    subst hst hsg hinq
    simp [injectPkt, pureS, shapes, phase]
    cinv_tac
  have h2' := h2 rfl rfl
  have h3' := h3 rfl rfl
  rcases h2' with ⟨x, y, z⟩ | ⟨x, y⟩
  · -- first packet of the attempt: the table is still empty
    subst x y z
    simp only [stageOk] at h3'
    obtain ⟨hq, hp0⟩ := h3'
    subst hq hp0
    cases inj with
    | upd id =>
      simp [injectPkt, paramUpdated, emit, andThen, pureS, shapes, phase]
      cinv_tac
    | dupVal id =>
      have := hdup id rfl
      simp [injectPkt, valPacket, this, emit, andThen, pureS, shapes, phase]
      cinv_tac
  · subst x y
    cases inj with
    | dupVal id =>
      have := hdup id rfl
      simp only [injectPkt, valPacket, this, emit, andThen, pureS, Bool.false_eq_true, if_false, not_false_eq_true,
        or_self, not_true_eq_false, List.append_nil, List.not_mem_nil, false_imp_iff, and_true]
      refine ⟨?_, ?_⟩
      · cinv_tac
      · by_cases hu : stage = .up <;> cases isUpdated <;> simp [shapes, phase, hu]
    | upd id =>
      by_cases hu : stage = .up
      · subst hu
        have hts : connTs = true := h14 rfl rfl
        subst hts
        simp only [stageOk, updOk] at h3'
        obtain ⟨hlog, hpar, hext, hu1, hu2⟩ := h3'
        simp only [injectPkt, paramUpdated, emit, andThen, pureS]
        by_cases hid : id < parToc <;> cases isUpdated <;> simp [hid, shapes, phase]
        all_goals (try split)
        all_goals (first
          | cinv_tac
          | (refine ⟨?_, ?_⟩ <;> first
              | cinv_tac
              | (simp [shapes, phase, allVals, List.all_eq_true] at * <;> grind)))
      · have hts : connTs = false := by
          cases hc : connTs
          · rfl
          · exact absurd (h8 hc).2 hu
        subst hts
        have hiu := h6 rfl hu
        subst hiu
        simp only [injectPkt, paramUpdated, emit, andThen, pureS, Bool.false_eq_true, if_false, not_false_eq_true, or_self,
          not_true_eq_false, Bool.not_true, Bool.or_false, Bool.false_and, Bool.and_false, List.append_nil, List.nil_append,
          List.not_mem_nil, false_imp_iff, and_true]
        split <;> (refine ⟨?_, ?_⟩ <;> first | cinv_tac | (simp [shapes, phase, hu]; done) | (cases stage <;> simp_all [shapes, phase]))

/-! ### close / link error from inside a callback, during the dispatch of a packet -/

/-- outputs of the in-callback action started in phase `ph` -/
def actShapes (a : Act) (ph : Ph) : List (List Out × Ph) :=
  match a with
  | .close => (shapes .close ph).map fun sh => (Out.closeCalled :: sh.1, sh.2)
  | .err => if ph = .idle then [([], .idle)] else shapes .err ph

def seqShapes (A : List (List Out × Ph)) (B : Ph → List (List Out × Ph)) : List (List Out × Ph) :=
  A.flatMap fun x => (B x.2).map fun y => (x.1 ++ y.1, y.2)

/-- the packet is taken and the all-packet callbacks have run -/
def popShapes : Ph → List (List Out × Ph)
  | .idle => []
  | .req => [([.cb .established], .est)]
  | ph => [([], ph)]

/-- every possible (outputs, next phase) of `deliverAct`: nothing to deliver / packet taken, then the action /
packet handled completely (static callbacks come first), then the action / the action before the first-packet callback
(later connections), which then ignores the packet -/
def shapesAct (a : Act) (ph : Ph) : List (List Out × Ph) :=
  ([], ph) :: (seqShapes (popShapes ph) (actShapes a) ++ seqShapes (shapes .deliver ph) (actShapes a) ++
    seqShapes [([], ph)] (actShapes a))

theorem act_core (d : Dev) (a : Act) (s : S) (h : CInv d s) :
    CInv d (actNow a s).1 ∧ ((actNow a s).2, phase (actNow a s).1) ∈ actShapes a (phase s) := by
  cases a with
  | close =>
    have := close_core d s h
    simp only [actNow, andThen, actShapes, List.mem_map]
    exact ⟨this.1, ⟨_, this.2, by simp⟩⟩
  | err =>
    simp only [actNow, actShapes]
    by_cases hl : s.link = true ∧ ¬ s.dead = true
    · have hd : s.dead = false := by cases hx : s.dead <;> simp_all
      have := err_core d s h hl.1 hd
      rw [if_pos hl]
      refine ⟨this.1, ?_⟩
      rw [this.2.1]
      rcases this.2.2 with ⟨a1, b1⟩ | ⟨a1, a2, b1⟩
      · rw [a1, b1]; simp [shapes]
      · rw [b1, if_neg a2]; revert a1 a2; cases phase s <;> simp [shapes]
    · rw [if_neg hl]
      have hp : phase s = .idle := by
        have := phase_linked_aux d s h
        cases hx : phase s <;> simp_all [Ph.linked]
      refine ⟨h, ?_⟩
      simp [pureS, hp]

/-- the ghost counter of log entries is unconstrained once the link is gone -/
theorem cinv_logGot (d : Dev) (s : S) (n : Nat) (h : CInv d s) (hl : s.link = false) : CInv d { s with logGot := n } := by
  obtain ⟨h1, h2, h3, h4, h5, h6, h7, h8, h9, h10, h11, h12, h13, h15, h14⟩ := h
  constructor <;> simp only <;> first | assumption | (intro hx; rw [hl] at hx; cases hx)

theorem actNow_link_false (a : Act) (s : S) (hl : s.link = true) (hd : s.dead = false) : (actNow a s).1.link = false := by
  cases a
  · simp [actNow, closeLink, andThen, pureS, disconnectedCall, emit]
  · simp only [actNow, hl, hd, linkErrorCb_eq]
    cases s.st <;> simp

theorem popAct_core (d : Dev) (a : Act) (s : S) (p : Pkt) (rest : List Pkt) (h : CInv d s) (hl : s.link = true)
    (hd : s.dead = false) (hq : s.inq = p :: rest) :
    CInv d (popInitial s rest >>> actNow a).1 ∧
    ((popInitial s rest >>> actNow a).2, phase (popInitial s rest >>> actNow a).1) ∈
      seqShapes (popShapes (phase s)) (actShapes a) := by
  obtain ⟨h1, h2, h3, h4, h5, h6, h7, h8, h9, h10, h11, h12, h13, h15, h14⟩ := h
  have h2' := h2 hl hd
  obtain ⟨st, link, initCb, inq, armed, stage, upd, exts, parToc, vals, isUpdated, connTs, logGot, extGot, dead, fa, ff, fu, fe, cl, fx⟩ := s
  obtain ⟨q, locked, pat⟩ := upd
  simp only at *
  subst hl hd hq h9 h11
  rcases h2' with ⟨x, y, z⟩ | ⟨x, y⟩
  · subst x y z
    cases a <;> cases armed <;>
      simp [popInitial, actNow, closeLink, send, linkErrorCb_eq, disconnectedCall, emit, andThen, pureS, seqShapes, popShapes,
        actShapes, shapes, phase, E, L] <;>
      cinv_tac
  · subst x y
    by_cases hu : stage = .up <;> cases isUpdated <;> cases a <;> cases armed <;>
      simp [popInitial, actNow, closeLink, send, linkErrorCb_eq, disconnectedCall, emit, andThen, pureS, seqShapes, popShapes,
        actShapes, shapes, phase, E, L, hu] <;>
      cinv_tac

theorem lateAct_core (d : Dev) (a : Act) (s : S) (p : Pkt) (rest : List Pkt) (h : CInv d s) (hl : s.link = true)
    (hd : s.dead = false) (hq : s.inq = p :: rest) (hi : s.initCb = true) :
    CInv d (actNow a { s with inq := rest }).1 ∧
    ((actNow a { s with inq := rest }).2, phase (actNow a { s with inq := rest }).1) ∈
      seqShapes [([], phase s)] (actShapes a) := by
  obtain ⟨h1, h2, h3, h4, h5, h6, h7, h8, h9, h10, h11, h12, h13, h15, h14⟩ := h
  have h2' := h2 hl hd
  obtain ⟨st, link, initCb, inq, armed, stage, upd, exts, parToc, vals, isUpdated, connTs, logGot, extGot, dead, fa, ff, fu, fe, cl, fx⟩ := s
  obtain ⟨q, locked, pat⟩ := upd
  simp only at *
  subst hl hd hq h9 h11 h12 hi
  rcases h2' with ⟨x, y, z⟩ | ⟨x, y⟩
  · subst x z
    cases a <;> cases armed <;>
      simp [actNow, closeLink, send, linkErrorCb_eq, disconnectedCall, emit, andThen, pureS, seqShapes,
        actShapes, shapes, phase, E, L] <;>
      cinv_tac
  · cases y

theorem deliverAct_core (d : Dev) (pos : Pos) (a : Act) (s : S) (h : CInv d s) :
    CInv d (deliverAct d pos a s).1 ∧
    ((deliverAct d pos a s).2, phase (deliverAct d pos a s).1) ∈ shapesAct a (phase s) := by
  have hfa := h.fixedAbort
  cases hl : s.link
  · simp [deliverAct, hl, pureS, shapesAct]; exact h
  · cases hq : s.inq with
    | nil => simp [deliverAct, hl, hq, pureS, shapesAct]; exact h
    | cons p rest =>
      have hd : s.dead = false := by
        cases hx : s.dead
        · rfl
        · have := (h.deadSt hx).2.2.2; rw [hq] at this; cases this
      have hpop := popAct_core d a s p rest h hl hd hq
      have mem_l : ∀ x, x ∈ seqShapes (popShapes (phase s)) (actShapes a) → x ∈ shapesAct a (phase s) := by
        intro x hx; simp only [shapesAct, List.mem_cons, List.mem_append]; exact Or.inr (Or.inl (Or.inl hx))
      cases pos with
      | allPkt =>
        simp only [deliverAct, hl, hq, Bool.true_eq_false, not_false_eq_true, if_false, not_true_eq_false]
        split
        · rename_i hlate
          have hlt := lateAct_core d a s p rest h hl hd hq hlate.1
          simp only [hl, h.fixedFirst] at hlt
          simp only [h.fixedFirst, if_true, andThen, pureS, List.append_nil]
          refine ⟨hlt.1, ?_⟩
          simp only [shapesAct, List.mem_cons, List.mem_append]
          exact Or.inr (Or.inr hlt.2)
        · exact ⟨hpop.1, mem_l _ hpop.2⟩
      | port =>
        cases hdyn : p.isDynamic
        · -- static: the packet is handled completely first
          have hdel := deliver_core d s h
          have hact := act_core d a (deliver d s).1 hdel.1
          simp only [deliverAct, hl, hq, hdyn, Bool.true_eq_false, not_false_eq_true, if_false, not_true_eq_false, Bool.false_eq_true]
          refine ⟨hact.1, ?_⟩
          simp only [shapesAct, List.mem_cons, List.mem_append]
          refine Or.inr (Or.inl (Or.inr ?_))
          simp only [seqShapes, List.mem_flatMap, List.mem_map]
          exact ⟨_, hdel.2.1, _, hact.2, by simp [andThen]⟩
        · simp only [deliverAct, hl, hq, hdyn, hfa, Bool.true_eq_false, not_false_eq_true, if_false, not_true_eq_false, if_true,
            false_and, andThen, pureS, List.append_nil]
          have hdown : (popInitial s rest >>> actNow a).1.link = false := by
            have h1 : (popInitial s rest).1.link = true := by simp only [popInitial, emit, pureS]; split <;> exact hl
            have h2 : (popInitial s rest).1.dead = false := by simp only [popInitial, emit, pureS]; split <;> exact hd
            exact actNow_link_false a _ h1 h2
          split
          · exact ⟨cinv_logGot d _ _ hpop.1 hdown, mem_l _ hpop.2⟩
          · exact ⟨hpop.1, mem_l _ hpop.2⟩

/-! ## Part B: the wrapper and the specification automaton, by exhaustive evaluation over the finite
wrapper state × phase × output shape -/

def wOk (w : Wrap) (ph : Ph) : Bool :=
  w.fixD1 && (!w.waitOpen || (w.cbReg && w.cev && !w.cset && !w.isOpen && (ph == .req || ph == .est))) &&
  (w.waitOpen || (!w.cev && !w.cset)) &&
  !w.waitClose && !w.dev && !w.dset &&
  (!w.isOpen || (w.cbReg && ph.isConnected)) &&
  (!w.cbReg || (ph.linked && (w.waitOpen || w.isOpen)))

def absW (ph : Ph) (w : Wrap) : W := { ph := ph, expect := [], sync := w.cbReg, syncWait := w.waitOpen }

/-- the core part of an operation (what happens on the `Crazyflie` object) -/
def coreOf (d : Dev) (c : S) (isOpen : Bool) : Op → R
  | .open f => openLink f c
  | .deliver => deliver d c
  | .work => work c
  | .err => linkErrorCb c
  | .arm => ({ c with armed := true }, [])
  | .close => closeLink c
  | .deliverAct pos a => deliverAct d pos a c
  | .inject inj => injectPkt d inj c
  | .syncOpen f => if isOpen then (c, []) else openLink f c
  | .syncClose => if isOpen then closeLink c else (c, [])

/-- the wrapper part, given the outputs of the core part -/
def stepW (w : Wrap) (op : Op) (outs : List Out) : Wrap × List Out :=
  match op with
  | .syncOpen _ =>
      if w.isOpen then (w, [.openAlreadyOpen])
      else
        let w1 := wrapOuts { w with cbReg := true, cev := true, cset := false } outs
        let x := settle { w1 with waitOpen := true }
        (x.1, outs ++ x.2)
  | .syncClose =>
      if w.isOpen then
        let w1 := wrapOuts { w with dev := true, dset := false } outs
        let x := settle { w1 with waitClose := true }
        (x.1, outs ++ x.2)
      else (w, [.closeReturned])
  | .arm => (w, [])
  | _ =>
      let x := settle (wrapOuts w outs)
      (x.1, outs ++ x.2)

theorem step_eq (d : Dev) (s : Sys) (op : Op) :
    step d s op = ({ c := (coreOf d s.c s.w.isOpen op).1, w := (stepW s.w op (coreOf d s.c s.w.isOpen op).2).1 },
                   (stepW s.w op (coreOf d s.c s.w.isOpen op).2).2) := by
  cases op <;> simp only [step, lift, coreOf, stepW, wrapOuts, List.foldl_nil, List.nil_append]
  · cases s.w.isOpen <;> simp
  · cases s.w.isOpen <;> simp

/-- possible (outputs, next phase) of the core part of each operation -/
def shapesOp (op : Op) (ph : Ph) (isOpen : Bool) : List (List Out × Ph) :=
  match op with
  | .open f => shapes (ckOf f) ph
  | .deliver => shapes .deliver ph
  | .work => shapes .work ph
  | .err => shapes .err ph
  | .arm => [([], ph)]
  | .close => shapes .close ph
  | .deliverAct _ a => shapesAct a ph
  | .inject _ => shapes .inject ph
  | .syncOpen f => if isOpen then [([], ph)] else shapes (ckOf f) ph
  | .syncClose => if isOpen then shapes .close ph else [([], ph)]

def allowedW (w : Wrap) (ph : Ph) : Op → Bool
  | .open _ => !ph.linked && !w.waitOpen && !w.waitClose
  | .syncOpen _ => (!ph.linked || w.isOpen) && !w.waitOpen && !w.waitClose
  | .syncClose => !w.waitOpen && !w.waitClose
  | .err => ph.linked
  | .arm => ph.linked
  | .close => !w.waitClose
  | .deliver => true
  | .work => true
  | .deliverAct _ _ => true
  | .inject _ => true

/-- one operation: the wrapper invariant is kept and the specification automaton accepts the outputs, moving
from the abstraction of the old state to the abstraction of the new one -/
def checkOp (w : Wrap) (ph : Ph) (op : Op) : Bool :=
  (shapesOp op ph w.isOpen).all fun sh =>
    let x := stepW w op sh.1
    wOk x.1 sh.2 && ((wfOp (absW ph w) op).bind (wfOuts · x.2) == some (absW sh.2 x.1))

set_option maxRecDepth 100000 in
theorem check_all (a b c e f g h i j : Bool) (ph : Ph) (op : Op) :
    wOk ⟨a, b, c, e, f, g, h, i, j⟩ ph = true → allowedW ⟨a, b, c, e, f, g, h, i, j⟩ ph op = true →
      checkOp ⟨a, b, c, e, f, g, h, i, j⟩ ph op = true := by
  cases op with
  | deliverAct pos act => cases pos <;> cases act <;> cases ph <;> revert a b c e f g h i j <;> decide
  | «open» dv => cases dv <;> cases ph <;> revert a b c e f g h i j <;> decide
  | syncOpen dv => cases dv <;> cases ph <;> revert a b c e f g h i j <;> decide
  | inject inj =>
    -- nothing in the check depends on which packet is injected
    intro h1 h2
    have key : ∀ (a b c e f g h i j : Bool) (ph : Ph), wOk ⟨a, b, c, e, f, g, h, i, j⟩ ph = true →
        checkOp ⟨a, b, c, e, f, g, h, i, j⟩ ph (.inject (.upd 0)) = true := by
      intro a b c e f g h i j ph; cases ph <;> revert a b c e f g h i j <;> decide
    exact key a b c e f g h i j ph h1
  | _ => cases ph <;> revert a b c e f g h i j <;> decide


/-! ## Part C: gluing the core invariant and the finite check -/

structure SInv (d : Dev) (s : Sys) : Prop where
  core : CInv d s.c
  wrap : wOk s.w (phase s.c) = true

theorem sinv_init (d : Dev) : SInv d Sys.init := ⟨cinv_init d, by decide⟩

/-- the phase is `idle` exactly when there is no live link -/
theorem phase_linked {d : Dev} {c : S} (h : CInv d c) : (phase c).linked = (c.link && !c.dead) := by
  cases hl : c.link
  · simp [phase, hl, Ph.linked]
  · cases hd : c.dead
    · rcases h.linkSt hl hd with ⟨a, _, _⟩ | ⟨a, _⟩ <;> simp only [phase, hl, a, if_true]
      · rfl
      · split
        · split <;> rfl
        · rfl
    · obtain ⟨_, hst, _, _⟩ := h.deadSt hd
      simp [phase, hl, hst, Ph.linked]

theorem allowed_abs {d : Dev} {s : Sys} (h : SInv d s) (op : Op) (ha : allowed d s op = true) :
    allowedW s.w (phase s.c) op = true := by
  have hp := phase_linked h.core
  cases op <;> simp only [allowed, allowedW, hp] at * <;> simp_all

theorem shapes_no_conn (k : CK) (ph : Ph) (hk : k ≠ .deliver ∧ k ≠ .inject) :
    ∀ sh ∈ shapes k ph, Out.cb .connected ∉ sh.1 ∧ Out.cb .fully ∉ sh.1 := by
  obtain ⟨hk1, hk2⟩ := hk
  cases k <;> cases ph <;> first | contradiction | decide

/-- operations in which an in-callback action follows the packet handling (the state the callbacks of the packet saw
is then not the final state of the operation) -/
def Op.isAct : Op → Bool
  | .deliverAct _ _ => true
  | _ => false

theorem core_shape (d : Dev) (s : Sys) (op : Op) (h : SInv d s) (ha : allowed d s op = true) :
    CInv d (coreOf d s.c s.w.isOpen op).1 ∧
    ((coreOf d s.c s.w.isOpen op).2, phase (coreOf d s.c s.w.isOpen op).1) ∈ shapesOp op (phase s.c) s.w.isOpen ∧
    (op.isAct = false → .cb .connected ∈ (coreOf d s.c s.w.isOpen op).2 → complete d (coreOf d s.c s.w.isOpen op).1) ∧
    (op.isAct = false → .cb .fully ∈ (coreOf d s.c s.w.isOpen op).2 → allVals d (coreOf d s.c s.w.isOpen op).1) := by
  suffices hx : CInv d (coreOf d s.c s.w.isOpen op).1 ∧
      ((coreOf d s.c s.w.isOpen op).2, phase (coreOf d s.c s.w.isOpen op).1) ∈ shapesOp op (phase s.c) s.w.isOpen ∧
      (op.isAct = true ∨ ((.cb .connected ∈ (coreOf d s.c s.w.isOpen op).2 → complete d (coreOf d s.c s.w.isOpen op).1) ∧
        (.cb .fully ∈ (coreOf d s.c s.w.isOpen op).2 → allVals d (coreOf d s.c s.w.isOpen op).1))) by
    refine ⟨hx.1, hx.2.1, ?_, ?_⟩ <;> intro hna <;> rcases hx.2.2 with hy | hy
    · rw [hy] at hna; cases hna
    · exact hy.1
    · rw [hy] at hna; cases hna
    · exact hy.2
  have hc := h.core
  have noc : ∀ (k : CK) (r : R), (k ≠ .deliver ∧ k ≠ .inject) → (r.2, phase r.1) ∈ shapes k (phase s.c) →
      (.cb .connected ∈ r.2 → complete d r.1) ∧ (.cb .fully ∈ r.2 → allVals d r.1) := by
    intro k r hk hm
    have := shapes_no_conn k (phase s.c) hk _ hm
    exact ⟨fun x => absurd x this.1, fun x => absurd x this.2⟩
  cases hact : op.isAct
  case true =>
    cases op <;> simp only [Op.isAct] at hact <;> try cases hact
    rename_i pos a
    have := deliverAct_core d pos a s.c hc
    exact ⟨this.1, this.2, Or.inl rfl⟩
  have key : CInv d (coreOf d s.c s.w.isOpen op).1 ∧
      ((coreOf d s.c s.w.isOpen op).2, phase (coreOf d s.c s.w.isOpen op).1) ∈ shapesOp op (phase s.c) s.w.isOpen ∧
      (.cb .connected ∈ (coreOf d s.c s.w.isOpen op).2 → complete d (coreOf d s.c s.w.isOpen op).1) ∧
      (.cb .fully ∈ (coreOf d s.c s.w.isOpen op).2 → allVals d (coreOf d s.c s.w.isOpen op).1) := by
    cases op with
    | «open» f =>
      have hl : s.c.link = false ∨ s.c.dead = true := by simp [allowed] at ha; exact ha.1
      have := open_core d s.c f hc hl
      refine ⟨this.1, this.2, ?_⟩
      exact noc _ _ (by cases f <;> simp [ckOf]) this.2
    | deliver => exact deliver_core d s.c hc
    | work =>
      have := work_core d s.c hc
      exact ⟨this.1, this.2.1, fun x => absurd x this.2.2.1, fun x => absurd x this.2.2.2⟩
    | err =>
      have hl : s.c.link = true ∧ s.c.dead = false := by simpa [allowed] using ha
      have := err_core d s.c hc hl.1 hl.2
      refine ⟨this.1, ?_, ?_⟩
      · simp only [coreOf, shapesOp, this.2.1]
        rcases this.2.2 with ⟨a, b⟩ | ⟨a, a', b⟩
        · rw [a, b]; simp [shapes]
        · rw [b]; revert a a'; cases phase s.c <;> simp [shapes]
      · have hm : ((linkErrorCb s.c).2, phase (linkErrorCb s.c).1) ∈ shapes .err (phase s.c) := by
          rw [this.2.1]
          rcases this.2.2 with ⟨a, b⟩ | ⟨a, a', b⟩
          · rw [a, b]; simp [shapes]
          · rw [b]; revert a a'; cases phase s.c <;> simp [shapes]
        exact noc .err _ (by simp) hm
    | arm =>
      refine ⟨?_, ?_, by simp [coreOf], by simp [coreOf]⟩
      · obtain ⟨h1, h2, h3, h4, h5, h6, h7, h8, h9, h10, h11, h12, h13, h15, h14⟩ := hc
        constructor <;> simp only [coreOf] <;> first | assumption | (intro hl; have := h3 hl; simpa [stageOk, updOk, extOk] using this)
      · simp only [coreOf, shapesOp, List.mem_singleton]; rfl
    | close =>
      have := close_core d s.c hc
      exact ⟨this.1, this.2, noc .close _ (by simp) this.2⟩
    | syncOpen f =>
      cases ho : s.w.isOpen
      · have hl : s.c.link = false ∨ s.c.dead = true := by simp [allowed, ho] at ha; exact ha.1
        have := open_core d s.c f hc hl
        simp only [coreOf, shapesOp, ho, Bool.false_eq_true, if_false]
        exact ⟨this.1, this.2, noc _ _ (by cases f <;> simp [ckOf]) this.2⟩
      · simp only [coreOf, shapesOp, if_true]
        exact ⟨hc, by simp, by simp, by simp⟩
    | syncClose =>
      cases ho : s.w.isOpen
      · simp only [coreOf, shapesOp, Bool.false_eq_true, if_false]
        exact ⟨hc, by simp, by simp, by simp⟩
      · have := close_core d s.c hc
        simp only [coreOf, shapesOp, if_true]
        exact ⟨this.1, this.2, noc .close _ (by simp) this.2⟩
    | deliverAct pos a => simp [Op.isAct] at hact
    | inject inj =>
      have hdup : ∀ id, inj = .dupVal id → s.c.upd.pat ≠ some id := by
        intro id hid
        subst hid
        simp only [allowed, ne_eq, decide_eq_true_eq, Bool.and_eq_true, decide_not] at ha
        simpa using ha.2
      have := inject_core d inj s.c hc hdup
      simp only [coreOf, shapesOp]
      exact ⟨this.1, this.2.1, fun x => absurd x this.2.2.1, this.2.2.2⟩
  exact ⟨key.1, key.2.1, Or.inr ⟨key.2.2.1, key.2.2.2⟩⟩


theorem check_all' (w : Wrap) (ph : Ph) (op : Op) (h : wOk w ph = true) (ha : allowedW w ph op = true) :
    checkOp w ph op = true := by
  obtain ⟨a, b, c, e, f, g, h', i, j⟩ := w
  exact check_all a b c e f g h' i j ph op h ha

theorem step_sound (d : Dev) (s : Sys) (op : Op) (h : SInv d s) (ha : allowed d s op = true) :
    SInv d (step d s op).1 ∧
    (wfOp (absW (phase s.c) s.w) op).bind (wfOuts · (step d s op).2) =
      some (absW (phase (step d s op).1.c) (step d s op).1.w) := by
  have hcs := core_shape d s op h ha
  have hchk := check_all' s.w (phase s.c) op h.wrap (allowed_abs h op ha)
  simp only [checkOp, List.all_eq_true, Bool.and_eq_true, beq_iff_eq] at hchk
  have := hchk _ hcs.2.1
  rw [step_eq]
  exact ⟨⟨hcs.1, this.1⟩, this.2⟩

theorem run_sound (d : Dev) : ∀ (ops : List Op) (s : Sys), SInv d s → usage d s ops = true →
    SInv d (run d s ops).1 ∧
    wfRun (absW (phase s.c) s.w) (run d s ops).2 = some (absW (phase (run d s ops).1.c) (run d s ops).1.w) := by
  intro ops
  induction ops with
  | nil => intro s h _; exact ⟨h, rfl⟩
  | cons op ops ih =>
    intro s h hu
    simp only [usage, Bool.and_eq_true] at hu
    have hs := step_sound d s op h hu.1
    have := ih (step d s op).1 hs.1 hu.2
    refine ⟨this.1, ?_⟩
    simp only [run, wfRun]
    rw [hs.2]
    exact this.2

theorem run_append (d : Dev) (s : Sys) (a b : List Op) :
    run d s (a ++ b) = ((run d (run d s a).1 b).1, (run d s a).2 ++ (run d (run d s a).1 b).2) := by
  induction a generalizing s with
  | nil => simp [run]
  | cons o os ih => simp only [List.cons_append, run, ih, List.cons_append]

theorem usage_append (d : Dev) (s : Sys) (a b : List Op) :
    usage d s (a ++ b) = (usage d s a && usage d (run d s a).1 b) := by
  induction a generalizing s with
  | nil => simp [usage, run]
  | cons o os ih => simp only [List.cons_append, usage, run, ih, Bool.and_assoc]


/-- the wrapper only adds return/raise markers: a Caller call in the outputs comes from the core part -/
theorem stepW_cb_mem (w : Wrap) (op : Op) (outs : List Out) (e : Ev) (h : Out.cb e ∈ (stepW w op outs).2) :
    Out.cb e ∈ outs := by
  have hsettle : ∀ w' : Wrap, Out.cb e ∉ (settle w').2 := by
    intro w'
    simp only [settle]
    split
    · split <;> simp
    · split <;> simp
  cases op <;> simp only [stepW] at h
  case syncOpen f =>
    split at h
    · simp at h
    · rcases List.mem_append.mp h with h | h
      · exact h
      · exact absurd h (hsettle _)
  case syncClose =>
    split at h
    · rcases List.mem_append.mp h with h | h
      · exact h
      · exact absurd h (hsettle _)
    · simp at h
  case arm => simp at h
  all_goals (
    rcases List.mem_append.mp h with h | h
    · exact h
    · exact absurd h (hsettle _))


theorem wOk_wait (w : Wrap) (ph : Ph) (h : wOk w ph = true) :
    (w.waitOpen = true → ph = .req ∨ ph = .est) ∧ w.waitClose = false := by
  revert h
  obtain ⟨a, b, c, e, f, g, h, i, j⟩ := w
  cases ph <;> revert a b c e f g h i j <;> decide

theorem wOk_idle (w : Wrap) (h : wOk w .idle = true) : w = { fixD1 := true } := by
  revert h
  obtain ⟨a, b, c, e, f, g, h, i, j⟩ := w
  revert a b c e f g h i j; decide

/-- re-opening after any history = opening a fresh object, up to the inert `_lock_pattern` -/
theorem reopen_eq (d : Dev) (c : S) (h : CInv d c) (hl : c.link = false) (ha : c.armed = false) :
    (openLink .ok c).1 = { (openLink .ok S.init).1 with upd := { q := [], locked := false, pat := c.upd.pat },
                                                          cbLate := c.cbLate || !c.initCb } ∧
    (openLink .ok c).2 = (openLink .ok S.init).2 := by
  obtain ⟨h1, h2, h3, h4, h5, h6, h7, h8, h9, h10, h11, h12, h13, h15, h14⟩ := h
  obtain ⟨x1, x2, x3, x4, x5⟩ := h1 hl
  have hd : c.dead = false := by
    cases hc : c.dead
    · rfl
    · have := (h10 hc).1; rw [hl] at this; cases this
  have hts : c.connTs = false := by
    cases hc : c.connTs
    · rfl
    · have := (h8 hc).1; rw [hl] at this; cases this
  obtain ⟨st, link, initCb, inq, armed, stage, upd, exts, parToc, vals, isUpdated, connTs, logGot, extGot, dead, fa, ff, fu, fe, cl, fx⟩ := c
  obtain ⟨q, locked, pat⟩ := upd
  simp only at *
  subst hl hd ha x1 x2 x3 x4 x5 hts h9 h11 h12 h13 h15
  simp [openLink, send, emit, andThen, pureS, S.init]
  decide


/-- the in-callback action never signals `connected` or `fully_connected` -/
theorem actNow_no_conn (a : Act) (s : S) : Out.cb .connected ∉ (actNow a s).2 ∧ Out.cb .fully ∉ (actNow a s).2 := by
  cases a <;> simp only [actNow, closeLink, send, andThen, pureS, disconnectedCall, emit]
  · cases s.link <;> cases s.dead <;> cases s.armed <;> simp [linkErrorCb_eq] <;> cases s.st <;> simp
  · split
    · rw [linkErrorCb_eq]; cases s.st <;> simp
    · simp

/-- `connected` / `fully_connected` in an operation with an in-callback action was signalled by the normal handling
of the packet (repaired code: an aborted fetcher does not finish) -/
theorem deliverAct_cb (d : Dev) (pos : Pos) (a : Act) (s : S) (hf : s.fixAbort = true) (hf2 : s.fixFirst = true) (e : Ev)
    (he : e = .connected ∨ e = .fully) (h : Out.cb e ∈ (deliverAct d pos a s).2) : Out.cb e ∈ (deliver d s).2 := by
  have hact : ∀ s', Out.cb e ∉ (actNow a s').2 := by
    intro s'; rcases he with he | he <;> subst he
    · exact (actNow_no_conn a s').1
    · exact (actNow_no_conn a s').2
  have hpop : ∀ rest, Out.cb e ∉ (popInitial s rest).2 := by
    intro rest; simp only [popInitial, emit, pureS]; split <;> rcases he with he | he <;> subst he <;> simp
  simp only [deliverAct] at h
  split at h
  · simp [pureS] at h
  · split at h
    · simp [pureS] at h
    · rename_i p rest hq
      cases pos <;> simp only at h
      · split at h
        · simp only [hf2, if_true, andThen, pureS, List.append_nil] at h
          exact absurd h (hact _)
        · simp only [andThen, List.mem_append] at h
          rcases h with h | h
          · exact absurd h (hpop rest)
          · exact absurd h (hact _)
      · split at h
        · simp only [hf, not_true_eq_false, false_and, if_false, andThen, pureS, List.append_nil, List.mem_append] at h
          rcases h with h | h
          · exact absurd h (hpop rest)
          · exact absurd h (hact _)
        · simp only [andThen, List.mem_append] at h
          rcases h with h | h
          · exact h
          · exact absurd h (hact _)


/-- `connected_ts` is set only while a link is open and `connected` was signalled in the current attempt -/
theorem connTs_phase (d : Dev) (c : S) (h : CInv d c) (hts : c.connTs = true) :
    c.link = true ∧ (phase c).isConnected = true := by
  have hx := h.ts hts
  have hd : c.dead = false := by
    cases hy : c.dead
    · rfl
    · have := (h.deadSt hy).2.2.1; rw [hx.2] at this; cases this
  refine ⟨hx.1, ?_⟩
  rcases h.linkSt hx.1 hd with ⟨_, _, h3⟩ | ⟨h1, _⟩
  · rw [hx.2] at h3; cases h3
  · simp only [phase, hx.1, h1, hx.2, if_true]; split <;> rfl

end CfVerif.C02

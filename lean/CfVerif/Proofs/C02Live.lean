/-
Proofs/C02Live: progress of the connection set-up (layer M1): without faults every scheduling round (the dispatcher
handles a packet, then the first ready worker runs) strictly decreases an explicit potential until `connected`.
Core Lean only.
-/
import CfVerif.Proofs.C02
namespace CfVerif.C02

/-- one scheduling round without faults: the dispatcher handles the next packet, then the first ready worker runs -/
def pump (d : Dev) (c : S) : S := (work (deliver d c).1).1

def extPot (c : S) : Nat :=
  match c.exts with
  | e :: _ => 2 * e.count + (if e.locked then 0 else 1)
  | [] => 0

/-- an upper bound on the rounds still needed until `connected` -/
def pot (d : Dev) (c : S) : Nat :=
  let pExt := 2 * d.extIds.length + 2
  let pPar := d.nPar + pExt + 1
  let pMem := d.nMem + pPar + 1
  let pLog := d.nLog + pMem + 1
  match c.stage with
  | .idle => 0
  | .src => pLog + 3
  | .ver => pLog + 2
  | .logReset => pLog + 1
  | .logInfo => pLog
  | .logItem i => (d.nLog - i) + pMem
  | .memCount => pMem
  | .memInfo j => (d.nMem - j) + pPar
  | .parInfo => pPar
  | .parItem i => (d.nPar - i) + pExt
  | .ext => extPot c
  | .up => 0

theorem pump_chain (d : Dev) (s : S) (h : CInv d s) (hl : s.link = true) (hd : s.dead = false) (ha : s.armed = false)
    (hne : s.stage ≠ .ext) (hnu : s.stage ≠ .up) :
    CInv d (pump d s) ∧ (pump d s).link = true ∧ (pump d s).dead = false ∧ (pump d s).armed = false ∧
      ((pump d s).stage = .up ∨ pot d (pump d s) < pot d s) := by
  obtain ⟨h1, h2, h3, h4, h5, h6, h7, h8, h9, h10, h11, h12, h13, h15, h14⟩ := h
  have h2' := h2 hl hd
  have h3' := h3 hl hd
  have h4' := h4 hne
  have h5' := h5 hnu
  have h7' := h7 hl ⟨hne, hnu⟩
  obtain ⟨st, link, initCb, inq, armed, stage, upd, exts, parToc, vals, isUpdated, connTs, logGot, extGot, dead, fa, ff, fu, fe, cl, fx⟩ := s
  obtain ⟨q, locked, pat⟩ := upd
  simp only at *
  subst hl hd ha h4' h7' h9
  obtain ⟨hq, hlk⟩ := h5'
  subst hq hlk
  have hext := extIds_length_le d
  have hext0 : d.nPar = 0 → d.extIds = [] := fun h => List.length_eq_zero_iff.mp (by omega)
  have hpos : d.extIds ≠ [] → 1 ≤ d.extIds.length := fun h => List.length_pos_iff.mpr h
  cases stage <;> simp only [stageOk] at h3' <;> try contradiction
  all_goals (
    obtain ⟨hinq, hrest⟩ := h3'
    subst hinq
    rcases h2' with ⟨a, b, c⟩ | ⟨a, b⟩ <;> (try cases c) <;> subst a b <;>
    simp only [pump, deliver, chainPacket, startLog, startMems, startParamToc, paramTocDone, paramTocUpdated, send,
      emit, andThen, pureS, Bool.false_eq_true, if_false, if_true, not_true_eq_false, not_false_eq_true,
      List.append_nil, List.nil_append, Option.toList, ne_eq, not_true, decide_true, decide_false] <;>
    (repeat' split) <;>
    simp [work, workExt, workUpdater, send, pureS, pot, extPot, List.isEmpty_iff] at * <;>
    (first | omega | (refine ⟨?_, ?_⟩ <;> first | omega | cinv_tac) | cinv_tac))

theorem pump_ext (d : Dev) (s : S) (h : CInv d s) (hl : s.link = true) (hd : s.dead = false) (ha : s.armed = false) (hst : s.stage = .ext) :
    CInv d (pump d s) ∧ (pump d s).link = true ∧ (pump d s).dead = false ∧ (pump d s).armed = false ∧
      ((pump d s).stage = .up ∨ pot d (pump d s) < pot d s) := by
  obtain ⟨h1, h2, h3, h4, h5, h6, h7, h8, h9, h10, h11, h12, h13, h15, h14⟩ := h
  have h2' := h2 hl hd
  have h3' := h3 hl hd
  have h5' := h5 (by simp [hst])
  have h6' := h6 hl (by simp [hst])
  obtain ⟨st, link, initCb, inq, armed, stage, upd, exts, parToc, vals, isUpdated, connTs, logGot, extGot, dead, fa, ff, fu, fe, cl, fx⟩ := s
  obtain ⟨q, locked, pat⟩ := upd
  simp only at *
  subst hl hd ha hst h6' h9
  obtain ⟨hq, hlk⟩ := h5'
  subst hq hlk
  simp only [reduceCtorEq, and_false, false_or] at h2'
  obtain ⟨hs, hcb⟩ := h2'
  subst hs hcb
  simp only [stageOk] at h3'
  obtain ⟨hlog, hpar, e, he, hc1, hc2, hc3, hc4, hc5⟩ := h3'
  obtain ⟨eq, elocked, ereq, ecount⟩ := e
  simp only at *
  subst he
  cases elocked
  · obtain ⟨hr, hi⟩ := hc5 rfl
    subst hr hi
    cases eq with
    | nil => simp at hc2; omega
    | cons id eq =>
      simp [pump, deliver, work, workExt, send, pureS, pot, extPot]
      cinv_tac
  · obtain ⟨id, hr, hi⟩ := hc4 rfl
    subst hr hi
    by_cases hlast : ecount = 1
    · subst hlast
      simp [pump, deliver, extPacket, extAll, extOne, paramTocUpdated, emit, andThen, pureS, work, workExt, workUpdater,
        send, pot, extPot]
      by_cases hn0 : d.nPar = 0
      · simp [hn0]; cinv_tac
      · obtain ⟨m, hm⟩ := Nat.exists_eq_succ_of_ne_zero hn0
        simp [hm, List.range_succ_eq_map]
        cinv_tac
    · cases eq with
      | nil => simp at hc2; omega
      | cons id2 eq =>
        simp [pump, deliver, extPacket, extAll, extOne, emit, andThen, pureS, hlast, work, workExt, send, pot, extPot]
        refine ⟨?_, by omega⟩
        cinv_tac


def pumpN (d : Dev) : Nat → S → S
  | 0, c => c
  | n + 1, c => pumpN d n (pump d c)

theorem pump_progress (d : Dev) (s : S) (h : CInv d s) (hl : s.link = true) (hd : s.dead = false) (ha : s.armed = false)
    (hnu : s.stage ≠ .up) :
    CInv d (pump d s) ∧ (pump d s).link = true ∧ (pump d s).dead = false ∧ (pump d s).armed = false ∧
      ((pump d s).stage = .up ∨ pot d (pump d s) < pot d s) := by
  by_cases he : s.stage = .ext
  · exact pump_ext d s h hl hd ha he
  · exact pump_chain d s h hl hd ha he hnu

/-- from every fault-free linked state, at most `pot` rounds lead to the connected stage -/
theorem pumpN_reaches_up (d : Dev) : ∀ (k : Nat) (s : S), pot d s ≤ k → CInv d s → s.link = true → s.dead = false →
    s.armed = false →
    ∃ n, n ≤ k + 1 ∧ CInv d (pumpN d n s) ∧ (pumpN d n s).link = true ∧ (pumpN d n s).dead = false ∧
      (pumpN d n s).stage = .up := by
  intro k
  induction k with
  | zero =>
    intro s hk h hl hd ha
    by_cases hu : s.stage = .up
    · exact ⟨0, by omega, h, hl, hd, hu⟩
    · have hp := pump_progress d s h hl hd ha hu
      rcases hp.2.2.2.2 with hup | hlt
      · exact ⟨1, by omega, hp.1, hp.2.1, hp.2.2.1, hup⟩
      · omega
  | succ k ih =>
    intro s hk h hl hd ha
    by_cases hu : s.stage = .up
    · exact ⟨0, by omega, h, hl, hd, hu⟩
    · have hp := pump_progress d s h hl hd ha hu
      rcases hp.2.2.2.2 with hup | hlt
      · exact ⟨1, by omega, hp.1, hp.2.1, hp.2.2.1, hup⟩
      · obtain ⟨n, hn, hc, hl', hd', hs⟩ := ih (pump d s) (by omega) hp.1 hp.2.1 hp.2.2.1 hp.2.2.2.1
        exact ⟨n + 1, by omega, hc, hl', hd', hs⟩

/-- the operations of `n` fault-free scheduling rounds -/
def pumpOps : Nat → List Op
  | 0 => []
  | n + 1 => .deliver :: .work :: pumpOps n

theorem usage_pumpOps (d : Dev) : ∀ (n : Nat) (s : Sys), usage d s (pumpOps n) = true := by
  intro n
  induction n with
  | zero => intro s; rfl
  | succ n ih => intro s; simp only [pumpOps, usage, allowed, Bool.true_and]; exact ih _

theorem run_pumpOps_core (d : Dev) : ∀ (n : Nat) (s : Sys), (run d s (pumpOps n)).1.c = pumpN d n s.c := by
  intro n
  induction n with
  | zero => intro s; rfl
  | succ n ih =>
    intro s
    simp only [pumpOps, run, pumpN]
    rw [ih]
    simp only [step_eq, coreOf, pump]

end CfVerif.C02

/-
Proofs/C02Sync: soundness of the finite check of layer M2 (`M2.check`) with respect to the interleaving semantics
of Base/Sched: if the check evaluates to `true`, then after EVERY schedule no thread has died and the quiescent
disconnected state is still reachable (and round-robin scheduling reaches it within the step bound).  Core Lean only.
-/
import CfVerif.Model.C02Sync
namespace CfVerif.C02.M2
open CfVerif.Sched

theorem memK_sound {k : Nat} {c : Cfg} {R : List (Nat × Cfg)} (h : memK k c R = true) : (k, c) ∈ R := by
  induction R with
  | nil => simp [memK] at h
  | cons x rest ih =>
    obtain ⟨k', c'⟩ := x
    simp only [memK, Bool.or_eq_true, Bool.and_eq_true, beq_iff_eq] at h
    rcases h with ⟨hk, hc⟩ | h
    · subst hk hc; exact List.mem_cons_self
    · exact List.mem_cons_of_mem _ (ih h)

theorem mem_succs {P : Progs} {c c' : Cfg} {t : Nat} (ht : t < nThreads) (h : stepT P c t = some c') :
    c' ∈ succs P c := by
  simp only [succs, List.mem_filterMap]
  exact ⟨t, by simp [threads, ht], h⟩

/-- threads outside the model never step -/
theorem stepT_none_of_ge (P : Progs) (hP : P.code.length = nThreads) (c : Cfg) (t : Nat) (ht : nThreads ≤ t) :
    stepT P c t = none := by
  have : P.of t = [] := by
    simp only [Progs.of]
    rw [List.getD_eq_getElem?_getD, List.getElem?_eq_none (by omega)]; rfl
  simp [stepT, step1, this]

/-- a pair in the closed set with consistent key stays in the set under every step -/
theorem closed_step {P : Progs} (hP : P.code.length = nThreads) {R : List (Nat × Cfg)} (hc : closed P R = true)
    {c c' : Cfg} {t : Nat} (hm : (c.key, c) ∈ R) (hs : stepT P c t = some c') : (c'.key, c') ∈ R := by
  by_cases ht : t < nThreads
  · simp only [closed, List.all_eq_true] at hc
    exact memK_sound (hc _ hm _ (mem_succs ht hs))
  · rw [stepT_none_of_ge P hP c t (by omega)] at hs; cases hs

theorem drive_sound (P : Progs) : ∀ (n k : Nat) (c : Cfg), drive P n k c = true →
    ∃ sch c', run (machine P) c sch = some c' ∧ goal P c' = true := by
  intro n
  induction n with
  | zero => intro k c h; exact ⟨[], c, rfl, h⟩
  | succ n ih =>
    intro k c h
    simp only [drive, Bool.or_eq_true] at h
    rcases h with h | h
    · exact ⟨[], c, rfl, h⟩
    · cases hp : pickFrom P c k with
      | none => rw [hp] at h; cases h
      | some tc =>
        obtain ⟨t, c1⟩ := tc
        rw [hp] at h
        have hstep : stepT P c t = some c1 := by
          simp only [pickFrom, List.findSome?_eq_some_iff] at hp
          obtain ⟨_, a, _, _, ha, _⟩ := hp
          cases hs : stepT P c a with
          | none => simp [hs] at ha
          | some c2 => simp [hs] at ha; obtain ⟨h1, h2⟩ := ha; subst h1 h2; exact hs
        obtain ⟨sch, c', hr, hg⟩ := ih (t + 1) c1 h
        refine ⟨t :: sch, c', ?_, hg⟩
        show run (machine P) c (t :: sch) = some c'
        simp only [run, machine, hstep]
        exact hr

/-- **soundness of the finite check** -/
theorem check_sound (P : Progs) (hP : P.code.length = nThreads) (fuel n : Nat) (h : checkP P fuel n = true) :
    ∀ (sch : List Nat) (c : Cfg), run (machine P) Cfg.init sch = some c →
      noDeath c = true ∧ drive P n 0 c = true ∧ ∃ sch' c', run (machine P) c sch' = some c' ∧ goal P c' = true := by
  simp only [checkP, Bool.and_eq_true, List.all_eq_true] at h
  obtain ⟨⟨hinit, hclosed⟩, hall⟩ := h
  have hinv : ∀ (sch : List Nat) (c c' : Cfg), (c.key, c) ∈ reach P fuel → run (machine P) c sch = some c' →
      (c'.key, c') ∈ reach P fuel :=
    run_invariant (machine P) (fun c => (c.key, c) ∈ reach P fuel)
      (fun c t c' hm hs => closed_step hP hclosed hm hs)
  intro sch c hr
  have hm := hinv sch _ _ (memK_sound hinit) hr
  have := hall _ hm
  exact ⟨this.1, this.2, drive_sound P n 0 c this.2⟩

theorem progs_length (fx : Fix) (sc : Scenario) : (progs fx sc).code.length = nThreads := by
  simp [progs, progs.threads]

end CfVerif.C02.M2

/- Proofs/C02SyncA: kernel evaluation of the finite M2 check for some scenarios (split for parallel builds). -/
import CfVerif.Proofs.C02Sync
namespace CfVerif.C02.M2

theorem chk_A0 : check Fix.ofSource ⟨.upd, .idle, []⟩ 4000 200 = true := by decide +kernel
theorem chk_A1 : check Fix.ofSource ⟨.disp, .idle, []⟩ 4000 200 = true := by decide +kernel
theorem chk_A2 : check Fix.ofSource ⟨.timer, .idle, []⟩ 4000 200 = true := by decide +kernel
theorem chk_A3 : check Fix.ofSource ⟨.userMem, .memWrite, []⟩ 4000 200 = true := by decide +kernel
theorem chk_A4 : check Fix.ofSource ⟨.ping, .idle, [tUpd]⟩ 4000 200 = true := by decide +kernel

end CfVerif.C02.M2

/- Proofs/C02SyncB: kernel evaluation of the finite M2 check for some scenarios (split for parallel builds). -/
import CfVerif.Proofs.C02Sync
namespace CfVerif.C02.M2

theorem chk_B0 : check Fix.ofSource ⟨.ping, .close, []⟩ 4000 200 = true := by decide +kernel
theorem chk_B1 : check Fix.ofSource ⟨.radio, .memWrite, []⟩ 4000 200 = true := by decide +kernel

end CfVerif.C02.M2

/-
Proofs/C03: helper lemmas for Props/C03 — element decoders against the firmware's item layout.
Core Lean only.
-/
import CfVerif.Base.StructLemmas
import CfVerif.Spec.C03
namespace CfVerif.C03
open CfVerif

/-! ## the type tables of the library agree with the firmware's (finite check over all 256 type bytes) -/

/-- for every log type byte the firmware defines: same C type and unpack format in `LogTocElement.types`,
and the access expression `data[0] & mask` is 0 -/
def logTableOk : Bool :=
  (List.range 256).all fun n =>
    match fwLogType n with
    | some (c, p) => (lookupLog n).map (fun r => (r.1, r.2.1)) == some (c, p) && (n &&& Gen.C03.logAccessMask) == 0
    | none => true

/-- for every parameter type byte whose low nibble the firmware defines: `types[metadata & mask]`, the
read-only flag -> access, the extended flag -/
def paramTableOk : Bool :=
  (List.range 256).all fun m =>
    match fwParamType (m % 16) with
    | some (c, p) =>
      lookupParam (m &&& Gen.C03.paramTypeMask) == some (c, p) &&
      (if m &&& Gen.C03.paramRoMask ≠ 0 then Gen.C03.paramRoAccess else Gen.C03.paramRwAccess) == (if m / 64 % 2 = 1 then 1 else 0) &&
      (decide (m &&& Gen.C03.paramExtendedMask ≠ 0)) == decide (m / 16 % 2 = 1)
    | none => true

theorem logTableOk_true : logTableOk = true := by decide +kernel
theorem paramTableOk_true : paramTableOk = true := by decide +kernel

theorem log_table (t : UInt8) (c p : String) (h : fwLogType t.toNat = some (c, p)) :
    (∃ sz, lookupLog t.toNat = some (c, p, sz)) ∧ t.toNat &&& Gen.C03.logAccessMask = 0 := by
  have hall := logTableOk_true
  unfold logTableOk at hall
  rw [List.all_eq_true] at hall
  have := hall t.toNat (List.mem_range.mpr t.toNat_lt)
  rw [h] at this
  simp only [Bool.and_eq_true, beq_iff_eq] at this
  obtain ⟨h1, h2⟩ := this
  refine ⟨?_, h2⟩
  cases hl : lookupLog t.toNat with
  | none => rw [hl] at h1; cases h1
  | some r =>
    obtain ⟨a, b, sz⟩ := r
    rw [hl] at h1
    simp only [Option.map_some, Option.some.injEq, Prod.mk.injEq] at h1
    exact ⟨sz, by rw [h1.1, h1.2]⟩

theorem param_table (t : UInt8) (c p : String) (h : fwParamType (t.toNat % 16) = some (c, p)) :
    lookupParam (t.toNat &&& Gen.C03.paramTypeMask) = some (c, p) ∧
    (if t.toNat &&& Gen.C03.paramRoMask ≠ 0 then Gen.C03.paramRoAccess else Gen.C03.paramRwAccess) = (if t.toNat / 64 % 2 = 1 then 1 else 0) ∧
    (decide (t.toNat &&& Gen.C03.paramExtendedMask ≠ 0)) = decide (t.toNat / 16 % 2 = 1) := by
  have hall := paramTableOk_true
  unfold paramTableOk at hall
  rw [List.all_eq_true] at hall
  have := hall t.toNat (List.mem_range.mpr t.toNat_lt)
  rw [h] at this
  simp only [Bool.and_eq_true, beq_iff_eq] at this
  exact ⟨this.1.1, this.1.2, this.2⟩

/-! ## NUL-terminated strings -/

theorem findNul_append (g r : Bytes) (hg : NulFree g) : findNul (g ++ 0 :: r) = some g.length := by
  induction g with
  | nil => simp [findNul]
  | cons b g ih =>
    have hb : b ≠ 0 := fun h => hg (by simp [h])
    have hg' : NulFree g := fun h => hg (List.mem_cons_of_mem _ h)
    simp [findNul, hb, ih hg']

theorem splitNul_ne_nil (b : Bytes) : splitNul b ≠ [] := by
  induction b with
  | nil => simp [splitNul]
  | cons x xs ih =>
    unfold splitNul
    split
    · simp
    · split <;> simp

theorem splitNul_cons (b : UInt8) (bs : Bytes) : splitNul (b :: bs) =
    match splitNul bs with
    | [] => [[]]
    | p :: ps => if b = 0 then [] :: p :: ps else (b :: p) :: ps := by
  conv => lhs; unfold splitNul
  cases splitNul bs <;> rfl

theorem splitNul_append (g r : Bytes) (hg : NulFree g) : splitNul (g ++ 0 :: r) = g :: splitNul r := by
  induction g with
  | nil =>
    show splitNul (0 :: r) = [] :: splitNul r
    rw [splitNul_cons]
    cases h : splitNul r with
    | nil => exact absurd h (splitNul_ne_nil r)
    | cons p ps => simp
  | cons b g ih =>
    have hb : b ≠ 0 := fun h => hg (by simp [h])
    have hg' : NulFree g := fun h => hg (List.mem_cons_of_mem _ h)
    show splitNul (b :: (g ++ 0 :: r)) = (b :: g) :: splitNul r
    rw [splitNul_cons, ih hg']
    simp [hb]

/-! ## the decoders invert the firmware's item layout -/

theorem decodeLog_item (i : Nat) (it : Item) (h : it.WfLog) :
    decodeLog i (itemBytes it) = .ok (specLog i it) := by
  obtain ⟨hg, _, ht⟩ := h
  cases hf : fwLogType it.typ.toNat with
  | none => rw [hf] at ht; cases ht
  | some cp =>
    obtain ⟨c, p⟩ := cp
    obtain ⟨⟨sz, hl⟩, hacc⟩ := log_table it.typ c p hf
    unfold decodeLog itemBytes
    simp only [findNul_append _ _ hg, hl, hacc]
    simp [specLog, hf]

theorem decodeParam_item (i : Nat) (it : Item) (h : it.WfParam) :
    decodeParam i (itemBytes it) = .ok (specParam i it) := by
  obtain ⟨hg, hn, ht⟩ := h
  cases hf : fwParamType (it.typ.toNat % 16) with
  | none => rw [hf] at ht; cases ht
  | some cp =>
    obtain ⟨c, p⟩ := cp
    obtain ⟨hl, hacc, hext⟩ := param_table it.typ c p hf
    have hs : splitNul (it.group ++ 0 :: (it.name ++ [0])) = [it.group, it.name, []] := by
      rw [splitNul_append _ _ hg, splitNul_append _ _ hn]; rfl
    unfold decodeParam itemBytes
    simp only [hs, hl, hacc]
    simp only [specParam, hf, Option.getD_some]
    rw [hext]

end CfVerif.C03

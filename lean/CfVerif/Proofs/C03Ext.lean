/-
Proofs/C03Ext: persistence marks — `Toc.markPersistent` as a map over the dictionary, and the closed system
_ExtendedTypeFetcher ‖ device ‖ adversarial network (Spec/C03 `XSys`).  Core Lean only.
-/
import CfVerif.Proofs.C03Toc
namespace CfVerif.C03
open CfVerif

def mark (i : Nat) (e : Elem) : Elem := if e.ident = i then { e with persistent := true } else e
def markIf (P : Nat → Bool) (e : Elem) : Elem := if P e.ident then { e with persistent := true } else e

@[simp] theorem mark_ident (i : Nat) (e : Elem) : (mark i e).ident = e.ident := by
  unfold mark; split <;> rfl
@[simp] theorem markIf_ident (P : Nat → Bool) (e : Elem) : (markIf P e).ident = e.ident := by
  unfold markIf; split <;> rfl

theorem mapElems_elems (f : Elem → Elem) (t : Toc) : (t.mapElems f).elems = t.elems.map f := by
  induction t with
  | nil => rfl
  | cons gm r ih =>
    simp only [Toc.mapElems, List.map_cons, Toc.elems, List.flatMap_cons, List.map_append, List.map_map] at ih ⊢
    rw [ih]
    rfl

theorem mapElems_comp (f g : Elem → Elem) (t : Toc) : (t.mapElems f).mapElems g = t.mapElems (g ∘ f) := by
  simp [Toc.mapElems, List.map_map, Function.comp_def]

theorem lookupKey_map {α β} (f : α → β) (l : List (Bytes × α)) (k : Bytes) :
    lookupKey (l.map (fun kv => (kv.1, f kv.2))) k = (lookupKey l k).map f := by
  induction l with
  | nil => rfl
  | cons kv r ih =>
    obtain ⟨k', v⟩ := kv
    simp only [List.map_cons, lookupKey]
    split
    · rfl
    · exact ih

theorem mapElems_get (f : Elem → Elem) (t : Toc) (g n : Bytes) : (t.mapElems f).get g n = (t.get g n).map f := by
  unfold Toc.get Toc.mapElems
  have h := lookupKey_map (fun (m : List (Bytes × Elem)) => m.map (fun ne => (ne.1, f ne.2))) t g
  rw [h]
  cases lookupKey t g with
  | none => rfl
  | some m => exact lookupKey_map f m n

theorem mapElems_id_of (f : Elem → Elem) (t : Toc) (h : ∀ e ∈ t.elems, f e = e) : t.mapElems f = t := by
  induction t with
  | nil => rfl
  | cons gm r ih =>
    obtain ⟨g, m⟩ := gm
    rw [elems_cons] at h
    have h1 : m.map (fun ne => (ne.1, f ne.2)) = m := by
      conv => rhs; rw [← List.map_id m]
      apply List.map_congr_left
      intro ne hne
      have := h ne.2 (List.mem_append_left _ (List.mem_map_of_mem hne))
      simp [this]
    have h2 := ih (fun e he => h e (List.mem_append_right _ he))
    simp only [Toc.mapElems, List.map_cons] at h2 ⊢
    rw [h1, h2]

theorem markNames_spec (m : List (Bytes × Elem)) (i : Nat) (hnd : (m.map (·.2.ident)).Nodup) :
    (markNames m i).1 = m.map (fun ne => (ne.1, mark i ne.2)) ∧
    ((markNames m i).2 = true ↔ ∃ ne ∈ m, ne.2.ident = i) := by
  induction m with
  | nil => simp [markNames]
  | cons ne r ih =>
    obtain ⟨k, e⟩ := ne
    simp only [List.map_cons, List.nodup_cons] at hnd
    unfold markNames
    by_cases h : e.ident = i
    · have hr : ∀ ne ∈ r, ne.2.ident ≠ i := by
        intro ne hne hh
        exact hnd.1 (by rw [h, ← hh]; exact List.mem_map_of_mem (f := fun x => x.2.ident) hne)
      have hrm : r.map (fun ne => (ne.1, mark i ne.2)) = r := by
        conv => rhs; rw [← List.map_id r]
        apply List.map_congr_left
        intro ne hne
        simp [mark, hr ne hne]
      simp only [h, beq_self_eq_true, if_true, List.map_cons, hrm]
      refine ⟨by simp [mark, h], ?_⟩
      simp only [true_iff]
      exact ⟨(k, e), List.mem_cons_self, h⟩
    · have hb : (e.ident == i) = false := by simp [h]
      obtain ⟨ih1, ih2⟩ := ih hnd.2
      simp only [hb, Bool.false_eq_true, if_false, List.map_cons]
      refine ⟨by rw [ih1]; simp [mark, h], ?_⟩
      rw [ih2]
      constructor
      · rintro ⟨ne, hne, hh⟩; exact ⟨ne, List.mem_cons_of_mem _ hne, hh⟩
      · rintro ⟨ne, hne, hh⟩
        rcases List.mem_cons.mp hne with h1 | h1
        · subst h1; exact absurd hh h
        · exact ⟨ne, h1, hh⟩

theorem markPersistent_eq (t : Toc) (i : Nat) (hnd : (t.elems.map (·.ident)).Nodup) :
    t.markPersistent i = t.mapElems (mark i) := by
  induction t with
  | nil => rfl
  | cons gm r ih =>
    obtain ⟨g, m⟩ := gm
    rw [elems_cons, List.map_append, List.nodup_append] at hnd
    obtain ⟨hm, hr, hdis⟩ := hnd
    have hm' : (m.map (·.2.ident)).Nodup := by simpa [List.map_map, Function.comp_def] using hm
    obtain ⟨h1, h2⟩ := markNames_spec m i hm'
    unfold Toc.markPersistent
    simp only []
    by_cases hb : (markNames m i).2 = true
    · obtain ⟨ne, hne, hh⟩ := h2.mp hb
      have hrid : Toc.mapElems (mark i) r = r := by
        apply mapElems_id_of
        intro e he
        have : e.ident ≠ i := by
          intro hei
          exact hdis ne.2.ident (List.mem_map_of_mem (List.mem_map_of_mem hne)) e.ident (List.mem_map_of_mem he) (by rw [hh, hei])
        simp [mark, this]
      simp only [hb, if_true, Toc.mapElems, List.map_cons] at hrid ⊢
      rw [h1, hrid]
    · have hm_id : m.map (fun ne => (ne.1, mark i ne.2)) = m := by
        conv => rhs; rw [← List.map_id m]
        apply List.map_congr_left
        intro ne hne
        have : ne.2.ident ≠ i := fun hh => hb (h2.mpr ⟨ne, hne, hh⟩)
        simp [mark, this]
      have := ih hr
      simp only [hb, Bool.false_eq_true, if_false, Toc.mapElems, List.map_cons] at this ⊢
      rw [this, hm_id]

/-! ## the extended-type exchange on the wire -/

theorem fmt_extReq : parseFmt! Gen.C03.extReqFmt = [.B, .H] := by decide
theorem fmt_extId : parseFmt! Gen.C03.extIdFmt = [.H] := by decide

/-- request for parameter `j`: `02 id16` -/
def xreq (j : Nat) : Bytes := [2, UInt8.ofNat (j % 256), UInt8.ofNat (j / 256)]
/-- the firmware's reply: `02 id16 ext` -/
def xrep (pers : Nat → Bool) (j : Nat) : Bytes := [2, UInt8.ofNat (j % 256), UInt8.ofNat (j / 256), if pers j then 1 else 0]

theorem leBytes2 (j : Nat) (hj : j < 65536) : leBytes 2 j = [UInt8.ofNat (j % 256), UInt8.ofNat (j / 256)] := by
  have : j / 256 % 256 = j / 256 := Nat.mod_eq_of_lt (by omega)
  simp [leBytes, this]

theorem extRequest_eq (j : Nat) (hj : j < 65536) : extRequest j = .ok (xreq j) := by
  unfold extRequest
  rw [fmt_extReq]
  have h3 : j / 256 % 256 = j / 256 := Nat.mod_eq_of_lt (by omega)
  simp [pack, packOne, packUnsigned, Gen.C03.miscGetExtendedType, hj, bind, Except.bind, pure, Except.pure,
    xreq, leBytes, h3]

theorem extReply_xreq (pers : Nat → Bool) (j : Nat) (hj : j < 65536) : extReply pers (xreq j) = some (xrep pers j) := by
  have h1 : (UInt8.ofNat (j % 256)).toNat + 256 * (UInt8.ofNat (j / 256)).toNat = j := by
    have : j / 256 % 256 = j / 256 := Nat.mod_eq_of_lt (by omega)
    simp [this]; omega
  have h2 : j % 256 + 256 * (j / 256 % 256) = j := by omega
  simp [extReply, xreq, xrep, h2]

theorem xrep_id (pers : Nat → Bool) (j : Nat) (hj : j < 65536) :
    unpack (parseFmt! Gen.C03.extIdFmt) (((xrep pers j).drop 1).take 2) = .ok [.int j] := by
  rw [fmt_extId]
  have : ((xrep pers j).drop 1).take 2 = leBytes 2 j := by rw [leBytes2 j hj]; rfl
  rw [this]
  exact @unpack_pack [.H] [.int j] (leBytes 2 j) (by rfl)
    (by simp [pack, packOne, packUnsigned, hj, bind, Except.bind, pure, Except.pure])

theorem xonPacket_inactive (x : ExtF) (chan : Nat) (data : Bytes) (h : x.active = false) : x.onPacket chan data = .ok x := by
  simp [ExtF.onPacket, h]

theorem xonPacket_other (x : ExtF) (chan : Nat) (data : Bytes) (h : chan ≠ 3) : x.onPacket chan data = .ok x := by
  have : chan ≠ Gen.C03.miscChannel := h
  simp [ExtF.onPacket, this]

theorem xonPacket_cmd2 (x : ExtF) (rest : Bytes) (ha : x.active = true) :
    x.onPacket 3 (2 :: rest) = x.onExtReply (2 :: rest) := by
  unfold ExtF.onPacket
  have h1 : ¬ (3 ≠ Gen.C03.miscChannel) := by decide
  have h2 : ¬ ((2 : UInt8).toNat ≠ Gen.C03.miscGetExtendedType) := by decide
  simp only [ha, not_true_eq_false, h1, if_false, h2]

/-- fix D29: a misc packet that is not an extended-type answer (value-updated notification, other misc replies,
an empty packet whose IndexError the dispatcher swallows) never changes the fetcher -/
theorem xonPacket_notext (x : ExtF) (data : Bytes) (h : data.head? ≠ some 2) :
    x.onPacket 3 data = .ok x ∨ ∃ e, x.onPacket 3 data = .error e := by
  cases ha : x.active
  · exact Or.inl (xonPacket_inactive x _ _ ha)
  · unfold ExtF.onPacket
    have h1 : ¬ (3 ≠ Gen.C03.miscChannel) := by decide
    simp only [ha, not_true_eq_false, h1, if_false]
    cases data with
    | nil => exact Or.inr ⟨_, rfl⟩
    | cons c rest =>
      have hc : c ≠ 2 := fun hh => h (by simp [hh])
      have : c.toNat ≠ Gen.C03.miscGetExtendedType := by
        intro hh
        apply hc
        have : c.toNat = (2 : UInt8).toNat := hh
        exact UInt8.toNat_inj.mp this
      left
      simp only [this, ne_eq, not_false_eq_true, if_true]

theorem xonPacket_stale (x : ExtF) (pers : Nat → Bool) (j : Nat) (hj : j < 65536) (h : x.reqParam ≠ some j) :
    x.onPacket 3 (xrep pers j) = .ok x := by
  cases ha : x.active
  · exact xonPacket_inactive x _ _ ha
  · show x.onPacket 3 (2 :: [UInt8.ofNat (j % 256), UInt8.ofNat (j / 256), if pers j then 1 else 0]) = _
    rw [xonPacket_cmd2 x _ ha]
    show x.onExtReply (xrep pers j) = _
    unfold ExtF.onExtReply
    simp only [xrep_id pers j hj]
    simp [h]

theorem xonPacket_awaited (x : ExtF) (pers : Nat → Bool) (j : Nat) (hj : j < 65536) (h : x.reqParam = some j)
    (ha : x.active = true) (e : Elem) (he : x.toc.byId j = some e) :
    x.onPacket 3 (xrep pers j) =
      .ok (if x.count - 1 = 0 then
             { x with toc := if pers j then x.toc.markPersistent j else x.toc, count := x.count - 1, done := x.done + 1,
                      queue := [], reqParam := none, locked := false, active := false }
           else { x with toc := if pers j then x.toc.markPersistent j else x.toc, count := x.count - 1,
                         reqParam := none, locked := false }) := by
  show x.onPacket 3 (2 :: [UInt8.ofNat (j % 256), UInt8.ofNat (j / 256), if pers j then 1 else 0]) = _
  rw [xonPacket_cmd2 x _ ha]
  show x.onExtReply (xrep pers j) = _
  unfold ExtF.onExtReply
  simp only [xrep_id pers j hj]
  have hd : (xrep pers j).drop 3 = [if pers j then 1 else 0] := rfl
  simp only [Int.toNat_natCast, h, if_true, hd]
  cases hp : pers j
  · have : ¬ ((0 : UInt8).toNat = Gen.C03.paramExtendedPersistent) := by decide
    simp only [Bool.false_eq_true, if_false, this]
    split <;> rfl
  · have : (1 : UInt8).toNat = Gen.C03.paramExtendedPersistent := by decide
    simp only [if_true, this, he]
    split <;> rfl

/-! ## the invariant of the extended-type phase -/

/-- parameters already marked after `k` answers -/
def Pk (E : List Nat) (pers : Nat → Bool) (k : Nat) (i : Nat) : Bool := (E.take k).contains i && pers i

inductive XInv (E : List Nat) (toc0 : Toc) (pers : Nat → Bool) : XSys → Prop
  | idle (s : XSys) (k : Nat) : k ≤ E.length → s.x.toc = toc0.mapElems (markIf (Pk E pers k)) →
      s.x.count = (E.length : Int) - (k : Int) → s.x.done = (if k = E.length then 1 else 0) →
      (∀ p ∈ s.pool, ∃ j ∈ E.take k, p = xrep pers j) →
      s.x.reqParam = none → s.x.locked = false → s.x.queue = E.drop k →
      s.x.active = decide (k ≠ E.length) → XInv E toc0 pers s
  | busy (s : XSys) (k : Nat) (hk : k < E.length) : s.x.toc = toc0.mapElems (markIf (Pk E pers k)) →
      s.x.count = (E.length : Int) - (k : Int) → s.x.done = 0 →
      (∀ p ∈ s.pool, ∃ j ∈ E.take (k + 1), p = xrep pers j) →
      s.x.reqParam = some E[k] → s.x.locked = true → s.x.queue = E.drop (k + 1) →
      xrep pers E[k] ∈ s.pool → s.x.active = true → XInv E toc0 pers s
  | aborted (s : XSys) : s.x.active = false → s.x.done = 0 → s.x.queue = [] → XInv E toc0 pers s

theorem Pk_succ (E : List Nat) (pers : Nat → Bool) (k : Nat) (hk : k < E.length) (i : Nat) :
    Pk E pers (k + 1) i = (Pk E pers k i || (i == E[k] && pers E[k])) := by
  unfold Pk
  rw [List.take_add_one, List.getElem?_eq_getElem hk]
  simp only [Option.toList_some, List.contains_eq_mem, List.mem_append, List.mem_singleton]
  by_cases h1 : i ∈ List.take k E <;> by_cases h2 : i = E[k] <;> simp [h1, h2]

theorem mapElems_congr (f g : Elem → Elem) (t : Toc) (h : ∀ e, f e = g e) : t.mapElems f = t.mapElems g := by
  have : f = g := funext h
  rw [this]

section xinv
variable (E : List Nat) (toc0 : Toc) (pers : Nat → Bool)
  (hnd : (toc0.elems.map (·.ident)).Nodup) (hE : ∀ j ∈ E, j < 65536)
  (hmem : ∀ j ∈ E, j ∈ toc0.elems.map (·.ident))
include hnd hE hmem

omit hnd hE hmem in
theorem xdeliver_noop' (s : XSys) (chan : Nat) (data : Bytes) (h : s.x.onPacket chan data = .ok s.x) :
    s.deliver chan data = s := by
  unfold XSys.deliver; rw [h]

theorem xstep_inv (s : XSys) (hi : XInv E toc0 pers s) (c : XChoice) : XInv E toc0 pers (s.step pers c) := by
  cases c with
  | other chan data =>
    simp only [XSys.step]
    split
    · exact hi
    · rename_i h
      rw [xdeliver_noop' s chan data (xonPacket_other s.x chan data h)]
      exact hi
  | worker =>
    simp only [XSys.step]
    cases hi with
    | aborted hact hdone hq =>
      have hw : s.x.worker = none := by
        unfold ExtF.worker
        rw [hq]
      rw [hw]
      exact XInv.aborted _ hact hdone hq
    | idle k hk htoc hcount hdone hpool hreq hlock hq hact =>
      by_cases hlt : k < E.length
      · have hdrop : E.drop k = E[k] :: E.drop (k + 1) := List.drop_eq_getElem_cons hlt
        have hw : s.x.worker = some ({ s.x with queue := E.drop (k + 1), locked := true, reqParam := some E[k] }, xreq E[k]) := by
          unfold ExtF.worker
          rw [hq, hdrop, hlock]
          simp only [extRequest_eq E[k] (hE _ (List.getElem_mem hlt))]
        rw [hw]
        have hact' : s.x.active = true := by rw [hact]; simp; omega
        refine XInv.busy _ k hlt htoc hcount (by simp [hdone]; omega) ?_ rfl rfl rfl ?_ hact'
        · intro p hp
          simp only [extReply_xreq pers E[k] (hE _ (List.getElem_mem hlt)), Option.toList_some, List.mem_append,
            List.mem_singleton] at hp
          rcases hp with hp | hp
          · obtain ⟨j, hj, hpj⟩ := hpool p hp
            refine ⟨j, ?_, hpj⟩
            rw [List.take_add_one]; exact List.mem_append_left _ hj
          · refine ⟨E[k], ?_, hp⟩
            rw [List.mem_take_iff_getElem]
            exact ⟨k, by omega, rfl⟩
        · simp [extReply_xreq pers E[k] (hE _ (List.getElem_mem hlt))]
      · have hke : k = E.length := by omega
        have hw : s.x.worker = none := by
          unfold ExtF.worker
          rw [hq, hke, List.drop_length]
        rw [hw]
        exact XInv.idle _ k hk htoc hcount hdone hpool hreq hlock hq hact
    | busy k hk htoc hcount hdone hpool hreq hlock hq hin hact =>
      have hw : s.x.worker = none := by
        unfold ExtF.worker
        rw [hlock]
        split <;> first | rfl | (rename_i h; cases h; done) | simp_all
      rw [hw]
      exact XInv.busy _ k hk htoc hcount hdone hpool hreq hlock hq hin hact
  | misc data =>
    simp only [XSys.step]
    split
    · exact hi
    · rename_i h
      have hs : s.deliver 3 data = s := by
        unfold XSys.deliver
        rcases xonPacket_notext s.x data h with h1 | ⟨e, h1⟩ <;> rw [h1]
      rw [hs]; exact hi
  | disconnect =>
    simp only [XSys.step]
    cases hi with
    | aborted hact hdone hq =>
      have : s.x.disconnect = s.x := by simp [ExtF.disconnect, hact]
      rw [this]; exact XInv.aborted _ hact hdone hq
    | idle k hk htoc hcount hdone hpool hreq hlock hq hact =>
      by_cases hke : k = E.length
      · have ha : s.x.active = false := by rw [hact]; simp [hke]
        have : s.x.disconnect = s.x := by simp [ExtF.disconnect, ha]
        rw [this]; exact XInv.idle _ k hk htoc hcount hdone hpool hreq hlock hq hact
      · have ha : s.x.active = true := by rw [hact]; simp [hke]
        refine XInv.aborted _ ?_ ?_ ?_
        · simp [ExtF.disconnect, ha]
        · simp [ExtF.disconnect, ha, hdone, hke]
        · simp [ExtF.disconnect, ha]
    | busy k hk htoc hcount hdone hpool hreq hlock hq hin hact =>
      refine XInv.aborted _ ?_ ?_ ?_
      · simp [ExtF.disconnect, hact]
      · simp [ExtF.disconnect, hact, hdone]
      · simp [ExtF.disconnect, hact]
  | reply i =>
    simp only [XSys.step]
    split
    · rename_i p hp
      have hpm : p ∈ s.pool := List.mem_of_getElem? hp
      cases hi with
      | aborted hact hdone hq =>
        rw [xdeliver_noop' s 3 _ (xonPacket_inactive s.x 3 p hact)]
        exact XInv.aborted _ hact hdone hq
      | idle k hk htoc hcount hdone hpool hreq hlock hq hact =>
        obtain ⟨j, hj, hpj⟩ := hpool p hpm
        subst hpj
        have hjE : j ∈ E := List.mem_of_mem_take hj
        rw [xdeliver_noop' s 3 _ (xonPacket_stale s.x pers j (hE j hjE) (by rw [hreq]; simp))]
        exact XInv.idle _ k hk htoc hcount hdone hpool hreq hlock hq hact
      | busy k hk htoc hcount hdone hpool hreq hlock hq hin hact =>
        obtain ⟨j, hj, hpj⟩ := hpool p hpm
        subst hpj
        have hjE : j ∈ E := List.mem_of_mem_take hj
        by_cases hje : j = E[k]
        · subst hje
          -- the awaited answer
          have hidents : (s.x.toc.elems.map (·.ident)) = toc0.elems.map (·.ident) := by
            rw [htoc, mapElems_elems, List.map_map]
            apply List.map_congr_left
            intro e _
            simp
          obtain ⟨e, he⟩ : ∃ e, s.x.toc.byId E[k] = some e := by
            have hin' : E[k] ∈ s.x.toc.elems.map (·.ident) := by rw [hidents]; exact hmem _ hjE
            obtain ⟨e, he, hei⟩ := List.mem_map.mp hin'
            cases hf : s.x.toc.byId E[k] with
            | some e' => exact ⟨e', rfl⟩
            | none =>
              unfold Toc.byId at hf
              rw [List.find?_eq_none] at hf
              have := hf e he
              simp [hei] at this
          have hstep := xonPacket_awaited s.x pers E[k] (hE _ hjE) hreq hact e he
          have htoc' : (if pers E[k] then s.x.toc.markPersistent E[k] else s.x.toc) =
              toc0.mapElems (markIf (Pk E pers (k + 1))) := by
            cases hp' : pers E[k]
            · simp only [Bool.false_eq_true, if_false, htoc]
              apply mapElems_congr
              intro e
              unfold markIf
              rw [Pk_succ E pers k hk, hp']
              simp
            · simp only [if_true]
              rw [markPersistent_eq _ _ (by rw [hidents]; exact hnd), htoc, mapElems_comp]
              apply mapElems_congr
              intro e
              simp only [Function.comp]
              unfold mark markIf
              rw [Pk_succ E pers k hk, hp']
              cases Pk E pers k e.ident <;> by_cases h1 : e.ident = E[k] <;> simp [h1]
          unfold XSys.deliver
          rw [hstep, htoc']
          by_cases hlast : s.x.count - 1 = 0
          · have hke : k + 1 = E.length := by omega
            simp only [hlast, if_true]
            refine XInv.idle _ (k + 1) (by omega) rfl (by simp; omega) (by simp [hdone, hke]) hpool rfl rfl ?_ (by simp [hke])
            show [] = E.drop (k + 1)
            rw [hke, List.drop_length]
          · have hke : k + 1 ≠ E.length := by omega
            simp only [hlast, if_false]
            refine XInv.idle _ (k + 1) (by omega) rfl ?_ (by simp [hdone, hke]) hpool rfl rfl hq (by simp [hke, hact])
            show s.x.count - 1 = _
            rw [hcount]; push_cast; omega
        · -- a stale answer (for a parameter answered before)
          have hne : s.x.reqParam ≠ some j := by rw [hreq]; simp; exact fun h => hje h.symm
          rw [xdeliver_noop' s 3 _ (xonPacket_stale s.x pers j (hE j hjE) hne)]
          exact XInv.busy _ k hk htoc hcount hdone hpool hreq hlock hq hin hact
    · exact hi

theorem xrun_inv (s : XSys) (hi : XInv E toc0 pers s) (cs : List XChoice) : XInv E toc0 pers (s.run pers cs) := by
  induction cs generalizing s with
  | nil => exact hi
  | cons c cs ih => exact ih _ (xstep_inv E toc0 pers hnd hE hmem s hi c)

/-! ## progress of the extended-type phase -/

def XSys.remaining (s : XSys) : Nat := 2 * s.x.count.toNat - (if s.x.locked then 1 else 0)

omit hnd in
theorem xprogress (s : XSys) (hi : XInv E toc0 pers s) (hd : s.x.done = 0) (ha : s.x.active = true) :
    ∃ c, (s.step pers c).remaining < s.remaining ∧ ((s.step pers c).x.active = true ∨ (s.step pers c).x.done = 1) := by
  cases hi with
  | aborted hact _ _ => rw [hact] at ha; cases ha
  | idle k hk htoc hcount hdone hpool hreq hlock hq hact =>
    have hlt : k < E.length := by
      by_cases hke : k = E.length
      · rw [hdone, if_pos hke] at hd; cases hd
      · omega
    refine ⟨.worker, ?_⟩
    have hdrop : E.drop k = E[k] :: E.drop (k + 1) := List.drop_eq_getElem_cons hlt
    have hw : s.x.worker = some ({ s.x with queue := E.drop (k + 1), locked := true, reqParam := some E[k] }, xreq E[k]) := by
      unfold ExtF.worker
      rw [hq, hdrop, hlock]
      simp only [extRequest_eq E[k] (hE _ (List.getElem_mem hlt))]
    simp only [XSys.step, hw, XSys.remaining, hlock, hcount]
    have : ((E.length : Int) - (k : Int)).toNat = E.length - k := by omega
    rw [this]
    refine ⟨by simp; omega, Or.inl ha⟩
  | busy k hk htoc hcount hdone hpool hreq hlock hq hin hact =>
    obtain ⟨i, hi⟩ := List.mem_iff_getElem?.mp hin
    refine ⟨.reply i, ?_⟩
    have hjE : E[k] ∈ E := List.getElem_mem hk
    have hidents : (s.x.toc.elems.map (·.ident)) = toc0.elems.map (·.ident) := by
      rw [htoc, mapElems_elems, List.map_map]
      apply List.map_congr_left
      intro e _
      simp
    obtain ⟨e, he⟩ : ∃ e, s.x.toc.byId E[k] = some e := by
      have hin' : E[k] ∈ s.x.toc.elems.map (·.ident) := by rw [hidents]; exact hmem _ hjE
      obtain ⟨e, he, hei⟩ := List.mem_map.mp hin'
      cases hf : s.x.toc.byId E[k] with
      | some e' => exact ⟨e', rfl⟩
      | none =>
        unfold Toc.byId at hf
        rw [List.find?_eq_none] at hf
        have := hf e he
        simp [hei] at this
    have hstep := xonPacket_awaited s.x pers E[k] (hE _ hjE) hreq hact e he
    simp only [XSys.step, hi]
    unfold XSys.deliver
    have hc1 : (s.x.count - 1).toNat = E.length - k - 1 := by rw [hcount]; omega
    have hc0 : s.x.count.toNat = E.length - k := by rw [hcount]; omega
    by_cases hlast : s.x.count - 1 = 0
    · rw [if_pos hlast] at hstep
      rw [hstep]
      simp only [XSys.remaining, hlock, hc1, hc0]
      refine ⟨by simp; omega, Or.inr (by simp [hdone])⟩
    · rw [if_neg hlast] at hstep
      rw [hstep]
      simp only [XSys.remaining, hlock, hc1, hc0]
      refine ⟨by simp; omega, Or.inl (by simpa using hact)⟩

theorem xcompletes (n : Nat) (s : XSys) (hi : XInv E toc0 pers s) (hlive : s.x.active = true ∨ s.x.done = 1)
    (hn : s.remaining ≤ n) :
    ∃ cs : List XChoice, cs.length ≤ n ∧ (s.run pers cs).x.done = 1 := by
  have hdone_of_active : s.x.active = true → s.x.done = 0 := by
    intro ha
    cases hi with
    | aborted hact _ _ => rw [hact] at ha; cases ha
    | idle k _ _ _ hdone _ _ _ _ hact =>
      rw [hact] at ha
      have : k ≠ E.length := by simpa using ha
      rw [hdone, if_neg this]
    | busy k _ _ _ hdone => exact hdone
  induction n generalizing s with
  | zero =>
    rcases hlive with ha | h1
    · obtain ⟨c, hc, _⟩ := xprogress E toc0 pers hE hmem s hi (hdone_of_active ha) ha
      omega
    · exact ⟨[], Nat.le_refl _, h1⟩
  | succ n ih =>
    rcases hlive with ha | h1
    · obtain ⟨c, hc, hlive'⟩ := xprogress E toc0 pers hE hmem s hi (hdone_of_active ha) ha
      have hi' := xstep_inv E toc0 pers hnd hE hmem s hi c
      have hdoa' : (s.step pers c).x.active = true → (s.step pers c).x.done = 0 := by
        intro ha'
        cases hi' with
        | aborted hact _ _ => rw [hact] at ha'; cases ha'
        | idle k _ _ _ hdone _ _ _ _ hact =>
          rw [hact] at ha'
          have : k ≠ E.length := by simpa using ha'
          rw [hdone, if_neg this]
        | busy k _ _ _ hdone => exact hdone
      obtain ⟨cs, hlen, hfin⟩ := ih (s.step pers c) hi' hlive' (by omega) hdoa'
      exact ⟨c :: cs, by simp; omega, hfin⟩
    · exact ⟨[], Nat.zero_le _, h1⟩

end xinv


end CfVerif.C03

/-
Proofs/C03Fetch: the closed system  TocFetcher ‖ device ‖ adversarial network  (Spec/C03 `Sys`):
byte-level facts about the device's replies, one lemma per (state, packet) combination of
`Fetcher.onPacket`, the invariant and its preservation, progress.  Core Lean only.
-/
import CfVerif.Proofs.C03
namespace CfVerif.C03
open CfVerif

theorem fmt_infoV2 : parseFmt! Gen.C03.infoFmtV2 = [.H, .I] := by decide
theorem fmt_infoV1 : parseFmt! Gen.C03.infoFmtV1 = [.B, .I] := by decide
theorem fmt_identV2 : parseFmt! Gen.C03.identFmtV2 = [.H] := by decide

theorem unpack_HI (n c : Nat) (hn : n < 65536) (hc : c < 4294967296) :
    unpack [.H, .I] (leBytes 2 n ++ leBytes 4 c) = .ok [.int n, .int c] := by
  apply unpack_pack (by rfl)
  simp [pack, packOne, packUnsigned, hn, hc, bind, Except.bind, pure, Except.pure]

theorem unpack_BI (n c : Nat) (hn : n < 256) (hc : c < 4294967296) :
    unpack [.B, .I] (leBytes 1 n ++ leBytes 4 c) = .ok [.int n, .int c] := by
  apply unpack_pack (by rfl)
  simp [pack, packOne, packUnsigned, hn, hc, bind, Except.bind, pure, Except.pure]

theorem unpack_H (n : Nat) (hn : n < 65536) : unpack [.H] (leBytes 2 n) = .ok [.int n] :=
  @unpack_pack [.H] [.int n] (leBytes 2 n) (by rfl)
    (by simp [pack, packOne, packUnsigned, hn, bind, Except.bind, pure, Except.pure])

/-! ## the device's replies, as the fetcher reads them -/

section dev
variable (d : Dev)

theorem info_unpackInfo (hn : d.items.length < d.bound) (hc : d.crc < 4294967296) :
    unpackInfo d.v2 (d.info.drop 1) = .ok (d.items.length, d.crc) := by
  obtain ⟨v2, items, crc, extra⟩ := d
  cases v2
  · have hn' : items.length < 256 := by simpa [Dev.bound] using hn
    have ht : List.take 5 (leBytes 1 items.length ++ (leBytes 4 crc ++ extra)) = leBytes 1 items.length ++ leBytes 4 crc := by
      rw [← List.append_assoc]; exact List.take_left' (by simp)
    simp only [Dev.info, unpackInfo, Gen.C03.infoTakeV1, List.drop_succ_cons, List.drop_zero, Bool.false_eq_true, if_false, ht, fmt_infoV1,
      unpack_BI _ _ hn' hc]
    simp
  · have hn' : items.length < 65536 := by simpa [Dev.bound] using hn
    have ht : List.take 6 (leBytes 2 items.length ++ (leBytes 4 crc ++ extra)) = leBytes 2 items.length ++ leBytes 4 crc := by
      rw [← List.append_assoc]; exact List.take_left' (by simp)
    simp only [Dev.info, unpackInfo, Gen.C03.infoTakeV2, List.drop_succ_cons, List.drop_zero, if_true, ht, fmt_infoV2, unpack_HI _ _ hn' hc]
    simp

theorem unpackIdent_le (v2 : Bool) (j : Nat) (rest : Bytes) (hj : j < (if v2 then 65536 else 256)) :
    unpackIdent v2 ((if v2 then leBytes 2 j else leBytes 1 j) ++ rest) = .ok j := by
  cases v2
  · have hj' : j < 256 := by simpa using hj
    simp [unpackIdent, leBytes, Nat.mod_eq_of_lt hj']
  · have hj' : j < 65536 := by simpa using hj
    have ht : List.take 2 (leBytes 2 j ++ rest) = leBytes 2 j := List.take_left' (by simp)
    simp only [unpackIdent, Gen.C03.identTakeV2, if_true, ht, fmt_identV2, unpack_H _ hj']
    simp

/-- a (duplicated, delayed) info reply read as an item reply: its "index" is the table size -/
theorem info_unpackIdent (hn : d.items.length < d.bound) :
    unpackIdent d.v2 (d.info.drop 1) = .ok d.items.length := by
  obtain ⟨v2, items, crc, extra⟩ := d
  cases v2
  · exact unpackIdent_le false items.length _ (by simpa [Dev.bound] using hn)
  · exact unpackIdent_le true items.length _ (by simpa [Dev.bound] using hn)

theorem item_unpackIdent (j : Nat) (hj : j < d.bound) : unpackIdent d.v2 ((d.item j).drop 1) = .ok j := by
  obtain ⟨v2, items, crc, extra⟩ := d
  cases v2
  · exact unpackIdent_le false j _ (by simpa [Dev.bound] using hj)
  · exact unpackIdent_le true j _ (by simpa [Dev.bound] using hj)

theorem item_body (j : Nat) :
    ((d.item j).drop 1).drop (if d.v2 then Gen.C03.elemDropV2 else Gen.C03.elemDropV1) = d.body j := by
  obtain ⟨v2, items, crc, extra⟩ := d
  cases v2
  · simp [Dev.item, leBytes, Gen.C03.elemDropV1]
  · simp [Dev.item, leBytes, Gen.C03.elemDropV2]

theorem infoRequest_eq : infoRequest d.v2 = .ok d.infoReq := by
  cases h : d.v2 <;> simp [infoRequest, Dev.infoReq, h, mkBytes, Gen.C03.tocCmdTocInfo, Gen.C03.tocCmdTocInfoV2] <;> rfl

theorem reply_infoReq : d.reply d.infoReq = some d.info := by
  cases h : d.v2 <;> simp [Dev.reply, Dev.infoReq, h]

theorem itemRequest_eq (j : Nat) (hj : j < d.bound) : itemRequest d.v2 j = .ok (d.itemReq j) := by
  cases h : d.v2
  · have hj' : j < 256 := by simpa [Dev.bound, h] using hj
    simp [itemRequest, Dev.itemReq, h, mkBytes, Gen.C03.tocCmdTocElement, hj']
  · have hj' : j < 65536 := by simpa [Dev.bound, h] using hj
    have h1 : j &&& 255 = j % 256 := Nat.and_two_pow_sub_one_eq_mod j 8
    have h2 : (j >>> 8) &&& 255 = j / 256 := by
      rw [Nat.shiftRight_eq_div_pow]
      have := Nat.and_two_pow_sub_one_eq_mod (j / 2 ^ 8) 8
      simp only [Nat.reducePow, Nat.add_one_sub_one] at this ⊢
      rw [this]; omega
    have h3 : j % 256 < 256 := Nat.mod_lt _ (by decide)
    have h4 : j / 256 < 256 := by omega
    simp [itemRequest, Dev.itemReq, h, mkBytes, Gen.C03.tocCmdTocItemV2, Gen.C03.idxLo, Gen.C03.idxHi, h1, h2, h3, h4]

theorem reply_itemReq (j : Nat) (hj : j < d.bound) : d.reply (d.itemReq j) = some (d.item j) := by
  cases h : d.v2
  · have hj' : j < 256 := by simpa [Dev.bound, h] using hj
    simp [Dev.reply, Dev.itemReq, h, Nat.mod_eq_of_lt hj']
  · have hj' : j < 65536 := by simpa [Dev.bound, h] using hj
    have h4 : j / 256 < 256 := by omega
    simp [Dev.reply, Dev.itemReq, h, Nat.mod_eq_of_lt h4]
    congr 1; omega

end dev

/-! ## one lemma per (state, packet) combination -/

section cases
variable (d : Dev) (dec : Nat → Bytes → Except PyErr Elem)

theorem onPacket_other (f : Fetcher) (chan : Nat) (data : Bytes) (h : chan ≠ 0) :
    f.onPacket dec chan data = .ok ⟨f, [], false⟩ := by
  simp [Fetcher.onPacket, h]

theorem onPacket_done (f : Fetcher) (chan : Nat) (data : Bytes) (h : f.st = .done) :
    f.onPacket dec chan data = .ok ⟨f, [], false⟩ := by
  unfold Fetcher.onPacket
  split
  · rfl
  · simp [h]

theorem onPacket_aborted (f : Fetcher) (chan : Nat) (data : Bytes) (h : f.st = .aborted) :
    f.onPacket dec chan data = .ok ⟨f, [], false⟩ := by
  unfold Fetcher.onPacket
  split
  · rfl
  · simp [h]

/-- GET_TOC_INFO + the info reply -/
theorem onPacket_info (f : Fetcher) (hv : f.v2 = d.v2) (hst : f.st = .info)
    (hn : d.items.length < d.bound) (hc : d.crc < 4294967296) :
    f.onPacket dec 0 d.info =
      if 0 < d.items.length then
        .ok ⟨{ f with nbr := d.items.length, crc := d.crc, st := .element, req := 0 }, [d.itemReq 0], false⟩
      else .ok ⟨{ f with nbr := d.items.length, crc := d.crc, st := .done, req := 0 }, [], true⟩ := by
  have h0 : 0 < d.items.length → itemRequest d.v2 0 = .ok (d.itemReq 0) := fun h =>
    itemRequest_eq d 0 (by omega)
  unfold Fetcher.onPacket
  simp only [Gen.C03.payloadDrop, ne_eq, not_true_eq_false, if_false, hst, hv, info_unpackInfo d hn hc]
  split
  · rename_i h; rw [h0 h]
  · rfl

/-- GET_TOC_ELEMENT + a (duplicated / delayed) info reply: ignored, because it reads as index |T| -/
theorem onPacket_element_info (f : Fetcher) (hv : f.v2 = d.v2) (hst : f.st = .element)
    (hn : d.items.length < d.bound) (hreq : f.req < d.items.length) :
    f.onPacket dec 0 d.info = .ok ⟨f, [], false⟩ := by
  unfold Fetcher.onPacket
  simp only [Gen.C03.payloadDrop, ne_eq, not_true_eq_false, if_false, hst, hv, info_unpackIdent d hn]
  have : d.items.length ≠ f.req := by omega
  simp [this]

/-- GET_TOC_ELEMENT + an item reply for another index (stale or early): ignored -/
theorem onPacket_element_stale (f : Fetcher) (hv : f.v2 = d.v2) (hst : f.st = .element)
    (j : Nat) (hj : j < d.bound) (hne : j ≠ f.req) :
    f.onPacket dec 0 (d.item j) = .ok ⟨f, [], false⟩ := by
  unfold Fetcher.onPacket
  simp only [Gen.C03.payloadDrop, ne_eq, not_true_eq_false, if_false, hst, hv, item_unpackIdent d j hj]
  simp [hne]

/-- GET_TOC_ELEMENT + the awaited item reply -/
theorem onPacket_element_awaited (f : Fetcher) (hv : f.v2 = d.v2) (hst : f.st = .element)
    (hb : f.nbr ≤ d.bound) (e : Elem) (hreq : f.req < d.bound) (hdec : dec f.req (d.body f.req) = .ok e) :
    f.onPacket dec 0 (d.item f.req) =
      if f.req + 1 < f.nbr then
        .ok ⟨{ f with toc := f.toc.add e, req := f.req + 1 }, [d.itemReq (f.req + 1)], false⟩
      else .ok ⟨{ f with toc := f.toc.add e, st := .done }, [], true⟩ := by
  unfold Fetcher.onPacket
  simp only [Gen.C03.payloadDrop, ne_eq, not_true_eq_false, if_false, hst, item_unpackIdent d f.req hreq, hv]
  have hb' := item_body d f.req
  simp only [hb', hdec]
  split
  · rename_i h; rw [itemRequest_eq d (f.req + 1) (by omega)]
  · rfl

end cases

/-! ## the invariant of the closed system -/

inductive Inv (d : Dev) (es : List Elem) : Sys → Prop
  | info (s : Sys) : s.f.st = .info → s.f.v2 = d.v2 → s.f.toc = [] → s.finished = 0 →
      (∀ p ∈ s.pool, p = d.info) → d.info ∈ s.pool → s.sent = [d.infoReq] → Inv d es s
  | element (s : Sys) : s.f.st = .element → s.f.v2 = d.v2 → s.f.nbr = d.items.length →
      s.f.req < d.items.length → s.f.toc = tocOf (es.take s.f.req) → s.finished = 0 →
      (∀ p ∈ s.pool, p = d.info ∨ ∃ j, j ≤ s.f.req ∧ p = d.item j) → d.item s.f.req ∈ s.pool →
      s.sent = d.infoReq :: (List.range (s.f.req + 1)).map d.itemReq → Inv d es s
  | done (s : Sys) : s.f.st = .done → s.f.toc = tocOf es → s.finished = 1 →
      s.sent = d.infoReq :: (List.range d.items.length).map d.itemReq → Inv d es s
  | aborted (s : Sys) : s.f.st = .aborted → s.finished = 0 → Inv d es s

theorem deliver_noop (dec : Nat → Bytes → Except PyErr Elem) (d : Dev) (s : Sys) (chan : Nat) (data : Bytes)
    (h : s.f.onPacket dec chan data = .ok ⟨s.f, [], false⟩) : s.deliver dec d chan data = s := by
  unfold Sys.deliver
  rw [h]
  simp

theorem deliver_ok (dec : Nat → Bytes → Except PyErr Elem) (d : Dev) (s : Sys) (chan : Nat) (data : Bytes) (r : Step)
    (h : s.f.onPacket dec chan data = .ok r) :
    s.deliver dec d chan data =
      (⟨r.f, s.pool ++ r.sends.filterMap d.reply, s.sent ++ r.sends, s.finished + (if r.finished then 1 else 0)⟩ : Sys) := by
  unfold Sys.deliver
  rw [h]

theorem tocOf_take_succ (es : List Elem) (k : Nat) (e : Elem) (h : es[k]? = some e) :
    tocOf (es.take (k + 1)) = (tocOf (es.take k)).add e := by
  unfold tocOf
  rw [List.take_add_one, h, List.foldl_append]
  rfl

section inv
variable (d : Dev) (dec : Nat → Bytes → Except PyErr Elem) (spec : Nat → Item → Elem)
  (hn : d.items.length < d.bound) (hc : d.crc < 4294967296)
  (hdec : ∀ i it, d.items[i]? = some it → dec i (itemBytes it) = .ok (spec i it))

theorem init_inv (s : Sys) (h : Sys.init d = some s) : Inv d (specElems spec d.items) s := by
  unfold Sys.init Fetcher.start at h
  rw [infoRequest_eq] at h
  simp only [Option.some.injEq] at h
  subst h
  refine Inv.info _ rfl rfl rfl rfl ?_ ?_ rfl
  · intro p hp; simpa [reply_infoReq] using hp
  · simp [reply_infoReq]

include hn hc hdec

theorem deliver_pool_inv (s : Sys) (hi : Inv d (specElems spec d.items) s) (p : Bytes) (hp : p ∈ s.pool) :
    Inv d (specElems spec d.items) (s.deliver dec d 0 p) := by
  cases hi with
  | info hst hv htoc hfin hpool hmem hsent =>
    have hp' := hpool p hp
    subst hp'
    have hstep := onPacket_info d dec s.f hv hst hn hc
    by_cases hpos : 0 < d.items.length
    · rw [if_pos hpos] at hstep
      rw [deliver_ok dec d s 0 _ _ hstep]
      have hb : 0 < d.bound := by omega
      refine Inv.element _ rfl hv rfl hpos ?_ (by simp [hfin]) ?_ ?_ ?_
      · simp [tocOf, htoc]
      · intro q hq
        simp only [List.filterMap_cons, reply_itemReq d 0 (by omega), List.filterMap_nil, List.mem_append,
          List.mem_singleton] at hq
        rcases hq with hq | hq
        · exact Or.inl (hpool q hq)
        · exact Or.inr ⟨0, Nat.le_refl _, hq⟩
      · simp [reply_itemReq d 0 (by omega)]
      · simp [hsent, List.range_succ]
    · rw [if_neg hpos] at hstep
      rw [deliver_ok dec d s 0 _ _ hstep]
      have hz : d.items.length = 0 := by omega
      refine Inv.done _ rfl ?_ (by simp [hfin]) ?_
      · have : d.items = [] := List.eq_nil_of_length_eq_zero hz
        simp [htoc, specElems, this, tocOf]
      · simp [hsent, hz]
  | element hst hv hnbr hreq htoc hfin hpool hmem hsent =>
    rcases hpool p hp with hp' | ⟨j, hj, hp'⟩
    · subst hp'
      rw [deliver_noop dec d s 0 _ (onPacket_element_info d dec s.f hv hst hn hreq)]
      exact Inv.element _ hst hv hnbr hreq htoc hfin hpool hmem hsent
    · subst hp'
      by_cases hje : j = s.f.req
      · subst hje
        obtain ⟨it, hit⟩ : ∃ it, d.items[s.f.req]? = some it := ⟨d.items[s.f.req], by simp [hreq]⟩
        have hbody : d.body s.f.req = itemBytes it := by simp [Dev.body, hit]
        have hd : dec s.f.req (d.body s.f.req) = .ok (spec s.f.req it) := by rw [hbody]; exact hdec _ _ hit
        have hes : (specElems spec d.items)[s.f.req]? = some (spec s.f.req it) := by
          simp [specElems, List.getElem?_mapIdx, hit]
        have hstep := onPacket_element_awaited d dec s.f hv hst (by omega) (spec s.f.req it) (by omega) hd
        rw [hnbr] at hstep
        by_cases hmore : s.f.req + 1 < d.items.length
        · rw [if_pos hmore] at hstep
          rw [deliver_ok dec d s 0 _ _ hstep]
          refine Inv.element _ hst hv rfl hmore ?_ (by simp [hfin]) ?_ ?_ ?_
          · show s.f.toc.add _ = _
            rw [tocOf_take_succ _ _ _ hes, htoc]
          · intro q hq
            simp only [List.filterMap_cons, reply_itemReq d (s.f.req + 1) (by omega), List.filterMap_nil,
              List.mem_append, List.mem_singleton] at hq
            rcases hq with hq | hq
            · rcases hpool q hq with h1 | ⟨j, hj, h1⟩
              · exact Or.inl h1
              · exact Or.inr ⟨j, by show j ≤ s.f.req + 1; omega, h1⟩
            · exact Or.inr ⟨s.f.req + 1, Nat.le_refl _, hq⟩
          · simp [reply_itemReq d (s.f.req + 1) (by omega)]
          · show s.sent ++ [d.itemReq (s.f.req + 1)] = _
            rw [hsent, List.range_succ (n := s.f.req + 1)]
            simp
        · rw [if_neg hmore] at hstep
          rw [deliver_ok dec d s 0 _ _ hstep]
          have hlen : s.f.req + 1 = d.items.length := by omega
          refine Inv.done _ rfl ?_ (by simp [hfin]) ?_
          · show s.f.toc.add _ = _
            rw [htoc, ← tocOf_take_succ _ _ _ hes, List.take_of_length_le]
            simp [specElems, hlen]
          · simp [hsent, hlen]
      · rw [deliver_noop dec d s 0 _ (onPacket_element_stale d dec s.f hv hst j (by omega) hje)]
        exact Inv.element _ hst hv hnbr hreq htoc hfin hpool hmem hsent
  | done hst htoc hfin hsent =>
    rw [deliver_noop dec d s 0 _ (onPacket_done dec s.f 0 p hst)]
    exact Inv.done _ hst htoc hfin hsent
  | aborted hst hfin =>
    rw [deliver_noop dec d s 0 _ (onPacket_aborted dec s.f 0 p hst)]
    exact Inv.aborted _ hst hfin

theorem step_inv (s : Sys) (hi : Inv d (specElems spec d.items) s) (c : Choice) :
    Inv d (specElems spec d.items) (s.step dec d c) := by
  cases c with
  | reply i =>
    simp only [Sys.step]
    split
    · rename_i p hp
      exact deliver_pool_inv d dec spec hn hc hdec s hi p (List.mem_of_getElem? hp)
    · exact hi
  | other chan data =>
    simp only [Sys.step]
    split
    · exact hi
    · rename_i h
      rw [deliver_noop dec d s chan data (onPacket_other dec s.f chan data h)]
      exact hi
  | disconnect =>
    simp only [Sys.step]
    cases hi with
    | info hst _ _ hfin _ _ _ =>
      refine Inv.aborted _ ?_ hfin
      simp [Fetcher.disconnect, Fetcher.registered, hst]
    | element hst _ _ _ _ hfin _ _ _ =>
      refine Inv.aborted _ ?_ hfin
      simp [Fetcher.disconnect, Fetcher.registered, hst]
    | done hst htoc hfin hsent =>
      have : s.f.disconnect = s.f := by simp [Fetcher.disconnect, Fetcher.registered, hst]
      rw [this]
      exact Inv.done _ hst htoc hfin hsent
    | aborted hst hfin =>
      have : s.f.disconnect = s.f := by simp [Fetcher.disconnect, Fetcher.registered, hst]
      rw [this]
      exact Inv.aborted _ hst hfin

theorem run_inv (s : Sys) (hi : Inv d (specElems spec d.items) s) (cs : List Choice) :
    Inv d (specElems spec d.items) (Sys.run dec d s cs) := by
  induction cs generalizing s with
  | nil => exact hi
  | cons c cs ih => exact ih _ (step_inv d dec spec hn hc hdec s hi c)

end inv

/-! ## progress: the awaited reply is in the pool and delivering it advances the download -/

def Sys.remaining (d : Dev) (s : Sys) : Nat :=
  match s.f.st with
  | .info => d.items.length + 1
  | .element => d.items.length - s.f.req
  | .done => 0
  | .aborted => 0

section progress
variable (d : Dev) (dec : Nat → Bytes → Except PyErr Elem) (spec : Nat → Item → Elem)
  (hn : d.items.length < d.bound) (hc : d.crc < 4294967296)
  (hdec : ∀ i it, d.items[i]? = some it → dec i (itemBytes it) = .ok (spec i it))
include hn hc hdec

theorem progress (s : Sys) (hi : Inv d (specElems spec d.items) s) (hnd : s.f.st ≠ .done) (hna : s.f.st ≠ .aborted) :
    ∃ i, (s.step dec d (.reply i)).remaining d < s.remaining d ∧ (s.step dec d (.reply i)).f.st ≠ .aborted := by
  cases hi with
  | info hst hv htoc hfin hpool hmem hsent =>
    obtain ⟨i, hi⟩ := List.mem_iff_getElem?.mp hmem
    refine ⟨i, ?_⟩
    simp only [Sys.step, hi]
    have hstep := onPacket_info d dec s.f hv hst hn hc
    by_cases hpos : 0 < d.items.length
    · rw [if_pos hpos] at hstep
      rw [deliver_ok dec d s 0 _ _ hstep]
      simp [Sys.remaining, hst]
    · rw [if_neg hpos] at hstep
      rw [deliver_ok dec d s 0 _ _ hstep]
      simp [Sys.remaining, hst]
  | aborted hst _ => exact absurd hst hna
  | element hst hv hnbr hreq htoc hfin hpool hmem hsent =>
    obtain ⟨i, hi⟩ := List.mem_iff_getElem?.mp hmem
    refine ⟨i, ?_⟩
    simp only [Sys.step, hi]
    obtain ⟨it, hit⟩ : ∃ it, d.items[s.f.req]? = some it := ⟨d.items[s.f.req], by simp [hreq]⟩
    have hbody : d.body s.f.req = itemBytes it := by simp [Dev.body, hit]
    have hd : dec s.f.req (d.body s.f.req) = .ok (spec s.f.req it) := by rw [hbody]; exact hdec _ _ hit
    have hstep := onPacket_element_awaited d dec s.f hv hst (by omega) (spec s.f.req it) (by omega) hd
    rw [hnbr] at hstep
    by_cases hmore : s.f.req + 1 < d.items.length
    · rw [if_pos hmore] at hstep
      rw [deliver_ok dec d s 0 _ _ hstep]
      simp only [Sys.remaining, hst]
      exact ⟨by omega, by simp⟩
    · rw [if_neg hmore] at hstep
      rw [deliver_ok dec d s 0 _ _ hstep]
      simp only [Sys.remaining, hst]
      exact ⟨by omega, by simp⟩
  | done hst _ _ _ => exact absurd hst hnd

/-- from every reachable state some schedule of at most `remaining` deliveries finishes the download -/
theorem completes (k : Nat) (s : Sys) (hi : Inv d (specElems spec d.items) s) (hna : s.f.st ≠ .aborted)
    (hk : s.remaining d ≤ k) :
    ∃ cs : List Choice, cs.length ≤ k ∧ (Sys.run dec d s cs).f.st = .done := by
  induction k generalizing s with
  | zero =>
    refine ⟨[], Nat.le_refl _, ?_⟩
    cases hi with
    | info hst _ _ _ _ _ _ => simp [Sys.remaining, hst] at hk
    | element hst _ _ hreq _ _ _ _ _ => simp only [Sys.remaining, hst] at hk; omega
    | done hst _ _ _ => exact hst
    | aborted hst _ => exact absurd hst hna
  | succ k ih =>
    by_cases hd : s.f.st = .done
    · exact ⟨[], Nat.zero_le _, hd⟩
    · obtain ⟨i, hlt, hna'⟩ := progress d dec spec hn hc hdec s hi hd hna
      obtain ⟨cs, hlen, hdone⟩ := ih (s.step dec d (.reply i)) (step_inv d dec spec hn hc hdec s hi _) hna' (by omega)
      exact ⟨.reply i :: cs, by simp; omega, hdone⟩

end progress

end CfVerif.C03

/-
Proofs/C03Final: glue between the invariants (C03Fetch, C03Ext), the dictionary lemmas (C03Toc) and the
statements in Props/C03; PlatformService.  Core Lean only.
-/
import CfVerif.Proofs.C03Fetch
import CfVerif.Proofs.C03Ext
namespace CfVerif.C03
open CfVerif

/-- `spec i it` describes entry `i`: its ident, group and name are the device's -/
def SpecOk (spec : Nat → Item → Elem) : Prop :=
  ∀ i it, (spec i it).ident = i ∧ (spec i it).group = it.group ∧ (spec i it).name = it.name

theorem specLog_ok : SpecOk specLog := fun _ _ => ⟨rfl, rfl, rfl⟩
theorem specParam_ok : SpecOk specParam := fun _ _ => ⟨rfl, rfl, rfl⟩

/-- no two entries of the table have the same group.name -/
def UniqueNames (items : List Item) : Prop := items.Pairwise (fun a b => ¬ (a.group = b.group ∧ a.name = b.name))

theorem init_some (d : Dev) : ∃ s0, Sys.init d = some s0 := by
  unfold Sys.init Fetcher.start
  rw [infoRequest_eq]
  exact ⟨_, rfl⟩

section content
variable (spec : Nat → Item → Elem) (hspec : SpecOk spec) (items : List Item)

theorem mem_specElems (e : Elem) :
    e ∈ specElems spec items ↔ ∃ i it, items[i]? = some it ∧ e = spec i it := by
  unfold specElems
  rw [List.mem_iff_getElem?]
  constructor
  · rintro ⟨i, hi⟩
    rw [List.getElem?_mapIdx] at hi
    cases h : items[i]? with
    | none => rw [h] at hi; cases hi
    | some it => rw [h] at hi; exact ⟨i, it, h, by simpa using hi.symm⟩
  · rintro ⟨i, it, h, he⟩
    exact ⟨i, by rw [List.getElem?_mapIdx, h, he]; rfl⟩

include hspec

theorem specElems_pairwise (hu : UniqueNames items) : (specElems spec items).Pairwise KeyNe := by
  unfold specElems UniqueNames at *
  rw [List.pairwise_iff_getElem] at hu ⊢
  intro i j hi hj hij
  simp only [List.length_mapIdx] at hi hj
  simp only [List.getElem_mapIdx]
  have := hu i j hi hj hij
  unfold KeyNe
  rw [(hspec i items[i]).2.1, (hspec i items[i]).2.2, (hspec j items[j]).2.1, (hspec j items[j]).2.2]
  exact this

theorem specElems_ident_inj : ∀ x ∈ specElems spec items, ∀ y ∈ specElems spec items, x.ident = y.ident → x = y := by
  intro x hx y hy hxy
  obtain ⟨i, a, ha, rfl⟩ := (mem_specElems spec items x).mp hx
  obtain ⟨j, b, hb, rfl⟩ := (mem_specElems spec items y).mp hy
  rw [(hspec i a).1, (hspec j b).1] at hxy
  subst hxy
  rw [ha] at hb
  cases hb
  rfl

end content

/-! ### extended types -/

theorem mapElems_congr_on (f g : Elem → Elem) (t : Toc) (h : ∀ e ∈ t.elems, f e = g e) :
    t.mapElems f = t.mapElems g := by
  induction t with
  | nil => rfl
  | cons gm r ih =>
    obtain ⟨gr, m⟩ := gm
    rw [elems_cons] at h
    have h1 : m.map (fun ne => (ne.1, f ne.2)) = m.map (fun ne => (ne.1, g ne.2)) := by
      apply List.map_congr_left
      intro ne hne
      rw [h ne.2 (List.mem_append_left _ (List.mem_map_of_mem hne))]
    have h2 := ih (fun e he => h e (List.mem_append_right _ he))
    simp only [Toc.mapElems, List.map_cons] at h2 ⊢
    rw [h1, h2]

theorem nodup_ident_inj (l : List Elem) (h : (l.map (·.ident)).Nodup) :
    ∀ a ∈ l, ∀ b ∈ l, a.ident = b.ident → a = b := by
  induction l with
  | nil => intro a ha; cases ha
  | cons x r ih =>
    simp only [List.map_cons, List.nodup_cons] at h
    intro a ha b hb hab
    rcases List.mem_cons.mp ha with ha1 | ha1 <;> rcases List.mem_cons.mp hb with hb1 | hb1
    · rw [ha1, hb1]
    · exact absurd (by rw [← ha1, hab]; exact List.mem_map_of_mem hb1) h.1
    · exact absurd (by rw [← hb1, ← hab]; exact List.mem_map_of_mem ha1) h.1
    · exact ih h.2 a ha1 b hb1 hab

/-- the idents `refresh_done` queries, in iteration order -/
def extIdents (toc0 : Toc) : List Nat := (toc0.elems.filter (·.extended)).map (·.ident)

theorem refreshDone_some (toc0 : Toc) (x0 : ExtF) (h : refreshDone toc0 = .ok (some x0)) :
    x0 = { queue := extIdents toc0, reqParam := none, count := (extIdents toc0).length, locked := false,
           toc := toc0, done := 0, active := true } ∧ 0 < (extIdents toc0).length := by
  unfold refreshDone at h
  simp only [] at h
  split at h
  · rename_i hpos
    split at h
    · cases h
    · cases h
      refine ⟨by simp [extIdents], by simpa [extIdents] using hpos⟩
  · cases h

theorem xinit_inv (toc0 : Toc) (pers : Nat → Bool) (x0 : ExtF) (h : refreshDone toc0 = .ok (some x0)) :
    XInv (extIdents toc0) toc0 pers ⟨x0, [], []⟩ := by
  obtain ⟨hx, hpos⟩ := refreshDone_some toc0 x0 h
  subst hx
  have hne : (0 : Nat) ≠ (extIdents toc0).length := by omega
  refine XInv.idle _ 0 (Nat.zero_le _) ?_ (by simp) ?_ (by simp) rfl rfl (by simp) ?_
  · show toc0 = _
    rw [mapElems_id_of]
    intro e _
    simp [markIf, Pk]
  · show 0 = _
    simp [hne]
  · show true = _
    simp [hne]

theorem xinv_result (toc0 : Toc) (pers : Nat → Bool) (hnd : (toc0.elems.map (·.ident)).Nodup) (s : XSys)
    (hi : XInv (extIdents toc0) toc0 pers s) :
    s.x.done ≤ 1 ∧ (s.x.done = 1 → s.x.toc = toc0.mapElems
      (fun e => if e.extended && pers e.ident then { e with persistent := true } else e)) := by
  cases hi with
  | aborted _ hdone _ => simp [hdone]
  | busy k hk htoc hcount hdone hpool hreq hlock hq hin _ => simp [hdone]
  | idle k hk htoc hcount hdone hpool hreq hlock hq _ =>
    refine ⟨by rw [hdone]; split <;> omega, ?_⟩
    intro h1
    have hke : k = (extIdents toc0).length := by
      by_cases hke : k = (extIdents toc0).length
      · exact hke
      · rw [hdone, if_neg hke] at h1; cases h1
    rw [htoc]
    apply mapElems_congr_on
    intro e he
    unfold markIf Pk
    rw [hke, List.take_length]
    have : (extIdents toc0).contains e.ident = e.extended := by
      rw [Bool.eq_iff_iff]
      simp only [List.contains_eq_mem, decide_eq_true_eq, extIdents, List.mem_map, List.mem_filter]
      constructor
      · rintro ⟨e', ⟨he', hext⟩, hid⟩
        have : e' = e := nodup_ident_inj _ hnd e' he' e he hid
        rw [← this]; exact hext
      · intro hext
        exact ⟨e, ⟨he, hext⟩, rfl⟩
    rw [this]

/-! ### iteration order is a permutation of the table; idents stay pairwise different -/

theorem setName_fresh (m : List (Bytes × Elem)) (n : Bytes) (e : Elem) (h : lookupKey m n = none) :
    setName m n e = m ++ [(n, e)] := by
  induction m with
  | nil => rfl
  | cons kv r ih =>
    obtain ⟨k, v⟩ := kv
    unfold lookupKey at h
    split at h
    · cases h
    · rename_i hk
      unfold setName
      simp [hk, ih h]

theorem elems_add_perm (t : Toc) (e : Elem) (h : t.get e.group e.name = none) :
    (t.add e).elems.Perm (e :: t.elems) := by
  induction t with
  | nil => simp [Toc.add, Toc.elems]
  | cons gm r ih =>
    obtain ⟨g, m⟩ := gm
    unfold Toc.add
    by_cases hg : g = e.group
    · have hm : lookupKey m e.name = none := by simpa [Toc.get, lookupKey, hg] using h
      simp only [hg, if_true]
      rw [elems_cons, elems_cons, setName_fresh m e.name e hm]
      simp only [List.map_append, List.map_cons, List.map_nil, List.append_assoc, List.singleton_append]
      exact List.perm_middle
    · have hr : Toc.get r e.group e.name = none := by simpa [Toc.get, lookupKey, hg] using h
      simp only [hg, if_false]
      rw [elems_cons, elems_cons]
      have := (ih hr).append_left (m.map (·.2))
      exact this.trans List.perm_middle

theorem elems_foldl_perm (es : List Elem) (t : Toc) (hp : es.Pairwise KeyNe)
    (hfresh : ∀ x ∈ es, t.get x.group x.name = none) :
    (es.foldl Toc.add t).elems.Perm (t.elems ++ es) := by
  induction es generalizing t with
  | nil => simp
  | cons a r ih =>
    rw [List.pairwise_cons] at hp
    rw [List.foldl_cons]
    have hfresh' : ∀ x ∈ r, (t.add a).get x.group x.name = none := by
      intro x hx
      rw [get_add, if_neg (fun hh => hp.1 x hx ⟨hh.1.symm, hh.2.symm⟩)]
      exact hfresh x (List.mem_cons_of_mem _ hx)
    refine (ih _ hp.2 hfresh').trans ?_
    have h1 := elems_add_perm t a (hfresh a List.mem_cons_self)
    refine (h1.append_right r).trans ?_
    simp only [List.cons_append]
    exact List.perm_middle.symm

theorem elems_tocOf_perm (es : List Elem) (hp : es.Pairwise KeyNe) : (tocOf es).elems.Perm es := by
  have := elems_foldl_perm es [] hp (fun _ _ => rfl)
  simpa [tocOf, Toc.elems] using this

theorem specElems_idents (spec : Nat → Item → Elem) (hspec : SpecOk spec) (items : List Item) :
    (specElems spec items).map (·.ident) = List.range items.length := by
  apply List.ext_getElem
  · simp [specElems]
  · intro i h1 h2
    simp [specElems, (hspec i _).1]

theorem tocOf_idents_nodup (spec : Nat → Item → Elem) (hspec : SpecOk spec) (items : List Item) (hu : UniqueNames items) :
    ((tocOf (specElems spec items)).elems.map (·.ident)).Nodup := by
  have hp := elems_tocOf_perm _ (specElems_pairwise spec hspec items hu)
  rw [(hp.map _).nodup_iff, specElems_idents spec hspec]
  exact List.nodup_range
/-! ### PlatformService -/

def PlatInv (p : Platform) : Prop := p.started = if p.pending then 0 else 1

theorem cont_inv (p : Platform) (h : PlatInv p) : PlatInv (Platform.cont true p) := by
  unfold PlatInv Platform.cont at *
  cases hp : p.pending <;> simp_all

theorem platform_step_inv (p q : Platform) (port chan : Nat) (data : Bytes) (h : PlatInv p)
    (hq : p.onPacketG true port chan data = .ok q) : PlatInv q := by
  unfold Platform.onPacketG at hq
  have hv : ∀ v, PlatInv { p with version := v } := fun v => h
  have hqq : PlatInv { p with queries := p.queries + 1 } := h
  repeat' (split at hq)
  all_goals first
    | cases hq; done
    | (cases hq; first | exact h | exact hqq | exact cont_inv _ (hv _))

theorem platform_run_inv (pks : List (Nat × Nat × Bytes)) (p : Platform) (h : PlatInv p) :
    PlatInv (pks.foldl (Platform.deliverG true) p) := by
  induction pks generalizing p with
  | nil => exact h
  | cons pk r ih =>
    apply ih
    unfold Platform.deliverG
    split
    · rename_i q hq; exact platform_step_inv p q _ _ _ h hq
    · exact h

end CfVerif.C03

/-
Proofs/C03Obj: the `Toc` object over arbitrary histories of `add_element` / `clear()` / direct assignment of the
dictionary (cache hit): well-formedness of the dictionary is preserved, and on a well-formed dictionary with
pairwise different idents the three lookup paths agree.  Core Lean only.
-/
import CfVerif.Proofs.C03Final
namespace CfVerif.C03
open CfVerif

/-- a dictionary as Python can hold it and as the library fills it: keys are unique on both levels and every
element is stored under its own group and name -/
def Toc.WF (t : Toc) : Prop :=
  (t.map (·.1)).Nodup ∧ ∀ gm ∈ t, (gm.2.map (·.1)).Nodup ∧ ∀ ne ∈ gm.2, ne.2.group = gm.1 ∧ ne.2.name = ne.1

def Toc.IdentsNodup (t : Toc) : Prop := (t.elems.map (·.ident)).Nodup

theorem lookupKey_of_mem {α} (l : List (Bytes × α)) (hnd : (l.map (·.1)).Nodup) (k : Bytes) (v : α)
    (h : (k, v) ∈ l) : lookupKey l k = some v := by
  induction l with
  | nil => cases h
  | cons kv r ih =>
    obtain ⟨k', v'⟩ := kv
    simp only [List.map_cons, List.nodup_cons] at hnd
    unfold lookupKey
    rcases List.mem_cons.mp h with h1 | h1
    · cases h1; simp
    · have hne : k' ≠ k := fun hh => hnd.1 (by rw [hh]; exact List.mem_map_of_mem (f := (·.1)) h1)
      simp only [hne, if_false]
      exact ih hnd.2 h1

theorem lookupKey_mem {α} (l : List (Bytes × α)) (k : Bytes) (v : α) (h : lookupKey l k = some v) : (k, v) ∈ l := by
  induction l with
  | nil => cases h
  | cons kv r ih =>
    obtain ⟨k', v'⟩ := kv
    unfold lookupKey at h
    split at h
    · rename_i hk; cases h; rw [hk]; exact List.mem_cons_self
    · exact List.mem_cons_of_mem _ (ih h)

theorem mem_elems_iff (t : Toc) (e : Elem) : e ∈ t.elems ↔ ∃ gm ∈ t, ∃ ne ∈ gm.2, ne.2 = e := by
  simp only [Toc.elems, List.mem_flatMap, List.mem_map]

/-- lookup by (group, name) finds exactly the stored elements -/
theorem wf_get_of_mem (t : Toc) (hwf : t.WF) (e : Elem) (he : e ∈ t.elems) : t.get e.group e.name = some e := by
  obtain ⟨gm, hgm, ne, hne, rfl⟩ := (mem_elems_iff t e).mp he
  obtain ⟨g, m⟩ := gm
  obtain ⟨n, e⟩ := ne
  obtain ⟨hm, hk⟩ := hwf.2 (g, m) hgm
  obtain ⟨hg, hn⟩ := hk (n, e) hne
  simp only at hg hn ⊢
  unfold Toc.get
  rw [hg, lookupKey_of_mem t hwf.1 g m hgm, hn]
  exact lookupKey_of_mem m hm n e hne

theorem wf_get_some (t : Toc) (hwf : t.WF) (g n : Bytes) (e : Elem) (h : t.get g n = some e) :
    e ∈ t.elems ∧ e.group = g ∧ e.name = n := by
  unfold Toc.get at h
  cases hl : lookupKey t g with
  | none => rw [hl] at h; cases h
  | some m =>
    rw [hl] at h
    have h1 := lookupKey_mem t g m hl
    have h2 := lookupKey_mem m n e h
    obtain ⟨_, hk⟩ := hwf.2 (g, m) h1
    obtain ⟨hg, hn⟩ := hk (n, e) h2
    exact ⟨(mem_elems_iff t e).mpr ⟨(g, m), h1, (n, e), h2, rfl⟩, hg, hn⟩

theorem byId_of_mem (t : Toc) (hid : t.IdentsNodup) (e : Elem) (he : e ∈ t.elems) : t.byId e.ident = some e := by
  unfold Toc.byId
  cases hf : List.find? (fun x => x.ident == e.ident) t.elems with
  | none =>
    rw [List.find?_eq_none] at hf
    have := hf e he
    simp at this
  | some x =>
    have hx := List.mem_of_find?_eq_some hf
    have hxi := List.find?_some hf
    simp only [beq_iff_eq] at hxi
    rw [nodup_ident_inj _ hid x hx e he hxi]

theorem byId_some (t : Toc) (i : Nat) (e : Elem) (h : t.byId i = some e) : e ∈ t.elems ∧ e.ident = i := by
  unfold Toc.byId at h
  exact ⟨List.mem_of_find?_eq_some h, by simpa using List.find?_some h⟩

theorem wf_byCompleteName (t : Toc) (hwf : t.WF) (hid : t.IdentsNodup) (g n : Bytes) (hg : DotFree g) (hn : DotFree n) :
    t.byCompleteName (g ++ 46 :: n) = t.get g n := by
  unfold Toc.byCompleteName
  rw [splitDot_append g n hg, splitDot_free n hn]
  cases h : t.get g n with
  | none => simp only [h]
  | some e =>
    simp only [h]
    exact byId_of_mem t hid e (wf_get_some t hwf g n e h).1

/-! ### the mutations preserve well-formedness -/

theorem setName_keys (m : List (Bytes × Elem)) (n : Bytes) (e : Elem) (k : Bytes) :
    k ∈ (setName m n e).map (·.1) ↔ k = n ∨ k ∈ m.map (·.1) := by
  induction m with
  | nil => simp [setName]
  | cons kv r ih =>
    obtain ⟨k', v⟩ := kv
    unfold setName
    split
    · rename_i h; simp only [List.map_cons, List.mem_cons]; rw [h]; constructor
      · intro hh; exact Or.inr hh
      · rintro (hh | hh)
        · exact Or.inl hh
        · exact hh
    · simp only [List.map_cons, List.mem_cons, ih]
      constructor
      · rintro (hh | hh | hh)
        · exact Or.inr (Or.inl hh)
        · exact Or.inl hh
        · exact Or.inr (Or.inr hh)
      · rintro (hh | hh | hh)
        · exact Or.inr (Or.inl hh)
        · exact Or.inl hh
        · exact Or.inr (Or.inr hh)

theorem setName_nodup (m : List (Bytes × Elem)) (n : Bytes) (e : Elem) (h : (m.map (·.1)).Nodup) :
    ((setName m n e).map (·.1)).Nodup := by
  induction m with
  | nil => simp [setName]
  | cons kv r ih =>
    obtain ⟨k', v⟩ := kv
    simp only [List.map_cons, List.nodup_cons] at h
    unfold setName
    split
    · simpa using h
    · rename_i hk
      simp only [List.map_cons, List.nodup_cons]
      refine ⟨?_, ih h.2⟩
      intro hh
      rcases (setName_keys r n e k').mp hh with h1 | h1
      · exact hk h1
      · exact h.1 h1

theorem setName_mem (m : List (Bytes × Elem)) (n : Bytes) (e : Elem) (ne : Bytes × Elem) (h : ne ∈ setName m n e) :
    ne = (n, e) ∨ ne ∈ m := by
  induction m with
  | nil => simp [setName] at h; exact Or.inl h
  | cons kv r ih =>
    obtain ⟨k', v⟩ := kv
    unfold setName at h
    split at h
    · rename_i hk
      rcases List.mem_cons.mp h with h1 | h1
      · left; rw [h1, hk]
      · exact Or.inr (List.mem_cons_of_mem _ h1)
    · rcases List.mem_cons.mp h with h1 | h1
      · right; rw [h1]; exact List.mem_cons_self
      · rcases ih h1 with h2 | h2
        · exact Or.inl h2
        · exact Or.inr (List.mem_cons_of_mem _ h2)

theorem add_groups (t : Toc) (e : Elem) (g : Bytes) :
    g ∈ (t.add e).map (·.1) ↔ g = e.group ∨ g ∈ t.map (·.1) := by
  induction t with
  | nil => simp [Toc.add]
  | cons gm r ih =>
    obtain ⟨g', m⟩ := gm
    unfold Toc.add
    split
    · rename_i h; simp only [List.map_cons, List.mem_cons]; rw [h]; constructor
      · intro hh; exact Or.inr hh
      · rintro (hh | hh)
        · exact Or.inl hh
        · exact hh
    · simp only [List.map_cons, List.mem_cons, ih]
      constructor
      · rintro (hh | hh | hh)
        · exact Or.inr (Or.inl hh)
        · exact Or.inl hh
        · exact Or.inr (Or.inr hh)
      · rintro (hh | hh | hh)
        · exact Or.inr (Or.inl hh)
        · exact Or.inl hh
        · exact Or.inr (Or.inr hh)

theorem add_wf (t : Toc) (e : Elem) (h : t.WF) : (t.add e).WF := by
  induction t with
  | nil =>
    refine ⟨by simp [Toc.add], ?_⟩
    intro gm hgm
    simp only [Toc.add, List.mem_singleton] at hgm
    subst hgm
    refine ⟨by simp, ?_⟩
    intro ne hne
    simp only [List.mem_singleton] at hne
    subst hne
    exact ⟨rfl, rfl⟩
  | cons gm r ih =>
    obtain ⟨g', m⟩ := gm
    obtain ⟨hk, hall⟩ := h
    simp only [List.map_cons, List.nodup_cons] at hk
    have hr : Toc.WF r := ⟨hk.2, fun x hx => hall x (List.mem_cons_of_mem _ hx)⟩
    obtain ⟨hm, hme⟩ := hall (g', m) List.mem_cons_self
    unfold Toc.add
    split
    · rename_i hg
      refine ⟨by simpa using hk, ?_⟩
      intro x hx
      rcases List.mem_cons.mp hx with h1 | h1
      · subst h1
        refine ⟨setName_nodup m e.name e hm, ?_⟩
        intro ne hne
        rcases setName_mem m e.name e ne hne with h2 | h2
        · subst h2; exact ⟨hg.symm, rfl⟩
        · exact hme ne h2
      · exact hall x (List.mem_cons_of_mem _ h1)
    · rename_i hg
      have ih' := ih hr
      refine ⟨?_, ?_⟩
      · simp only [List.map_cons, List.nodup_cons]
        refine ⟨?_, ih'.1⟩
        intro hh
        rcases (add_groups r e g').mp hh with h1 | h1
        · exact hg h1
        · exact hk.1 h1
      · intro x hx
        rcases List.mem_cons.mp hx with h1 | h1
        · subst h1; exact ⟨hm, hme⟩
        · exact ih'.2 x h1

/-- every history of `add_element` / `clear()` / installs of well-formed tables leaves a well-formed dictionary -/
theorem tocAfter_wf (ops : List TocOp) (hinst : ∀ t, TocOp.install t ∈ ops → t.WF) (t0 : Toc) (h0 : t0.WF) :
    (ops.foldl TocOp.apply t0).WF := by
  induction ops generalizing t0 with
  | nil => exact h0
  | cons op r ih =>
    rw [List.foldl_cons]
    apply ih (fun t ht => hinst t (List.mem_cons_of_mem _ ht))
    cases op with
    | add e => exact add_wf t0 e h0
    | clear => exact ⟨List.nodup_nil, by intro x hx; cases hx⟩
    | install t' => exact hinst t' List.mem_cons_self

end CfVerif.C03

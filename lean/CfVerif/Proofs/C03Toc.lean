/-
Proofs/C03Toc: what a `Toc` built by `add_element` contains (Python dict semantics), the three lookup
paths, and the persistence marks.  Core Lean only.
-/
import CfVerif.Proofs.C03
namespace CfVerif.C03
open CfVerif

/-- different dictionary keys -/
def KeyNe (a b : Elem) : Prop := ¬ (a.group = b.group ∧ a.name = b.name)

theorem lookupKey_setName (m : List (Bytes × Elem)) (n : Bytes) (e : Elem) (k : Bytes) :
    lookupKey (setName m n e) k = if k = n then some e else lookupKey m k := by
  induction m with
  | nil => simp [setName, lookupKey, eq_comm]
  | cons kv r ih =>
    obtain ⟨k', v⟩ := kv
    unfold setName
    by_cases h : k' = n
    · subst h
      by_cases hk : k = k'
      · subst hk; simp [lookupKey]
      · have : k' ≠ k := fun h => hk h.symm
        simp [lookupKey, hk, this]
    · by_cases hk : k' = k
      · subst hk; simp [lookupKey, h]
      · simp [lookupKey, h, hk, ih]

theorem get_add (t : Toc) (e : Elem) (g n : Bytes) :
    (t.add e).get g n = if g = e.group ∧ n = e.name then some e else t.get g n := by
  induction t with
  | nil =>
    by_cases hg : e.group = g
    · subst hg
      by_cases hn : e.name = n
      · subst hn; simp [Toc.add, Toc.get, lookupKey]
      · have : n ≠ e.name := fun h => hn h.symm
        simp [Toc.add, Toc.get, lookupKey, hn, this]
    · have : g ≠ e.group := fun h => hg h.symm
      simp [Toc.add, Toc.get, lookupKey, hg, this]
  | cons gm r ih =>
    obtain ⟨g', m⟩ := gm
    unfold Toc.add
    by_cases h : g' = e.group
    · rw [if_pos h]
      by_cases hg : g = e.group
      · have h1 : g' = g := by rw [h, hg]
        simp only [Toc.get, lookupKey, h1, if_true, lookupKey_setName, hg, true_and]
      · have h1 : ¬ g' = g := fun hh => hg (by rw [← hh, h])
        have h2 : ¬ (g = e.group ∧ n = e.name) := fun hh => hg hh.1
        simp only [Toc.get, lookupKey, h1, if_false, h2]
    · rw [if_neg h]
      by_cases hg : g' = g
      · have h2 : ¬ (g = e.group ∧ n = e.name) := fun hh => h (by rw [hg]; exact hh.1)
        simp only [Toc.get, lookupKey, hg, if_true, h2, if_false]
      · have := ih
        simp only [Toc.get, lookupKey, hg, if_false] at this ⊢
        exact this

theorem get_foldl_other (es : List Elem) (t : Toc) (g n : Bytes)
    (h : ∀ x ∈ es, ¬ (g = x.group ∧ n = x.name)) : (es.foldl Toc.add t).get g n = t.get g n := by
  induction es generalizing t with
  | nil => rfl
  | cons a r ih =>
    rw [List.foldl_cons, ih _ (fun x hx => h x (List.mem_cons_of_mem _ hx)), get_add, if_neg (h a List.mem_cons_self)]

theorem get_foldl_mem (es : List Elem) (t : Toc) (hp : es.Pairwise KeyNe) (e : Elem) (he : e ∈ es) :
    (es.foldl Toc.add t).get e.group e.name = some e := by
  induction es generalizing t with
  | nil => cases he
  | cons a r ih =>
    rw [List.pairwise_cons] at hp
    rw [List.foldl_cons]
    rcases List.mem_cons.mp he with h | h
    · subst h
      rw [get_foldl_other r _ _ _ (fun x hx hh => hp.1 x hx ⟨hh.1, hh.2⟩), get_add]
      simp
    · exact ih _ hp.2 h

/-! ### the elements in iteration order -/

theorem mem_setName (m : List (Bytes × Elem)) (n : Bytes) (e : Elem) (x : Elem)
    (h : x ∈ (setName m n e).map (·.2)) : x = e ∨ x ∈ m.map (·.2) := by
  induction m with
  | nil => simp [setName] at h; exact Or.inl h
  | cons kv r ih =>
    obtain ⟨k, v⟩ := kv
    unfold setName at h
    split at h
    · simp only [List.map_cons, List.mem_cons] at h ⊢
      rcases h with h | h
      · exact Or.inl h
      · exact Or.inr (Or.inr h)
    · simp only [List.map_cons, List.mem_cons] at h ⊢
      rcases h with h | h
      · exact Or.inr (Or.inl h)
      · rcases ih h with h | h
        · exact Or.inl h
        · exact Or.inr (Or.inr h)

theorem mem_setName_self (m : List (Bytes × Elem)) (n : Bytes) (e : Elem) : e ∈ (setName m n e).map (·.2) := by
  induction m with
  | nil => simp [setName]
  | cons kv r ih =>
    obtain ⟨k, v⟩ := kv
    unfold setName
    split
    · simp
    · simp only [List.map_cons, List.mem_cons]; exact Or.inr ih

theorem mem_setName_of_mem (m : List (Bytes × Elem)) (n : Bytes) (e x : Elem) (hx : x ∈ m.map (·.2))
    (hn : lookupKey m n = none) : x ∈ (setName m n e).map (·.2) := by
  induction m with
  | nil => cases hx
  | cons kv r ih =>
    obtain ⟨k, v⟩ := kv
    unfold lookupKey at hn
    split at hn
    · cases hn
    · rename_i hk
      unfold setName
      simp only [hk, if_false, List.map_cons, List.mem_cons] at hx ⊢
      rcases hx with hx | hx
      · exact Or.inl hx
      · exact Or.inr (ih hx hn)

theorem elems_cons (g : Bytes) (m : List (Bytes × Elem)) (r : Toc) :
    Toc.elems ((g, m) :: r) = m.map (·.2) ++ Toc.elems r := by
  simp [Toc.elems]

theorem mem_elems_add (t : Toc) (e x : Elem) (h : x ∈ (t.add e).elems) : x = e ∨ x ∈ t.elems := by
  induction t with
  | nil => simp [Toc.add, Toc.elems] at h; exact Or.inl h
  | cons gm r ih =>
    obtain ⟨g, m⟩ := gm
    unfold Toc.add at h
    split at h
    · rw [elems_cons, List.mem_append] at h
      rw [elems_cons, List.mem_append]
      rcases h with h | h
      · rcases mem_setName _ _ _ _ h with h | h
        · exact Or.inl h
        · exact Or.inr (Or.inl h)
      · exact Or.inr (Or.inr h)
    · rw [elems_cons, List.mem_append] at h
      rw [elems_cons, List.mem_append]
      rcases h with h | h
      · exact Or.inr (Or.inl h)
      · rcases ih h with h | h
        · exact Or.inl h
        · exact Or.inr (Or.inr h)

theorem mem_elems_add_self (t : Toc) (e : Elem) : e ∈ (t.add e).elems := by
  induction t with
  | nil => simp [Toc.add, Toc.elems]
  | cons gm r ih =>
    obtain ⟨g, m⟩ := gm
    unfold Toc.add
    split
    · rw [elems_cons, List.mem_append]; exact Or.inl (mem_setName_self _ _ _)
    · rw [elems_cons, List.mem_append]; exact Or.inr ih

theorem mem_elems_add_of_mem (t : Toc) (e x : Elem) (hx : x ∈ t.elems) (hn : t.get e.group e.name = none) :
    x ∈ (t.add e).elems := by
  induction t with
  | nil => simp [Toc.elems] at hx
  | cons gm r ih =>
    obtain ⟨g, m⟩ := gm
    unfold Toc.add
    rw [elems_cons, List.mem_append] at hx
    by_cases hg : g = e.group
    · simp only [hg, if_true]
      rw [elems_cons, List.mem_append]
      rcases hx with hx | hx
      · refine Or.inl (mem_setName_of_mem _ _ _ _ hx ?_)
        simpa [Toc.get, lookupKey, hg] using hn
      · exact Or.inr hx
    · simp only [hg, if_false]
      rw [elems_cons, List.mem_append]
      rcases hx with hx | hx
      · exact Or.inl hx
      · refine Or.inr (ih hx ?_)
        simpa [Toc.get, lookupKey, hg] using hn

theorem mem_elems_foldl (es : List Elem) (t : Toc) (hp : es.Pairwise KeyNe)
    (hfresh : ∀ x ∈ es, t.get x.group x.name = none) (y : Elem) :
    y ∈ (es.foldl Toc.add t).elems ↔ y ∈ t.elems ∨ y ∈ es := by
  induction es generalizing t with
  | nil => simp
  | cons a r ih =>
    rw [List.pairwise_cons] at hp
    rw [List.foldl_cons]
    have hfresh' : ∀ x ∈ r, (t.add a).get x.group x.name = none := by
      intro x hx
      rw [get_add, if_neg (fun hh => hp.1 x hx ⟨hh.1.symm, hh.2.symm⟩)]
      exact hfresh x (List.mem_cons_of_mem _ hx)
    rw [ih _ hp.2 hfresh']
    constructor
    · rintro (h | h)
      · rcases mem_elems_add _ _ _ h with h | h
        · exact Or.inr (by simp [h])
        · exact Or.inl h
      · exact Or.inr (List.mem_cons_of_mem _ h)
    · rintro (h | h)
      · exact Or.inl (mem_elems_add_of_mem _ _ _ h (hfresh a List.mem_cons_self))
      · rcases List.mem_cons.mp h with h | h
        · subst h; exact Or.inl (mem_elems_add_self _ _)
        · exact Or.inr h

theorem mem_elems_tocOf (es : List Elem) (hp : es.Pairwise KeyNe) (y : Elem) :
    y ∈ (tocOf es).elems ↔ y ∈ es := by
  unfold tocOf
  rw [mem_elems_foldl es [] hp (fun _ _ => rfl)]
  simp [Toc.elems]

/-- `get_element_by_id` on a table whose idents are pairwise different -/
theorem byId_tocOf (es : List Elem) (hp : es.Pairwise KeyNe)
    (hid : ∀ x ∈ es, ∀ y ∈ es, x.ident = y.ident → x = y) (e : Elem) (he : e ∈ es) :
    (tocOf es).byId e.ident = some e := by
  unfold Toc.byId
  cases hf : List.find? (fun x => x.ident == e.ident) (tocOf es).elems with
  | none =>
    rw [List.find?_eq_none] at hf
    have := hf e ((mem_elems_tocOf es hp e).mpr he)
    simp at this
  | some x =>
    have hx := List.mem_of_find?_eq_some hf
    have hxi := List.find?_some hf
    simp only [beq_iff_eq] at hxi
    rw [hid x ((mem_elems_tocOf es hp x).mp hx) e he hxi]

theorem byId_tocOf_some (es : List Elem) (hp : es.Pairwise KeyNe) (i : Nat) (x : Elem)
    (h : (tocOf es).byId i = some x) : x ∈ es ∧ x.ident = i := by
  unfold Toc.byId at h
  have hx := List.mem_of_find?_eq_some h
  have hxi := List.find?_some h
  simp only [beq_iff_eq] at hxi
  exact ⟨(mem_elems_tocOf es hp x).mp hx, hxi⟩

theorem get_tocOf_some (es : List Elem) (hp : es.Pairwise KeyNe) (g n : Bytes) (e : Elem)
    (h : (tocOf es).get g n = some e) : e ∈ es ∧ e.group = g ∧ e.name = n := by
  by_cases hex : ∃ x ∈ es, g = x.group ∧ n = x.name
  · obtain ⟨x, hx, hg, hn⟩ := hex
    have := get_foldl_mem es [] hp x hx
    unfold tocOf at h
    rw [hg, hn, this] at h
    cases h
    exact ⟨hx, hg.symm, hn.symm⟩
  · have : ∀ x ∈ es, ¬ (g = x.group ∧ n = x.name) := fun x hx hh => hex ⟨x, hx, hh⟩
    unfold tocOf at h
    rw [get_foldl_other es [] g n this] at h
    cases h

/-! ### `complete_name.split('.')` -/

def DotFree (b : Bytes) : Prop := (46 : UInt8) ∉ b

theorem splitDot_ne_nil (b : Bytes) : splitDot b ≠ [] := by
  induction b with
  | nil => simp [splitDot]
  | cons x xs ih =>
    unfold splitDot
    split
    · simp
    · split <;> simp

theorem splitDot_cons (b : UInt8) (bs : Bytes) : splitDot (b :: bs) =
    match splitDot bs with
    | [] => [[]]
    | p :: ps => if b = 46 then [] :: p :: ps else (b :: p) :: ps := by
  conv => lhs; unfold splitDot
  cases splitDot bs <;> rfl

theorem splitDot_free (g : Bytes) (hg : DotFree g) : splitDot g = [g] := by
  induction g with
  | nil => rfl
  | cons b g ih =>
    have hb : b ≠ 46 := fun h => hg (by simp [h])
    have hg' : DotFree g := fun h => hg (List.mem_cons_of_mem _ h)
    rw [splitDot_cons, ih hg']
    simp [hb]

theorem splitDot_append (g r : Bytes) (hg : DotFree g) : splitDot (g ++ 46 :: r) = g :: splitDot r := by
  induction g with
  | nil =>
    show splitDot (46 :: r) = [] :: splitDot r
    rw [splitDot_cons]
    cases h : splitDot r with
    | nil => exact absurd h (splitDot_ne_nil r)
    | cons p ps => simp
  | cons b g ih =>
    have hb : b ≠ 46 := fun h => hg (by simp [h])
    have hg' : DotFree g := fun h => hg (List.mem_cons_of_mem _ h)
    show splitDot (b :: (g ++ 46 :: r)) = (b :: g) :: splitDot r
    rw [splitDot_cons, ih hg']
    simp [hb]

theorem byCompleteName_tocOf (es : List Elem) (hp : es.Pairwise KeyNe)
    (hid : ∀ x ∈ es, ∀ y ∈ es, x.ident = y.ident → x = y) (g n : Bytes) (hg : DotFree g) (hn : DotFree n) :
    (tocOf es).byCompleteName (g ++ 46 :: n) = (tocOf es).get g n := by
  unfold Toc.byCompleteName
  rw [splitDot_append g n hg, splitDot_free n hn]
  cases h : (tocOf es).get g n with
  | none => simp only [h]
  | some e =>
    obtain ⟨he, _, _⟩ := get_tocOf_some es hp g n e h
    simp only [h]
    exact byId_tocOf es hp hid e he

end CfVerif.C03

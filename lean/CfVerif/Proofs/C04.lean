/-
Proofs/C04 - helper lemmas for the C04 property theorems (Props/C04): the type table, integer encoding,
`set_value` packet construction and refusal.  Core Lean only.
-/
import CfVerif.Spec.C04
import CfVerif.Base.StructLemmas
namespace CfVerif.C04
open CfVerif

/-! ### the ten numeric parameter types (the firmware's meaning of the type codes; independent of cflib's table) -/

inductive NumType | u8 | u16 | u32 | u64 | i8 | i16 | i32 | i64 | f32 | f64
  deriving DecidableEq, Repr

/-- firmware type code (low nibble of the TOC type byte) -/
def NumType.code : NumType → Nat
  | .u8 => 0x08 | .u16 => 0x09 | .u32 => 0x0A | .u64 => 0x0B
  | .i8 => 0x00 | .i16 => 0x01 | .i32 => 0x02 | .i64 => 0x03
  | .f32 => 0x06 | .f64 => 0x07

/-- width in bytes -/
def NumType.width : NumType → Nat
  | .u8 | .i8 => 1 | .u16 | .i16 => 2 | .u32 | .i32 | .f32 => 4 | .u64 | .i64 | .f64 => 8

def NumType.isFloat : NumType → Bool
  | .f32 | .f64 => true | _ => false

def NumType.signed : NumType → Bool
  | .i8 | .i16 | .i32 | .i64 => true | _ => false

def NumType.structCode : NumType → Code
  | .u8 => .B | .u16 => .H | .u32 => .I | .u64 => .Q
  | .i8 => .b | .i16 => .h | .i32 => .i | .i64 => .q
  | .f32 => .f | .f64 => .d

/-- the values of an integer type: `[0, 2^(8k))` unsigned, `[-2^(8k-1), 2^(8k-1))` signed -/
def NumType.InRange (t : NumType) (v : Int) : Prop :=
  if t.signed then -((256 ^ t.width / 2 : Nat) : Int) ≤ v ∧ v < ((256 ^ t.width / 2 : Nat) : Int)
  else 0 ≤ v ∧ v < ((256 ^ t.width : Nat) : Int)

instance (t : NumType) (v : Int) : Decidable (t.InRange v) := by unfold NumType.InRange; infer_instance

def fmtOf (tc : Nat) : String := (typeFmt tc).getD ""

theorem Elem.fmt_eq (e : Elem) : e.fmt = fmtOf e.tcode := rfl

/-- Tie A obligation on `ParamTocElement.types`: every numeric type code has a format, the format is one little-endian
item of the type's width and kind, and the code's float test (`pytype == '<f' or pytype == '<d'`) is true exactly for
the two float types. -/
theorem type_table (t : NumType) : (typeFmt t.code).isSome = true ∧ parseFmt! (fmtOf t.code) = [t.structCode] ∧
    ((fmtOf t.code == "<f") = (t == .f32)) ∧ ((fmtOf t.code == "<d") = (t == .f64)) := by
  cases t <;> decide

theorem devWidth_code (t : NumType) : devWidth t.code = some t.width := by cases t <;> rfl

/-! ### integer encoding -/

theorem pow256_pos (k : Nat) : 0 < 256 ^ k := Nat.pow_pos (by decide)

theorem encodeInt_ofNat {k n : Nat} (h : n < 256 ^ k) : encodeInt k (Int.ofNat n) = leBytes k n := by
  unfold encodeInt
  have : (Int.ofNat n % ((256 ^ k : Nat) : Int)).toNat = n := by
    show ((n : Int) % ((256 ^ k : Nat) : Int)).toNat = n
    rw [Int.emod_eq_of_lt (Int.natCast_nonneg n) (by exact_mod_cast h), Int.toNat_natCast]
  rw [this]

theorem encodeInt_negSucc {k n : Nat} (h : n < 256 ^ k) : encodeInt k (Int.negSucc n) = leBytes k (256 ^ k - 1 - n) := by
  unfold encodeInt
  have : (Int.negSucc n % ((256 ^ k : Nat) : Int)).toNat = 256 ^ k - 1 - n := by
    have hp := pow256_pos k
    generalize 256 ^ k = m at *
    rw [Int.negSucc_emod _ (by exact_mod_cast hp)]
    have : (n : Int) % (m : Int) = n := Int.emod_eq_of_lt (Int.natCast_nonneg n) (by exact_mod_cast h)
    rw [this]; omega
  rw [this]

theorem packUnsigned_inrange {k : Nat} {v : Int} (h0 : 0 ≤ v) (h1 : v < ((256 ^ k : Nat) : Int)) :
    packUnsigned k v = .ok (encodeInt k v) := by
  cases v with
  | ofNat n =>
    have hn : n < 256 ^ k := by
      have : (n : Int) < ((256 ^ k : Nat) : Int) := h1
      exact_mod_cast this
    simp only [packUnsigned, hn, if_true, encodeInt_ofNat hn]
  | negSucc n => exact absurd h0 (by rw [Int.negSucc_eq]; omega)

theorem packUnsigned_outrange {k : Nat} {v : Int} (h : ¬ (0 ≤ v ∧ v < ((256 ^ k : Nat) : Int))) :
    packUnsigned k v = .error .structError := by
  cases v with
  | ofNat n =>
    have hn : ¬ n < 256 ^ k := by
      intro hn; apply h; exact ⟨Int.natCast_nonneg n, by show (n : Int) < _; exact_mod_cast hn⟩
    simp only [packUnsigned, hn, if_false]
  | negSucc n => rfl

theorem packSigned_inrange {k : Nat} (hk : 0 < k) {v : Int} (h0 : -((256 ^ k / 2 : Nat) : Int) ≤ v)
    (h1 : v < ((256 ^ k / 2 : Nat) : Int)) : packSigned k v = .ok (encodeInt k v) := by
  have he := pow256_even hk
  cases v with
  | ofNat n =>
    have hn : n < 256 ^ k / 2 := by
      have : (n : Int) < ((256 ^ k / 2 : Nat) : Int) := h1
      exact_mod_cast this
    simp only [packSigned, hn, if_true, encodeInt_ofNat (show n < 256 ^ k by omega)]
  | negSucc n =>
    have hn : n < 256 ^ k / 2 := by rw [Int.negSucc_eq] at h0; omega
    simp only [packSigned, hn, if_true, encodeInt_negSucc (show n < 256 ^ k by omega)]

theorem packSigned_outrange {k : Nat} {v : Int}
    (h : ¬ (-((256 ^ k / 2 : Nat) : Int) ≤ v ∧ v < ((256 ^ k / 2 : Nat) : Int))) :
    packSigned k v = .error .structError := by
  cases v with
  | ofNat n =>
    have hn : ¬ n < 256 ^ k / 2 := by
      intro hn; apply h
      exact ⟨by have : (0 : Int) ≤ Int.ofNat n := Int.natCast_nonneg n
                omega, by show (n : Int) < _; exact_mod_cast hn⟩
    simp only [packSigned, hn, if_false]
  | negSucc n =>
    have hn : ¬ n < 256 ^ k / 2 := by
      intro hn; apply h; rw [Int.negSucc_eq]; omega
    simp only [packSigned, hn, if_false]

/-- `struct.pack` of one integer in the format of an integer parameter type: the two's-complement little-endian bytes
when the value is in the type's range, `struct.error` otherwise (never wrapped) -/
theorem pack_int (t : NumType) (hf : t.isFloat = false) (v : Int) :
    pack [t.structCode] [.int v] = if t.InRange v then .ok (encodeInt t.width v) else .error .structError := by
  by_cases hr : t.InRange v
  · rw [if_pos hr]
    cases t <;> first | (cases hf; done) | skip
    all_goals
      simp only [NumType.InRange, NumType.signed, NumType.width] at hr
      simp only [pack, packOne, NumType.structCode, NumType.width, bind, Except.bind, pure, Except.pure, List.append_nil]
    all_goals first
      | rw [packUnsigned_inrange (by simpa using hr.1) (by simpa using hr.2)]
      | rw [packSigned_inrange (by decide) (by simpa using hr.1) (by simpa using hr.2)]
  · rw [if_neg hr]
    cases t <;> first | (cases hf; done) | skip
    all_goals
      simp only [NumType.InRange, NumType.signed, NumType.width] at hr
      simp only [pack, packOne, NumType.structCode, bind, Except.bind, pure, Except.pure]
    all_goals first
      | rw [packUnsigned_outrange (by simpa using hr)]
      | rw [packSigned_outrange (by simpa using hr)]

/-! ### `set_value` -/

/-- bytes of the parameter index on the wire: 2 (protocol version >= 4) or 1 -/
def idWidth (v2 : Bool) : Nat := if v2 then 2 else 1

theorem gen_set_id_fmts : parseFmt! Gen.C04.setIdFmtV2 = [.H] ∧ parseFmt! Gen.C04.setIdFmtV1 = [.B] ∧
    parseFmt! Gen.C04.readIdFmtV2 = [.H] ∧ parseFmt! Gen.C04.readIdFmtV1 = [.B] := by decide

theorem idBytes_ok {v2 : Bool} {f2 f1 : String} (h2 : parseFmt! f2 = [.H]) (h1 : parseFmt! f1 = [.B]) {i : Nat}
    (h : i < 256 ^ idWidth v2) : idBytes v2 f2 f1 (some i) = .ok (leBytes (idWidth v2) i) := by
  cases v2
  · simp only [idWidth] at h
    simp only [idBytes, h1, pack, packOne, bind, Except.bind, pure, Except.pure, idWidth, Bool.false_eq_true, if_false]
    have : packUnsigned 1 ((i : Nat) : Int) = .ok (leBytes 1 i) := by
      show packUnsigned 1 (Int.ofNat i) = _
      simp only [packUnsigned]; rw [if_pos (by simpa using h)]
    rw [this]; simp
  · simp only [idWidth] at h
    simp only [idBytes, h2, pack, packOne, bind, Except.bind, pure, Except.pure, idWidth, if_true]
    have : packUnsigned 2 ((i : Nat) : Int) = .ok (leBytes 2 i) := by
      show packUnsigned 2 (Int.ofNat i) = _
      simp only [packUnsigned]; rw [if_pos (by simpa using h)]
    rw [this]; simp

theorem not_float_ne {t : NumType} (hf : t.isFloat = false) : (t == NumType.f32) = false ∧ (t == NumType.f64) = false := by
  cases t <;> first | (cases hf; done) | exact ⟨by decide, by decide⟩

/-- value bytes of an integer-typed parameter: `int(value)`, then packed in the type's width, range-checked -/
theorem valueBytes_int (S2F : List Char → Except PyErr Nat) (t : NumType) (hf : t.isFloat = false) (x : PyVal) :
    valueBytes S2F (fmtOf t.code) x =
      match pyInt x with
      | .error e => .error e
      | .ok n => if t.InRange n then .ok (encodeInt t.width n) else .error .structError := by
  obtain ⟨_, hp, h1, h2⟩ := type_table t
  obtain ⟨n1, n2⟩ := not_float_ne hf
  unfold valueBytes
  rw [h1, h2, n1, n2]
  simp only [Bool.false_eq_true, if_false]
  cases pyInt x with
  | error e => rfl
  | ok n => simp only [hp, pack_int t hf n]

theorem valueBytes_f32 (S2F : List Char → Except PyErr Nat) (x : PyVal) :
    valueBytes S2F (fmtOf NumType.f32.code) x =
      match pyFloat S2F x with
      | .error e => .error e
      | .ok b => match f64ToF32 b with
        | .error e => .error e
        | .ok y => packFlt 4 y := by
  obtain ⟨_, hp, h1, _⟩ := type_table .f32
  unfold valueBytes
  rw [h1]
  simp only [beq_self_eq_true, if_true]
  cases pyFloat S2F x with
  | error e => rfl
  | ok b =>
    simp only
    cases f64ToF32 b with
    | error e => rfl
    | ok y =>
      simp only [hp, pack, packOne, NumType.structCode, bind, Except.bind, pure, Except.pure]
      cases packFlt 4 y <;> simp

theorem valueBytes_f64 (S2F : List Char → Except PyErr Nat) (x : PyVal) :
    valueBytes S2F (fmtOf NumType.f64.code) x =
      match pyFloat S2F x with
      | .error e => .error e
      | .ok b => packFlt 8 b := by
  obtain ⟨_, hp, h1, h2⟩ := type_table .f64
  unfold valueBytes
  rw [h1, h2]
  simp only [beq_self_eq_true, if_true, show (NumType.f64 == NumType.f32) = false by decide, Bool.false_eq_true, if_false]
  cases pyFloat S2F x with
  | error e => rfl
  | ok b =>
    simp only [hp, pack, packOne, NumType.structCode, bind, Except.bind, pure, Except.pure]
    cases packFlt 8 b <;> simp

theorem gen_write_channel : Gen.C04.WRITE_CHANNEL = 2 ∧ Gen.C04.READ_CHANNEL = 1 ∧ Gen.C04.MISC_CHANNEL = 3 ∧
    Gen.C04.TOC_CHANNEL = 0 := by decide

/-- the packet built by `set_value` for a writable element, in terms of the value bytes -/
theorem setValuePkt_elem (S2F : List Char → Except PyErr Nat) (h : Host) (cn : List Nat) (e : Elem) (x : PyVal)
    (hl : elemByName h.toc cn = some e) (hrw : e.ro = false) (hid : e.ident < 256 ^ idWidth h.useV2) :
    setValuePkt S2F h cn x =
      match valueBytes S2F e.fmt x with
      | .error er => .error er
      | .ok vb => .ok { chan := 2, data := leBytes (idWidth h.useV2) e.ident ++ vb } := by
  unfold setValuePkt
  rw [hl]
  simp only [hrw, Bool.false_eq_true, if_false]
  rw [idBytes_ok gen_set_id_fmts.1 gen_set_id_fmts.2.1 hid]
  simp only [gen_write_channel.1]
  cases valueBytes S2F e.fmt x <;> rfl

end CfVerif.C04
